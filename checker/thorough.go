package main

// thoroughExtras runs the additional thorough-tier work (whole-program cross-checks,
// sensitivity mutants). Filled in per property in sensitivity.go.
func thoroughExtras(c *Ctx, w *World) {
	runThorough(c, w)
}
