package main

import (
	"fmt"
	"go/types"
	"strings"

	"golang.org/x/tools/go/ssa"
)

func init() { register("C19", checkC19) }

// C19 — Checksum codec: payload unchanged, CRC32C field prepended, still decodable.
func checkC19(c *Ctx, w *World) {
	c.Explanation = "Structural analysis of the checksum codec: the wrapped codec's Marshal(v) is called once with the caller's value and its error is passed through " +
		"before anything else happens; the prefix buffer starts empty and receives exactly EncodeVarint(tag) then EncodeFixed32(crc) once each, in this order; the tag " +
		"constant folds to (2047<<3)|5 = 16381, which is a 2-byte varint (so the prefix is 6 bytes); the fixed32 value is crc32.Checksum(payload, MakeTable(Castagnoli)) " +
		"of exactly the wrapped encoding; the result is append(prefix, payload...) and is returned with a nil error; Unmarshal delegates both arguments to the wrapped codec."
	c.RuleText = "one obligation per step of the framing; non-trivial = needed constant folding, ordering or provenance"
	c.Assumptions = []string{"byte-level behaviour of proto.Buffer, hash/crc32 and the wrapped codec is trusted; that field 2047 is unknown to every message is assumed"}
	c.Trusted = []string{"go/types", "golang.org/x/tools/go/ssa v0.29.0", "github.com/golang/protobuf/proto.Buffer", "hash/crc32"}
	p := w.Checksum()
	if p == nil {
		return
	}
	m, um := c.need(p, "main", "(*myCodec).Marshal"), c.need(p, "main", "(*myCodec).Unmarshal")
	if m == nil || um == nil {
		return
	}
	// ---- C19.unmarshal
	okU := false
	var ucall *ssa.Call
	nU := 0
	eachInstr(um, func(in ssa.Instruction) {
		if call, ok := in.(*ssa.Call); ok && call.Call.IsInvoke() && call.Call.Method.Name() == "Unmarshal" {
			nU++
			if isLoadOf(oneOrigin(call.Call.Value), "myCodec.protoCodec") && call.Call.Args[0] == ssa.Value(um.Params[1]) && call.Call.Args[1] == ssa.Value(um.Params[2]) && call.Block() == um.Blocks[0] {
				ucall = call
			}
		}
	})
	if ucall != nil && nU == 1 {
		ucs := newCondSpace(um, recOf(eqAtom("delegOK", isVal(ucall), isNil)), "delegOK")
		okU = true
		for _, vr := range ucs.VirtualReturns() {
			v := vr.Vals[0]
			if v == ssa.Value(ucall) {
				continue
			}
			// a literal nil is the same result when the delegate returned nil on this path
			isNilC, _ := allOrigins(v, isConstNilOrigin)
			known, _ := ucs.Implies(vr.Cond, ucs.Atom("delegOK"))
			if !(isNilC && known) {
				okU = false
			}
		}
	}
	c.check(okU, "C19.unmarshal", "Unmarshal delegates", p.pos(um.Pos()), "both arguments go to the wrapped codec and its result is returned (a conforming parser skips the unknown field 2047)", "Unmarshal does not simply delegate to the wrapped codec")

	// wrapped Marshal
	var inner *ssa.Call
	n := 0
	eachInstr(m, func(in ssa.Instruction) {
		if call, ok := in.(*ssa.Call); ok && call.Call.IsInvoke() && call.Call.Method.Name() == "Marshal" && isLoadOf(call.Call.Value, "myCodec.protoCodec") {
			inner = call
			n++
		}
	})
	// … and nowhere else on the way: a second encoding (in a helper) need not be byte-identical to the first
	// (map order), so checksum and payload must come from one and the same call
	nTrans := 0
	for fn := range p.reachableModule(m) {
		if fn == m {
			continue
		}
		eachInstr(fn, func(in ssa.Instruction) {
			if cc := callCommon(in); cc != nil && cc.IsInvoke() && cc.Method.Name() == "Marshal" {
				nTrans++
				c.fail("C19.frame", "wrapped Marshal called again in "+fname(fn), p.ipos(in), "the message is encoded a second time on the way through Marshal: the checksum and the payload can come from different encodings (proto map order is not deterministic)")
			}
		})
	}
	if inner == nil || n != 1 {
		c.fail("C19.frame", "wrapped Marshal", p.pos(m.Pos()), fmt.Sprintf("expected exactly one call of the wrapped codec's Marshal, found %d", n))
		return
	}
	c.check(inner.Call.Args[0] == ssa.Value(m.Params[1]) && inner.Block() == m.Blocks[0], "C19.frame", "wrapped Marshal(v)", p.ipos(inner), "the wrapped codec marshals the caller's value, unconditionally", "the wrapped codec is not given the caller's value")
	payload := func(v ssa.Value) bool { return isExtractOf(stripConv(v), inner, 0) }
	innerErr := func(v ssa.Value) bool { return isExtractOf(stripConv(v), inner, 1) }

	// ---- C19.payload: the wrapped encoding is only ever read between the wrapped Marshal and the result
	var payloadVal ssa.Value
	for _, r := range *inner.Referrers() {
		if e, ok := r.(*ssa.Extract); ok && e.Index == 0 {
			payloadVal = e
		}
	}
	if payloadVal == nil {
		c.fail("C19.payload", "payload is read-only", p.ipos(inner), "the wrapped encoding is not used")
	} else {
		bad := writableUses(p, payloadVal, map[ssa.Value]bool{}, 0)
		c.check(len(bad) == 0, "C19.payload", "payload is read-only", p.ipos(inner), "every use of the wrapped encoding (and of every slice sharing its backing array) only reads it: checksum input, append source, length, logging, return", "the wrapped encoding can be written or aliased after it was produced (the bytes returned then differ from what was encoded, or from what the checksum covers): "+strings.Join(bad, "; "))
	}

	var nb, ev, ef *ssa.Call
	var bufCalls []string
	eachInstr(m, func(in ssa.Instruction) {
		call, ok := in.(*ssa.Call)
		if !ok {
			return
		}
		name := calleeOf(&call.Call).Name()
		switch {
		case strings.HasSuffix(name, "proto.NewBuffer"):
			nb = call
		case strings.HasSuffix(name, "proto.(*Buffer).EncodeVarint"):
			ev = call
			bufCalls = append(bufCalls, "EncodeVarint")
		case strings.HasSuffix(name, "proto.(*Buffer).EncodeFixed32"):
			ef = call
			bufCalls = append(bufCalls, "EncodeFixed32")
		case strings.Contains(name, "proto.(*Buffer)."):
			if !strings.HasSuffix(name, ".Bytes") {
				bufCalls = append(bufCalls, name)
			}
		}
	})
	if nb == nil || ev == nil || ef == nil {
		c.fail("C19.tag", "prefix buffer", p.pos(m.Pos()), "NewBuffer / EncodeVarint / EncodeFixed32 not all found")
		return
	}
	atoms := []atomDef{eqAtom("innerOK", innerErr, isNil), eqAtom("varintOK", isVal(ev), isNil), eqAtom("fixedOK", isVal(ef), isNil)}
	cs := newCondSpace(m, recOf(atoms...), atomNames(atoms...)...)

	// ---- C19.errors / C19.frame: every way of leaving Marshal, as virtual returns (merged single-exit code is split per
	// incoming edge), is exactly one of: wrapped error passed through untouched; prefix encoding error reported; success.
	A := cs.Atom
	allOK := cs.And(A("innerOK"), A("varintOK"), A("fixedOK"))
	// (the empty buffer itself may be created anywhere — creating it has no effect; building the prefix starts with the first
	// encode step)
	imp, wit := cs.Implies(cs.Reach(ev), A("innerOK"))
	c.check(imp, "C19.errors", "framing only after a successful wrapped Marshal", p.ipos(ev), "the prefix is built only when the wrapped Marshal succeeded", "framing proceeds although the wrapped codec failed: "+wit)
	// … and always then: no other condition (payload length, message type, …) lets an encoding leave without the field
	all, wit2 := cs.Implies(A("innerOK"), cs.Reach(ev))
	c.check(all, "C19.frame", "every successful encoding is framed", p.ipos(ev), "the prefix is built whenever the wrapped Marshal succeeded — for every payload, including the empty one", "some successfully marshalled payloads are returned without the checksum field: "+wit2)
	knownNil := func(v ssa.Value, cond Bits) bool {
		if nilErr, _ := allOrigins(v, isConstNilOrigin); nilErr {
			return true
		}
		for _, pr := range []struct {
			is   bool
			atom string
		}{{v == ssa.Value(ev), "varintOK"}, {v == ssa.Value(ef), "fixedOK"}, {innerErr(v), "innerOK"}} {
			if pr.is {
				if ok, _ := cs.Implies(cond, A(pr.atom)); ok {
					return true
				}
			}
		}
		return false
	}
	succ := cs.False()
	nSucc, nWrapped, nEnc := 0, 0, 0
	for i, vr := range cs.VirtualReturns() {
		construct := fmt.Sprintf("Marshal exit#%d", i+1)
		wrappedFail, _ := cs.Implies(vr.Cond, cs.Not(A("innerOK")))
		isSucc, _ := cs.Implies(vr.Cond, allOK)
		encFail, _ := cs.Implies(vr.Cond, cs.And(A("innerOK"), cs.Or(cs.Not(A("varintOK")), cs.Not(A("fixedOK")))))
		switch {
		case wrappedFail:
			nWrapped++
			untouched := !cs.Satisfiable(and(vr.Cond, cs.Reach(ev)))
			c.check(innerErr(vr.Vals[1]) && untouched, "C19.errors", construct+": wrapped error", p.ipos(vr.Ret), "a marshalling error of the wrapped codec is returned as is, and nothing is framed on that path", "the wrapped codec's error is not passed through untouched")
		case isSucc:
			nSucc++
			succ = or(succ, vr.Cond)
			app, isA := stripConv(vr.Vals[0]).(*ssa.Call)
			good := isA && calleeOf(&app.Call).Builtin == "append"
			if good {
				// the destination of the append, on this way out: the prefix buffer's bytes, taken after both encode steps ran
				ranEF, _ := cs.Implies(vr.Cond, and(cs.Reach(ev), cs.Reach(ef)))
				dsts := cs.ResolveUnder(app.Call.Args[0], vr.Cond)
				isBuf := len(dsts) > 0
				for _, d := range dsts {
					by, isB := staticCallNamed(stripConv(oneOrigin(d)), "proto.(*Buffer).Bytes")
					if !isB || !mayPrecede(ef, by) || mayPrecede(by, ef) {
						isBuf = false
						continue
					}
					for _, rv := range cs.ResolveUnder(by.Call.Args[0], vr.Cond) {
						if rv != ssa.Value(nb) {
							isBuf = false
						}
					}
				}
				good = isBuf && ranEF && payload(app.Call.Args[1])
			}
			c.check(good && knownNil(vr.Vals[1], vr.Cond), "C19.frame", construct+": success", p.ipos(vr.Ret), "returns append(prefix bytes, payload...) — the 6-byte field followed by the unchanged wrapped encoding — with a nil error", "the success result is not prefix‖payload with a nil error")
		case encFail:
			nEnc++
			e := vr.Vals[1]
			ok := false
			if e == ssa.Value(ev) {
				ok, _ = cs.Implies(vr.Cond, cs.Not(A("varintOK")))
			} else if e == ssa.Value(ef) {
				ok, _ = cs.Implies(vr.Cond, cs.Not(A("fixedOK")))
			}
			c.check(ok, "C19.errors", construct+": encode error", p.ipos(vr.Ret), "an encoding error of the prefix is reported", "a prefix encoding error is swallowed (or replaced)")
		default:
			c.fail("C19.frame", construct+": classified", p.ipos(vr.Ret), "this exit is reachable both when a step failed and when every step succeeded: a successful encoding can leave without the checksum field, or a failure can look like a success")
		}
	}
	full, w3 := cs.Implies(allOK, succ)
	c.check(nSucc >= 1 && full, "C19.frame", "success is unconditional", p.pos(m.Pos()), "whenever all three steps succeeded the framed result is returned", "when all three steps succeeded the framed result is not always the one returned: "+w3)
	c.check(nWrapped >= 1, "C19.errors", "wrapped error exit exists", p.pos(m.Pos()), "a failing wrapped Marshal has its own exit", "no exit passes the wrapped codec's error through")

	// ---- C19.tag
	emptyStart := false
	if sl, ok := nb.Call.Args[0].(*ssa.Slice); ok {
		if al, ok := sl.X.(*ssa.Alloc); ok && strings.HasPrefix(shortType(al.Type()), "*[0]") {
			emptyStart = true
		}
	}
	tag, isC := constInt(ev.Call.Args[1])
	const wantTag = (2047 << 3) | 5
	c.check(isC && tag == wantTag && tag >= 128 && tag < 16384, "C19.tag", "tag constant", p.ipos(ev), fmt.Sprintf("EncodeVarint(%d) = (2047<<3)|5: field 2047, wire type 5 (32-bit); 128 ≤ tag < 16384 ⇒ a 2-byte varint, prefix = 2 + 4 = 6 bytes", tag), fmt.Sprintf("tag constant is %d, expected (2047<<3)|5 = %d", tag, wantTag))
	order := ev.Call.Args[0] == ssa.Value(nb) && ef.Call.Args[0] == ssa.Value(nb) && (dominatesInstr(ev, ef) || (mayPrecede(ev, ef) && !mayPrecede(ef, ev))) && !inLoop(ev) && !inLoop(ef) && len(bufCalls) == 2 && bufCalls[0] == "EncodeVarint"
	c.check(order && emptyStart, "C19.tag", "prefix = varint tag then fixed32", p.ipos(ef), "the buffer starts empty and receives exactly EncodeVarint then EncodeFixed32, once each, on the same buffer", "the prefix is not exactly one varint tag followed by one fixed32 on an initially empty buffer")

	// ---- C19.crc
	okCrc := false
	if cv, ok := ef.Call.Args[1].(*ssa.Convert); ok {
		if ck, ok := staticCallNamed(cv.X, "crc32.Checksum"); ok && payload(ck.Call.Args[0]) {
			if mt, ok := staticCallNamed(ck.Call.Args[1], "crc32.MakeTable"); ok {
				poly, isP := constInt(mt.Call.Args[0])
				want, okW := p.constValue("hash/crc32", "Castagnoli")
				if isP && okW && poly == want {
					okCrc = true
				}
			}
		}
	}
	c.check(okCrc, "C19.crc", "checksum value", p.ipos(ef), "fixed32 = crc32.Checksum(<wrapped encoding>, MakeTable(Castagnoli)): CRC32C of exactly the payload", "the checksum is not the CRC32C of the wrapped encoding")

}

// writableUses: uses of slice value v (or of slices sharing its backing array) that may write or retain it.
// Read-only uses: len/cap, append source, copy source, index/range reads, comparisons, conversion to string,
// return, trusted read-only library calls (hash/crc32, log, fmt, bytes.Equal), and module callees whose
// parameter is again only read (depth-bounded).
func writableUses(p *Prog, v ssa.Value, seen map[ssa.Value]bool, depth int) []string {
	if seen[v] {
		return nil
	}
	seen[v] = true
	if depth > 6 {
		return []string{"use chain too deep to decide at " + p.pos(v.Pos())}
	}
	refs := v.Referrers()
	if refs == nil {
		return nil
	}
	var bad []string
	trustedRO := func(name string) bool {
		for _, pre := range []string{"crc32.", "log.", "fmt.", "bytes.Equal", "bytes.Compare", "hex.", "strings."} {
			if strings.HasPrefix(name, pre) {
				return true
			}
		}
		return false
	}
	for _, r := range *refs {
		switch x := r.(type) {
		case *ssa.DebugRef, *ssa.Return, *ssa.Index, *ssa.Range, *ssa.Lookup:
		case *ssa.BinOp:
		case *ssa.Convert:
			// string(b) copies; []byte→named slice keeps the array
			if b, ok := x.Type().Underlying().(*types.Basic); !ok || b.Info()&types.IsString == 0 {
				bad = append(bad, writableUses(p, x, seen, depth+1)...)
			}
		case *ssa.Phi, *ssa.ChangeType, *ssa.Slice:
			bad = append(bad, writableUses(p, x.(ssa.Value), seen, depth+1)...)
		case *ssa.MakeInterface:
			bad = append(bad, writableUses(p, x, seen, depth+1)...)
		case *ssa.IndexAddr:
			for _, rr := range *x.Referrers() {
				switch y := rr.(type) {
				case *ssa.UnOp, *ssa.DebugRef:
				case *ssa.Store:
					if y.Addr == ssa.Value(x) {
						bad = append(bad, "element written at "+p.ipos(y))
					} else {
						bad = append(bad, writableUses(p, x, seen, depth+1)...)
					}
				default:
					bad = append(bad, "element address escapes at "+p.ipos(rr))
				}
			}
		case *ssa.Store:
			// v stored somewhere: only into a local cell (then follow its loads) or into a fresh vararg array for a trusted call
			switch a := x.Addr.(type) {
			case *ssa.Alloc:
				for _, rr := range *a.Referrers() {
					if ld, ok := rr.(*ssa.UnOp); ok {
						bad = append(bad, writableUses(p, ld, seen, depth+1)...)
					}
				}
			case *ssa.IndexAddr:
				if arr, ok := a.X.(*ssa.Alloc); ok {
					for _, rr := range *arr.Referrers() {
						if sl, ok := rr.(*ssa.Slice); ok {
							bad = append(bad, writableUses(p, sl, seen, depth+1)...)
						}
					}
				} else {
					bad = append(bad, "stored into shared memory at "+p.ipos(x))
				}
			default:
				bad = append(bad, "stored into shared memory at "+p.ipos(x))
			}
		case ssa.CallInstruction:
			cc := x.Common()
			cal := calleeOf(cc)
			argIdx := -1
			for i, a := range cc.Args {
				if a == v {
					argIdx = i
				}
			}
			switch {
			case cal.Builtin == "len" || cal.Builtin == "cap" || cal.Builtin == "print" || cal.Builtin == "println":
			case cal.Builtin == "append":
				if argIdx == 0 || cc.Args[0] == v {
					bad = append(bad, "used as the destination of append at "+p.ipos(x)+" (writes into the shared backing array when capacity allows)")
				}
			case cal.Builtin == "copy":
				if cc.Args[0] == v {
					bad = append(bad, "used as the destination of copy at "+p.ipos(x))
				}
			case cal.Static != nil && trustedRO(cal.Name()):
			case cal.Static != nil && cal.Static.Blocks != nil && argIdx >= 0 && !cc.IsInvoke():
				prm := cal.Static.Params[argIdx]
				sub := writableUses(p, prm, seen, depth+1)
				for _, b := range sub {
					bad = append(bad, "via "+fname(cal.Static)+": "+b)
				}
			default:
				bad = append(bad, "passed to "+cal.Name()+" at "+p.ipos(x)+", which may write or keep it")
			}
		default:
			bad = append(bad, fmt.Sprintf("unrecognised use %T at %s", r, p.ipos(r)))
		}
	}
	return bad
}

// oneOrigin: the single value v originates from (through local cells / phis that agree), else v itself.
func oneOrigin(v ssa.Value) ssa.Value {
	os := origins(v)
	if len(os) == 1 && os[0].Val != nil {
		return os[0].Val
	}
	return v
}
