package main

import (
	"fmt"
	"go/constant"
	"go/token"
	"go/types"
	"math"
	"regexp/syntax"
	"strings"

	"golang.org/x/tools/go/ssa"
)

func init() { register("C18", checkC18) }

// flagValue: v is **flag** — the value of the package-level flag variable named g (load of load of the global).
func flagValue(v ssa.Value, g string) bool {
	u, ok := stripConv(v).(*ssa.UnOp)
	if !ok || u.Op != token.MUL {
		return false
	}
	u2, ok := u.X.(*ssa.UnOp)
	if !ok || u2.Op != token.MUL {
		return false
	}
	gl, ok := u2.X.(*ssa.Global)
	return ok && gl.Name() == g
}

func flagNameOf(v ssa.Value) string {
	u, ok := stripConv(v).(*ssa.UnOp)
	if !ok {
		return ""
	}
	u2, ok := u.X.(*ssa.UnOp)
	if !ok {
		return ""
	}
	if gl, ok := u2.X.(*ssa.Global); ok {
		return gl.Name()
	}
	return ""
}

// sprintfArgs returns the values stored into the variadic argument array of a call.
func variadicArgs(v ssa.Value) []ssa.Value {
	sl, ok := v.(*ssa.Slice)
	if !ok {
		return nil
	}
	al, ok := sl.X.(*ssa.Alloc)
	if !ok {
		return nil
	}
	byIdx := map[int64]ssa.Value{}
	max := int64(-1)
	for _, r := range *al.Referrers() {
		if ia, ok := r.(*ssa.IndexAddr); ok {
			i, _ := constInt(ia.Index)
			for _, st := range storesTo(ia) {
				byIdx[i] = stripConv(st.Val)
				if i > max {
					max = i
				}
			}
		}
	}
	var out []ssa.Value
	for i := int64(0); i <= max; i++ {
		out = append(out, byIdx[i])
	}
	return out
}

// C18 — Spanner prober helpers.
func checkC18(c *Ctx, w *World) {
	c.Explanation = "Structural analysis of the prober helpers: backoff's result is clamped by the maximum on every path (upper bound) and its loop is counted; the " +
		"latency parser's decision list (header slice if non-empty, else trailer slice if non-empty, else error; first prefixed entry returns its parsed duration or a " +
		"parse error; none ⇒ error) with no unguarded index; every name flag is tested against a constant pattern that regexp/syntax shows to be ^class*$ without '/' " +
		"or newline in the class and a failed match is reported; the validated flags reach the resource-name builders by plain copies and the builders format only " +
		"those fields with the expected literal segments; probe types: nil error exactly for the six literal names and validation reports the error; the accepted " +
		"qps region (extracted from the validation predicate and evaluated by constant folding on probe values) must make float64(time.Second)/qps a positive in-range " +
		"duration; generated payloads are returned with the SHA-256 of exactly that payload."
	c.RuleText = "one obligation per helper clause / flag / builder / probe value; non-trivial = needed a reaching-condition, provenance, regexp/syntax or constant-folding argument"
	c.Assumptions = []string{"backoff ≥ base and monotone in the retry count are floating-point statements that are not decided"}
	c.Trusted = []string{"go/types", "golang.org/x/tools/go/ssa v0.29.0", "regexp/syntax", "IEEE-754 comparison semantics of Go"}
	p := w.Prober()
	if p == nil {
		return
	}
	need := func(pkg, name string) *ssa.Function { return c.need(p, pkg, name) }
	bo, parse, vf := need("prober", "backoff"), need("prober", "parseT4T7Latency"), need("main", "validateFlags")
	ppt, pi, mainFn, newProber := need("prober", "ParseProbeType"), need("prober", "(*Prober).probeInterval"), need("main", "main"), need("prober", "NewProber")
	if bo == nil || parse == nil || vf == nil || ppt == nil || pi == nil || mainFn == nil || newProber == nil {
		return
	}

	// ---- C18.clamp
	{
		maxF := func(v ssa.Value) bool {
			cv, ok := stripConv(v).(*ssa.Convert)
			return ok && cv.X == ssa.Value(bo.Params[1])
		}
		okClamp := false
		why := "return value is not a clamped float converted to a duration"
		for _, r := range returnsOf(bo) {
			cv, ok := r.Results[0].(*ssa.Convert)
			if !ok {
				continue
			}
			ph, ok := cv.X.(*ssa.Phi)
			if !ok {
				if maxF(cv.X) {
					okClamp = true
				}
				continue
			}
			good := true
			for ei, e := range ph.Edges {
				pred := ph.Block().Preds[ei]
				cs := newCondSpace(bo, recOf(ltAtom("over", maxF, isVal(e))), "over")
				edge := cs.False()
				for si, sb := range pred.Succs {
					if sb == ph.Block() {
						edge = or(edge, cs.EdgeCond(pred, si))
					}
				}
				if maxF(e) {
					continue // the maximum itself
				}
				if imp, wit := cs.Implies(edge, cs.Not(cs.Atom("over"))); !imp || !cs.Seen("over") {
					good = false
					why = "a value can be returned without having been compared against the maximum: " + wit
				}
			}
			okClamp = good
		}
		c.check(okClamp, "C18.clamp", "backoff: upper bound", p.pos(bo.Pos()), "the returned duration is the maximum, or a value for which 'value > max' was tested false on that path", why)
		// necessary for "at least the base delay" and "non-decreasing in the retry count": inside the loop the
		// delay is only ever multiplied by a constant ≥ 1 (and the loop variable is the value later clamped)
		growOK, nmul := true, 0
		for _, l := range loopsOf(bo) {
			for b := range l.Blocks {
				for _, in := range b.Instrs {
					x, ok := in.(*ssa.BinOp)
					if !ok || !isFloat(x.Type()) {
						continue
					}
					switch x.Op {
					case token.MUL:
						nmul++
						var k float64 = -1
						for _, side := range []ssa.Value{x.X, x.Y} {
							if cst, isC := side.(*ssa.Const); isC && cst.Value != nil {
								k, _ = constant.Float64Val(constant.ToFloat(cst.Value))
							}
						}
						if k < 1 {
							growOK = false
						}
					case token.SUB, token.QUO, token.ADD:
						growOK = false
					}
				}
			}
		}
		c.check(growOK && nmul == 1, "C18.clamp", "backoff: growth factor", p.pos(bo.Pos()), "each retry multiplies the delay by one constant factor ≥ 1 (necessary for ≥ base and for monotonicity in the retry count; the floating-point argument itself is not decided)", "the delay is not only multiplied by a constant factor ≥ 1 per retry")
		for i, l := range loopsOf(bo) {
			k, w2 := l.boundedKind()
			c.check(k != "", "C18.clamp", fmt.Sprintf("backoff loop#%d", i+1), p.pos(bo.Pos()), "bounded ("+k+"): "+w2, "the retry loop is not bounded by the retry counter")
		}
	}

	// ---- C18.header
	{
		hdr, trl := parse.Params[0], parse.Params[1]
		lookupOf := func(m ssa.Value) vpred {
			return func(v ssa.Value) bool {
				l, ok := stripConv(v).(*ssa.Lookup)
				if !ok || l.X != m {
					return false
				}
				k, isS := constString(l.Index)
				return isS && k == "server-timing"
			}
		}
		lenOf := func(x vpred) vpred {
			return func(v ssa.Value) bool {
				call, ok := stripConv(v).(*ssa.Call)
				return ok && calleeOf(&call.Call).Builtin == "len" && x(call.Call.Args[0])
			}
		}
		atoms := []atomDef{
			ltAtom("hdrNonEmpty", constIs(0), lenOf(lookupOf(hdr))),
			ltAtom("trlNonEmpty", constIs(0), lenOf(lookupOf(trl))),
			boolAtom("prefixed", func(v ssa.Value) bool {
				call, ok := staticCallNamed(v, "strings.HasPrefix")
				if !ok {
					return false
				}
				s, isS := constString(call.Call.Args[1])
				return isS && s == "gfet4t7; dur="
			}),
			eqAtom("parseOK", extractOf(1, callTo("strconv.ParseInt")), isNil),
		}
		cs := newCondSpace(parse, recOf(atoms...), atomNames(atoms...)...)
		A := cs.Atom
		// which slice is iterated
		okSel := false
		eachInstr(parse, func(in ssa.Instruction) {
			ph, ok := in.(*ssa.Phi)
			if !ok || shortType(ph.Type()) != "[]string" {
				return
			}
			good := len(ph.Edges) == 2
			for ei, e := range ph.Edges {
				pred := ph.Block().Preds[ei]
				reach := cs.ReachBlock(pred)
				switch {
				case lookupOf(hdr)(e):
					if imp, _ := cs.Implies(reach, A("hdrNonEmpty")); !imp {
						good = false
					}
				case lookupOf(trl)(e):
					if imp, _ := cs.Implies(reach, cs.And(cs.Not(A("hdrNonEmpty")), A("trlNonEmpty"))); !imp {
						good = false
					}
				default:
					good = false
				}
			}
			if good {
				okSel = true
			}
		})
		c.check(okSel, "C18.header", "parseT4T7Latency: header before trailer", p.pos(parse.Pos()), "the header's server-timing values are used when non-empty, the trailer's only when the header has none", "the server-timing header is not preferred over the trailer")
		nOK := 0
		for i, r := range returnsOf(parse) {
			construct := fmt.Sprintf("parseT4T7Latency return#%d", i+1)
			nilErr, _ := allOrigins(r.Results[1], isConstNilOrigin)
			if nilErr {
				nOK++
				imp, wit := cs.Implies(cs.Reach(r), cs.And(A("prefixed"), A("parseOK")))
				// value: Duration(parsed) * Millisecond of the entry that was tested
				val := false
				if mul, ok := r.Results[0].(*ssa.BinOp); ok && mul.Op == token.MUL {
					x, y := mul.X, mul.Y
					if _, isC := constInt(x); isC {
						x, y = y, x
					}
					ms, isC := constInt(y)
					if isC && ms == 1000000 && extractOf(0, callTo("strconv.ParseInt"))(stripConv(x)) {
						val = true
					}
				}
				c.check(imp && val, "C18.header", construct, p.ipos(r), "success ⇒ the entry has the gfet4t7 prefix and its number parsed; result = parsed milliseconds", "a duration is returned for an entry without the prefix / with a parse error, or is not the parsed value: "+wit)
				continue
			}
			// error returns: zero duration
			z, isZ := constInt(r.Results[0])
			c.check(isZ && z == 0, "C18.header", construct, p.ipos(r), "error returns carry a zero duration", "error return with a non-zero duration")
		}
		c.check(nOK == 1, "C18.header", "parseT4T7Latency: first match returns", p.pos(parse.Pos()), "one success exit, inside the scan (the first prefixed entry decides)", fmt.Sprintf("%d success exits", nOK))
		// no entry / both empty ⇒ error
		bothEmpty := cs.And(cs.Not(A("hdrNonEmpty")), cs.Not(A("trlNonEmpty")))
		errReach := cs.False()
		for _, r := range returnsOf(parse) {
			if nilErr, _ := allOrigins(r.Results[1], isConstNilOrigin); !nilErr {
				errReach = or(errReach, cs.Reach(r))
			}
		}
		imp, _ := cs.Implies(bothEmpty, cs.OnlyNamed(errReach))
		c.check(imp, "C18.header", "parseT4T7Latency: absent ⇒ error", p.pos(parse.Pos()), "no server-timing values in header and trailer ⇒ an error is returned", "absent server-timing metadata does not yield an error")
		// panic-capable indexing only by range counters
		okIdx := true
		eachInstr(parse, func(in ssa.Instruction) {
			if ia, ok := in.(*ssa.IndexAddr); ok {
				if _, isArr := ia.X.Type().Underlying().(*types.Pointer); isArr {
					if _, isC := constInt(ia.Index); isC {
						return // constant index into a fixed-size array (argument lists): checked by the compiler
					}
				}
				bounded := false
				for _, l := range loopsOf(parse) {
					if l.Blocks[ia.Block()] {
						if k, _ := l.boundedKind(); k != "" {
							if ph, step := l.counterStep(ia.Index); ph != nil && step > 0 {
								bounded = true
							}
						}
					}
				}
				if !bounded {
					okIdx = false
				}
			}
		})
		c.check(okIdx, "C18.header", "parseT4T7Latency: no unguarded index", p.pos(parse.Pos()), "slices are indexed only by range counters", "a slice is indexed without a bound")
	}

	// ---- C18.regex
	nameFlags := []string{"project", "opsProject", "instance_name", "database_name", "instanceConfig"}
	validated := map[string]bool{}
	{
		for _, fl := range nameFlags {
			construct := "flag " + fl
			var found *ssa.Call
			eachInstr(vf, func(in ssa.Instruction) {
				if call, ok := staticCallNamed(valueOf(in), "regexp.(*Regexp).MatchString"); ok && flagValue(call.Call.Args[1], fl) {
					found = call
				}
			})
			if found == nil {
				c.fail("C18.regex", construct, p.pos(vf.Pos()), "flag is used in resource names but is not matched against a pattern")
				continue
			}
			pat := ""
			for _, o := range origins(found.Call.Args[0]) {
				if e, ok := o.Val.(*ssa.Extract); ok {
					if cc, ok := e.Tuple.(*ssa.Call); ok && (strings.HasSuffix(calleeOf(&cc.Call).Name(), "regexp.Compile") || strings.HasSuffix(calleeOf(&cc.Call).Name(), "regexp.MustCompile")) {
						pat, _ = constString(cc.Call.Args[0])
					}
				}
				if cc, ok := o.Val.(*ssa.Call); ok && strings.HasSuffix(calleeOf(&cc.Call).Name(), "regexp.MustCompile") {
					pat, _ = constString(cc.Call.Args[0])
				}
			}
			okPat, whyPat := safeNamePattern(pat)
			// a failed match appends an error that reaches the result
			reported := false
			if iff := ifOn(found); iff != nil {
				fb := iff.Block().Succs[1]
				for _, in := range fb.Instrs {
					if call, ok := in.(*ssa.Call); ok && calleeOf(&call.Call).Builtin == "append" {
						for _, r := range returnsOf(vf) {
							for _, o := range origins(r.Results[0]) {
								if o.Val == ssa.Value(call) || reachesThroughAppends(o.Val, call) {
									reported = true
								}
							}
						}
					}
				}
			}
			c.check(okPat && reported, "C18.regex", construct, p.ipos(found), fmt.Sprintf("matched against the constant pattern %q (%s); a failed match is reported", pat, whyPat), fmt.Sprintf("flag validation does not confine the value to a slash-free anchored class (pattern %q: %s; failure reported=%v)", pat, whyPat, reported))
			if okPat && reported {
				validated[fl] = true
			}
		}
	}

	// ---- C18.uri
	{
		fieldFlag := map[string]string{"ProberOptions.Project": "project", "ProberOptions.Instance": "instance_name", "ProberOptions.Database": "database_name", "ProberOptions.InstanceConfig": "instanceConfig"}
		for field, fl := range fieldFlag {
			ok := false
			n := 0
			eachInstr(mainFn, func(in ssa.Instruction) {
				st, isS := in.(*ssa.Store)
				if !isS {
					return
				}
				fa, isFA := st.Addr.(*ssa.FieldAddr)
				if !isFA || fieldRefOfAddr(fa) != field {
					return
				}
				n++
				if flagValue(st.Val, fl) {
					ok = true
				} else {
					ok = false
				}
			})
			c.check(ok && n == 1 && validated[fl], "C18.uri", field+" ← flag "+fl, p.pos(mainFn.Pos()), "the option field is a plain copy of the validated flag", "the option field is not a plain copy of a validated flag")
		}
		builders := map[string]struct {
			format string
			fields []string
		}{
			"(*ProberOptions).instanceURI":       {"projects/%s/instances/%s", []string{"ProberOptions.Project", "ProberOptions.Instance"}},
			"(*ProberOptions).instanceConfigURI": {"projects/%s/instanceConfigs/%s", []string{"ProberOptions.Project", "ProberOptions.InstanceConfig"}},
			"(*ProberOptions).projectURI":        {"projects/%s", []string{"ProberOptions.Project"}},
			"(*ProberOptions).databaseURI":       {"projects/%s/instances/%s/databases/%s", []string{"ProberOptions.Project", "ProberOptions.Instance", "ProberOptions.Database"}},
		}
		for name, spec := range builders {
			fn := need("prober", name)
			if fn == nil {
				continue
			}
			// symbolic template of the returned string (Sprintf with %s/%v, concatenation, other builders of the same
			// receiver are expanded), compared with the expected literal segments and fields
			want := spec.format
			for _, fld := range spec.fields {
				want = strings.Replace(want, "%s", "{"+fld+"}", 1)
			}
			good := true
			nret := 0
			for _, r := range returnsOf(fn) {
				nret++
				got, ok := strTemplate(p, r.Results[0], fn.Params[0], 0)
				if !ok || got != want {
					good = false
				}
			}
			good = good && nret > 0
			c.check(good, "C18.uri", name, p.pos(fn.Pos()), fmt.Sprintf("returns Sprintf(%q, %s)", spec.format, strings.Join(spec.fields, ", ")), "resource name is not built from exactly the validated option fields with the expected literal segments")
		}
		// no other place formats resource paths
		other := 0
		for _, fn := range p.Funcs {
			if _, isB := builders[fname(fn)]; isB {
				continue
			}
			eachInstr(fn, func(in ssa.Instruction) {
				if call, ok := staticCallNamed(valueOf(in), "fmt.Sprintf"); ok {
					if f, isS := constString(call.Call.Args[0]); isS && (strings.Contains(f, "projects/") || strings.Contains(f, "instances/") || strings.Contains(f, "databases/")) {
						other++
						c.fail("C18.uri", "resource path formatted in "+fname(fn), p.ipos(call), "a Spanner resource path is formatted outside the checked builders")
					}
				}
			})
		}
	}

	// ---- C18.type
	{
		nNil := 0
		names := map[string]bool{}
		okType := true
		tprm := ppt.Params[0]
		for _, r := range returnsOf(ppt) {
			nilErr, _ := allOrigins(r.Results[1], isConstNilOrigin)
			if !nilErr {
				continue
			}
			nNil++
			// reached under t == "<literal>"
			matched := false
			for _, b := range ppt.Blocks {
				iff, ok := b.Instrs[len(b.Instrs)-1].(*ssa.If)
				if !ok || b.Succs[0] != r.Block() {
					continue
				}
				if bo2, ok := iff.Cond.(*ssa.BinOp); ok && bo2.Op == token.EQL && bo2.X == ssa.Value(tprm) {
					if s, isS := constString(bo2.Y); isS {
						names[s] = true
						matched = true
					}
				}
			}
			if !matched {
				okType = false
			}
		}
		want := []string{"noop", "stale_read", "strong_query", "stale_query", "dml", "read_write"}
		for _, wnt := range want {
			if !names[wnt] {
				okType = false
			}
		}
		c.check(okType && nNil == 6 && len(names) == 6, "C18.type", "ParseProbeType", p.pos(ppt.Pos()), "a nil error is returned exactly for the six literal probe types; anything else yields an error", fmt.Sprintf("probe-type parsing accepts %d names %v (nil-error returns: %d)", len(names), names, nNil))
		okV := false
		eachInstr(vf, func(in ssa.Instruction) {
			call, ok := in.(*ssa.Call)
			if !ok || !isCallTo(call, ppt, p) || !flagValue(call.Call.Args[0], "probeType") {
				return
			}
			// err != nil ⇒ appended
			for _, r := range *call.Referrers() {
				if e, isE := r.(*ssa.Extract); isE && e.Index == 1 {
					for _, rr := range *e.Referrers() {
						if cmp, isB := rr.(*ssa.BinOp); isB && cmp.Op == token.NEQ && isNilConst(cmp.Y) {
							if iff := ifOn(cmp); iff != nil {
								for _, in2 := range iff.Block().Succs[0].Instrs {
									if ap, ok := in2.(*ssa.Call); ok && calleeOf(&ap.Call).Builtin == "append" {
										for _, a := range variadicArgs(ap.Call.Args[1]) {
											if a == ssa.Value(e) {
												okV = true
											}
										}
									}
								}
							}
						}
					}
				}
			}
		})
		c.check(okV, "C18.type", "validateFlags reports an unparsable probe type", p.pos(vf.Pos()), "ParseProbeType(flag)'s error is appended to the validation errors", "an unparsable probe type is not reported by flag validation")
	}

	// ---- C18.interval
	{
		// the qps error block and the comparisons on the qps flag
		var errBlock *ssa.BasicBlock
		eachInstr(vf, func(in ssa.Instruction) {
			if call, ok := staticCallNamed(valueOf(in), "fmt.Errorf"); ok {
				if f, isS := constString(call.Call.Args[0]); isS && strings.HasPrefix(f, "qps ") {
					errBlock = call.Block()
				}
			}
		})
		cs := newCondSpace(vf, nil)
		// leaves of the validation predicate that depend (only) on the qps flag and constants
		var evalF func(v ssa.Value, q float64, d int) (float64, bool)
		evalF = func(v ssa.Value, q float64, d int) (float64, bool) {
			if d > 8 {
				return 0, false
			}
			v = stripConv(v)
			if flagValue(v, "qps") {
				return q, true
			}
			switch x := v.(type) {
			case *ssa.Const:
				if x.Value == nil {
					return 0, false
				}
				f, _ := constant.Float64Val(constant.ToFloat(x.Value))
				return f, true
			case *ssa.Convert:
				return evalF(x.X, q, d+1)
			case *ssa.BinOp:
				a, ok1 := evalF(x.X, q, d+1)
				b, ok2 := evalF(x.Y, q, d+1)
				if !ok1 || !ok2 {
					return 0, false
				}
				switch x.Op {
				case token.ADD:
					return a + b, true
				case token.SUB:
					return a - b, true
				case token.MUL:
					return a * b, true
				case token.QUO:
					return a / b, true
				}
			}
			return 0, false
		}
		mentionsQPS := func(v ssa.Value) bool {
			_, ok := evalF(v, 1, 0)
			if !ok {
				return false
			}
			a, _ := evalF(v, 1, 0)
			b, _ := evalF(v, 2, 0)
			return a != b
		}
		type leaf struct{ idx int }
		var leaves []leaf
		for i, val := range cs.VarVal {
			b, ok := val.(*ssa.BinOp)
			if !ok {
				continue
			}
			if mentionsQPS(b.X) || mentionsQPS(b.Y) {
				if _, ok1 := evalF(b.X, 1, 0); ok1 {
					if _, ok2 := evalF(b.Y, 1, 0); ok2 {
						leaves = append(leaves, leaf{i})
					}
				}
			}
		}
		if errBlock == nil || len(leaves) == 0 {
			c.fail("C18.interval", "qps validation", p.pos(vf.Pos()), "the qps range test was not found in validateFlags")
		} else {
			reach := cs.ReachBlock(errBlock)
			// the interval expression: float64(time.Second) / qps converted to Duration
			num := 1e9
			eachInstr(pi, func(in ssa.Instruction) {
				if b, ok := in.(*ssa.BinOp); ok && b.Op == token.QUO {
					if cst, ok := b.X.(*ssa.Const); ok && cst.Value != nil {
						num, _ = constant.Float64Val(constant.ToFloat(cst.Value))
					}
				}
			})
			probes := []float64{math.NaN(), 5e-324, 1e-10, 1.08e-10, 1.09e-10, 1e-9, 0.5, 1, 1000, math.Nextafter(1000, 2000), math.Inf(1), 0, math.Copysign(0, -1), -1}
			for _, v := range probes {
				b := reach
				for _, lf := range leaves {
					bo2 := cs.VarVal[lf.idx].(*ssa.BinOp)
					a, _ := evalF(bo2.X, v, 0)
					k, _ := evalF(bo2.Y, v, 0)
					var t bool
					switch bo2.Op {
					case token.LSS:
						t = a < k
					case token.LEQ:
						t = a <= k
					case token.GTR:
						t = a > k
					case token.GEQ:
						t = a >= k
					case token.EQL:
						t = a == k
					case token.NEQ:
						t = a != k
					}
					// IEEE: the normalised variable (e.g. "x < y" standing for ¬(x >= y)) is not valid for NaN operands;
					// evaluate the concrete comparison and constrain the variable through the leaf's own polarity
					f, ok := cs.EvalValue(bo2)
					if !ok {
						continue
					}
					if t {
						b = and(b, f)
					} else {
						b = and(b, cs.not(f))
					}
				}
				rejected := cs.Satisfiable(b)
				construct := fmt.Sprintf("qps=%v", v)
				if rejected {
					c.okTrivial("C18.interval", construct, p.pos(vf.Pos()), "rejected by flag validation")
					continue
				}
				iv := num / v
				okIv := iv >= 1 && iv < float64(math.MaxInt64) && !math.IsNaN(iv)
				c.check(okIv, "C18.interval", construct, p.pos(vf.Pos()), fmt.Sprintf("accepted; interval %.4g ns is a positive in-range duration", iv),
					fmt.Sprintf("qps=%v is accepted by flag validation but float64(time.Second)/qps = %v is not a positive in-range time.Duration: the conversion yields a non-positive interval and time.NewTicker panics", v, iv))
			}
		}
		// the flag reaches Prober.qps by plain copies
		okCopy := false
		eachInstr(mainFn, func(in ssa.Instruction) {
			if st, ok := in.(*ssa.Store); ok {
				if fa, ok := st.Addr.(*ssa.FieldAddr); ok && fieldRefOfAddr(fa) == "ProberOptions.QPS" && flagValue(st.Val, "qps") {
					okCopy = true
				}
			}
		})
		okCopy2, nq := true, 0
		for _, fn := range p.Funcs {
			eachInstr(fn, func(in ssa.Instruction) {
				if st, ok := in.(*ssa.Store); ok {
					if fa, ok := st.Addr.(*ssa.FieldAddr); ok && fieldRefOfAddr(fa) == "Prober.qps" {
						nq++
						if f, _, isL := loadedField(st.Val); !isL || f != "ProberOptions.QPS" {
							okCopy2 = false
						}
					}
					if fa, ok := st.Addr.(*ssa.FieldAddr); ok && fieldRefOfAddr(fa) == "ProberOptions.QPS" && !flagValue(st.Val, "qps") {
						okCopy2 = false
					}
				}
			})
		}
		okCopy2 = okCopy2 && nq >= 1
		c.check(okCopy && okCopy2, "C18.interval", "qps flag reaches Prober.qps unchanged", p.pos(newProber.Pos()), "flag → ProberOptions.QPS → Prober.qps by plain copies", "the validated qps is not what the prober divides by")
	}

	// ---- C18.hash
	{
		var gen *ssa.Function
		for _, fn := range p.Funcs {
			if fn.Pkg.Pkg.Name() == "prober" && strings.HasPrefix(fn.Name(), "init$") && fn.Signature.Results().Len() == 3 {
				gen = fn
			}
		}
		if gen == nil {
			c.fail("C18.hash", "generatePayload", "-", "payload generator not found")
		} else {
			okH := false
			for _, r := range returnsOf(gen) {
				if nilErr, _ := allOrigins(r.Results[2], isConstNilOrigin); !nilErr {
					continue
				}
				sum, ok := r.Results[1].(*ssa.Call)
				if !ok || !sum.Call.IsInvoke() || sum.Call.Method.Name() != "Sum" || !isNilConst(sum.Call.Args[0]) {
					continue
				}
				h := sum.Call.Value
				_, isNew := staticCallNamed(h, "sha256.New")
				writes := 0
				wOK := false
				eachInstr(gen, func(in ssa.Instruction) {
					if call, ok := in.(*ssa.Call); ok && call.Call.IsInvoke() && call.Call.Value == h && call.Call.Method.Name() == "Write" {
						writes++
						if call.Call.Args[0] == r.Results[0] && dominatesInstr(call, sum) {
							wOK = true
						}
					}
				})
				if isNew && writes == 1 && wOK {
					okH = true
				}
			}
			c.check(okH, "C18.hash", "generatePayload", p.pos(gen.Pos()), "returns (payload, sha256(payload)): one Write of exactly the returned slice, then Sum(nil)", "the returned hash is not the SHA-256 of the returned payload")
		}
	}
}

// ifOn returns the If instruction controlled directly by v.
func ifOn(v ssa.Value) *ssa.If {
	if v.Referrers() == nil {
		return nil
	}
	for _, r := range *v.Referrers() {
		if iff, ok := r.(*ssa.If); ok {
			return iff
		}
	}
	return nil
}

// reachesThroughAppends: v is derived from call by further appends / phis.
func reachesThroughAppends(v ssa.Value, call *ssa.Call) bool {
	seen := map[ssa.Value]bool{}
	var walk func(x ssa.Value) bool
	walk = func(x ssa.Value) bool {
		if x == nil || seen[x] {
			return false
		}
		seen[x] = true
		if x == ssa.Value(call) {
			return true
		}
		switch y := x.(type) {
		case *ssa.Phi:
			for _, e := range y.Edges {
				if walk(e) {
					return true
				}
			}
		case *ssa.Call:
			if calleeOf(&y.Call).Builtin == "append" {
				return walk(y.Call.Args[0])
			}
		}
		return false
	}
	return walk(v)
}

// safeNamePattern: the pattern is ^ <class>* $ (single-line) and the class contains neither '/' nor newline.
func safeNamePattern(pat string) (bool, string) {
	if pat == "" {
		return false, "no constant pattern"
	}
	re, err := syntax.Parse(pat, syntax.Perl)
	if err != nil {
		return false, "pattern does not parse: " + err.Error()
	}
	re = re.Simplify()
	if re.Op != syntax.OpConcat || len(re.Sub) < 2 {
		return false, "not a concatenation ^…$"
	}
	if re.Sub[0].Op != syntax.OpBeginText {
		return false, "not anchored at the beginning of the text"
	}
	last := re.Sub[len(re.Sub)-1]
	if last.Op != syntax.OpEndText {
		return false, "not anchored at the end of the text"
	}
	for _, mid := range re.Sub[1 : len(re.Sub)-1] {
		inner := mid
		switch mid.Op {
		case syntax.OpStar, syntax.OpPlus, syntax.OpQuest, syntax.OpRepeat:
			inner = mid.Sub[0]
		}
		switch inner.Op {
		case syntax.OpCharClass:
			for i := 0; i+1 < len(inner.Rune); i += 2 {
				lo, hi := inner.Rune[i], inner.Rune[i+1]
				if lo <= '/' && '/' <= hi {
					return false, "class admits '/'"
				}
				if lo <= '\n' && '\n' <= hi {
					return false, "class admits newline"
				}
			}
		case syntax.OpLiteral:
			for _, r := range inner.Rune {
				if r == '/' || r == '\n' {
					return false, "literal '/' or newline"
				}
			}
		default:
			return false, "body is not a character class (" + inner.Op.String() + ")"
		}
	}
	return true, "anchored, slash-free, newline-free class"
}

func isFloat(t types.Type) bool {
	b, ok := t.Underlying().(*types.Basic)
	return ok && b.Info()&types.IsFloat != 0
}

// strTemplate: the string value v as a template over the fields of recv: literals verbatim, a field load as
// "{Type.Field}". Understands constants, fmt.Sprintf with only %s / %v verbs, string concatenation, phis whose edges
// agree, and calls of other one-receiver methods/functions of the module on the same receiver (expanded).
func strTemplate(p *Prog, v ssa.Value, recv ssa.Value, depth int) (string, bool) {
	if depth > 6 {
		return "", false
	}
	v = stripConv(v)
	if s, ok := constString(v); ok {
		return s, true
	}
	if fld, base, ok := loadedField(v); ok {
		if stripConv(base) == recv || originsAll(base, func(o Origin) bool { return o.Val == recv }) {
			return "{" + fld + "}", true
		}
		return "", false
	}
	switch x := v.(type) {
	case *ssa.BinOp:
		if x.Op == token.ADD {
			a, ok1 := strTemplate(p, x.X, recv, depth+1)
			b, ok2 := strTemplate(p, x.Y, recv, depth+1)
			return a + b, ok1 && ok2
		}
	case *ssa.Phi:
		out := ""
		for i, e := range x.Edges {
			t, ok := strTemplate(p, e, recv, depth+1)
			if !ok || (i > 0 && t != out) {
				return "", false
			}
			out = t
		}
		return out, len(x.Edges) > 0
	case *ssa.UnOp:
		// load of a local cell assigned once
		if al, ok := x.X.(*ssa.Alloc); ok {
			sts := storesTo(al)
			if len(sts) == 1 {
				return strTemplate(p, sts[0].Val, recv, depth+1)
			}
		}
	case *ssa.Call:
		if call, ok := staticCallNamed(x, "fmt.Sprintf"); ok {
			format, isS := constString(call.Call.Args[0])
			if !isS {
				return "", false
			}
			args := variadicArgs(call.Call.Args[1])
			out, ai := "", 0
			for i := 0; i < len(format); i++ {
				if format[i] != '%' {
					out += string(format[i])
					continue
				}
				if i+1 >= len(format) {
					return "", false
				}
				i++
				switch format[i] {
				case '%':
					out += "%"
				case 's', 'v':
					if ai >= len(args) {
						return "", false
					}
					if _, isStr := stripConv(args[ai]).Type().Underlying().(*types.Basic); !isStr {
						return "", false
					}
					t, ok := strTemplate(p, args[ai], recv, depth+1)
					if !ok {
						return "", false
					}
					out += t
					ai++
				default:
					return "", false
				}
			}
			return out, ai == len(args)
		}
		if callee := calleeOf(&x.Call).Static; callee != nil && callee.Blocks != nil && len(callee.Params) == 1 && len(x.Call.Args) == 1 {
			if a := stripConv(x.Call.Args[0]); a == recv || originsAll(a, func(o Origin) bool { return o.Val == recv }) {
				out, n := "", 0
				for _, r := range returnsOf(callee) {
					t, ok := strTemplate(p, r.Results[0], callee.Params[0], depth+1)
					if !ok || (n > 0 && t != out) {
						return "", false
					}
					out = t
					n++
				}
				return out, n > 0
			}
		}
	}
	return "", false
}
