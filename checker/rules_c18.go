package main

import (
	"fmt"
	"go/constant"
	"go/token"
	"go/types"
	"math"
	"regexp/syntax"
	"sort"
	"strings"

	"golang.org/x/tools/go/ssa"
)

func init() { register("C18", checkC18) }

// flagValue: v is **flag** — the value of the package-level flag variable named g (load of load of the global).
func flagValue(v ssa.Value, g string) bool {
	u, ok := stripConv(v).(*ssa.UnOp)
	if !ok || u.Op != token.MUL {
		return false
	}
	u2, ok := u.X.(*ssa.UnOp)
	if !ok || u2.Op != token.MUL {
		return false
	}
	gl, ok := u2.X.(*ssa.Global)
	return ok && gl.Name() == g
}

func flagNameOf(v ssa.Value) string {
	u, ok := stripConv(v).(*ssa.UnOp)
	if !ok {
		return ""
	}
	u2, ok := u.X.(*ssa.UnOp)
	if !ok {
		return ""
	}
	if gl, ok := u2.X.(*ssa.Global); ok {
		return gl.Name()
	}
	return ""
}

// sprintfArgs returns the values stored into the variadic argument array of a call.
func variadicArgs(v ssa.Value) []ssa.Value {
	sl, ok := v.(*ssa.Slice)
	if !ok {
		return nil
	}
	al, ok := sl.X.(*ssa.Alloc)
	if !ok {
		return nil
	}
	byIdx := map[int64]ssa.Value{}
	max := int64(-1)
	for _, r := range *al.Referrers() {
		if ia, ok := r.(*ssa.IndexAddr); ok {
			i, _ := constInt(ia.Index)
			for _, st := range storesTo(ia) {
				byIdx[i] = stripConv(st.Val)
				if i > max {
					max = i
				}
			}
		}
	}
	var out []ssa.Value
	for i := int64(0); i <= max; i++ {
		out = append(out, byIdx[i])
	}
	return out
}

// C18 — Spanner prober helpers.
func checkC18(c *Ctx, w *World) {
	c.Explanation = "Structural analysis of the prober helpers: backoff's result is clamped by the maximum on every path (upper bound) and its loop is counted; the " +
		"latency parser's decision list (header slice if non-empty, else trailer slice if non-empty, else error; first prefixed entry returns its parsed duration or a " +
		"parse error; none ⇒ error) with no unguarded index; every name flag is tested against a constant pattern that regexp/syntax shows to be ^class*$ without '/' " +
		"or newline in the class and a failed match is reported; the validated flags reach the resource-name builders by plain copies and the builders format only " +
		"those fields with the expected literal segments; probe types: nil error exactly for the six literal names and validation reports the error; the accepted " +
		"qps region (extracted from the validation predicate and evaluated by constant folding on probe values) must make float64(time.Second)/qps a positive in-range " +
		"duration; generated payloads are returned with the SHA-256 of exactly that payload."
	c.RuleText = "one obligation per helper clause / flag / builder / probe value; non-trivial = needed a reaching-condition, provenance, regexp/syntax or constant-folding argument"
	c.Assumptions = []string{"backoff ≥ base and monotone in the retry count are floating-point statements that are not decided"}
	c.Trusted = []string{"go/types", "golang.org/x/tools/go/ssa v0.29.0", "regexp/syntax", "IEEE-754 comparison semantics of Go"}
	p := w.Prober()
	if p == nil {
		return
	}
	need := func(pkg, name string) *ssa.Function { return c.need(p, pkg, name) }
	bo, parse, vf := need("prober", "backoff"), need("prober", "parseT4T7Latency"), need("main", "validateFlags")
	ppt, pi, mainFn, newProber := need("prober", "ParseProbeType"), need("prober", "(*Prober).probeInterval"), need("main", "main"), need("prober", "NewProber")
	if bo == nil || parse == nil || vf == nil || ppt == nil || pi == nil || mainFn == nil || newProber == nil {
		return
	}

	// ---- C18.clamp
	{
		maxF := func(v ssa.Value) bool {
			cv, ok := stripConv(v).(*ssa.Convert)
			return ok && cv.X == ssa.Value(bo.Params[1])
		}
		okClamp := len(returnsOf(bo)) > 0
		why := "return value is not a clamped float converted to a duration"
		for _, r := range returnsOf(bo) {
			cv, ok := r.Results[0].(*ssa.Convert)
			if !ok {
				okClamp = false
				continue
			}
			if maxF(cv.X) {
				continue // the maximum itself
			}
			ph, ok := cv.X.(*ssa.Phi)
			if !ok || ph.Block() != r.Block() {
				// the value is returned as it is: the way to this return must have tested 'value > max' false
				cs := newCondSpace(bo, recOf(ltAtom("over", maxF, isVal(cv.X))), "over")
				if imp, wit := cs.Implies(cs.Reach(r), cs.Not(cs.Atom("over"))); !imp || !cs.Seen("over") {
					okClamp = false
					why = "a value can be returned without having been compared against the maximum: " + wit
				}
				continue
			}
			good := true
			for ei, e := range ph.Edges {
				pred := ph.Block().Preds[ei]
				cs := newCondSpace(bo, recOf(ltAtom("over", maxF, isVal(e))), "over")
				edge := cs.False()
				for si, sb := range pred.Succs {
					if sb == ph.Block() {
						edge = or(edge, cs.EdgeCond(pred, si))
					}
				}
				if maxF(e) {
					continue // the maximum itself
				}
				if imp, wit := cs.Implies(edge, cs.Not(cs.Atom("over"))); !imp || !cs.Seen("over") {
					good = false
					why = "a value can be returned without having been compared against the maximum: " + wit
				}
			}
			if !good {
				okClamp = false
			}
		}
		c.check(okClamp, "C18.clamp", "backoff: upper bound", p.pos(bo.Pos()), "the returned duration is the maximum, or a value for which 'value > max' was tested false on that path", why)
		// necessary for "at least the base delay" and "non-decreasing in the retry count": inside the loop the
		// delay is only ever multiplied by a constant ≥ 1 (and the loop variable is the value later clamped)
		growOK, nmul := true, 0
		for _, l := range loopsOf(bo) {
			for b := range l.Blocks {
				for _, in := range b.Instrs {
					x, ok := in.(*ssa.BinOp)
					if !ok || !isFloat(x.Type()) {
						continue
					}
					switch x.Op {
					case token.MUL:
						nmul++
						var k float64 = -1
						for _, side := range []ssa.Value{x.X, x.Y} {
							if cst, isC := side.(*ssa.Const); isC && cst.Value != nil {
								k, _ = constant.Float64Val(constant.ToFloat(cst.Value))
							}
						}
						if k < 1 {
							growOK = false
						}
					case token.SUB, token.QUO, token.ADD:
						growOK = false
					}
				}
			}
		}
		c.check(growOK && nmul == 1, "C18.clamp", "backoff: growth factor", p.pos(bo.Pos()), "each retry multiplies the delay by one constant factor ≥ 1 (necessary for ≥ base and for monotonicity in the retry count; the floating-point argument itself is not decided)", "the delay is not only multiplied by a constant factor ≥ 1 per retry")
		for i, l := range loopsOf(bo) {
			k, w2 := l.boundedKind()
			c.check(k != "", "C18.clamp", fmt.Sprintf("backoff loop#%d", i+1), p.pos(bo.Pos()), "bounded ("+k+"): "+w2, "the retry loop is not bounded by the retry counter")
		}
	}

	// ---- C18.header
	{
		hdr, trl := parse.Params[0], parse.Params[1]
		lookupOf := func(m ssa.Value) vpred {
			return func(v ssa.Value) bool {
				l, ok := stripConv(v).(*ssa.Lookup)
				if !ok || l.X != m {
					return false
				}
				k, isS := constString(l.Index)
				return isS && k == "server-timing"
			}
		}
		lenOf := func(x vpred) vpred {
			return func(v ssa.Value) bool {
				call, ok := stripConv(v).(*ssa.Call)
				return ok && calleeOf(&call.Call).Builtin == "len" && x(call.Call.Args[0])
			}
		}
		atoms := []atomDef{
			ltAtom("hdrNonEmpty", constIs(0), lenOf(lookupOf(hdr))),
			ltAtom("trlNonEmpty", constIs(0), lenOf(lookupOf(trl))),
			boolAtom("prefixed", func(v ssa.Value) bool {
				call, ok := staticCallNamed(v, "strings.HasPrefix")
				if !ok {
					return false
				}
				s, isS := constString(call.Call.Args[1])
				return isS && s == "gfet4t7; dur="
			}),
			eqAtom("parseOK", extractOf(1, callTo("strconv.ParseInt")), isNil),
		}
		cs := newCondSpace(parse, recOf(atoms...), atomNames(atoms...)...)
		A := cs.Atom
		// the entries that are tested for the prefix, and the slice they are elements of
		var tested []*ssa.Call
		eachInstr(parse, func(in ssa.Instruction) {
			if call, ok := staticCallNamed(valueOf(in), "strings.HasPrefix"); ok {
				if s, isS := constString(call.Call.Args[1]); isS && s == "gfet4t7; dur=" {
					tested = append(tested, call)
				}
			}
		})
		okSel := len(tested) == 1
		whySel := fmt.Sprintf("%d prefix tests", len(tested))
		var entry ssa.Value
		var scan *Loop
		if okSel {
			entry = tested[0].Call.Args[0]
			slice, isElem := elemOfSlice(entry)
			for _, l := range loopsOf(parse) {
				if l.Blocks[tested[0].Block()] && (scan == nil || len(l.Blocks) < len(scan.Blocks)) {
					scan = l
				}
			}
			if !isElem || scan == nil {
				okSel, whySel = false, "the tested entry is not an element of a scanned slice"
			} else {
				// what the scanned slice can be, and when
				n := 0
				for _, rv := range cs.ResolveWithConds(slice, cs.ReachBlock(scan.Header)) {
					n++
					var want Bits
					switch {
					case lookupOf(hdr)(rv.V):
						want = A("hdrNonEmpty")
					case lookupOf(trl)(rv.V):
						want = cs.And(cs.Not(A("hdrNonEmpty")), A("trlNonEmpty"))
					case isNilConst(rv.V):
						want = cs.And(cs.Not(A("hdrNonEmpty")), cs.Not(A("trlNonEmpty")))
					default:
						okSel, whySel = false, "the scanned slice can be "+vstr(rv.V)
						continue
					}
					if imp, wit := cs.Implies(rv.C, want); !imp {
						okSel, whySel = false, "the scanned slice is "+vstr(rv.V)+" although "+wit
					}
				}
				if n == 0 || !cs.Seen("hdrNonEmpty") || !cs.Seen("trlNonEmpty") {
					okSel, whySel = false, "header / trailer emptiness is not tested"
				}
			}
		}
		c.check(okSel, "C18.header", "parseT4T7Latency: header before trailer", p.pos(parse.Pos()), "the header's server-timing values are scanned when non-empty, the trailer's only when the header has none", "the server-timing header is not preferred over the trailer: "+whySel)
		// exits: success ⇒ this entry is prefixed and its number parsed, value = parsed milliseconds; errors carry 0
		nOK, okSucc, okErr := 0, true, true
		whySucc, whyErr := "", ""
		var posSucc, posErr string
		for _, vr := range cs.VirtualReturns() {
			errV := stripConv(vr.Vals[1])
			if isNilConst(errV) {
				nOK++
				posSucc = p.ipos(vr.Ret)
				imp, wit := cs.Implies(vr.Cond, cs.And(A("prefixed"), A("parseOK")))
				if !imp {
					okSucc, whySucc = false, "a duration is returned although "+wit
				}
				val := false
				if mul, ok := stripConv(vr.Vals[0]).(*ssa.BinOp); ok && mul.Op == token.MUL {
					x, y := mul.X, mul.Y
					if _, isC := constInt(x); isC {
						x, y = y, x
					}
					ms, isC := constInt(y)
					// what the multiplied number can be on the ways to this exit (it may have travelled through the
					// results of a helper that also has a "no match" exit)
					cands := cs.ResolveUnder(x, vr.Cond)
					val = isC && ms == 1000000 && len(cands) > 0
					for _, cand := range cands {
						good := false
						if ex, isE := stripConv(cand).(*ssa.Extract); isE && ex.Index == 0 {
							if pc, isP := staticCallNamed(ex.Tuple, "strconv.ParseInt"); isP && entry != nil && restAfterPrefix(pc.Call.Args[0], entry, "gfet4t7; dur=") {
								if base, isB := constInt(pc.Call.Args[1]); isB && base == 10 {
									good = true
								}
							}
						}
						if !good {
							val = false
						}
					}
				}
				if !val {
					okSucc, whySucc = false, "the returned duration is not the decimal number after the tested entry's prefix, in milliseconds"
				}
				continue
			}
			if !certainlyNonNil(errV) {
				okErr, whyErr, posErr = false, "an exit whose error may or may not be nil: "+vstr(errV), p.ipos(vr.Ret)
				continue
			}
			if z, isZ := constInt(vr.Vals[0]); !isZ || z != 0 {
				okErr, whyErr, posErr = false, "error return with a non-zero duration", p.ipos(vr.Ret)
			}
		}
		if posSucc == "" {
			posSucc = p.pos(parse.Pos())
		}
		if posErr == "" {
			posErr = p.pos(parse.Pos())
		}
		c.check(nOK >= 1 && okSucc, "C18.header", "parseT4T7Latency: success exits", posSucc, "success ⇒ the entry has the gfet4t7 prefix and its number parsed; result = parsed milliseconds of that entry", fmt.Sprintf("%d success exits; %s", nOK, whySucc))
		c.check(okErr, "C18.header", "parseT4T7Latency: error exits", posErr, "error returns carry a zero duration", whyErr)
		// the first prefixed entry decides: the scan goes on to the next entry only past entries without the prefix
		okFirst, whyFirst := scan != nil && len(scan.Latch) > 0, "no scan loop"
		if scan != nil {
			for _, latch := range scan.Latch {
				for si, sb := range latch.Succs {
					if sb != scan.Header {
						continue
					}
					if imp, wit := cs.Implies(cs.EdgeCond(latch, si), cs.Not(A("prefixed"))); !imp || !cs.Seen("prefixed") {
						okFirst, whyFirst = false, "the scan continues past a prefixed entry: "+wit
					}
				}
			}
		}
		c.check(okFirst, "C18.header", "parseT4T7Latency: first match returns", p.pos(parse.Pos()), "the scan moves on only past entries without the prefix (the first prefixed entry decides)", whyFirst)
		// no entry / both empty ⇒ error. Derived, not a condition of its own: with both lists empty the scanned slice is nil
		// (header-before-trailer above), so no entry is ever tested; a success exit implies a tested, prefixed entry
		// (success exits above); every exit is a success or an error exit; the scan is bounded. What remains to check here
		// is that some error exit exists that does not depend on an entry.
		bothEmpty := cs.And(cs.Not(A("hdrNonEmpty")), cs.Not(A("trlNonEmpty")))
		errReach := cs.False()
		for _, vr := range cs.VirtualReturns() {
			if certainlyNonNil(vr.Vals[1]) {
				errReach = or(errReach, vr.Cond)
			}
		}
		boundedScan := scan != nil
		if scan != nil {
			k, _ := scan.boundedKind()
			boundedScan = k != ""
		}
		c.check(okSel && okSucc && okErr && boundedScan && cs.Satisfiable(and(bothEmpty, errReach)), "C18.header", "parseT4T7Latency: absent ⇒ error", p.pos(parse.Pos()), "no server-timing values in header and trailer ⇒ nothing is scanned, no success exit is reachable, an error exit is", "absent server-timing metadata does not yield an error")
		// panic-capable indexing only by range counters
		okIdx := true
		eachInstr(parse, func(in ssa.Instruction) {
			if ia, ok := in.(*ssa.IndexAddr); ok {
				if _, isArr := ia.X.Type().Underlying().(*types.Pointer); isArr {
					if _, isC := constInt(ia.Index); isC {
						return // constant index into a fixed-size array (argument lists): checked by the compiler
					}
				}
				bounded := false
				for _, l := range loopsOf(parse) {
					if l.Blocks[ia.Block()] {
						if k, _ := l.boundedKind(); k != "" {
							if ph, step := l.counterStep(ia.Index); ph != nil && step > 0 {
								bounded = true
							}
						}
					}
				}
				if !bounded {
					okIdx = false
				}
			}
		})
		c.check(okIdx, "C18.header", "parseT4T7Latency: no unguarded index", p.pos(parse.Pos()), "slices are indexed only by range counters", "a slice is indexed without a bound")
	}

	// ---- C18.header (call sites): the first argument of the parser is the call's HEADER metadata, the second its TRAILER
	{
		var classify func(v ssa.Value, d int) string
		classify = func(v ssa.Value, d int) string {
			v = stripConv(v)
			if cv := cellValue(v); cv != v {
				v = stripConv(cv)
			}
			switch x := v.(type) {
			case *ssa.Call:
				if x.Call.IsInvoke() && x.Call.Method.Name() == "Trailer" {
					return "trailer"
				}
			case *ssa.Extract:
				if call, ok := x.Tuple.(*ssa.Call); ok && call.Call.IsInvoke() && call.Call.Method.Name() == "Header" && x.Index == 0 {
					return "header"
				}
			case *ssa.UnOp:
				if al, ok := x.X.(*ssa.Alloc); ok && x.Op == token.MUL {
					kind := ""
					for _, r := range *al.Referrers() {
						if call, ok := r.(*ssa.Call); ok {
							switch n := calleeOf(&call.Call).Name(); {
							case strings.HasSuffix(n, "grpc.Header"):
								kind = "header"
							case strings.HasSuffix(n, "grpc.Trailer"):
								kind = "trailer"
							}
						}
					}
					return kind
				}
			case *ssa.Parameter:
				if d > 2 {
					return ""
				}
				fn := x.Parent()
				idx := -1
				for i, q := range fn.Params {
					if q == x {
						idx = i
					}
				}
				kind, n := "", 0
				for _, g := range p.Funcs {
					eachInstr(g, func(in ssa.Instruction) {
						call, ok := in.(*ssa.Call)
						if !ok || !isCallTo(call, fn, p) || idx < 0 || idx >= len(call.Call.Args) {
							return
						}
						n++
						k := classify(call.Call.Args[idx], d+1)
						if n == 1 {
							kind = k
						} else if k != kind {
							kind = "mixed"
						}
					})
				}
				return kind
			}
			return ""
		}
		nsites := 0
		for _, g := range p.Funcs {
			eachInstr(g, func(in ssa.Instruction) {
				call, ok := in.(*ssa.Call)
				if !ok || !isCallTo(call, parse, p) || len(call.Call.Args) < 2 {
					return
				}
				nsites++
				k0, k1 := classify(call.Call.Args[0], 0), classify(call.Call.Args[1], 0)
				c.check(k0 == "header" && k1 == "trailer", "C18.header", "parseT4T7Latency called from "+fname(g)+": (header, trailer)", p.ipos(call), "the parser is given the call's header metadata first and its trailer metadata second", fmt.Sprintf("the parser's arguments are (%s, %s), expected (header, trailer): the preference of the header over the trailer is reversed or lost", orQ(k0), orQ(k1)))
			})
		}
		c.floor("C18.header:sites", nsites, 2)
	}

	// ---- C18.regex
	nameFlags := []string{"project", "opsProject", "instance_name", "database_name", "instanceConfig"}
	validated := map[string]bool{}
	{
		for _, fl := range nameFlags {
			construct := "flag " + fl
			var found *ssa.Call
			eachInstr(vf, func(in ssa.Instruction) {
				if call, ok := staticCallNamed(valueOf(in), "regexp.(*Regexp).MatchString"); ok && flagValue(call.Call.Args[1], fl) {
					found = call
				}
			})
			if found == nil {
				c.fail("C18.regex", construct, p.pos(vf.Pos()), "flag is used in resource names but is not matched against a pattern")
				continue
			}
			pat := ""
			for _, o := range origins(found.Call.Args[0]) {
				if e, ok := o.Val.(*ssa.Extract); ok {
					if cc, ok := e.Tuple.(*ssa.Call); ok && (strings.HasSuffix(calleeOf(&cc.Call).Name(), "regexp.Compile") || strings.HasSuffix(calleeOf(&cc.Call).Name(), "regexp.MustCompile")) {
						pat, _ = constString(cc.Call.Args[0])
					}
				}
				if cc, ok := o.Val.(*ssa.Call); ok && strings.HasSuffix(calleeOf(&cc.Call).Name(), "regexp.MustCompile") {
					pat, _ = constString(cc.Call.Args[0])
				}
			}
			okPat, whyPat := safeNamePattern(pat)
			// a failed match appends an error that reaches the result
			reported := false
			{
				vcs := newCondSpace(vf, recOf(boolAtom("match", isVal(found))), "match")
				appended := vcs.False()
				eachInstr(vf, func(in ssa.Instruction) {
					call, ok := in.(*ssa.Call)
					if !ok || calleeOf(&call.Call).Builtin != "append" || !dominatesInstr(found, call) {
						return
					}
					for _, r := range returnsOf(vf) {
						for _, o := range origins(r.Results[0]) {
							if o.Val == ssa.Value(call) || reachesThroughAppends(o.Val, call) {
								appended = or(appended, vcs.Reach(call))
								return
							}
						}
					}
				})
				if imp, _ := vcs.Implies(vcs.And(vcs.Reach(found), vcs.Not(vcs.Atom("match"))), appended); imp && vcs.Seen("match") {
					reported = true
				}
			}
			c.check(okPat && reported, "C18.regex", construct, p.ipos(found), fmt.Sprintf("matched against the constant pattern %q (%s); a failed match is reported", pat, whyPat), fmt.Sprintf("flag validation does not confine the value to a slash-free anchored class (pattern %q: %s; failure reported=%v)", pat, whyPat, reported))
			if okPat && reported {
				validated[fl] = true
			}
		}
	}

	// ---- C18.uri
	{
		fieldFlag := map[string]string{"ProberOptions.Project": "project", "ProberOptions.Instance": "instance_name", "ProberOptions.Database": "database_name", "ProberOptions.InstanceConfig": "instanceConfig"}
		for field, fl := range fieldFlag {
			ok := false
			n := 0
			eachInstr(mainFn, func(in ssa.Instruction) {
				st, isS := in.(*ssa.Store)
				if !isS {
					return
				}
				fa, isFA := st.Addr.(*ssa.FieldAddr)
				if !isFA || fieldRefOfAddr(fa) != field {
					return
				}
				n++
				if flagValue(st.Val, fl) {
					ok = true
				} else {
					ok = false
				}
			})
			c.check(ok && n == 1 && validated[fl], "C18.uri", field+" ← flag "+fl, p.pos(mainFn.Pos()), "the option field is a plain copy of the validated flag", "the option field is not a plain copy of a validated flag")
		}
		builders := map[string]struct {
			format string
			fields []string
		}{
			"(*ProberOptions).instanceURI":       {"projects/%s/instances/%s", []string{"ProberOptions.Project", "ProberOptions.Instance"}},
			"(*ProberOptions).instanceConfigURI": {"projects/%s/instanceConfigs/%s", []string{"ProberOptions.Project", "ProberOptions.InstanceConfig"}},
			"(*ProberOptions).projectURI":        {"projects/%s", []string{"ProberOptions.Project"}},
			"(*ProberOptions).databaseURI":       {"projects/%s/instances/%s/databases/%s", []string{"ProberOptions.Project", "ProberOptions.Instance", "ProberOptions.Database"}},
		}
		for name, spec := range builders {
			fn := need("prober", name)
			if fn == nil {
				continue
			}
			// symbolic template of the returned string (Sprintf with %s/%v, concatenation, other builders of the same
			// receiver are expanded), compared with the expected literal segments and fields
			want := spec.format
			for _, fld := range spec.fields {
				want = strings.Replace(want, "%s", "{"+fld+"}", 1)
			}
			good := true
			nret := 0
			for _, r := range returnsOf(fn) {
				nret++
				got, ok := strTemplate(p, r.Results[0], fn.Params[0], 0)
				if !ok || got != want {
					good = false
				}
			}
			good = good && nret > 0
			c.check(good, "C18.uri", name, p.pos(fn.Pos()), fmt.Sprintf("returns Sprintf(%q, %s)", spec.format, strings.Join(spec.fields, ", ")), "resource name is not built from exactly the validated option fields with the expected literal segments")
		}
		// no other place formats resource paths
		other := 0
		for _, fn := range p.Funcs {
			if _, isB := builders[fname(fn)]; isB {
				continue
			}
			eachInstr(fn, func(in ssa.Instruction) {
				if call, ok := staticCallNamed(valueOf(in), "fmt.Sprintf"); ok {
					if f, isS := constString(call.Call.Args[0]); isS && (strings.Contains(f, "projects/") || strings.Contains(f, "instances/") || strings.Contains(f, "databases/")) {
						other++
						c.fail("C18.uri", "resource path formatted in "+fname(fn), p.ipos(call), "a Spanner resource path is formatted outside the checked builders")
					}
				}
			})
		}
	}

	// ---- C18.type
	{
		// every constant the argument is compared with becomes an atom; success must be reached exactly under the six names
		tprm := ppt.Params[0]
		names := map[string]bool{}
		eachInstr(ppt, func(in ssa.Instruction) {
			bo, ok := in.(*ssa.BinOp)
			if !ok || (bo.Op != token.EQL && bo.Op != token.NEQ) {
				return
			}
			for _, pair := range [][2]ssa.Value{{bo.X, bo.Y}, {bo.Y, bo.X}} {
				if s, isS := constString(pair[1]); isS && isVal(tprm)(pair[0]) {
					names[s] = true
				}
			}
		})
		var defs []atomDef
		var sorted []string
		for n := range names {
			sorted = append(sorted, n)
		}
		sort.Strings(sorted)
		for _, n := range sorted {
			n := n
			defs = append(defs, eqAtom("t="+n, isVal(tprm), func(v ssa.Value) bool { s, ok := constString(v); return ok && s == n }))
		}
		cs := newCondSpace(ppt, recOf(defs...), atomNames(defs...)...)
		cs.ExclusiveAtoms(atomNames(defs...)...)
		want := []string{"noop", "stale_read", "strong_query", "stale_query", "dml", "read_write"}
		okType, whyType := true, ""
		wantC := cs.False()
		for _, wnt := range want {
			if !names[wnt] {
				okType, whyType = false, "the name "+wnt+" is never tested"
				continue
			}
			wantC = or(wantC, cs.Atom("t="+wnt))
		}
		succ, fail := cs.False(), cs.False()
		nNil := 0
		for _, vr := range cs.VirtualReturns() {
			errV := stripConv(vr.Vals[1])
			switch {
			case isNilConst(errV):
				nNil++
				succ = or(succ, vr.Cond)
			case certainlyNonNil(errV):
				fail = or(fail, vr.Cond)
			default:
				okType, whyType = false, "an exit whose error may or may not be nil: "+vstr(errV)
			}
		}
		if okType {
			// every exit is a success or an error (classified above); successes only under the six names, errors only
			// outside them: since the function returns on every way, this is "nil error ⇔ one of the six names"
			if imp, wit := cs.Implies(cs.OnlyNamed(succ), wantC); !imp {
				okType, whyType = false, "a nil error is returned for another name: "+wit
			}
			if imp, wit := cs.Implies(cs.OnlyNamed(fail), cs.Not(wantC)); !imp {
				okType, whyType = false, "an error can be returned for one of the six names: "+wit
			}
		}
		c.check(okType && nNil > 0, "C18.type", "ParseProbeType", p.pos(ppt.Pos()), "a nil error is returned exactly for the six literal probe types; anything else yields an error", fmt.Sprintf("probe-type parsing (names compared: %v, nil-error exits: %d): %s", sorted, nNil, whyType))
		// validation: ParseProbeType(flag) failing ⇒ its error is appended to the result
		okV := false
		whyV := "an unparsable probe type is not reported by flag validation"
		eachInstr(vf, func(in ssa.Instruction) {
			call, ok := in.(*ssa.Call)
			if !ok || !isCallTo(call, ppt, p) || !flagValue(call.Call.Args[0], "probeType") {
				return
			}
			var errV ssa.Value
			for _, r := range *call.Referrers() {
				if e, isE := r.(*ssa.Extract); isE && e.Index == 1 {
					errV = e
				}
			}
			if errV == nil {
				return
			}
			vcs := newCondSpace(vf, recOf(eqAtom("perr=nil", isVal(errV), isNil)), "perr=nil")
			appended := vcs.False()
			eachInstr(vf, func(in2 ssa.Instruction) {
				ap, ok := in2.(*ssa.Call)
				if !ok || calleeOf(&ap.Call).Builtin != "append" || !dominatesInstr(call, ap) {
					return
				}
				for _, a := range variadicArgs(ap.Call.Args[1]) {
					if cellValue(a) != cellValue(errV) {
						continue
					}
					// the appended slice must be what is returned
					for _, r := range returnsOf(vf) {
						for _, o := range origins(r.Results[0]) {
							if o.Val == ssa.Value(ap) || reachesThroughAppends(o.Val, ap) {
								appended = or(appended, vcs.Reach(ap))
							}
						}
					}
				}
			})
			after := vcs.Reach(call)
			if imp, wit := vcs.Implies(vcs.And(after, vcs.Not(vcs.Atom("perr=nil"))), appended); imp && vcs.Seen("perr=nil") {
				okV = true
			} else {
				whyV = "ParseProbeType's error is not appended to the returned errors whenever it is non-nil: " + wit
			}
		})
		c.check(okV, "C18.type", "validateFlags reports an unparsable probe type", p.pos(vf.Pos()), "ParseProbeType(flag)'s error is appended to the validation errors", whyV)
	}

	// ---- C18.interval
	{
		// the qps error block and the comparisons on the qps flag
		var errBlock *ssa.BasicBlock
		eachInstr(vf, func(in ssa.Instruction) {
			if call, ok := staticCallNamed(valueOf(in), "fmt.Errorf"); ok {
				if f, isS := constString(call.Call.Args[0]); isS && strings.HasPrefix(f, "qps ") {
					errBlock = call.Block()
				}
			}
		})
		cs := newCondSpace(vf, nil)
		// leaves of the validation predicate that depend (only) on the qps flag and constants
		var evalF func(v ssa.Value, q float64, d int) (float64, bool)
		evalF = func(v ssa.Value, q float64, d int) (float64, bool) {
			if d > 8 {
				return 0, false
			}
			v = stripConv(v)
			if flagValue(v, "qps") {
				return q, true
			}
			switch x := v.(type) {
			case *ssa.Const:
				if x.Value == nil {
					return 0, false
				}
				f, _ := constant.Float64Val(constant.ToFloat(x.Value))
				return f, true
			case *ssa.Convert:
				return evalF(x.X, q, d+1)
			case *ssa.BinOp:
				a, ok1 := evalF(x.X, q, d+1)
				b, ok2 := evalF(x.Y, q, d+1)
				if !ok1 || !ok2 {
					return 0, false
				}
				switch x.Op {
				case token.ADD:
					return a + b, true
				case token.SUB:
					return a - b, true
				case token.MUL:
					return a * b, true
				case token.QUO:
					return a / b, true
				}
			}
			return 0, false
		}
		mentionsQPS := func(v ssa.Value) bool {
			_, ok := evalF(v, 1, 0)
			if !ok {
				return false
			}
			a, _ := evalF(v, 1, 0)
			b, _ := evalF(v, 2, 0)
			return a != b
		}
		type leaf struct{ idx int }
		var leaves []leaf
		for i, val := range cs.VarVal {
			b, ok := val.(*ssa.BinOp)
			if !ok {
				continue
			}
			if mentionsQPS(b.X) || mentionsQPS(b.Y) {
				if _, ok1 := evalF(b.X, 1, 0); ok1 {
					if _, ok2 := evalF(b.Y, 1, 0); ok2 {
						leaves = append(leaves, leaf{i})
					}
				}
			}
		}
		if errBlock == nil || len(leaves) == 0 {
			c.fail("C18.interval", "qps validation", p.pos(vf.Pos()), "the qps range test was not found in validateFlags")
		} else {
			reach := cs.ReachBlock(errBlock)
			// the interval expression: float64(time.Second) / qps converted to Duration
			num := 1e9
			eachInstr(pi, func(in ssa.Instruction) {
				if b, ok := in.(*ssa.BinOp); ok && b.Op == token.QUO {
					if cst, ok := b.X.(*ssa.Const); ok && cst.Value != nil {
						num, _ = constant.Float64Val(constant.ToFloat(cst.Value))
					}
				}
			})
			probes := []float64{math.NaN(), 5e-324, 1e-10, 1.08e-10, 1.09e-10, 1e-9, 0.5, 1, 1000, math.Nextafter(1000, 2000), math.Inf(1), 0, math.Copysign(0, -1), -1}
			for _, v := range probes {
				b := reach
				for _, lf := range leaves {
					bo2 := cs.VarVal[lf.idx].(*ssa.BinOp)
					a, _ := evalF(bo2.X, v, 0)
					k, _ := evalF(bo2.Y, v, 0)
					var t bool
					switch bo2.Op {
					case token.LSS:
						t = a < k
					case token.LEQ:
						t = a <= k
					case token.GTR:
						t = a > k
					case token.GEQ:
						t = a >= k
					case token.EQL:
						t = a == k
					case token.NEQ:
						t = a != k
					}
					// IEEE: the normalised variable (e.g. "x < y" standing for ¬(x >= y)) is not valid for NaN operands;
					// evaluate the concrete comparison and constrain the variable through the leaf's own polarity
					f, ok := cs.EvalValue(bo2)
					if !ok {
						continue
					}
					if t {
						b = and(b, f)
					} else {
						b = and(b, cs.not(f))
					}
				}
				rejected := cs.Satisfiable(b)
				construct := fmt.Sprintf("qps=%v", v)
				if rejected {
					c.okTrivial("C18.interval", construct, p.pos(vf.Pos()), "rejected by flag validation")
					continue
				}
				iv := num / v
				okIv := iv >= 1 && iv < float64(math.MaxInt64) && !math.IsNaN(iv)
				c.check(okIv, "C18.interval", construct, p.pos(vf.Pos()), fmt.Sprintf("accepted; interval %.4g ns is a positive in-range duration", iv),
					fmt.Sprintf("qps=%v is accepted by flag validation but float64(time.Second)/qps = %v is not a positive in-range time.Duration: the conversion yields a non-positive interval and time.NewTicker panics", v, iv))
			}
		}
		// the flag reaches Prober.qps by plain copies
		okCopy := false
		eachInstr(mainFn, func(in ssa.Instruction) {
			if st, ok := in.(*ssa.Store); ok {
				if fa, ok := st.Addr.(*ssa.FieldAddr); ok && fieldRefOfAddr(fa) == "ProberOptions.QPS" && flagValue(st.Val, "qps") {
					okCopy = true
				}
			}
		})
		okCopy2, nq := true, 0
		for _, fn := range p.Funcs {
			eachInstr(fn, func(in ssa.Instruction) {
				if st, ok := in.(*ssa.Store); ok {
					if fa, ok := st.Addr.(*ssa.FieldAddr); ok && fieldRefOfAddr(fa) == "Prober.qps" {
						nq++
						if f, _, isL := loadedField(st.Val); !isL || f != "ProberOptions.QPS" {
							okCopy2 = false
						}
					}
					if fa, ok := st.Addr.(*ssa.FieldAddr); ok && fieldRefOfAddr(fa) == "ProberOptions.QPS" && !flagValue(st.Val, "qps") {
						okCopy2 = false
					}
				}
			})
		}
		okCopy2 = okCopy2 && nq >= 1
		c.check(okCopy && okCopy2, "C18.interval", "qps flag reaches Prober.qps unchanged", p.pos(newProber.Pos()), "flag → ProberOptions.QPS → Prober.qps by plain copies", "the validated qps is not what the prober divides by")
	}

	// ---- C18.hash
	{
		var gen *ssa.Function
		for _, fn := range p.Funcs {
			if fn.Pkg.Pkg.Name() == "prober" && strings.HasPrefix(fn.Name(), "init$") && fn.Signature.Results().Len() == 3 {
				gen = fn
			}
		}
		if gen == nil {
			c.fail("C18.hash", "generatePayload", "-", "payload generator not found")
		} else {
			hcs := newCondSpace(gen, recOf(eqAtom("werr=nil", func(v ssa.Value) bool { return isErrorResultOf(v, "Write") }, isNil)), "werr=nil")
			okH, nSucc := true, 0
			whyH := ""
			same := func(a, b ssa.Value) bool { return cellValue(a) == cellValue(b) }
			for _, vr := range hcs.VirtualReturns() {
				errV := stripConv(vr.Vals[2])
				if !isNilConst(errV) {
					nonNil := certainlyNonNil(errV)
					if !nonNil && isErrorResultOf(errV, "Write") {
						nonNil, _ = hcs.Implies(vr.Cond, hcs.Not(hcs.Atom("werr=nil")))
					}
					if !nonNil {
						okH, whyH = false, "an exit whose error may or may not be nil: "+vstr(errV)
					}
					continue
				}
				nSucc++
				payload := vr.Vals[0]
				good := false
				switch hv := cellValue(vr.Vals[1]).(type) {
				case *ssa.Call:
					// h.Sum(nil) with h = sha256.New() written exactly once, with exactly the returned slice, before
					if hv.Call.IsInvoke() && hv.Call.Method.Name() == "Sum" && isNilConst(hv.Call.Args[0]) {
						h := hv.Call.Value
						_, isNew := staticCallNamed(h, "sha256.New")
						writes, wOK, other := 0, false, false
						eachInstr(gen, func(in ssa.Instruction) {
							call, ok := in.(*ssa.Call)
							if !ok || !call.Call.IsInvoke() || call.Call.Value != h || call == hv {
								return
							}
							switch call.Call.Method.Name() {
							case "Write":
								writes++
								if same(call.Call.Args[0], payload) && dominatesInstr(call, hv) {
									wOK = true
								}
							case "Size", "BlockSize":
							default:
								other = true
							}
						})
						good = isNew && writes == 1 && wOK && !other
					}
				case *ssa.Slice:
					// sum := sha256.Sum256(payload); sum[:]
					if a, isA := hv.X.(*ssa.Alloc); isA && hv.Low == nil && hv.High == nil {
						if sts := storesTo(a); len(sts) == 1 {
							if call, ok := staticCallNamed(sts[0].Val, "sha256.Sum256"); ok && same(call.Call.Args[0], payload) {
								good = true
							}
						}
					}
				}
				if !good {
					okH, whyH = false, "the returned hash is not the SHA-256 of the returned payload"
				}
			}
			okH = okH && nSucc > 0
			c.check(okH, "C18.hash", "generatePayload", p.pos(gen.Pos()), "returns (payload, sha256(payload)): one Write of exactly the returned slice, then Sum(nil)", fmt.Sprintf("%d success exits; %s", nSucc, whyH))
		}
	}
}

// ifOn returns the If instruction controlled directly by v.
func orQ(s string) string {
	if s == "" {
		return "?"
	}
	return s
}

// isErrorResultOf: v is the error result of a call of the named method / function.
func isErrorResultOf(v ssa.Value, name string) bool {
	ex, ok := stripConv(v).(*ssa.Extract)
	if !ok {
		return false
	}
	call, ok := ex.Tuple.(*ssa.Call)
	if !ok {
		return false
	}
	if call.Call.IsInvoke() {
		return call.Call.Method.Name() == name
	}
	return strings.HasSuffix(calleeOf(&call.Call).Name(), name)
}

// elemOfSlice: v is an element read from a slice (range value, s[i]); returns the slice.
func elemOfSlice(v ssa.Value) (ssa.Value, bool) {
	v = stripConv(v)
	if cv := cellValue(v); cv != v {
		v = stripConv(cv)
	}
	switch x := v.(type) {
	case *ssa.Extract:
		if nx, ok := x.Tuple.(*ssa.Next); ok && x.Index == 2 {
			if rng, ok := nx.Iter.(*ssa.Range); ok {
				return rng.X, true
			}
		}
	case *ssa.UnOp:
		if ia, ok := x.X.(*ssa.IndexAddr); ok && x.Op == token.MUL {
			return ia.X, true
		}
	case *ssa.Index:
		return x.X, true
	}
	return nil, false
}

// restAfterPrefix: v is what follows the constant prefix in entry: strings.TrimPrefix(entry, prefix), entry[len(prefix):],
// or the first result of strings.CutPrefix(entry, prefix).
func restAfterPrefix(v, entry ssa.Value, prefix string) bool {
	v = stripConv(v)
	same := func(a ssa.Value) bool { return stripConv(a) == stripConv(entry) || kstr(a) == kstr(entry) }
	isPrefix := func(a ssa.Value) bool { s, ok := constString(a); return ok && s == prefix }
	if call, ok := staticCallNamed(v, "strings.TrimPrefix"); ok {
		return same(call.Call.Args[0]) && isPrefix(call.Call.Args[1])
	}
	if ex, ok := v.(*ssa.Extract); ok && ex.Index == 0 {
		if call, ok := staticCallNamed(ex.Tuple, "strings.CutPrefix"); ok {
			return same(call.Call.Args[0]) && isPrefix(call.Call.Args[1])
		}
	}
	if sl, ok := v.(*ssa.Slice); ok && sl.High == nil && sl.Low != nil && same(sl.X) {
		if n, isC := constInt(sl.Low); isC && n == int64(len(prefix)) {
			return true
		}
	}
	return false
}

func ifOn(v ssa.Value) *ssa.If {
	if v.Referrers() == nil {
		return nil
	}
	for _, r := range *v.Referrers() {
		if iff, ok := r.(*ssa.If); ok {
			return iff
		}
	}
	return nil
}

// reachesThroughAppends: v is derived from call by further appends / phis.
func reachesThroughAppends(v ssa.Value, call *ssa.Call) bool {
	seen := map[ssa.Value]bool{}
	var walk func(x ssa.Value) bool
	walk = func(x ssa.Value) bool {
		if x == nil || seen[x] {
			return false
		}
		seen[x] = true
		if x == ssa.Value(call) {
			return true
		}
		switch y := x.(type) {
		case *ssa.Phi:
			for _, e := range y.Edges {
				if walk(e) {
					return true
				}
			}
		case *ssa.Call:
			if calleeOf(&y.Call).Builtin == "append" {
				return walk(y.Call.Args[0])
			}
		}
		return false
	}
	return walk(v)
}

// safeNamePattern: the pattern is ^ <class>* $ (single-line) and the class contains neither '/' nor newline.
func safeNamePattern(pat string) (bool, string) {
	if pat == "" {
		return false, "no constant pattern"
	}
	re, err := syntax.Parse(pat, syntax.Perl)
	if err != nil {
		return false, "pattern does not parse: " + err.Error()
	}
	re = re.Simplify()
	if re.Op != syntax.OpConcat || len(re.Sub) < 2 {
		return false, "not a concatenation ^…$"
	}
	if re.Sub[0].Op != syntax.OpBeginText {
		return false, "not anchored at the beginning of the text"
	}
	last := re.Sub[len(re.Sub)-1]
	if last.Op != syntax.OpEndText {
		return false, "not anchored at the end of the text"
	}
	for _, mid := range re.Sub[1 : len(re.Sub)-1] {
		inner := mid
		switch mid.Op {
		case syntax.OpStar, syntax.OpPlus, syntax.OpQuest, syntax.OpRepeat:
			inner = mid.Sub[0]
		}
		switch inner.Op {
		case syntax.OpCharClass:
			for i := 0; i+1 < len(inner.Rune); i += 2 {
				lo, hi := inner.Rune[i], inner.Rune[i+1]
				if lo <= '/' && '/' <= hi {
					return false, "class admits '/'"
				}
				if lo <= '\n' && '\n' <= hi {
					return false, "class admits newline"
				}
			}
		case syntax.OpLiteral:
			for _, r := range inner.Rune {
				if r == '/' || r == '\n' {
					return false, "literal '/' or newline"
				}
			}
		default:
			return false, "body is not a character class (" + inner.Op.String() + ")"
		}
	}
	return true, "anchored, slash-free, newline-free class"
}

func isFloat(t types.Type) bool {
	b, ok := t.Underlying().(*types.Basic)
	return ok && b.Info()&types.IsFloat != 0
}

// strTemplate: the string value v as a template over the fields of recv: literals verbatim, a field load as
// "{Type.Field}". Understands constants, fmt.Sprintf with only %s / %v verbs, string concatenation, phis whose edges
// agree, and calls of other one-receiver methods/functions of the module on the same receiver (expanded).
func strTemplate(p *Prog, v ssa.Value, recv ssa.Value, depth int) (string, bool) {
	if depth > 6 {
		return "", false
	}
	v = stripConv(v)
	if s, ok := constString(v); ok {
		return s, true
	}
	if fld, base, ok := loadedField(v); ok {
		if stripConv(base) == recv || originsAll(base, func(o Origin) bool { return o.Val == recv }) {
			return "{" + fld + "}", true
		}
		return "", false
	}
	switch x := v.(type) {
	case *ssa.BinOp:
		if x.Op == token.ADD {
			a, ok1 := strTemplate(p, x.X, recv, depth+1)
			b, ok2 := strTemplate(p, x.Y, recv, depth+1)
			return a + b, ok1 && ok2
		}
	case *ssa.Phi:
		out := ""
		for i, e := range x.Edges {
			t, ok := strTemplate(p, e, recv, depth+1)
			if !ok || (i > 0 && t != out) {
				return "", false
			}
			out = t
		}
		return out, len(x.Edges) > 0
	case *ssa.UnOp:
		// load of a local cell assigned once
		if al, ok := x.X.(*ssa.Alloc); ok {
			sts := storesTo(al)
			if len(sts) == 1 {
				return strTemplate(p, sts[0].Val, recv, depth+1)
			}
		}
	case *ssa.Call:
		if call, ok := staticCallNamed(x, "fmt.Sprintf"); ok {
			format, isS := constString(call.Call.Args[0])
			if !isS {
				return "", false
			}
			args := variadicArgs(call.Call.Args[1])
			out, ai := "", 0
			for i := 0; i < len(format); i++ {
				if format[i] != '%' {
					out += string(format[i])
					continue
				}
				if i+1 >= len(format) {
					return "", false
				}
				i++
				switch format[i] {
				case '%':
					out += "%"
				case 's', 'v':
					if ai >= len(args) {
						return "", false
					}
					if _, isStr := stripConv(args[ai]).Type().Underlying().(*types.Basic); !isStr {
						return "", false
					}
					t, ok := strTemplate(p, args[ai], recv, depth+1)
					if !ok {
						return "", false
					}
					out += t
					ai++
				default:
					return "", false
				}
			}
			return out, ai == len(args)
		}
		if callee := calleeOf(&x.Call).Static; callee != nil && callee.Blocks != nil && len(callee.Params) == 1 && len(x.Call.Args) == 1 {
			if a := stripConv(x.Call.Args[0]); a == recv || originsAll(a, func(o Origin) bool { return o.Val == recv }) {
				out, n := "", 0
				for _, r := range returnsOf(callee) {
					t, ok := strTemplate(p, r.Results[0], callee.Params[0], depth+1)
					if !ok || (n > 0 && t != out) {
						return "", false
					}
					out = t
					n++
				}
				return out, n > 0
			}
		}
	}
	return "", false
}
