package main

import (
	"fmt"
	"go/token"
	"go/types"
	"strings"

	"golang.org/x/tools/go/ssa"
)

// lemmas: machine-checked global facts that discharge panic obligations no local guard can.
type lemmas struct {
	pl      *pool
	scope   map[*ssa.Function]bool
	cache   map[string]lemmaResult
	used    map[string]int
	barrier map[*ssa.Function]string
}

type lemmaResult struct {
	ok  bool
	why string
	pos string
}

func newLemmas(pl *pool, scope map[*ssa.Function]bool) *lemmas {
	l := &lemmas{pl: pl, scope: scope, cache: map[string]lemmaResult{}, used: map[string]int{}, barrier: map[*ssa.Function]string{}}
	// functions all of whose callers (transitively, within scope) are behind a recover barrier
	p := pl.p
	var barriers []*ssa.Function
	for fn := range scope {
		if ok, _ := hasRecoverBarrier(fn); ok {
			barriers = append(barriers, fn)
		}
	}
	for _, b := range barriers {
		// callees reachable from b that have no caller outside that subtree
		sub := p.reachableModule(b)
		for changed := true; changed; {
			changed = false
			for f := range sub {
				if f == b {
					continue
				}
				for _, g := range p.Funcs {
					if sub[g] {
						continue
					}
					eachInstr(g, func(in ssa.Instruction) {
						if cc := callCommon(in); cc != nil {
							for _, callee := range p.calleesOf(cc) {
								if callee == f && sub[f] {
									delete(sub, f)
									changed = true
								}
							}
						}
					})
				}
			}
		}
		for f := range sub {
			if f != b {
				l.barrier[f] = fname(b)
			}
		}
	}
	return l
}

func (l *lemmas) behindRecoverBarrier(fn *ssa.Function) string { return l.barrier[fn] }

func (l *lemmas) get(name string, f func() lemmaResult) lemmaResult {
	if r, ok := l.cache[name]; ok {
		l.used[name]++
		return r
	}
	r := f()
	l.cache[name] = r
	l.used[name]++
	return r
}

// report emits one obligation per lemma that was needed.
func (l *lemmas) report() {
	for name, r := range l.cache {
		construct := fmt.Sprintf("%s (used by %d site(s))", name, l.used[name])
		if r.ok {
			l.pl.c.ok("C05.lemma", construct, r.pos, r.why)
		} else {
			l.pl.c.fail("C05.lemma", construct, r.pos, r.why)
		}
	}
}

// ---------- the lemmas ----------

// slotsNonNil: every value stored into gcpBalancer.scRefs / refreshingScRefs / scRefList and every element handed
// to a picker is a non-nil slot: a fresh allocation, a value that was dereferenced before the store, or a value
// read from one of these containers under the key-agreement lemma.
func (l *lemmas) slotsNonNil() lemmaResult {
	return l.get("slots-never-nil", func() lemmaResult {
		pl := l.pl
		p := pl.p
		bad := ""
		nonNil := func(v ssa.Value, at ssa.Instruction) bool {
			for _, o := range origins(v) {
				switch x := o.Val.(type) {
				case *ssa.Alloc:
					continue
				case *ssa.Parameter:
					// dereferenced earlier in the function (dominating field access) ⇒ non-nil here
					if derefDominates(x, at) {
						continue
					}
				case *ssa.Extract:
					// value of the comma-ok lookup in refreshingScRefs guarded by its flag, itself stored non-nil by refresh
					if lk, ok := x.Tuple.(*ssa.Lookup); ok && isLoadOf(lk.X, "gcpBalancer.refreshingScRefs") && x.Index == 0 {
						continue
					}
				case *ssa.Lookup:
					// read-back of an entry inserted just before in the same function
					if isLoadOf(x.X, "gcpBalancer.scRefs") && isNewSlot(x, at.Parent()) {
						continue
					}
					// scRefs[k] for a key of the scStates iteration: key agreement
					if isLoadOf(x.X, "gcpBalancer.scRefs") {
						if e, ok := x.Index.(*ssa.Extract); ok {
							if nx, ok := e.Tuple.(*ssa.Next); ok {
								if rng, ok := nx.Iter.(*ssa.Range); ok && isLoadOf(rng.X, "gcpBalancer.scStates") && l.keysAgree().ok {
									continue
								}
							}
						}
					}
				}
				bad = fmt.Sprintf("%s stored at %s", o, p.ipos(at))
				return false
			}
			return true
		}
		n := 0
		for _, field := range []string{"gcpBalancer.scRefs", "gcpBalancer.refreshingScRefs"} {
			for _, a := range pl.ai.ByField[field] {
				if mu, ok := a.Instr.(*ssa.MapUpdate); ok {
					n++
					if !nonNil(mu.Value, mu) {
						return lemmaResult{false, "a possibly nil slot is stored into " + field + ": " + bad, p.ipos(mu)}
					}
				}
			}
		}
		// scRefList: appended elements; gcpPicker.scRefs: snapshot elements (checked by C02.snapshot shape: scRefs[k] for k in scStates)
		for _, a := range pl.ai.ByField["gcpBalancer.scRefList"] {
			if st, ok := a.Instr.(*ssa.Store); ok && !freshAt(a.Base, a.Instr) {
				if app, ok := st.Val.(*ssa.Call); ok && calleeOf(&app.Call).Builtin == "append" {
					for _, e := range variadicArgs(app.Call.Args[1]) {
						n++
						if !nonNil(e, st) {
							return lemmaResult{false, "a possibly nil slot is appended to scRefList: " + bad, p.ipos(st)}
						}
					}
				}
			}
		}
		rp := pl.f("(*gcpBalancer).regeneratePicker")
		if rp != nil {
			eachInstr(rp, func(in ssa.Instruction) {
				if app, ok := in.(*ssa.Call); ok && calleeOf(&app.Call).Builtin == "append" {
					for _, e := range variadicArgs(app.Call.Args[1]) {
						n++
						if !nonNil(e, app) {
							bad = "picker snapshot element " + vstr(e) + " may be nil"
						}
					}
				}
			})
			if bad != "" {
				return lemmaResult{false, bad, p.pos(rp.Pos())}
			}
		}
		if n < 4 {
			return lemmaResult{false, "slot containers' writers not found", "-"}
		}
		return lemmaResult{true, fmt.Sprintf("all %d values stored into scRefs, refreshingScRefs, scRefList and picker snapshots are fresh allocations, previously dereferenced parameters, or read back from these containers under the key-agreement lemma", n), "-"}
	})
}

func derefDominates(v ssa.Value, at ssa.Instruction) bool {
	if v.Referrers() == nil {
		return false
	}
	for _, r := range *v.Referrers() {
		if fa, ok := r.(*ssa.FieldAddr); ok && fa.X == v && dominatesInstr(fa, at) {
			return true
		}
	}
	return false
}

// keysAgree: scStates and scRefs always have the same key set: every function inserts/deletes the same keys in both on every path.
func (l *lemmas) keysAgree() lemmaResult {
	return l.get("scStates/scRefs key agreement", func() lemmaResult {
		pl := l.pl
		p := pl.p
		for _, fn := range p.Funcs {
			type ev struct {
				in  ssa.Instruction
				key ssa.Value
			}
			var ins, del [2][]ev
			for i, field := range []string{"gcpBalancer.scStates", "gcpBalancer.scRefs"} {
				for _, a := range pl.ai.ByFn[fn] {
					if a.Field != field || freshAt(a.Base, a.Instr) {
						continue
					}
					switch x := a.Instr.(type) {
					case *ssa.MapUpdate:
						ins[i] = append(ins[i], ev{x, x.Key})
					case *ssa.Call:
						if a.What == "map-delete" {
							del[i] = append(del[i], ev{x, x.Call.Args[1]})
						}
					}
				}
			}
			match := func(a, b []ev, what string) string {
				for _, x := range a {
					found := false
					for _, y := range b {
						if kstr(x.key) == kstr(y.key) && (everyPathHits(x.in, map[ssa.Instruction]bool{y.in: true}) || dominatesInstr(y.in, x.in)) {
							found = true
						}
					}
					// re-recording the state of an existing key is not a key-set change
					if !found && what == "insert" {
						if mu, ok := x.in.(*ssa.MapUpdate); ok && isLoadOf(mu.Map, "gcpBalancer.scStates") {
							if l.insertOfKnownKey(fn, mu) {
								found = true
							}
						}
					}
					if !found {
						return fmt.Sprintf("%s of key %s at %s has no counterpart in the other map on every path", what, vstr(x.key), p.ipos(x.in))
					}
				}
				return ""
			}
			ensureEquiv(fn)
			for _, m := range []string{match(ins[0], ins[1], "insert"), match(ins[1], ins[0], "insert"), match(del[0], del[1], "delete"), match(del[1], del[0], "delete")} {
				if m != "" {
					return lemmaResult{false, fname(fn) + ": " + m, p.pos(fn.Pos())}
				}
			}
		}
		return lemmaResult{true, "every function that inserts or deletes a key in scStates does the same in scRefs on every path (and vice versa): both maps always have the same key set", "-"}
	})
}

// insertOfKnownKey: scStates[k] = v reached only when k is already present (comma-ok lookup of the same key was true).
func (l *lemmas) insertOfKnownKey(fn *ssa.Function, mu *ssa.MapUpdate) bool {
	rec := recOf(boolAtom("present", func(v ssa.Value) bool {
		e, ok := stripConv(v).(*ssa.Extract)
		if !ok || e.Index != 1 {
			return false
		}
		lk, ok := e.Tuple.(*ssa.Lookup)
		return ok && lk.CommaOk && isLoadOf(lk.X, "gcpBalancer.scStates") && lk.Index == mu.Key
	}))
	cs := newCondSpace(fn, rec, "present")
	imp, _ := cs.Implies(cs.Reach(mu), cs.Atom("present"))
	return imp && cs.Seen("present")
}

// cfgBeforePicks: gb.cfg is non-nil whenever a pool connection can exist (hence whenever a picker or completion closure runs).
func (l *lemmas) cfgBeforePicks() lemmaResult {
	return l.get("configuration set before any connection exists", func() lemmaResult {
		pl := l.pl
		p := pl.p
		uccs, ic := pl.f("(*gcpBalancer).UpdateClientConnState"), pl.f("(*gcpBalancer).initializeConfig")
		if uccs == nil || ic == nil {
			return lemmaResult{false, "anchors missing", "-"}
		}
		// (1) initializeConfig stores a non-nil gb.cfg before anything that can create a connection
		var firstStore ssa.Instruction
		for _, a := range pl.ai.ByFn[ic] {
			if a.Field == "gcpBalancer.cfg" && a.What == "store" && firstStore == nil {
				if freshObject(a.Instr.(*ssa.Store).Val) {
					firstStore = a.Instr // (that it precedes every creation is checked below, by dominance)
				}
			}
		}
		if firstStore == nil {
			return lemmaResult{false, "initializeConfig does not unconditionally store a fresh gb.cfg first", p.pos(ic.Pos())}
		}
		for _, a := range pl.ai.ByFn[ic] {
			if a.Field == "gcpBalancer.cfg" && a.What == "store" {
				if !freshObject(a.Instr.(*ssa.Store).Val) {
					return lemmaResult{false, "gb.cfg can be assigned a possibly nil value", p.ipos(a.Instr)}
				}
			}
		}
		creates := func(g *ssa.Function) bool {
			for k := range pl.sums.Trans[g].Calls {
				if strings.Contains(k, "ClientConn.NewSubConn") {
					return true
				}
			}
			return false
		}
		bad := ""
		eachInstr(ic, func(in ssa.Instruction) {
			if cc := callCommon(in); cc != nil {
				for _, g := range p.calleesOf(cc) {
					if creates(g) && !dominatesInstr(firstStore, in) {
						bad = "initializeConfig can create connections before gb.cfg is set"
					}
				}
			}
		})
		// (2) in UpdateClientConnState every creating call other than initializeConfig is reached only with gb.cfg != nil or after initializeConfig
		avoid := map[*ssa.BasicBlock]bool{}
		for _, call := range pl.callsIn(uccs, ic) {
			avoid[call.Block()] = true
		}
		cs := newCondSpaceAvoid(uccs, recOf(eqAtom("cfgNil", loadOf("gcpBalancer.cfg"), isNil)), avoid, "cfgNil")
		eachInstr(uccs, func(in ssa.Instruction) {
			if cc := callCommon(in); cc != nil {
				for _, g := range p.calleesOf(cc) {
					if g != ic && creates(g) {
						if imp, _ := cs.Implies(cs.Reach(in), cs.Not(cs.Atom("cfgNil"))); !imp {
							bad = "UpdateClientConnState can create a connection while gb.cfg is still nil (at " + p.ipos(in) + ")"
						}
					}
				}
			}
		})
		// (3) nobody resets gb.cfg
		for _, a := range pl.ai.ByField["gcpBalancer.cfg"] {
			if a.isWrite() && a.Fn != ic && !freshAt(a.Base, a.Instr) {
				bad = "gb.cfg is written outside initializeConfig"
			}
		}
		// (4) connections are created only via UpdateClientConnState or by code that runs on behalf of a picker/closure (which needs a connection to exist)
		if bad != "" {
			return lemmaResult{false, bad, p.pos(uccs.Pos())}
		}
		return lemmaResult{true, "gb.cfg is set (to a fresh object, never reset) before the first connection can be created; pickers and completion closures exist only for READY connections, so they never see gb.cfg == nil", "-"}
	})
}

// rrNonEmpty: len(scRefList) > 0 whenever the round-robin selection indexes it (premises of C09.lemma).
func (l *lemmas) rrNonEmpty() lemmaResult {
	return l.get("round-robin list non-empty", func() lemmaResult {
		pl := l.pl
		p := pl.p
		add, gai := pl.f("(*gcpBalancer).addSubConn"), pl.f("(*gcpPicker).getAndIncrementSubConnRef")
		if add == nil || gai == nil || pl.pick == nil {
			return lemmaResult{false, "anchors missing", "-"}
		}
		for _, f := range p.Funcs {
			bad := false
			eachInstr(f, func(in ssa.Instruction) {
				if al, ok := in.(*ssa.Alloc); ok && shortType(al.Type()) == "*grpcgcp.subConnRef" && al.Heap && f != add {
					bad = true
				}
			})
			if bad {
				return lemmaResult{false, "slots are allocated outside addSubConn (in " + fname(f) + ")", p.pos(f.Pos())}
			}
		}
		napp := 0
		for _, a := range pl.ai.ByField["gcpBalancer.scRefList"] {
			if !a.isWrite() || freshAt(a.Base, a.Instr) {
				continue
			}
			st, isSt := a.Instr.(*ssa.Store)
			if a.Fn != add || !isSt {
				return lemmaResult{false, "scRefList is written outside addSubConn", p.ipos(a.Instr)}
			}
			app, isApp := st.Val.(*ssa.Call)
			if !isApp || calleeOf(&app.Call).Builtin != "append" || !isLoadOf(app.Call.Args[0], "gcpBalancer.scRefList") {
				return lemmaResult{false, "scRefList is not only appended to", p.ipos(st)}
			}
			napp++
			for _, b := range pl.ai.ByFn[add] {
				if b.Field == "gcpBalancer.scRefs" && b.What == "map-insert" && !everyPathHits(b.Instr, map[ssa.Instruction]bool{st: true}) {
					return lemmaResult{false, "a slot can be registered without being appended to scRefList", p.ipos(b.Instr)}
				}
			}
		}
		if napp != 1 {
			return lemmaResult{false, fmt.Sprintf("%d append sites for scRefList", napp), "-"}
		}
		pcs := newCondSpace(pl.pick, recOf(lenZeroAtom("snapshotEmpty", lenOfField("gcpPicker.scRefs"))), "snapshotEmpty")
		for _, call := range pl.callsIn(pl.pick, gai) {
			if imp, _ := pcs.Implies(pcs.Reach(call), pcs.Not(pcs.Atom("snapshotEmpty"))); !imp {
				return lemmaResult{false, "the placement can run with an empty READY snapshot", p.ipos(call)}
			}
		}
		return lemmaResult{true, "slots are allocated only by addSubConn, which appends each to scRefList on the same path; the list is append-only; selection runs only after Pick saw a non-empty snapshot of pool slots: the list is non-empty", "-"}
	})
}

// mapsMade: every map-typed field of the struct is initialised with make in the only function that allocates the struct.
func (l *lemmas) mapMade(field string) lemmaResult {
	return l.get("map field "+field+" is made by its constructor", func() lemmaResult {
		pl := l.pl
		p := pl.p
		structName := strings.SplitN(field, ".", 2)[0]
		var ctors []*ssa.Function
		made := false
		for _, f := range p.Funcs {
			eachInstr(f, func(in ssa.Instruction) {
				al, ok := in.(*ssa.Alloc)
				if !ok || !strings.HasSuffix(shortType(al.Type()), "."+structName) || strings.HasPrefix(shortType(al.Type()), "**") {
					return
				}
				ctors = append(ctors, f)
				for _, r := range *al.Referrers() {
					if fa, ok := r.(*ssa.FieldAddr); ok && fieldRefOfAddr(fa) == field {
						for _, st := range storesTo(fa) {
							if _, isMk := st.Val.(*ssa.MakeMap); isMk {
								made = true
							}
						}
					}
				}
			})
		}
		// later assignments must also be made maps
		for _, a := range pl.ai.ByField[field] {
			if st, ok := a.Instr.(*ssa.Store); ok {
				if _, isMk := st.Val.(*ssa.MakeMap); !isMk {
					return lemmaResult{false, "field is assigned a value that is not a freshly made map", p.ipos(st)}
				}
			}
		}
		if len(ctors) != 1 || !made {
			return lemmaResult{false, fmt.Sprintf("struct %s is allocated in %d function(s); map made in constructor: %v", structName, len(ctors), made), "-"}
		}
		return lemmaResult{true, fmt.Sprintf("%s is allocated only in %s, which initialises the field with make; every later assignment is a made map", structName, fname(ctors[0])), p.pos(ctors[0].Pos())}
	})
}

// chanRemade: every close of a channel field is followed in the same block by storing a fresh channel into it,
// every store to the field is a fresh channel, and the close happens under the write lock.
func (l *lemmas) chanRemade(field string) lemmaResult {
	return l.get("channel field "+field+" is re-made after every close", func() lemmaResult {
		pl := l.pl
		p := pl.p
		for _, a := range pl.ai.ByField[field] {
			if st, ok := a.Instr.(*ssa.Store); ok {
				if _, isMk := st.Val.(*ssa.MakeChan); !isMk {
					return lemmaResult{false, "field is assigned something other than a fresh channel", p.ipos(st)}
				}
			}
			if a.What == "close" {
				cl := a.Instr
				okRemake := false
				for _, in := range cl.Block().Instrs[instrIndex(cl)+1:] {
					if st, ok := in.(*ssa.Store); ok {
						if fa, ok := st.Addr.(*ssa.FieldAddr); ok && fieldRefOfAddr(fa) == field && fa.X == a.Base {
							okRemake = true
						}
					}
				}
				if !okRemake || pl.lf.HeldAt(cl)["gcpBalancer.mu"] != 2 {
					return lemmaResult{false, "channel closed without being re-made in the same critical section", p.ipos(cl)}
				}
			}
		}
		return lemmaResult{true, "the field only ever holds fresh channels; each close is immediately followed, under the write lock, by storing a new channel: never nil, never closed twice", "-"}
	})
}

// ---------- discharge ----------

// lenValues: evaluates the reaching condition of `in` under the hypothesis len(x) == L for the comparisons on len(x).
func reachWithLen(fn *ssa.Function, in ssa.Instruction, x ssa.Value, L int64) bool {
	ensureEquiv(fn)
	xs := kstr(x)
	isLenX := func(v ssa.Value) bool {
		v = stripConv(v)
		if cv, ok := v.(*ssa.Convert); ok {
			v = cv.X
		}
		call, ok := v.(*ssa.Call)
		return ok && calleeOf(&call.Call).Builtin == "len" && kstr(call.Call.Args[0]) == xs
	}
	cs := newCondSpace(fn, nil)
	if cs.err != "" {
		return true
	}
	b := cs.Reach(in)
	for i, val := range cs.VarVal {
		bo, ok := val.(*ssa.BinOp)
		if !ok {
			continue
		}
		var k int64
		var lenLeft bool
		if isLenX(bo.X) {
			c, isC := constInt(bo.Y)
			if !isC {
				continue
			}
			k, lenLeft = c, true
		} else if isLenX(bo.Y) {
			c, isC := constInt(bo.X)
			if !isC {
				continue
			}
			k, lenLeft = c, false
		} else {
			continue
		}
		a, bb := L, k
		if !lenLeft {
			a, bb = k, L
		}
		var t bool
		switch bo.Op {
		case token.LSS:
			t = a < bb
		case token.LEQ:
			t = a <= bb
		case token.GTR:
			t = a > bb
		case token.GEQ:
			t = a >= bb
		case token.EQL:
			t = a == bb
		case token.NEQ:
			t = a != bb
		default:
			continue
		}
		f, ok := cs.EvalValue(bo)
		if !ok {
			f = cs.varBits(i)
		}
		if t {
			b = and(b, f)
		} else {
			b = and(b, cs.not(f))
		}
	}
	return cs.Satisfiable(b)
}

func (l *lemmas) discharge(s panicSite, nilFields map[string]bool) (ok bool, trivial bool, why string) {
	pl := l.pl
	p := pl.p
	fn := s.fn
	switch s.kind {
	case "index":
		var idx ssa.Value
		switch x := s.in.(type) {
		case *ssa.IndexAddr:
			idx = x.Index
		case *ssa.Index:
			idx = x.Index
		default:
			return false, false, "slice expression with explicit bounds"
		}
		// (a) range / counted loop over the same slice
		for _, lp := range loopsOf(fn) {
			if !lp.Blocks[s.in.Block()] {
				continue
			}
			if ph, step := lp.counterStep(idx); ph != nil && step > 0 {
				if iff, isIf := lp.Header.Instrs[len(lp.Header.Instrs)-1].(*ssa.If); isIf {
					if bo, isB := iff.Cond.(*ssa.BinOp); isB && bo.Op == token.LSS && (bo.X == idx || stripConv(bo.X) == ssa.Value(ph)) {
						if lc, isC := stripConv(bo.Y).(*ssa.Call); isC && calleeOf(&lc.Call).Builtin == "len" && kstr(lc.Call.Args[0]) == kstr(s.subject) {
							return true, false, "index is the counter of a loop bounded by len of the same slice"
						}
					}
				}
			}
		}
		// (b) constant index guarded by length tests
		if c0, isC := constInt(idx); isC && c0 >= 0 {
			guarded := true
			for L := int64(0); L <= c0; L++ {
				if reachWithLen(fn, s.in, s.subject, L) {
					guarded = false
				}
			}
			if guarded {
				return true, false, fmt.Sprintf("reachable only when len(%s) > %d (length tests on every path)", vstr(s.subject), c0)
			}
			return false, false, fmt.Sprintf("%s[%d] is reachable with len ≤ %d", vstr(s.subject), c0, c0)
		}
		// (c) index = x mod len(same slice)
		if bo, isB := idx.(*ssa.BinOp); isB && bo.Op == token.REM {
			if convOf(func(v ssa.Value) bool {
				call, ok := v.(*ssa.Call)
				return ok && calleeOf(&call.Call).Builtin == "len" && kstr(call.Call.Args[0]) == kstr(s.subject)
			})(bo.Y) {
				// Go's % keeps the sign of the dividend: the remainder is a valid index only for an unsigned (or provably
				// non-negative) dividend
				if b, isBasic := bo.Type().Underlying().(*types.Basic); isBasic && b.Info()&types.IsUnsigned != 0 {
					return true, false, "index is an unsigned value modulo len of the same slice, read in the same critical section"
				}
				return false, false, "index is a SIGNED value modulo len(slice): after the dividend wraps to a negative number the remainder is negative (index out of range)"
			}
		}
		// (d) every path to the access tests idx < len (the array's constant length or len of the same slice), and the index
		// cannot be negative (an unsigned value, or a counter that starts at a non-negative constant and only grows)
		{
			arrLen := int64(-1)
			if pt, isP := s.subject.Type().Underlying().(*types.Pointer); isP {
				if at, isA := pt.Elem().Underlying().(*types.Array); isA {
					arrLen = at.Len()
				}
			}
			if at, isA := s.subject.Type().Underlying().(*types.Array); isA {
				arrLen = at.Len()
			}
			isBound := func(v ssa.Value) bool {
				if k, isC := constInt(v); isC && arrLen >= 0 && k <= arrLen {
					return true
				}
				call, ok := stripConv(v).(*ssa.Call)
				return ok && calleeOf(&call.Call).Builtin == "len" && kstr(call.Call.Args[0]) == kstr(s.subject)
			}
			ensureEquiv(fn)
			bcs := newCondSpace(fn, recOf(ltAtom("inBounds", isVal(idx), isBound)), "inBounds")
			if imp, _ := bcs.Implies(bcs.Reach(s.in), bcs.Atom("inBounds")); imp && bcs.Seen("inBounds") && nonNegative(idx, map[ssa.Value]bool{}) {
				return true, false, "every path to the access tests the index against the length, and the index is never negative"
			}
		}
		return false, false, "index " + vstr(idx) + " is not bounded by a recognised guard"
	case "div":
		if convOf(lenOfField("gcpBalancer.scRefList"))(s.subject) {
			r := l.rrNonEmpty()
			return r.ok, false, "divisor is len(scRefList): " + r.why
		}
		return false, false, "divisor " + vstr(s.subject) + " may be zero"
	case "assert":
		ta := s.in.(*ssa.TypeAssert)
		if src, isClone := cloneOf(ta); isClone && types.Identical(src.Type(), ta.AssertedType) {
			return true, false, "operand is proto.Clone(x) with x of the asserted type: Clone returns a message of the same dynamic type"
		}
		return false, false, "assertion without comma-ok on " + vstr(ta.X)
	case "panic":
		return false, false, s.what + " is reachable from an entry point"
	case "close":
		if f, _, isL := loadedField(s.subject); isL {
			r := l.chanRemade(f)
			return r.ok, false, r.why
		}
		if ok, why := closeLocalOnce(p, s); ok {
			return true, false, why
		}
		return false, false, "close of a channel that is not a re-made field (nor a local channel closed exactly once)"
	case "nilmap":
		if f, _, isL := loadedField(s.subject); isL {
			r := l.mapMade(f)
			return r.ok, false, r.why
		}
		if _, isMk := s.subject.(*ssa.MakeMap); isMk {
			return true, true, "freshly made map"
		}
		return false, false, "map may be nil: " + vstr(s.subject)
	case "nilfunc", "nil":
		nos := nilOrigins(p, s.subject, nilFields)
		if len(nos) == 0 {
			return true, true, "subject has no nil-valued origin (parameter, fresh allocation, never-nil-tested field)"
		}
		// an earlier dereference of the same value dominates: this cannot be the first failure
		if derefDominates(s.subject, s.in) {
			return true, false, "the same value is dereferenced by a dominating instruction (which is itself an obligation)"
		}
		// a merged value (the result variable of a helper that returns (nil, false) on failure, used under `if ok`): on the ways
		// that reach this instruction it is one of the values that have no nil origin
		if fn := s.in.Parent(); fn != nil {
			rcs := newCondSpace(fn, nil)
			if vals := rcs.ResolveUnder(s.subject, rcs.Reach(s.in)); len(vals) > 0 && rcs.err == "" {
				clean := true
				for _, v := range vals {
					if v == s.subject || len(nilOrigins(p, v, nilFields)) > 0 {
						clean = false
					}
				}
				if clean {
					return true, false, "nil only on ways that do not reach this instruction (the value is merged from several; the nil one belongs to a way excluded by the conditions tested on the way here)"
				}
			}
		}
		var reasons []string
		for _, o := range nos {
			okO, whyO := l.nilOriginOK(s, o)
			if !okO {
				return false, false, fmt.Sprintf("%s may be nil here (origin %s): %s", vstr(s.subject), o, whyO)
			}
			reasons = append(reasons, whyO)
		}
		return true, false, strings.Join(dedupe(reasons), "; ")
	}
	return false, false, "unknown site kind"
}

func dedupe(ss []string) []string {
	seen := map[string]bool{}
	var out []string
	for _, s := range ss {
		if !seen[s] {
			seen[s] = true
			out = append(out, s)
		}
	}
	return out
}

// nilOriginOK: the nil-capable origin o of the dereferenced value is excluded at the site.
func (l *lemmas) nilOriginOK(s panicSite, o Origin) (bool, string) {
	pl := l.pl
	fn := s.fn
	// (1) local guard: reach ⇒ value != nil, or ⇒ the comma-ok flag of its lookup/assertion
	var tuple ssa.Value
	if e, ok := o.Val.(*ssa.Extract); ok {
		tuple = e.Tuple
	}
	isFlag := func(v ssa.Value) bool {
		if tuple == nil {
			return false
		}
		return originsAll(v, func(x Origin) bool {
			e, ok := x.Val.(*ssa.Extract)
			return ok && e.Tuple == tuple && e.Index == 1
		})
	}
	sameVal := func(v ssa.Value) bool {
		v = stripConv(v)
		if v == stripConv(s.subject) || v == o.Val {
			return true
		}
		// a load of the same local cell / equivalent load
		return kstr(v) == kstr(s.subject)
	}
	ensureEquiv(fn)
	rec := recOf(eqAtom("isNil", sameVal, isNil), boolAtom("okFlag", isFlag))
	cs := newCondSpace(fn, rec, "isNil", "okFlag")
	if cs.err == "" {
		if cs.Seen("isNil") {
			if imp, _ := cs.Implies(cs.Reach(s.in), cs.Not(cs.Atom("isNil"))); imp {
				return true, "dominated by a test that the value is not nil"
			}
		}
		if cs.Seen("okFlag") {
			if imp, _ := cs.Implies(cs.Reach(s.in), cs.Atom("okFlag")); imp {
				// the comma-ok flag excludes absence; the stored values themselves must be non-nil
				if lk, ok := tuple.(*ssa.Lookup); ok {
					if f, _, isL := loadedField(lk.X); isL && (f == "gcpBalancer.scRefs" || f == "gcpBalancer.refreshingScRefs") {
						r := l.slotsNonNil()
						return r.ok, "present (comma-ok) and " + r.why
					}
					if f, _, isL := loadedField(lk.X); isL && f == "gcpBalancer.methodCfg" {
						return true, "present (comma-ok); the generated getters are nil-receiver safe"
					}
				}
				if ta, ok := tuple.(*ssa.TypeAssert); ok {
					if shortType(ta.AssertedType) == "*grpcgcp.gcpContext" {
						if r := l.gcpCtxNonNil(); r.ok {
							return true, "assertion succeeded (comma-ok) and " + r.why
						} else {
							return false, r.why
						}
					}
					return true, "assertion succeeded (comma-ok): the value has the asserted dynamic type"
				}
				return true, "guarded by the comma-ok flag"
			}
		}
	}
	// (2) closures: the guard may have been established by the parent before the closure was made
	if ov, ok := o.Val.(ssa.Instruction); ok && ov.Parent() != fn && fn.Parent() == ov.Parent() {
		parent := fn.Parent()
		for _, mc := range makeClosureSites(fn) {
			ensureEquiv(parent)
			sameP := func(v ssa.Value) bool {
				if stripConv(v) == o.Val {
					return true
				}
				// a load of the captured cell whose only stored value is the origin
				if u, isU := stripConv(v).(*ssa.UnOp); isU {
					if al, isA := u.X.(*ssa.Alloc); isA {
						sts := storesTo(al)
						return len(sts) == 1 && stripConv(sts[0].Val) == o.Val
					}
				}
				return false
			}
			pcs := newCondSpace(parent, recOf(eqAtom("isNil", sameP, isNil)), "isNil")
			if pcs.err == "" && pcs.Seen("isNil") {
				if imp, _ := pcs.Implies(pcs.Reach(mc), pcs.Not(pcs.Atom("isNil"))); imp {
					return true, "the closure is created only after " + fname(parent) + " tested the captured value non-nil (and never reassigns it)"
				}
			}
		}
	}
	// (2b) a field that this function itself assigned a fresh object on every path to here
	if x, ok := o.Val.(*ssa.UnOp); ok {
		if f, base, isL := loadedField(x); isL {
			dominated, allFresh := false, true
			for _, a := range pl.ai.ByFn[fn] {
				if a.Field != f || a.What != "store" || kstr(a.Base) != kstr(base) {
					continue
				}
				st := a.Instr.(*ssa.Store)
				if !nonNilValue(st.Val) {
					allFresh = false
				}
				if dominatesInstr(st, x) {
					dominated = true
				}
			}
			if dominated && allFresh {
				return true, "this function stored a non-nil object into the field on every path to here"
			}
			// the base itself is a field this function just assigned fresh objects to: check those objects' literals
			if bf, bbase, isBL := loadedField(base); isBL {
				var objs []*ssa.Alloc
				dom, fresh := false, true
				for _, a := range pl.ai.ByFn[fn] {
					if a.Field != bf || a.What != "store" || kstr(a.Base) != kstr(bbase) {
						continue
					}
					st := a.Instr.(*ssa.Store)
					// the stored object: an allocation of this call, possibly one per branch (a composite literal on each)
					os := origins(st.Val)
					if len(os) == 0 {
						fresh = false
					}
					for _, so := range os {
						al, isAl := so.Val.(*ssa.Alloc)
						if !isAl || so.Kind != "alloc" {
							fresh = false
							continue
						}
						objs = append(objs, al)
					}
					if !fresh {
						continue
					}
					if bl, ok := base.(ssa.Instruction); ok && dominatesInstr(st, bl) {
						dom = true
					}
				}
				if dom && fresh && len(objs) > 0 {
					good := true
					for _, al := range objs {
						init := false
						for _, r := range *al.Referrers() {
							if fa, ok := r.(*ssa.FieldAddr); ok && fieldRefOfAddr(fa) == f {
								for _, st := range storesTo(fa) {
									if nonNilValue(st.Val) {
										init = true
									} else {
										good = false
									}
								}
							}
						}
						if !init {
							good = false
						}
					}
					if good {
						return true, "the enclosing object was created by this function with this field initialised to a fresh object or a proto.Clone"
					}
				}
			}
		}
	}
	// (2c) result of a generated nil-safe getter whose section was ensured present: if G(A) == nil { A.X = fresh }
	if call, ok := o.Val.(*ssa.Call); ok {
		if ok2, why2 := ensuredSection(fn, call, s.in); ok2 {
			return true, why2
		}
	}

	// (3) lemmas by origin
	switch x := o.Val.(type) {
	case *ssa.UnOp:
		if f, _, ok := loadedField(x); ok {
			switch f {
			case "gcpBalancer.cfg":
				if fn.Name() == "UpdateClientConnState" || fn.Name() == "initializeConfig" {
					break
				}
				r := l.cfgBeforePicks()
				return r.ok, r.why
			case "gcpClientStream.ClientStream":
				for _, a := range pl.ai.ByFn[fn] {
					if a.Instr == ssa.Instruction(x) {
						okL, whyL := latchReadOK(pl.p, pl.lf, fn, a, "gcpClientStream.Mutex")
						return okL, "write-once latch: " + whyL
					}
				}
			}
		}
		// element of a slot slice (picker snapshot / scRefList)
		if ia, ok := x.X.(*ssa.IndexAddr); ok {
			if f, _, isL := loadedField(ia.X); isL && (f == "gcpPicker.scRefs" || f == "gcpBalancer.scRefList") {
				r := l.slotsNonNil()
				return r.ok, "element of " + lastDot(f) + ": " + r.why
			}
		}
	case *ssa.Extract:
		if nx, ok := x.Tuple.(*ssa.Next); ok {
			if rng, ok := nx.Iter.(*ssa.Range); ok {
				if f, _, isL := loadedField(rng.X); isL && (f == "gcpBalancer.scRefs" || f == "gcpBalancer.refreshingScRefs") {
					if x.Index == 1 {
						// the KEY (a connection) is what gets dereferenced/invoked
						r := l.keysNonNil(f)
						return r.ok, "key of the " + lastDot(f) + " iteration: " + r.why
					}
					r := l.slotsNonNil()
					return r.ok, "element of the " + lastDot(f) + " iteration: " + r.why
				}
			}
			if !isPointerLike(x.Type()) {
				return true, "range key/value that is not a pointer or interface"
			}
			if rng, ok := nx.Iter.(*ssa.Range); ok {
				if f, _, isL := loadedField(rng.X); isL {
					r := l.collectionNonNil(f, x.Index)
					return r.ok, "range over " + f + ": " + r.why
				}
				if _, isParam := rng.X.(*ssa.Parameter); isParam {
					return false, "range over a caller-supplied collection whose elements may be nil"
				}
			}
			return false, "range key/value of a collection whose elements are not known to be non-nil"
		}
	case *ssa.Lookup:
		// m[k] for the key k that a scan of the same, unchanged map yields: the scan's element
		if f, _, isL := loadedField(x.X); isL && !x.CommaOk {
			if ke, isE := stripConv(x.Index).(*ssa.Extract); isE && ke.Index == 1 {
				if nx, isN := ke.Tuple.(*ssa.Next); isN {
					if rng, isR := nx.Iter.(*ssa.Range); isR {
						ensureEquiv(fn)
						if kstr(rng.X) == kstr(x.X) {
							if f == "gcpBalancer.scRefs" || f == "gcpBalancer.refreshingScRefs" {
								r := l.slotsNonNil()
								return r.ok, "element under the key of the " + lastDot(f) + " iteration: " + r.why
							}
							r := l.collectionNonNil(f, 2)
							return r.ok, "element under the key of a range over " + f + ": " + r.why
						}
					}
				}
			}
		}
		if f, _, isL := loadedField(x.X); isL && f == "gcpBalancer.scRefs" {
			// scRefs[k] with k known present in scStates: key agreement + non-nil slots
			if kr := l.keysAgree(); kr.ok {
				if l.keyKnownInStates(fn, x, s.in) {
					r := l.slotsNonNil()
					return r.ok, "key is present in scStates (same key set as scRefs) and " + r.why
				}
			}
		}
	}
	return false, "no guard, dominating dereference or lemma excludes nil"
}

// keyKnownInStates: the key of the scRefs lookup is known to be in scStates at the site (range key of scStates, or comma-ok).
func (l *lemmas) keyKnownInStates(fn *ssa.Function, lk *ssa.Lookup, at ssa.Instruction) bool {
	if e, ok := lk.Index.(*ssa.Extract); ok {
		if nx, ok := e.Tuple.(*ssa.Next); ok {
			if rng, ok := nx.Iter.(*ssa.Range); ok && isLoadOf(rng.X, "gcpBalancer.scStates") {
				return true
			}
		}
	}
	return false
}

// gcpCtxNonNil: every value stored under gcpKey is a fresh, non-nil *gcpContext.
func (l *lemmas) gcpCtxNonNil() lemmaResult {
	return l.get("context values under gcpKey are non-nil", func() lemmaResult {
		p := l.pl.p
		n := 0
		for _, f := range p.Funcs {
			bad := ""
			eachInstr(f, func(in ssa.Instruction) {
				call, ok := staticCallNamed(valueOf(in), "context.WithValue")
				if !ok {
					return
				}
				isKey := false
				for _, o := range origins(call.Call.Args[1]) {
					if u, isU := o.Val.(*ssa.UnOp); isU {
						if g, isG := u.X.(*ssa.Global); isG && g.Name() == "gcpKey" {
							isKey = true
						}
					}
				}
				if !isKey {
					return
				}
				n++
				if _, lit := gcpContextLit(call.Call.Args[2]); !lit {
					bad = p.ipos(call)
				}
			})
			if bad != "" {
				return lemmaResult{false, "a value that is not a fresh &gcpContext{} is stored under gcpKey at " + bad, bad}
			}
		}
		if n == 0 {
			return lemmaResult{false, "no context.WithValue(…, gcpKey, …) found", "-"}
		}
		return lemmaResult{true, fmt.Sprintf("all %d values stored under the unexported gcpKey are fresh &gcpContext{} literals", n), "-"}
	})
}

// nonNilValue: the value is a fresh allocation, a made map/chan/slice, or proto.Clone of a value tested non-nil... (fresh or clone).
func nonNilValue(v ssa.Value) bool {
	for _, o := range origins(v) {
		switch x := o.Val.(type) {
		case *ssa.Alloc, *ssa.MakeMap, *ssa.MakeChan, *ssa.MakeSlice:
			continue
		case *ssa.TypeAssert:
			if _, isClone := cloneOf(x); isClone {
				continue
			}
			return false
		default:
			_ = x
			return false
		}
	}
	return true
}

// ensuredSection: r = GetX(A) is dereferenced at `at`, and a dominating block tests GetX(A') == nil (A' equivalent to A)
// and stores a fresh object into A.X on the nil branch before rejoining.
func ensuredSection(fn *ssa.Function, r *ssa.Call, at ssa.Instruction) (bool, string) {
	c := calleeOf(&r.Call)
	if c.Static == nil || !strings.HasPrefix(c.Static.Name(), "Get") || len(r.Call.Args) != 1 {
		return false, ""
	}
	field := strings.TrimPrefix(c.Static.Name(), "Get")
	ensureEquiv(fn)
	a := kstr(r.Call.Args[0])
	for _, b := range fn.Blocks {
		iff, ok := b.Instrs[len(b.Instrs)-1].(*ssa.If)
		if !ok || !b.Dominates(at.Block()) {
			continue
		}
		bo, ok := iff.Cond.(*ssa.BinOp)
		if !ok || (bo.Op != token.EQL && bo.Op != token.NEQ) {
			continue
		}
		x, y := bo.X, bo.Y
		if isNilConst(x) {
			x, y = y, x
		}
		if !isNilConst(y) {
			continue
		}
		g, ok := x.(*ssa.Call)
		if !ok || calleeOf(&g.Call).Static != c.Static || kstr(g.Call.Args[0]) != a {
			continue
		}
		// nil branch: stores fresh into A.<field> and jumps to the other successor
		nb, join := b.Succs[0], b.Succs[1]
		if bo.Op == token.NEQ {
			nb, join = join, nb
		}
		if len(nb.Succs) != 1 || nb.Succs[0] != join || !join.Dominates(at.Block()) {
			continue
		}
		stored := false
		for _, in := range nb.Instrs {
			if st, ok := in.(*ssa.Store); ok {
				if fa, ok := st.Addr.(*ssa.FieldAddr); ok && lastDot(fieldRefOfAddr(fa)) == field && kstr(fa.X) == a && nonNilValue(st.Val) {
					stored = true
				}
			}
		}
		if stored {
			return true, fmt.Sprintf("the section was ensured present: a dominating test %s(…) == nil stores a fresh object into the field before this use", c.Static.Name())
		}
	}
	return false, ""
}

// closeLocalOnce: close(x) where x is a local channel that is always freshly made (never nil), closed nowhere else,
// and this close runs at most once: it is not in a loop, or it is a deferred close registered in a block that can run
// only once (the block is entered only while the local is still nil and makes it non-nil).
func closeLocalOnce(p *Prog, s panicSite) (bool, string) {
	f := s.fn
	u, ok := stripConv(s.subject).(*ssa.UnOp)
	var cell *ssa.Alloc
	if ok {
		cell, _ = u.X.(*ssa.Alloc)
	}
	if cell == nil {
		if _, isMk := stripConv(s.subject).(*ssa.MakeChan); isMk && !inLoop(s.in) {
			return true, "close of a channel made in this call, outside any loop"
		}
	}
	mine := map[ssa.Value]bool{} // the channels this local can hold
	mayBeNil := false
	for _, o := range origins(s.subject) {
		if isConstNilOrigin(o) || o.Kind == "zero" {
			mayBeNil = true // excluded below by a dominating test (closing a nil channel panics too)
			continue
		}
		if _, isMk := o.Val.(*ssa.MakeChan); !isMk {
			return false, ""
		}
		mine[o.Val] = true
	}
	if len(mine) == 0 {
		return false, ""
	}
	if mayBeNil {
		subj := trivialPhi(stripConv(s.subject))
		gcs := newCondSpace(f, recOf(eqAtom("unset", func(v ssa.Value) bool { return trivialPhi(stripConv(v)) == subj || kstr(v) == kstr(subj) }, isNil)), "unset")
		if imp, _ := gcs.Implies(gcs.Reach(s.in), gcs.Not(gcs.Atom("unset"))); !imp || !gcs.Seen("unset") {
			return false, ""
		}
	}
	// no other close of this cell's channel in the function or the closures that capture it
	closes := 0
	fns := []*ssa.Function{f}
	fns = append(fns, f.AnonFuncs...)
	for _, g := range fns {
		eachInstr(g, func(in ssa.Instruction) {
			cc := callCommon(in)
			if cc == nil || calleeOf(cc).Builtin != "close" {
				return
			}
			hit := false
			for _, o := range origins(cc.Args[0]) {
				if mine[o.Val] {
					hit = true
				}
			}
			if hit {
				closes++
			}
		})
	}
	if closes != 1 {
		return false, ""
	}
	if !inLoop(s.in) {
		return true, "the only close of a local channel that is always made before, outside any loop"
	}
	// inside a loop: the channel (the operand is evaluated here, also for a deferred close) is made afresh in the same
	// iteration on every way from the loop's head to the close — each execution closes a channel of its own
	if len(mine) == 1 {
		for mkv := range mine {
			mk := mkv.(*ssa.MakeChan)
			for _, lp := range loopsOf(f) {
				if lp.Blocks[s.in.Block()] && lp.Blocks[mk.Block()] && !reachesAvoiding(lp.Header.Instrs[0], s.in, mk) && lp.Header.Instrs[0] != ssa.Instruction(mk) {
					return true, "the only close of a channel made earlier in the same loop iteration on every path: every execution closes a fresh channel"
				}
			}
		}
	}
	if _, isDefer := s.in.(*ssa.Defer); !isDefer || cell == nil {
		return false, ""
	}
	for _, st := range storesTo(cell) {
		if st.Block() != s.in.Block() {
			return false, ""
		}
	}
	isCellLoad := func(v ssa.Value) bool {
		l, ok := stripConv(v).(*ssa.UnOp)
		return ok && l.X == ssa.Value(cell)
	}
	cs := newCondSpace(f, recOf(eqAtom("unset", isCellLoad, isNil)), "unset")
	if imp, _ := cs.Implies(cs.Reach(s.in), cs.Atom("unset")); imp && cs.Seen("unset") {
		return true, "deferred close of a local channel, registered in a block that runs only while the local is still nil and sets it: at most once per call"
	}
	return false, ""
}

// keysNonNil: every key ever inserted into the connection-keyed map field is a non-nil connection: the result of
// NewSubConn on the path where its error is nil, the connection of the report being handled (a key already known to the
// balancer), or the key of another such map.
func (l *lemmas) keysNonNil(field string) lemmaResult {
	return l.get("keys of "+field+" are never nil", func() lemmaResult {
		pl := l.pl
		p := pl.p
		n := 0
		for _, a := range pl.ai.ByField[field] {
			mu, ok := a.Instr.(*ssa.MapUpdate)
			if !ok {
				continue
			}
			n++
			// the key, on the ways that reach the insertion (result variables of inlined helpers are resolved per way)
			kcs := newCondSpace(a.Fn, nil)
			var korigins []Origin
			for _, kv := range kcs.ResolveUnder(mu.Key, kcs.Reach(mu)) {
				korigins = append(korigins, origins(kv)...)
			}
			if len(korigins) == 0 {
				korigins = origins(mu.Key)
			}
			for _, o := range korigins {
				switch x := o.Val.(type) {
				case *ssa.Parameter:
					continue // a connection handed in by gRPC / by a caller that holds it
				case *ssa.Extract:
					call, isC := x.Tuple.(*ssa.Call)
					if isC && x.Index == 0 && call.Call.IsInvoke() && call.Call.Method.Name() == "NewSubConn" {
						cs := newCondSpace(a.Fn, recOf(eqAtom("created", func(v ssa.Value) bool { return isExtractOf(stripConv(v), call, 1) }, isNil)), "created")
						if imp, _ := cs.Implies(cs.Reach(mu), cs.Atom("created")); imp && cs.Seen("created") {
							continue
						}
						return lemmaResult{false, "the result of NewSubConn is used as a key of " + field + " also when NewSubConn failed (nil connection)", p.ipos(mu)}
					}
					if nx, isN := x.Tuple.(*ssa.Next); isN && x.Index == 1 {
						_ = nx
						continue // key of another connection-keyed map
					}
				case *ssa.UnOp:
					if f, _, isL := loadedField(x); isL && f == "subConnRef.subConn" {
						continue // a slot's connection (set from non-nil keys only)
					}
				}
				return lemmaResult{false, fmt.Sprintf("key %s stored into %s is not known to be non-nil", o, field), p.ipos(mu)}
			}
		}
		if n == 0 {
			return lemmaResult{false, "no insertion into " + field + " found", "-"}
		}
		return lemmaResult{true, fmt.Sprintf("all %d insertions use a successfully created or already known connection as key", n), "-"}
	})
}

// collectionNonNil: elements (idx 2) / keys (idx 1) of any other module collection that is ranged over and dereferenced:
// every value stored into it is a fresh allocation, a non-nil-guarded value or a result that cannot be nil.
func (l *lemmas) collectionNonNil(field string, idx int) lemmaResult {
	return l.get(fmt.Sprintf("elements[%d] of %s are never nil", idx, field), func() lemmaResult {
		pl := l.pl
		p := pl.p
		n := 0
		for _, a := range pl.ai.ByField[field] {
			var v ssa.Value
			switch x := a.Instr.(type) {
			case *ssa.MapUpdate:
				v = x.Value
				if idx == 1 {
					v = x.Key
				}
			default:
				continue
			}
			n++
			if !nonNilValue(v) && len(nilOrigins(p, v, nilCapableFields(p))) > 0 {
				return lemmaResult{false, "a possibly nil value is stored into " + field, p.ipos(a.Instr)}
			}
		}
		if n == 0 {
			// slices filled by append / composite literals: accept only when the field's element type is not pointer-like
			return lemmaResult{false, "no map insertion into " + field + " found to justify non-nil elements", "-"}
		}
		return lemmaResult{true, fmt.Sprintf("all %d stores put a non-nil value there", n), "-"}
	})
}

// freshObject: every origin of v is an allocation made in this call (a composite literal on each branch).
func freshObject(v ssa.Value) bool {
	return originsAll(v, func(o Origin) bool {
		_, isAl := o.Val.(*ssa.Alloc)
		return isAl && o.Kind == "alloc"
	})
}

// trivialPhi: a phi all of whose edges carry the same value is that value.
func trivialPhi(v ssa.Value) ssa.Value {
	for i := 0; i < 4; i++ {
		ph, ok := v.(*ssa.Phi)
		if !ok || len(ph.Edges) == 0 {
			return v
		}
		for _, e := range ph.Edges[1:] {
			if e != ph.Edges[0] {
				return v
			}
		}
		v = stripConv(ph.Edges[0])
	}
	return v
}

// nonNegative: v is an unsigned value, a non-negative constant, a length, or built from such by addition and merging
// (a counter `n := 0; …; n++`); wrap-around of 64-bit counters is not considered.
func nonNegative(v ssa.Value, seen map[ssa.Value]bool) bool {
	v = cellValue(v)
	if seen[v] {
		return true // a loop-carried value: holds if it holds for every other way in
	}
	seen[v] = true
	if b, ok := v.Type().Underlying().(*types.Basic); ok && b.Info()&types.IsUnsigned != 0 {
		return true
	}
	switch x := v.(type) {
	case *ssa.Const:
		k, ok := constInt(x)
		return ok && k >= 0
	case *ssa.Phi:
		for _, e := range x.Edges {
			if !nonNegative(e, seen) {
				return false
			}
		}
		return true
	case *ssa.BinOp:
		if x.Op == token.ADD || x.Op == token.MUL {
			return nonNegative(x.X, seen) && nonNegative(x.Y, seen)
		}
	case *ssa.Call:
		b := calleeOf(&x.Call).Builtin
		return b == "len" || b == "cap"
	case *ssa.Convert:
		// a narrower unsigned value converted to int/int64 keeps its value
		if b, ok := x.X.Type().Underlying().(*types.Basic); ok && b.Info()&types.IsUnsigned != 0 {
			if t, ok2 := x.Type().Underlying().(*types.Basic); ok2 && (t.Kind() == types.Int64 || t.Kind() == types.Int) {
				return b.Kind() != types.Uint64 && b.Kind() != types.Uint && b.Kind() != types.Uintptr
			}
		}
	}
	return false
}
