package main

import (
	"fmt"
	"go/types"
	"strings"

	"golang.org/x/tools/go/ssa"
)

func init() { register("C20", checkC20) }

// C20 — Resolver results reach every connection of the pool.
func checkC20(c *Ctx, w *World) {
	c.Explanation = "Structural analysis of address propagation: the resolved address list is stored before anything that can create a connection, " +
		"every connection is created from the stored list under the balancer lock, every container of live connections (the pool map and the registry of " +
		"in-flight replacements — derived as the connection-keyed maps into which NewSubConn results flow) is covered by a loop that pushes the new list and asks " +
		"to connect on every iteration path, and a resolver error has an empty effect set."
	c.RuleText = "one obligation per creation site, container and push loop; non-trivial = needed an ordering, provenance or effect-summary argument"
	c.Assumptions = []string{"what gRPC does with UpdateAddresses/Connect is outside the verdict"}
	c.Trusted = []string{"go/types", "golang.org/x/tools/go/ssa v0.29.0"}
	pl := newPool(c, w)
	if pl == nil {
		return
	}
	p := pl.p
	uccs, re := pl.f("(*gcpBalancer).UpdateClientConnState"), pl.f("(*gcpBalancer).ResolverError")
	if uccs == nil || re == nil {
		return
	}
	ccs := uccs.Params[1]
	isAddrs := func(v ssa.Value) bool {
		// ccs.ResolverState.Addresses of the parameter
		return originsAll(v, func(o Origin) bool {
			f, _, ok := loadedField(o.Val)
			if ok && f == "State.Addresses" {
				return true
			}
			if fl, isF := o.Val.(*ssa.Field); isF && fieldRefOfField(fl) == "State.Addresses" {
				return true
			}
			return false
		}) && usesParam(v, ccs)
	}

	// ---- C20.store-first
	var store *ssa.Store
	for _, a := range pl.ai.ByFn[uccs] {
		if a.Field == "gcpBalancer.addrs" && a.What == "store" {
			store = a.Instr.(*ssa.Store)
		}
	}
	if store == nil {
		c.fail("C20.store-first", "UpdateClientConnState: gb.addrs store", p.pos(uccs.Pos()), "the resolved addresses are not stored")
		return
	}
	c.check(isAddrs(store.Val), "C20.store-first", "UpdateClientConnState: stored value", p.ipos(store), "gb.addrs ← the update's ResolverState.Addresses", "gb.addrs is assigned something other than the update's address list: "+vstr(store.Val))
	c.check(store.Block() == uccs.Blocks[0] || everyReturnAfter(uccs, store), "C20.store-first", "UpdateClientConnState: stored on every path", p.ipos(store), "the address list is stored on every path of the update", "an update can return without storing the address list")
	ncre := 0
	eachInstr(uccs, func(in ssa.Instruction) {
		cc := callCommon(in)
		if cc == nil {
			return
		}
		for _, g := range p.calleesOf(cc) {
			creates := false
			for k := range pl.sums.Trans[g].Calls {
				if strings.Contains(k, "ClientConn.NewSubConn") {
					creates = true
				}
			}
			if creates {
				ncre++
				c.check(dominatesInstr(store, in), "C20.store-first", fmt.Sprintf("UpdateClientConnState → %s", fname(g)), p.ipos(in), "the new list is stored before this call, which can create connections", "connections can be created before the new address list is stored (they would use the previous list)")
			}
		}
	})
	c.floor("C20.store-first", ncre, 1)
	pl.whoMayWrite("C20.store-first", "gcpBalancer.addrs", map[string][]string{fname(uccs): {"store"}})

	// ---- C20.create
	nsc := pl.ifaceCallSites("balancer.ClientConn.NewSubConn")
	c.floor("C20.create", len(nsc), 2)
	containers := map[string]*ssa.Function{}
	for i, s := range nsc {
		arg := s.Call.Args[0]
		ld, _ := stripConv(arg).(*ssa.UnOp)
		good := ld != nil && isLoadOf(ld, "gcpBalancer.addrs") && pl.lf.HeldAt(ld)["gcpBalancer.mu"] == 2 && pl.lf.HeldAt(s.Instr)["gcpBalancer.mu"] == 2
		c.check(good, "C20.create", fmt.Sprintf("NewSubConn#%d in %s: addresses", i+1, fname(s.Fn)), p.ipos(s.Instr), "created from gb.addrs, read under gb.mu in the creating critical section", "a connection is created from something other than the current gb.addrs: "+vstr(arg))
		// where does the new connection go? (connection-keyed maps of the balancer)
		call, _ := s.Instr.(*ssa.Call)
		if call == nil {
			continue
		}
		found := false
		eachInstr(s.Fn, func(in ssa.Instruction) {
			mu, ok := in.(*ssa.MapUpdate)
			if !ok {
				return
			}
			// the key, on the ways that reach the insertion (a result variable of an inlined creation helper is resolved)
			kcs := newCondSpace(s.Fn, nil)
			keys := kcs.ResolveUnder(mu.Key, kcs.Reach(mu))
			isNew := len(keys) > 0
			for _, k := range keys {
				if e, isE := k.(*ssa.Extract); !isE || e.Tuple != ssa.Value(call) || e.Index != 0 {
					isNew = false
				}
			}
			if isNew {
				if f, _, isL := loadedField(mu.Map); isL && strings.HasPrefix(f, "gcpBalancer.") {
					if m, isM := mu.Map.Type().Underlying().(*types.Map); isM && !isBasic(m.Elem()) {
						containers[f] = s.Fn
						found = true
					}
				}
			}
		})
		c.check(found, "C20.cover", fmt.Sprintf("NewSubConn#%d in %s: registered", i+1, fname(s.Fn)), p.ipos(s.Instr), "the new connection is registered in a balancer container", "a created connection is not registered in any balancer container: later address updates cannot reach it")
	}

	// ---- C20.push / C20.cover
	for field, creator := range containers {
		construct := fmt.Sprintf("push loop over %s (filled by %s)", field, fname(creator))
		okPush, why := false, "no loop in UpdateClientConnState ranges over this container"
		for _, l := range loopsOf(uccs) {
			var nx *ssa.Next
			for _, in := range l.Header.Instrs {
				if n, ok := in.(*ssa.Next); ok {
					nx = n
				}
			}
			if nx == nil {
				continue
			}
			rng, _ := nx.Iter.(*ssa.Range)
			if rng == nil || !isLoadOf(rng.X, field) {
				continue
			}
			// in the body: UpdateAddresses(addrs) and Connect() on the element's connection, on every iteration path
			var upd, con ssa.Instruction
			for b := range l.Blocks {
				for _, in := range b.Instrs {
					cc := callCommon(in)
					if cc == nil || !cc.IsInvoke() {
						continue
					}
					if !isElemConn(cc.Value, nx) {
						continue
					}
					// reached through the element's VALUE (<slot>.subConn): only in a container whose every entry is keyed by its
					// own slot's connection — in the registry of replacements the value is the OLD slot, not the replacement
					if e, isE := stripConv(cc.Value).(*ssa.Extract); !(isE && e.Tuple == ssa.Value(nx) && e.Index == 1) && !valueNamesKey(pl, field) {
						why = "the loop reaches the connection through the entry's value, which in " + field + " is not the slot of the key's connection"
						continue
					}
					switch cc.Method.Name() {
					case "UpdateAddresses":
						if isAddrs(cc.Args[0]) || (isLoadOf(cc.Args[0], "gcpBalancer.addrs") && dominatesInstr(store, in)) {
							upd = in
						}
					case "Connect":
						con = in
					}
				}
			}
			body := nx.Block().Succs[0]
			switch {
			case upd == nil:
				if !strings.HasPrefix(why, "the loop reaches") {
					why = "the loop does not call UpdateAddresses with the new list on the element's connection"
				}
			case con == nil:
				why = "the loop does not ask the element's connection to connect"
			case !(upd.Block().Dominates(latchOf(l)) && con.Block().Dominates(latchOf(l))) || !body.Dominates(upd.Block()):
				why = "UpdateAddresses/Connect are not executed on every iteration path"
			case !reachedOnEveryNonEmptyPath(uccs, rng, pl):
				why = "the loop is skipped on some path of the update"
			default:
				okPush = true
			}
		}
		c.check(okPush, "C20.cover", construct, p.pos(uccs.Pos()), "every element is given the new list and asked to connect on every iteration path", why)
	}
	c.floor("C20.cover", len(containers), 2)
	// the two containers cover every connection at every moment an update can run: the take-over moves the replacement
	// from refreshingScRefs to scRefs inside one critical section of gb.mu — released in between, an update finds the
	// replacement in neither container and it takes over with the previous list
	if pl.uscs != nil {
		sc := param(pl.uscs, 1)
		var unreg, reg ssa.Instruction
		for _, a := range pl.ai.ByFn[pl.uscs] {
			switch {
			case a.Field == "gcpBalancer.refreshingScRefs" && a.What == "map-delete":
				if call, ok := a.Instr.(*ssa.Call); ok && call.Call.Args[1] == ssa.Value(sc) {
					unreg = call
				}
			case a.Field == "gcpBalancer.scRefs" && a.What == "map-insert":
				if mu, ok := a.Instr.(*ssa.MapUpdate); ok && mu.Key == ssa.Value(sc) {
					reg = mu
				}
			}
		}
		okSec := unreg != nil && reg != nil && (pl.lf.HeldThroughout(unreg, reg, "gcpBalancer.mu") || pl.lf.HeldThroughout(reg, unreg, "gcpBalancer.mu"))
		c.check(okSec, "C20.cover", "take-over: the replacement changes container inside one critical section", p.pos(pl.uscs.Pos()), "gb.mu is write-held from delete(refreshingScRefs, sc) to scRefs[sc] = slot (in either order)", "the replacement leaves refreshingScRefs and enters scRefs in different critical sections of gb.mu (or one of the two steps was not found): an address update in the gap reaches neither the old connection nor the replacement")
	}

	// ---- C20.error
	t := pl.sums.Trans[re]
	var eff []string
	eff = append(eff, keys(t.Writes)...)
	for k := range t.Calls {
		if !strings.Contains(k, "grpclog.LoggerV2") && !strings.HasPrefix(k, "fmt.") && !strings.HasPrefix(k, "strings.") {
			eff = append(eff, "call "+k)
		}
	}
	for l := range t.Acquires {
		eff = append(eff, "lock "+l)
	}
	if t.Go {
		eff = append(eff, "go")
	}
	c.check(len(eff) == 0, "C20.error", "ResolverError: effect set", p.pos(re.Pos()), "writes nothing, calls nothing but the logger, takes no lock: pool and routing unchanged", "a resolver error has effects: "+strings.Join(eff, ", "))
}

func isBasic(t types.Type) bool {
	_, ok := t.Underlying().(*types.Basic)
	return ok
}

func usesParam(v ssa.Value, prm *ssa.Parameter) bool {
	found := false
	seen := map[ssa.Value]bool{}
	var walk func(v ssa.Value, d int)
	walk = func(v ssa.Value, d int) {
		if v == nil || seen[v] || d > 12 {
			return
		}
		seen[v] = true
		if v == ssa.Value(prm) {
			found = true
			return
		}
		switch x := v.(type) {
		case *ssa.UnOp:
			walk(x.X, d+1)
			if al, ok := x.X.(*ssa.Alloc); ok {
				for _, st := range storesTo(al) {
					walk(st.Val, d+1)
				}
			}
		case *ssa.FieldAddr:
			walk(x.X, d+1)
		case *ssa.Field:
			walk(x.X, d+1)
		case *ssa.Alloc:
			for _, st := range storesTo(x) {
				walk(st.Val, d+1)
			}
		case *ssa.Phi:
			for _, e := range x.Edges {
				walk(e, d+1)
			}
		}
	}
	walk(v, 0)
	return found
}

// isElemConn: v is the connection of the current element of the map iteration: the key itself (SubConn-keyed map
// iterated by key) or <value>.subConn.
func isElemConn(v ssa.Value, nx *ssa.Next) bool {
	v = stripConv(v)
	if e, ok := v.(*ssa.Extract); ok && e.Tuple == ssa.Value(nx) && e.Index == 1 {
		return true
	}
	if f, base, ok := loadedField(v); ok && f == "subConnRef.subConn" {
		// the slot: the scan's value, or the container read under the scan's key
		if rng, isR := nx.Iter.(*ssa.Range); isR && (&rangeLoop{Next: nx, Range: rng}).val(base) {
			return true
		}
	}
	return false
}

// valueNamesKey: every insertion into the connection-keyed map field stores, under key k, a slot whose subConn is k (a
// fresh slot built with subConn: k, or a slot that receives subConn ← k in the same function).
func valueNamesKey(pl *pool, field string) bool {
	n, okAll := 0, true
	for _, a := range pl.ai.ByField[field] {
		if a.What != "map-insert" {
			continue
		}
		mu, isMU := a.Instr.(*ssa.MapUpdate)
		if !isMU {
			okAll = false
			continue
		}
		n++
		found := false
		slot := cellValue(mu.Value)
		eachInstr(a.Fn, func(in ssa.Instruction) {
			st, ok := in.(*ssa.Store)
			if !ok {
				return
			}
			fa, ok := st.Addr.(*ssa.FieldAddr)
			if !ok || fieldRefOfAddr(fa) != "subConnRef.subConn" {
				return
			}
			if cellValue(fa.X) == slot && cellValue(st.Val) == cellValue(mu.Key) {
				found = true
			}
		})
		if !found {
			okAll = false
		}
	}
	return okAll && n > 0
}

func latchOf(l *Loop) *ssa.BasicBlock {
	if len(l.Latch) > 0 {
		return l.Latch[0]
	}
	return l.Header
}

// reachedOnEveryNonEmptyPath: every return of the update either follows the loop or lies on the
// emptied-pool path (which re-creates the pool from the new list) or is an error return before any effect.
func reachedOnEveryNonEmptyPath(fn *ssa.Function, rng *ssa.Range, pl *pool) bool {
	// paths that avoid the loop: reaching conditions computed with the loop's entry block removed
	cs := newCondSpaceAvoid(fn, recOf(lenZeroAtom("poolEmpty", lenOfField("gcpBalancer.scRefs")), eqAtom("cfgNil", loadOf("gcpBalancer.cfg"), isNil)), map[*ssa.BasicBlock]bool{rng.Block(): true}, "poolEmpty", "cfgNil")
	// (every way out that avoids the loop, merged exits split per way in)
	for _, vr := range cs.VirtualReturns() {
		if dominatesInstr(rng, vr.Ret) {
			continue
		}
		// allowed: the emptied-pool path, or the rejection of the FIRST update (no configuration yet ⇒ no pool yet): a later
		// update that stored the new list must not leave before pushing it, error or not
		if imp, _ := cs.Implies(vr.Cond, cs.Atom("poolEmpty")); imp {
			continue
		}
		if imp, _ := cs.Implies(vr.Cond, cs.Atom("cfgNil")); imp && cs.Seen("cfgNil") && !isNilConst(stripConv(vr.Vals[0])) {
			continue
		}
		return false
	}
	return true
}
