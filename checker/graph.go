package main

import (
	"go/token"
	"go/types"
	"sort"

	"golang.org/x/tools/go/ssa"
)

// ---------- call graph over the module's own functions ----------

// implementations resolves an interface method to the module's implementing methods (CHA restricted
// to the module's named types). Implementations outside the module (gRPC's SubConn etc.) are not
// returned: calls to them are treated by the library-semantics assumptions of DESIGN §2.
func (p *Prog) implementations(m *types.Func) []*ssa.Function {
	sig, ok := m.Type().(*types.Signature)
	if !ok || sig.Recv() == nil {
		return nil
	}
	iface, ok := sig.Recv().Type().Underlying().(*types.Interface)
	if !ok {
		return nil
	}
	var out []*ssa.Function
	for _, sp := range p.SSAPkgs {
		for _, mem := range sp.Members {
			tn, ok := mem.(*ssa.Type)
			if !ok {
				continue
			}
			for _, t := range []types.Type{tn.Type(), types.NewPointer(tn.Type())} {
				if types.IsInterface(t) || !types.Implements(t, iface) {
					continue
				}
				ms := p.SSA.MethodSets.MethodSet(t)
				sel := ms.Lookup(m.Pkg(), m.Name())
				if sel == nil {
					continue
				}
				if f := p.SSA.MethodValue(sel); f != nil {
					// unwrap synthetic pointer-receiver wrappers
					if f.Synthetic != "" {
						if obj, ok := sel.Obj().(*types.Func); ok {
							if real := p.SSA.FuncValue(obj); real != nil {
								f = real
							}
						}
					}
					out = append(out, f)
				}
			}
		}
	}
	// dedupe
	seen := map[*ssa.Function]bool{}
	var res []*ssa.Function
	for _, f := range out {
		if !seen[f] && f.Blocks != nil {
			seen[f] = true
			res = append(res, f)
		}
	}
	sort.Slice(res, func(i, j int) bool { return fname(res[i]) < fname(res[j]) })
	return res
}

// calleesOf returns the module functions a call instruction may invoke.
func (p *Prog) calleesOf(cc *ssa.CallCommon) []*ssa.Function {
	c := calleeOf(cc)
	switch {
	case c.Static != nil:
		if c.Static.Blocks != nil && p.byName[fname(c.Static)] == c.Static {
			return []*ssa.Function{c.Static}
		}
		return nil
	case c.Iface != nil:
		return p.implementations(c.Iface)
	}
	return nil
}

// calleesOfModule is calleesOf restricted, for interface calls, to interfaces declared in the module
// itself (an external interface such as grpclog.LoggerV2 may be implemented by a module type that wraps
// another implementation; dispatch through it is not treated as a call-graph cycle).
func (p *Prog) calleesOfModule(cc *ssa.CallCommon) []*ssa.Function {
	c := calleeOf(cc)
	if c.Iface != nil {
		if c.Iface.Pkg() == nil {
			return nil
		}
		own := false
		for _, sp := range p.SSAPkgs {
			if sp.Pkg == c.Iface.Pkg() {
				own = true
			}
		}
		if !own {
			return nil
		}
	}
	return p.calleesOf(cc)
}

// reachableModule is reachable using calleesOfModule.
func (p *Prog) reachableModule(roots ...*ssa.Function) map[*ssa.Function]bool {
	seen := map[*ssa.Function]bool{}
	var visit func(f *ssa.Function)
	visit = func(f *ssa.Function) {
		if f == nil || seen[f] || f.Blocks == nil {
			return
		}
		seen[f] = true
		eachInstr(f, func(in ssa.Instruction) {
			if cc := callCommon(in); cc != nil {
				for _, g := range p.calleesOfModule(cc) {
					visit(g)
				}
			}
		})
	}
	for _, r := range roots {
		visit(r)
	}
	return seen
}

// reachable computes the functions reachable from roots through static calls, module-interface
// calls and closure creation (a closure is considered reachable where it is made).
func (p *Prog) reachable(roots ...*ssa.Function) map[*ssa.Function]bool {
	seen := map[*ssa.Function]bool{}
	var visit func(f *ssa.Function)
	visit = func(f *ssa.Function) {
		if f == nil || seen[f] || f.Blocks == nil {
			return
		}
		seen[f] = true
		eachInstr(f, func(in ssa.Instruction) {
			if cc := callCommon(in); cc != nil {
				for _, g := range p.calleesOf(cc) {
					visit(g)
				}
			}
			if mc, ok := in.(*ssa.MakeClosure); ok {
				if g, ok := mc.Fn.(*ssa.Function); ok {
					visit(g)
				}
			}
			// function values used as operands (method values, funcs stored in vars)
			var ops []*ssa.Value
			for _, o := range in.Operands(ops) {
				if o != nil && *o != nil {
					if g, ok := (*o).(*ssa.Function); ok && p.byName[fname(g)] == g {
						visit(g)
					}
				}
			}
		})
	}
	for _, r := range roots {
		visit(r)
	}
	return seen
}

func sortedFuncs(m map[*ssa.Function]bool) []*ssa.Function {
	var out []*ssa.Function
	for f := range m {
		out = append(out, f)
	}
	sort.Slice(out, func(i, j int) bool { return qname(out[i]) < qname(out[j]) })
	return out
}

// ---------- natural loops ----------

type Loop struct {
	Header *ssa.BasicBlock
	Blocks map[*ssa.BasicBlock]bool
	Latch  []*ssa.BasicBlock // sources of back edges
}

func loopsOf(fn *ssa.Function) []*Loop {
	byHeader := map[*ssa.BasicBlock]*Loop{}
	var order []*ssa.BasicBlock
	for _, b := range fn.Blocks {
		for _, s := range b.Succs {
			if isBackEdge(b, s) {
				l := byHeader[s]
				if l == nil {
					l = &Loop{Header: s, Blocks: map[*ssa.BasicBlock]bool{s: true}}
					byHeader[s] = l
					order = append(order, s)
				}
				l.Latch = append(l.Latch, b)
				// natural loop: blocks that reach b without passing through s
				stack := []*ssa.BasicBlock{b}
				for len(stack) > 0 {
					x := stack[len(stack)-1]
					stack = stack[:len(stack)-1]
					if l.Blocks[x] {
						continue
					}
					l.Blocks[x] = true
					stack = append(stack, x.Preds...)
				}
			}
		}
	}
	var out []*Loop
	for _, h := range order {
		out = append(out, byHeader[h])
	}
	return out
}

// definedInLoop reports whether v is computed inside the loop.
func (l *Loop) definedIn(v ssa.Value) bool {
	in, ok := v.(ssa.Instruction)
	if !ok {
		return false
	}
	return in.Block() != nil && l.Blocks[in.Block()]
}

// exits returns the (from,to) edges leaving the loop.
func (l *Loop) exits() [][2]*ssa.BasicBlock {
	var out [][2]*ssa.BasicBlock
	for b := range l.Blocks {
		for _, s := range b.Succs {
			if !l.Blocks[s] {
				out = append(out, [2]*ssa.BasicBlock{b, s})
			}
		}
	}
	sort.Slice(out, func(i, j int) bool {
		if out[i][0].Index != out[j][0].Index {
			return out[i][0].Index < out[j][0].Index
		}
		return out[i][1].Index < out[j][1].Index
	})
	return out
}

// leftOnlyAtHeader: the loop visits every element — no break, return, goto or panic leaves it from the body.
func (l *Loop) leftOnlyAtHeader() bool {
	for _, ex := range l.exits() {
		if ex[0] != l.Header {
			return false
		}
	}
	for b := range l.Blocks {
		if len(b.Succs) == 0 {
			return false // return or panic inside the loop
		}
	}
	return true
}

// loopWithHeader returns the loop of fn whose header is b.
func loopWithHeader(fn *ssa.Function, b *ssa.BasicBlock) *Loop {
	for _, l := range loopsOf(fn) {
		if l.Header == b {
			return l
		}
	}
	return nil
}

// boundedKind classifies a loop as structurally bounded: "range-map", "range-slice", "counted-up",
// "counted-down", or "" when no such argument applies.
func (l *Loop) boundedKind() (kind string, why string) {
	h := l.Header
	// range over map/string: header performs Next on an iterator created outside the loop
	for _, in := range h.Instrs {
		if nx, ok := in.(*ssa.Next); ok && !l.definedIn(nx.Iter) {
			return "range-iter", "header advances a range iterator created before the loop: " + vstr(nx.Iter)
		}
	}
	iff, ok := h.Instrs[len(h.Instrs)-1].(*ssa.If)
	if !ok {
		return "", "header does not end in a test"
	}
	// collect the comparison leaves that can send control out of the loop from the header chain.
	// We accept: the header's own condition, or a conjunction evaluated in successive blocks (a && b),
	// where one conjunct is a monotone counter test.
	var tests []*ssa.BinOp
	var collect func(b *ssa.BasicBlock, depth int)
	collect = func(b *ssa.BasicBlock, depth int) {
		if depth > 4 {
			return
		}
		t, ok := b.Instrs[len(b.Instrs)-1].(*ssa.If)
		if !ok {
			return
		}
		if bo, ok := t.Cond.(*ssa.BinOp); ok {
			exitsLoop := !l.Blocks[b.Succs[0]] || !l.Blocks[b.Succs[1]]
			if exitsLoop {
				tests = append(tests, bo)
			}
		}
		// follow the in-loop successor if it is a pure test block (only an If, short-circuit chain)
		for _, s := range b.Succs {
			if l.Blocks[s] && s != h && len(s.Preds) == 1 && onlyTests(s) {
				collect(s, depth+1)
			}
		}
	}
	_ = iff
	collect(h, 0)
	for _, bo := range tests {
		if k, w := l.monotoneTest(bo); k != "" {
			return k, w
		}
	}
	return "", "no monotone counter test leaves the loop"
}

func onlyTests(b *ssa.BasicBlock) bool {
	for _, in := range b.Instrs {
		switch in.(type) {
		case *ssa.If, *ssa.BinOp, *ssa.UnOp, *ssa.DebugRef:
		default:
			if c, ok := in.(*ssa.Call); ok && pureCall(&c.Call) {
				continue
			}
			return false
		}
	}
	return true
}

// pureCall: calls that neither block nor write shared state (used in loop bounds).
func pureCall(cc *ssa.CallCommon) bool {
	c := calleeOf(cc)
	if c.Builtin == "len" || c.Builtin == "cap" {
		return true
	}
	if c.Static != nil {
		switch funcFullName(c.Static) {
		case "reflect.(Value).Len", "reflect.(Value).Kind", "reflect.(Value).NumField":
			return true
		}
	}
	return false
}

// monotoneTest recognises  i < n / i <= n / n > i  (i increases by a positive constant each iteration,
// n loop-invariant or a pure call on loop-invariant operands) and  r > 0 / r >= c (r decreases).
func (l *Loop) monotoneTest(bo *ssa.BinOp) (string, string) {
	x, y := bo.X, bo.Y
	op := bo.Op
	// normalise to x OP y with x the counter
	if _, step := l.counterStep(y); step != 0 {
		x, y = y, x
		switch op {
		case token.LSS:
			op = token.GTR
		case token.LEQ:
			op = token.GEQ
		case token.GTR:
			op = token.LSS
		case token.GEQ:
			op = token.LEQ
		}
	}
	phi, step := l.counterStep(x)
	if step == 0 {
		return "", ""
	}
	if !l.invariant(y, 0) {
		return "", ""
	}
	if step > 0 && (op == token.LSS || op == token.LEQ || op == token.NEQ) {
		if op == token.NEQ {
			return "", ""
		}
		return "counted-up", "counter " + vstr(phi) + " increases by a constant each iteration and is tested against loop-invariant " + vstr(y)
	}
	if step < 0 && (op == token.GTR || op == token.GEQ) {
		return "counted-down", "counter " + vstr(phi) + " decreases by a constant each iteration and is tested against loop-invariant " + vstr(y)
	}
	return "", ""
}

// counterStep: v is (a phi at the loop header, or that phi plus/minus a constant) whose every
// in-loop incoming edge value is phi±c with the same sign. Returns the phi and the sign of the step.
func (l *Loop) counterStep(v ssa.Value) (*ssa.Phi, int) {
	// allow  phi + c  as the tested value (rangeindex tests i+1 < len)
	if bo, ok := v.(*ssa.BinOp); ok && (bo.Op == token.ADD || bo.Op == token.SUB) {
		if _, isC := constInt(bo.Y); isC {
			v = bo.X
		}
	}
	if cv, ok := v.(*ssa.Convert); ok {
		v = cv.X
	}
	phi, ok := v.(*ssa.Phi)
	if !ok || phi.Block() != l.Header {
		return nil, 0
	}
	sign := 0
	for i, e := range phi.Edges {
		pred := l.Header.Preds[i]
		if !l.Blocks[pred] {
			continue // entry edge
		}
		bo, ok := e.(*ssa.BinOp)
		if !ok || bo.X != phi {
			return nil, 0
		}
		c, isC := constInt(bo.Y)
		if !isC || c == 0 {
			return nil, 0
		}
		s := 0
		switch bo.Op {
		case token.ADD:
			s = 1
		case token.SUB:
			s = -1
		default:
			return nil, 0
		}
		if c < 0 {
			s = -s
		}
		if sign != 0 && sign != s {
			return nil, 0
		}
		sign = s
	}
	return phi, sign
}

func (l *Loop) invariant(v ssa.Value, d int) bool {
	if d > 6 {
		return false
	}
	if !l.definedIn(v) {
		return true
	}
	switch x := v.(type) {
	case *ssa.Call:
		if !pureCall(&x.Call) {
			return false
		}
		for _, a := range x.Call.Args {
			if !l.invariant(a, d+1) {
				return false
			}
		}
		return true
	case *ssa.Convert:
		return l.invariant(x.X, d+1)
	case *ssa.ChangeType:
		return l.invariant(x.X, d+1)
	case *ssa.UnOp:
		// a field re-read in every iteration (`i < len(p.scRefs)`): invariant when its object is, and nothing in the loop
		// — no store, no map update, no callee according to the effect summaries — writes that field
		if x.Op == token.MUL {
			if fa, ok := x.X.(*ssa.FieldAddr); ok && l.invariant(fa.X, d+1) && equivCtx.p != nil && equivCtx.sums != nil {
				f := fieldRefOfAddr(fa)
				for b := range l.Blocks {
					for _, in := range b.Instrs {
						switch y := in.(type) {
						case *ssa.Store:
							if sfa, ok := y.Addr.(*ssa.FieldAddr); ok && fieldRefOfAddr(sfa) == f {
								return false
							}
						case *ssa.MapUpdate:
							if mf, _, ok := loadedField(y.Map); ok && mf == f {
								return false
							}
						}
						if cc := callCommon(in); cc != nil {
							if c := calleeOf(cc); c.Builtin != "" {
								if c.Builtin == "append" || c.Builtin == "delete" || c.Builtin == "copy" {
									// (append returns a new slice value; only a store of it into the field would change the field)
								}
								continue
							}
							gs := equivCtx.p.calleesOf(cc)
							if len(gs) == 0 {
								continue // an external callee cannot name an unexported field of this module's types
							}
							for _, g := range gs {
								if t := equivCtx.sums.Trans[g]; t == nil || t.Writes[f] {
									return false
								}
							}
						}
					}
				}
				return true
			}
		}
	}
	return false
}
