package main

import (
	"fmt"
	"strings"

	"golang.org/x/tools/go/ssa"
)

func init() { register("C08", checkC08) }

// C08 — Fallback: keyed calls use a READY stand-in and return home on recovery.
func checkC08(c *Ctx, w *World) {
	c.Explanation = "Structural analysis of the stand-in table: who may write it and under which exact guards (insert only for a bound key whose home is " +
		"not READY, with fallback enabled, and only when no stand-in exists yet: reuse-before-create), the stored stand-in is the returned slot's connection " +
		"and comes from the current picker's READY snapshot, purge when a stand-in leaves READY and when a home channel becomes READY (exact conditions), " +
		"fallback never touches the key binding, the fallback selection can neither refuse a non-empty snapshot nor grow the pool or take a lock, and the refresh swap re-keys the table."
	c.RuleText = "one obligation per writer / return / purge loop / callee summary; non-trivial = needed a reaching-condition entailment, provenance or effect-summary argument"
	c.Assumptions = []string{"temporal stickiness and return-home over histories follow from these guards only together with C04 (picker republished on every READY-ness change); not separately decided"}
	c.Trusted = []string{"go/types", "golang.org/x/tools/go/ssa v0.29.0"}
	pl := newPool(c, w)
	if pl == nil || pl.uscs == nil {
		return
	}
	// ---- premises / shared rules:
	//  * every keyed call consults the balancer's tables (bound lookup first, with its key) — a shortcut that places a keyed call
	//    without the lookup also skips the stand-in bookkeeping (stickiness);
	//  * "placed on some READY channel whenever one exists / returns home when home is READY" reads the recorded states and the
	//    published picker: the state bookkeeping rules of C04.
	if grs, gsr := pl.f("(*gcpBalancer).getReadySubConnRef"), pl.f("(*gcpPicker).getSubConnRef"); grs != nil && gsr != nil {
		lookupRules(pl, grs, gsr, func(string) string { return "C08.lookup-first" }, true)
	}
	importPremises(c, w, "C04", checkC04, []string{"C04.pair", "C04.picker", "C04.publish", "C04.eval", "C04.refresh-complete"}, "C08.states")

	p := pl.p
	grs := pl.f("(*gcpBalancer).getReadySubConnRef")
	if grs == nil {
		return
	}
	// ---- C08.writers
	n := pl.whoMayWrite("C08.writers", "gcpBalancer.fallbackMap", map[string][]string{
		fname(grs): {"map-insert"}, fname(pl.uscs): {"map-insert", "map-delete"},
	})
	c.floor("C08.writers", n, 3)

	key := grs.Params[1]
	isHome := func(v ssa.Value) bool {
		e, ok := stripConv(v).(*ssa.Extract)
		if !ok || e.Index != 0 {
			return false
		}
		l, ok := e.Tuple.(*ssa.Lookup)
		return ok && isLoadOf(l.X, "gcpBalancer.affinityMap") && l.Index == ssa.Value(key)
	}
	lookupFlag := func(field string) vpred {
		return func(v ssa.Value) bool {
			e, ok := stripConv(v).(*ssa.Extract)
			if !ok || e.Index != 1 {
				return false
			}
			l, ok := e.Tuple.(*ssa.Lookup)
			return ok && l.CommaOk && isLoadOf(l.X, field) && l.Index == ssa.Value(key)
		}
	}
	isStandIn := func(v ssa.Value) bool {
		e, ok := stripConv(v).(*ssa.Extract)
		if !ok || e.Index != 0 {
			return false
		}
		l, ok := e.Tuple.(*ssa.Lookup)
		return ok && isLoadOf(l.X, "gcpBalancer.fallbackMap") && l.Index == ssa.Value(key)
	}
	ms := pl.f("(*gcpPicker).minStreamsSubConnRef")
	var sel *ssa.Call // the fallback selection call
	eachInstr(grs, func(in ssa.Instruction) {
		if call, ok := in.(*ssa.Call); ok {
			for _, g := range p.calleesOf(&call.Call) {
				if g.Signature.Recv() != nil && strings.HasSuffix(shortType(g.Signature.Recv().Type()), "gcpPicker") {
					sel = call
				}
			}
		}
	})
	isSel := func(v ssa.Value) bool { return sel != nil && isExtractOf(stripConv(v), sel, 0) }
	atoms := []atomDef{
		boolAtom("keyFound", lookupFlag("gcpBalancer.affinityMap")),
		eqAtom("homeReady", func(v ssa.Value) bool {
			l, ok := stripConv(v).(*ssa.Lookup)
			return ok && isLoadOf(l.X, "gcpBalancer.scStates") && isHome(l.Index)
		}, constIs(pl.Ready)),
		boolAtom("fallback", callTo(".GetFallbackToReady")),
		boolAtom("fbFound", lookupFlag("gcpBalancer.fallbackMap")),
		boolAtom("isPoolPicker", func(v ssa.Value) bool {
			e, ok := stripConv(v).(*ssa.Extract)
			if !ok || e.Index != 1 {
				return false
			}
			ta, ok := e.Tuple.(*ssa.TypeAssert)
			return ok && ta.CommaOk && isLoadOf(ta.X, "gcpBalancer.picker")
		}),
		eqAtom("selNil", isSel, isNil),
	}
	cs := newCondSpace(grs, recOf(atoms...), atomNames(atoms...)...)
	A := cs.Atom
	pre := cs.And(A("keyFound"), cs.Not(A("homeReady")), A("fallback"))

	// exits, with returns of merged values split per way of arriving
	vrets := cs.VirtualReturns()
	// ---- C08.insert
	ni := 0
	for _, a := range pl.ai.ByFn[grs] {
		if a.Field != "gcpBalancer.fallbackMap" || a.What != "map-insert" {
			continue
		}
		ni++
		mu := a.Instr.(*ssa.MapUpdate)
		imp, wit := cs.Implies(cs.Reach(mu), cs.And(pre, cs.Not(A("fbFound"))))
		c.check(imp && mu.Key == ssa.Value(key), "C08.insert", "getReadySubConnRef: stand-in insert", p.ipos(mu),
			"fallbackMap[key] is set only for a bound key whose home is not READY, with fallback enabled and no stand-in recorded yet (reuse before create)",
			"a stand-in can be recorded outside the fallback conditions or can replace an existing stand-in: "+wit)
		// value: connection of the selected slot; every return reachable from here returns that slot
		f, base, isL := loadedField(mu.Value)
		if isL {
			// (the selected slot may have travelled through a merged local that is nil on the other branches)
			if rs := cs.ResolveUnder(base, cs.Reach(mu)); len(rs) == 1 {
				base = rs[0]
			}
		}
		valOK := isL && f == "subConnRef.subConn" && isSel(base)
		retOK := true
		for _, vr := range vrets {
			if mayPrecede(mu, vr.Ret) && cs.Satisfiable(and(vr.Cond, cs.Reach(mu))) {
				v, onlyNil, ok := slotOrigin(vr.Vals[0])
				if !ok || onlyNil || !isSel(v) {
					retOK = false
				}
			}
		}
		c.check(valOK && retOK, "C08.value", "getReadySubConnRef: stand-in value", p.ipos(mu), "the recorded stand-in is the connection of the very slot returned for this call", "recorded stand-in and returned slot differ")
	}
	c.floor("C08.insert", ni, 1)
	// the selection runs on the current picker's READY snapshot
	if sel != nil {
		recvOK := false
		if e, ok := sel.Call.Args[0].(*ssa.Extract); ok && e.Index == 0 {
			if ta, ok := e.Tuple.(*ssa.TypeAssert); ok && isLoadOf(ta.X, "gcpBalancer.picker") {
				recvOK = true
			}
		}
		imp, _ := cs.Implies(cs.Reach(sel), A("isPoolPicker"))
		c.check(recvOK && imp, "C08.value", "fallback selection receiver", p.ipos(sel), "selection runs on gb.picker (current snapshot), only after a successful comma-ok assertion to *gcpPicker", "fallback selection does not use the current pool picker safely")
	} else {
		c.fail("C08.value", "fallback selection", p.pos(grs.Pos()), "no selection call on a *gcpPicker found in the fallback branch")
	}

	// ---- C08.reuse + told-to-wait returns
	nreuse := 0
	for i, vr := range vrets {
		r := vr.Ret
		v, onlyNil, ok := slotOrigin(vr.Vals[0])
		if !ok {
			continue
		}
		construct := fmt.Sprintf("getReadySubConnRef return#%d", i+1)
		if !onlyNil {
			if l, isLk := stripConv(v).(*ssa.Lookup); isLk && isLoadOf(l.X, "gcpBalancer.scRefs") && isStandIn(l.Index) {
				nreuse++
				eq, wit := cs.EquivStrict(vr.Cond, cs.OnlyNamed(cs.And(pre, A("fbFound"))))
				c.check(eq, "C08.reuse", construct, p.ipos(r), "the recorded stand-in's slot is returned ⇔ bound ∧ home not READY ∧ fallback ∧ stand-in recorded", "an existing stand-in is not reused exactly under the fallback conditions: "+wit)
			}
			continue
		}
		// nil slot with found == true under fallback: only when nothing can be selected
		if cs.Satisfiable(and(vr.Cond, pre)) {
			imp, wit := cs.Implies(and(vr.Cond, pre), cs.And(cs.Not(A("fbFound")), cs.Or(cs.Not(A("isPoolPicker")), A("selNil"))))
			c.check(imp, "C08.total", construct+": told to wait", p.ipos(r), "with fallback enabled the call is told to wait only when no stand-in exists and the current picker offers no READY slot", "with fallback enabled a keyed call can be refused although a READY stand-in is available: "+wit)
		}
	}
	c.floor("C08.reuse", nreuse, 1)

	// ---- C08.total: the selection can neither refuse a non-empty snapshot, nor grow the pool, nor lock
	if ms != nil && sel != nil {
		callee := p.calleesOf(&sel.Call)
		good := len(callee) == 1
		var why []string
		if good {
			t := pl.sums.Trans[callee[0]]
			for l := range t.Acquires {
				good = false
				why = append(why, "acquires "+l)
			}
			for k := range t.Calls {
				if strings.Contains(k, "NewSubConn") {
					good = false
					why = append(why, "calls "+k)
				}
			}
			if len(t.Writes) > 0 {
				good = false
				why = append(why, "writes "+strings.Join(keys(t.Writes), ","))
			}
			// nil only for an empty snapshot
			lz := lenZeroAtom("empty", func(v ssa.Value) bool {
				call, ok := stripConv(v).(*ssa.Call)
				return ok && calleeOf(&call.Call).Builtin == "len" && isLoadOf(call.Call.Args[0], "gcpPicker.scRefs")
			})
			mcs := newCondSpace(callee[0], recOf(lz), "empty")
			for _, r := range returnsOf(callee[0]) {
				if _, onlyNil, ok := slotOrigin(r.Results[0]); ok && onlyNil {
					if imp, _ := mcs.Implies(mcs.Reach(r), mcs.Atom("empty")); !imp {
						good = false
						why = append(why, "returns no slot for a non-empty snapshot at "+p.ipos(r))
					}
				}
			}
		}
		c.check(good, "C08.total", "fallback selection "+sel.Call.Value.Name(), p.ipos(sel),
			"selection takes no lock, creates no connection, writes nothing and returns no slot only for an empty READY snapshot (so it works also when every READY channel is at its watermark)",
			"fallback selection may refuse, grow the pool or lock: "+strings.Join(why, "; "))
	}

	// ---- C08.no-rebind
	t := pl.sums.Trans[grs]
	var bad []string
	for f := range t.Writes {
		if f != "gcpBalancer.fallbackMap" {
			bad = append(bad, f)
		}
	}
	c.check(len(bad) == 0, "C08.no-rebind", "getReadySubConnRef: write set", p.pos(grs.Pos()), "transitive write set ⊆ {fallbackMap}: fallback never changes the key binding or any slot", "fallback lookup writes "+strings.Join(bad, ","))

	// ---- C08.purge-standin / C08.return-home (UpdateSubConnState)
	ucs := pl.uscsSpace()
	if ucs == nil {
		return
	}
	sc := param(pl.uscs, 1)
	var record *ssa.MapUpdate
	for _, a := range pl.ai.ByFn[pl.uscs] {
		if mu, ok := a.Instr.(*ssa.MapUpdate); ok && a.Field == "gcpBalancer.scStates" && mu.Key == ssa.Value(sc) {
			if _, isLk := stripConv(mu.Value).(*ssa.Lookup); !isLk {
				record = mu
			}
		}
	}
	if record == nil {
		c.fail("C08.purge", "UpdateSubConnState: record store", p.pos(pl.uscs.Pos()), "state record store not found")
		return
	}
	U := ucs.Atom
	base := ucs.ForgetLoopVars(ucs.Reach(record))
	np := 0
	for _, a := range pl.ai.ByFn[pl.uscs] {
		if a.Field != "gcpBalancer.fallbackMap" || a.What != "map-delete" {
			continue
		}
		call := a.Instr.(*ssa.Call)
		e, ok := call.Call.Args[1].(*ssa.Extract)
		if !ok {
			continue
		}
		nx, _ := e.Tuple.(*ssa.Next)
		if nx == nil {
			continue
		}
		rng, _ := nx.Iter.(*ssa.Range)
		if rng == nil || !isLoadOf(rng.X, "gcpBalancer.fallbackMap") {
			continue
		}
		np++
		isV := func(v ssa.Value) bool {
			x, ok := stripConv(v).(*ssa.Extract)
			return ok && x.Tuple == nx && x.Index == 2
		}
		isK := func(v ssa.Value) bool {
			x, ok := stripConv(v).(*ssa.Extract)
			return ok && x.Tuple == nx && x.Index == 1
		}
		homeOfK := func(v ssa.Value) bool {
			l, ok := stripConv(v).(*ssa.Lookup)
			return ok && isLoadOf(l.X, "gcpBalancer.affinityMap") && isK(l.Index)
		}
		lcs := newCondSpace(pl.uscs, recOf(eqAtom("valIsSc", isV, isVal(sc)), eqAtom("homeIsSc", homeOfK, isVal(sc))), "valIsSc", "homeIsSc")
		loopEntry := ucs.ForgetLoopVars(ucs.Reach(rng))
		body := nx.Block().Succs[0]
		// the purge visits every entry: nothing leaves the loop before the map is exhausted
		if pl2 := loopWithHeader(pl.uscs, nx.Block()); pl2 == nil || !pl2.leftOnlyAtHeader() {
			c.fail("C08.purge", fmt.Sprintf("UpdateSubConnState: purge loop#%d visits every entry", np), p.ipos(call), "the purge loop can be left before every entry was examined: at most some of the matching stand-ins are dropped")
		} else {
			c.ok("C08.purge", fmt.Sprintf("UpdateSubConnState: purge loop#%d visits every entry", np), p.ipos(call), "the loop is left only when the range over the fallback table is exhausted")
		}
		if impV, _ := lcs.Implies(lcs.Reach(call), lcs.Atom("valIsSc")); impV && lcs.Seen("valIsSc") {
			// purge entries whose stand-in is sc: when sc leaves READY
			eq, wit := ucs.Equiv(loopEntry, and(base, ucs.And(U("oldReady"), ucs.Not(U("sEqOld")))))
			full, _ := lcs.Implies(and(lcs.ReachBlock(body), lcs.Atom("valIsSc")), lcs.Reach(call))
			c.check(eq && full, "C08.purge-standin", "UpdateSubConnState: purge stand-ins of sc", p.ipos(call), "every entry whose stand-in is the reported connection is dropped ⇔ that connection was READY and its state changed", "stand-in entries are not purged exactly when the stand-in leaves READY: "+wit)
		} else if impH, _ := lcs.Implies(lcs.Reach(call), lcs.Atom("homeIsSc")); impH && lcs.Seen("homeIsSc") {
			eq, wit := ucs.Equiv(loopEntry, and(base, ucs.And(ucs.Not(U("oldReady")), U("sReady"))))
			full, _ := lcs.Implies(and(lcs.ReachBlock(body), lcs.Atom("homeIsSc")), lcs.Reach(call))
			c.check(eq && full, "C08.return-home", "UpdateSubConnState: purge stand-ins of keys homed on sc", p.ipos(call), "every entry whose key is bound to the reported connection is dropped ⇔ that connection became READY", "stand-ins are not dropped exactly when the home channel becomes READY: "+wit)
		} else {
			c.fail("C08.purge", fmt.Sprintf("UpdateSubConnState: fallbackMap delete#%d", np), p.ipos(call), "stand-in entry deleted under an unrecognised condition")
		}
	}
	c.floor("C08.purge", np, 2)
	need := map[string]bool{"C08.purge-standin": false, "C08.return-home": false}
	for _, o := range c.Obs {
		if _, ok := need[o.Rule]; ok {
			need[o.Rule] = true
		}
	}
	for r, seen := range need {
		if !seen {
			c.fail(r, "UpdateSubConnState: purge loop", p.pos(pl.uscs.Pos()), "the purge loop for this rule was not found")
		}
	}

	// ---- C08.retire
	pl.checkRetire("C08.retire", func(f string) bool { return f == "gcpBalancer.fallbackMap" })
}
