package main

import (
	"fmt"
	"go/token"
	"go/types"
	"os"
	"sort"
	"strings"

	"golang.org/x/tools/go/ssa"
)

func init() {
	register("C15", checkC15)
	register("C16", checkC16)
}

type gmectx struct {
	*pool
	Ready                                                                         int64
	invoke, newStream, pickConn, closeFn, upd, ctor, newMC, notify, monitor, stop *ssa.Function
	fromCtx, newCtx                                                               *ssa.Function
}

func newGME(c *Ctx, w *World) *gmectx {
	pl := newPoolLite(c, w)
	if pl == nil {
		return nil
	}
	g := &gmectx{pool: pl}
	g.Ready, _ = pl.p.constValue(pkgConn, "Ready")
	f := func(n string) *ssa.Function { return c.need(pl.p, "grpcgcp", n) }
	g.invoke, g.newStream, g.pickConn = f("(*GCPMultiEndpoint).Invoke"), f("(*GCPMultiEndpoint).NewStream"), f("(*GCPMultiEndpoint).pickConn")
	g.closeFn, g.upd, g.ctor = f("(*GCPMultiEndpoint).Close"), f("(*GCPMultiEndpoint).UpdateMultiEndpoints"), f("NewGCPMultiEndpoint")
	g.newMC, g.notify, g.monitor, g.stop = f("newMonitoredConn"), f("(*monitoredConn).notify"), f("(*monitoredConn).monitor"), f("(*monitoredConn).stopMonitoring")
	g.fromCtx, g.newCtx = f("FromMEContext"), f("NewMEContext")
	for _, fn := range []*ssa.Function{g.invoke, g.newStream, g.pickConn, g.closeFn, g.upd, g.ctor, g.newMC, g.notify, g.monitor, g.stop, g.fromCtx, g.newCtx} {
		if fn == nil {
			return nil
		}
	}
	return g
}

// rangeLoops returns the loops of fn that iterate (with Next) over a value satisfying pred.
func rangeLoops(fn *ssa.Function, pred vpred) []*rangeLoop {
	var out []*rangeLoop
	for _, l := range loopsOf(fn) {
		for _, in := range l.Header.Instrs {
			nx, ok := in.(*ssa.Next)
			if !ok {
				continue
			}
			rng, _ := nx.Iter.(*ssa.Range)
			if rng != nil && pred(rng.X) {
				out = append(out, &rangeLoop{Loop: l, Next: nx, Range: rng})
			}
		}
	}
	return out
}

type rangeLoop struct {
	*Loop
	Next  *ssa.Next
	Range *ssa.Range
}

func (r *rangeLoop) key(v ssa.Value) bool {
	e, ok := stripConv(v).(*ssa.Extract)
	return ok && e.Tuple == ssa.Value(r.Next) && e.Index == 1
}
func (r *rangeLoop) val(v ssa.Value) bool {
	v = stripConv(v)
	// `for k := range m { … m[k] … }`: the value under the key the scan yields, read from the same unchanged map
	if l, isL := v.(*ssa.Lookup); isL && !l.CommaOk && r.key(l.Index) {
		ensureEquiv(l.Parent())
		return kstr(l.X) == kstr(r.Range.X)
	}
	e, ok := v.(*ssa.Extract)
	return ok && e.Tuple == ssa.Value(r.Next) && e.Index == 2
}
func (r *rangeLoop) body() *ssa.BasicBlock { return r.Next.Block().Succs[0] }

// onEveryIteration: the instruction executes on every iteration that does not leave the function.
func (r *rangeLoop) onEveryIteration(in ssa.Instruction) bool {
	if !r.Blocks[in.Block()] {
		return false
	}
	for _, latch := range r.Latch {
		if !in.Block().Dominates(latch) {
			return false
		}
	}
	return true
}

// knownNonNilExit: the i-th virtual return of fn returns (as its last result) a value that was tested non-nil on the way
// (`if err != nil { return err }`).
func knownNonNilExit(fn *ssa.Function, i int, vr VRet) bool {
	errV := cellValue(vr.Vals[len(vr.Vals)-1])
	if isNilConst(errV) {
		return false
	}
	cs := newCondSpace(fn, recOf(eqAtom("errnil", isVal(errV), isNil)), "errnil")
	vrs := cs.VirtualReturns()
	if cs.err != "" || i >= len(vrs) || vrs[i].Ret != vr.Ret || !cs.Seen("errnil") {
		return false
	}
	imp, _ := cs.Implies(vrs[i].Cond, cs.Not(cs.Atom("errnil")))
	return imp
}

// C15 — GCPMultiEndpoint routes each RPC via the current endpoint's pool.
func checkC15(c *Ctx, w *World) {
	c.Explanation = "Structural analysis of GCPMultiEndpoint routing and reconfiguration: Invoke/NewStream delegate exactly once to the connection chosen by " +
		"pickConn for their own context, passing every argument through; pickConn uses the named MultiEndpoint iff the context names a known one, else the " +
		"default, and returns the pool of its Current() endpoint under the read lock; pools are dialed only for endpoints without a pool and inserted under the " +
		"same name; pools are deleted only when no configured MultiEndpoint mentions them and each deletion is paired with Close and stopMonitoring of the same " +
		"element; the MultiEndpoint map is synchronised with the options (add / SetEndpoints / delete, default name); every success return is preceded by the " +
		"pools × MultiEndpoints status sync; the monitor reports the state it then waits on, to every MultiEndpoint; plus lock discipline."
	c.RuleText = "one obligation per delegate / lookup / dial / delete / sync loop / monitor step; non-trivial = needed a reaching-condition, pairing or provenance argument"
	c.Assumptions = []string{"'within bounded time' propagation and which server finally receives the RPC are outside the verdict"}
	c.Trusted = []string{"go/types", "golang.org/x/tools/go/ssa v0.29.0", "grpc.ClientConn API semantics (GetState/WaitForStateChange/Close)"}
	g := newGME(c, w)
	if g == nil {
		return
	}
	p := g.p
	lockRules(c, p, g.lf, p.reachableModule(g.invoke, g.newStream, g.closeFn, g.upd, g.ctor, g.monitor), "C15.locks")

	// ---- C15.delegate
	for _, fn := range []*ssa.Function{g.invoke, g.newStream} {
		pcs := g.callsIn(fn, g.pickConn)
		okPick := len(pcs) == 1 && pcs[0].Call.Args[1] == ssa.Value(fn.Params[1])
		var deleg []*ssa.Call
		eachInstr(fn, func(in ssa.Instruction) {
			if call, ok := in.(*ssa.Call); ok {
				n := calleeOf(&call.Call).Name()
				if strings.HasSuffix(n, "grpc.(*ClientConn)."+fn.Name()) {
					deleg = append(deleg, call)
				}
			}
		})
		okDel := len(deleg) == 1 && okPick
		if okDel {
			d := deleg[0]
			okDel = d.Call.Args[0] == ssa.Value(pcs[0]) && !inLoop(d)
			// every own parameter is passed through in order (variadic options as the same slice)
			for i := 1; i < len(fn.Params); i++ {
				if i >= len(d.Call.Args) || d.Call.Args[i] != ssa.Value(fn.Params[i]) {
					okDel = false
				}
			}
			for _, r := range returnsOf(fn) {
				for i, res := range r.Results {
					if len(r.Results) == 1 {
						if res != ssa.Value(d) {
							okDel = false
						}
					} else if e, isE := res.(*ssa.Extract); !isE || e.Tuple != ssa.Value(d) || e.Index != i {
						okDel = false
					}
				}
			}
		}
		c.check(okDel, "C15.delegate", fname(fn), p.pos(fn.Pos()), "one pickConn(ctx) and one call of the same method on its result, all parameters passed through unchanged, results returned unchanged", "RPC is not delegated exactly once, with all arguments, to the connection picked for its own context")
	}

	// ---- C15.pick
	nameOK := func(v ssa.Value) bool {
		e, ok := stripConv(v).(*ssa.Extract)
		return ok && e.Index == 1 && isCallTo(e.Tuple, g.fromCtx, p)
	}
	isName := func(v ssa.Value) bool {
		e, ok := stripConv(v).(*ssa.Extract)
		return ok && e.Index == 0 && isCallTo(e.Tuple, g.fromCtx, p)
	}
	var byName, byDefault *ssa.Lookup
	eachInstr(g.pickConn, func(in ssa.Instruction) {
		if l, ok := in.(*ssa.Lookup); ok && isLoadOf(l.X, "GCPMultiEndpoint.mes") {
			if isName(l.Index) && l.CommaOk {
				byName = l
			} else if isLoadOf(l.Index, "GCPMultiEndpoint.defaultName") {
				byDefault = l
			}
		}
	})
	if byName == nil || byDefault == nil {
		c.fail("C15.pick", "pickConn: lookups", p.pos(g.pickConn.Pos()), "lookup by context name and lookup by default name not both found")
	} else {
		atoms := []atomDef{boolAtom("named", nameOK), boolAtom("known", func(v ssa.Value) bool { return isExtractOf(stripConv(v), byName, 1) })}
		cs := newCondSpace(g.pickConn, recOf(atoms...), atomNames(atoms...)...)
		eq, wit := cs.EquivStrict(cs.Reach(byDefault), cs.Or(cs.Not(cs.Atom("named")), cs.Not(cs.Atom("known"))))
		c.check(eq, "C15.pick", "pickConn: default fallback condition", p.ipos(byDefault), "the default MultiEndpoint is used ⇔ the context names none ∨ names an unknown one", "default MultiEndpoint is not used exactly when the context names none or an unknown one: "+wit)
		// Current() is invoked on the phi of both lookups, and the result indexes pools; conn of that element is returned
		okRet := false
		for _, r := range returnsOf(g.pickConn) {
			os := origins(r.Results[0])
			if len(os) != 1 {
				continue
			}
			f, base, ok := loadedField(os[0].Val)
			if !ok || f != "monitoredConn.conn" {
				continue
			}
			lk, isL := stripConv(base).(*ssa.Lookup)
			if !isL || !isLoadOf(lk.X, "GCPMultiEndpoint.pools") {
				continue
			}
			cur, isC := lk.Index.(*ssa.Call)
			if !isC || !cur.Call.IsInvoke() || cur.Call.Method.Name() != "Current" {
				continue
			}
			good := true
			// (resolved under the call's reaching condition: a nil placeholder of a "not requested" branch that is
			// always replaced by the default before the call is not an origin)
			for _, ov := range cs.ResolveUnder(cur.Call.Value, cs.Reach(cur)) {
				e, isE := stripConv(ov).(*ssa.Extract)
				if isE && e.Tuple == ssa.Value(byName) && e.Index == 0 {
					continue
				}
				if stripConv(ov) == ssa.Value(byDefault) {
					continue
				}
				good = false
			}
			if good && g.lf.HeldAt(lk)["GCPMultiEndpoint.mu"] >= 1 {
				okRet = true
			}
		}
		c.check(okRet, "C15.pick", "pickConn: result", p.pos(g.pickConn.Pos()), "returns pools[me.Current()].conn for the selected MultiEndpoint, read under gme.mu", "pickConn does not return the pool of the selected MultiEndpoint's current endpoint")
	}
	// context helpers use the same key and a string-typed comma-ok assertion
	keyOf := func(fn *ssa.Function) string {
		k := ""
		eachInstr(fn, func(in ssa.Instruction) {
			if u, ok := in.(*ssa.UnOp); ok {
				if gl, ok := u.X.(*ssa.Global); ok {
					k = gl.Name()
				}
			}
		})
		return k
	}
	taOK := false
	eachInstr(g.fromCtx, func(in ssa.Instruction) {
		if ta, ok := in.(*ssa.TypeAssert); ok && ta.CommaOk && shortType(ta.AssertedType) == "string" {
			taOK = true
		}
	})
	// the key is private to the MultiEndpoint name: no other context key of the module has the same (named) type — two
	// zero-valued package variables of one type are EQUAL keys
	{
		keyGlobals := map[*ssa.Global][]string{}
		for _, fn := range p.Funcs {
			eachInstr(fn, func(in ssa.Instruction) {
				cc := callCommon(in)
				if cc == nil {
					return
				}
				var karg ssa.Value
				if call, ok := staticCallNamed(valueOf(in), "context.WithValue"); ok {
					karg = call.Call.Args[1]
				} else if cc.IsInvoke() && cc.Method.Name() == "Value" && shortType(cc.Value.Type()) == "context.Context" && len(cc.Args) == 1 {
					karg = cc.Args[0]
				}
				if karg == nil {
					return
				}
				for _, o := range origins(karg) {
					if u, isU := o.Val.(*ssa.UnOp); isU {
						if gl, isG := u.X.(*ssa.Global); isG {
							keyGlobals[gl] = append(keyGlobals[gl], fname(fn))
						}
					}
				}
			})
		}
		var mine *ssa.Global
		for gl := range keyGlobals {
			if gl.Name() == keyOf(g.fromCtx) {
				mine = gl
			}
		}
		clash := ""
		if mine != nil {
			for gl := range keyGlobals {
				if gl != mine && types.Identical(gl.Type(), mine.Type()) {
					clash = gl.Name()
				}
			}
		}
		c.check(mine != nil && clash == "", "C15.pick", "MultiEndpoint context key has a type of its own", p.pos(g.fromCtx.Pos()), "no other context key variable of the module has the key's type: a value stored by another interceptor cannot shadow the MultiEndpoint name", "the MultiEndpoint context key has the same type as context key "+clash+": both are zero-valued, hence EQUAL keys — a context that went through the other WithValue hides the MultiEndpoint name (the call is routed to the default MultiEndpoint)")
	}
	c.check(keyOf(g.fromCtx) != "" && keyOf(g.fromCtx) == keyOf(g.newCtx) && taOK, "C15.pick", "NewMEContext / FromMEContext", p.pos(g.fromCtx.Pos()), "same unexported key, comma-ok string assertion", "context helpers do not agree on the key or assert without comma-ok")

	// ---- C15.dial
	var dials []*ssa.Call
	for _, fn := range p.Funcs {
		eachInstr(fn, func(in ssa.Instruction) {
			if call, ok := in.(*ssa.Call); ok && isLoadOf(call.Call.Value, "GCPMultiEndpoint.dialFunc") {
				dials = append(dials, call)
			}
		})
	}
	c.floor("C15.dial", len(dials), 1)
	var valid ssa.Value // the validPools set
	for _, d := range dials {
		if d.Parent() != g.upd {
			c.fail("C15.dial", "dialFunc called in "+fname(d.Parent()), p.ipos(d), "pools are dialed outside UpdateMultiEndpoints")
			continue
		}
		target := d.Call.Args[1]
		isPoolOK := func(v ssa.Value) bool {
			e, ok := stripConv(v).(*ssa.Extract)
			if !ok || e.Index != 1 {
				return false
			}
			l, ok := e.Tuple.(*ssa.Lookup)
			return ok && l.CommaOk && isLoadOf(l.X, "GCPMultiEndpoint.pools") && l.Index == target
		}
		cs := newCondSpace(g.upd, recOf(boolAtom("hasPool", isPoolOK)), "hasPool")
		imp, wit := cs.Implies(cs.Reach(d), cs.Not(cs.Atom("hasPool")))
		c.check(imp && cs.Seen("hasPool"), "C15.dial", "dial only for endpoints without a pool", p.ipos(d), "existing pools are kept without re-dialing", "an endpoint that already has a pool can be dialed again: "+wit)
		// the dialed name ranges over the valid set
		if e, ok := target.(*ssa.Extract); ok {
			if nx, ok := e.Tuple.(*ssa.Next); ok {
				if rng, ok := nx.Iter.(*ssa.Range); ok {
					valid = rng.X
				}
			}
		}
		// insertion: pools[e] = newMonitoredConn(e, conn, gme)
		okIns := false
		for _, a := range g.ai.ByFn[g.upd] {
			if a.Field == "GCPMultiEndpoint.pools" && a.What == "map-insert" {
				mu := a.Instr.(*ssa.MapUpdate)
				// the inserted value where the insertion is reached (a merged `mc, created := …; if created { pools[e] = mc }`
				// has one concrete origin there)
				val := stripConv(mu.Value)
				if rs := cs.ResolveUnder(mu.Value, cs.Reach(mu)); len(rs) == 1 {
					val = stripConv(rs[0])
				}
				mc, isC := val.(*ssa.Call)
				after := dominatesInstr(d, mu)
				if !after {
					after, _ = cs.Implies(cs.Reach(mu), cs.Reach(d))
				}
				if isC && isCallTo(mc, g.newMC, p) && mu.Key == target && mc.Call.Args[0] == target && isExtractOf(mc.Call.Args[1], d, 0) && mc.Call.Args[2] == ssa.Value(g.upd.Params[0]) && after {
					okIns = true
				}
			}
		}
		c.check(okIns, "C15.dial", "pool inserted under its endpoint", p.ipos(d), "pools[e] = newMonitoredConn(e, <dialed conn>, gme)", "dialed connection is not registered under the endpoint it was dialed for")
	}
	g.whoMayWrite("C15.dial", "GCPMultiEndpoint.pools", map[string][]string{fname(g.upd): {"map-insert", "map-delete"}})
	// the valid set is built from every endpoint of every option entry
	okValid := false
	mk, _ := valid.(*ssa.MakeMap)
	var validRange ssa.Instruction
	if valid != nil {
		for _, l := range rangeLoops(g.upd, func(v ssa.Value) bool { return v == valid }) {
			validRange = l.Range
		}
	}
	if mk == nil && valid != nil {
		// the set may come out of a validating helper `(set, error)`: one make, nil on the rejecting exits
		var cands []*ssa.MakeMap
		other := false
		for _, o := range origins(valid) {
			if o.Kind == "zero" || isNilConst(o.Val) {
				continue
			}
			if m, isM := o.Val.(*ssa.MakeMap); isM {
				cands = append(cands, m)
			} else {
				other = true
			}
		}
		if len(cands) == 1 && !other {
			mk = cands[0]
		}
	}
	if mk != nil {
		vcs := newCondSpace(g.upd, recOf())
		for _, outer := range rangeLoops(g.upd, func(v ssa.Value) bool { return isLoadOf(v, "GCPMultiEndpointOptions.MultiEndpoints") }) {
			eachInstr(g.upd, func(in ssa.Instruction) {
				mu, ok := in.(*ssa.MapUpdate)
				if !ok || mu.Map != ssa.Value(mk) || !outer.Blocks[mu.Block()] {
					return
				}
				// key = element of <outer value>.Endpoints
				if u, ok := mu.Key.(*ssa.UnOp); ok {
					if ia, ok := u.X.(*ssa.IndexAddr); ok {
						if f, base, isL := loadedField(ia.X); isL && f == "MultiEndpointOptions.Endpoints" && outer.val(base) {
							okValid = true
						}
					}
				}
				// … of EVERY entry and EVERY endpoint: the scans are left before they are exhausted only on ways that never
				// reach the dialing loop (a rejecting exit of the validation)
				var inner *Loop
				for _, l := range loopsOf(g.upd) {
					if l.Blocks[mu.Block()] && outer.Blocks[l.Header] && l.Header != outer.Header && (inner == nil || len(l.Blocks) < len(inner.Blocks)) {
						inner = l
					}
				}
				for _, l := range []*Loop{outer.Loop, inner} {
					if l == nil {
						okValid = false
						continue
					}
					for b := range l.Blocks {
						for si, sb := range b.Succs {
							if l.Blocks[sb] || b == l.Header {
								continue
							}
							if validRange == nil || vcs.Satisfiable(vcs.And(vcs.EdgeCond(b, si), vcs.Reach(validRange))) {
								okValid = false
							}
						}
					}
				}
			})
		}
	}
	c.check(okValid, "C15.dial", "valid-pool set", p.pos(g.upd.Pos()), "the set ranged for dialing/keeping contains every endpoint of every configured MultiEndpoint", "the set of endpoints that keep/get a pool is not built from every endpoint of every option entry")

	// ---- C15.close
	ndel := 0
	for _, a := range g.ai.ByFn[g.upd] {
		if a.Field != "GCPMultiEndpoint.pools" || a.What != "map-delete" {
			continue
		}
		ndel++
		call := a.Instr.(*ssa.Call)
		key := call.Call.Args[1]
		var loop *rangeLoop
		for _, rl := range rangeLoops(g.upd, func(v ssa.Value) bool { return isLoadOf(v, "GCPMultiEndpoint.pools") }) {
			if rl.key(key) {
				loop = rl
			}
		}
		if loop == nil {
			c.fail("C15.close", "pools delete", p.ipos(call), "pool deleted outside an iteration over the pools")
			continue
		}
		// the set stores only `true`: its plain lookup is the membership test as well
		onlyTrue := valid != nil
		eachInstr(g.upd, func(in ssa.Instruction) {
			if mu, ok := in.(*ssa.MapUpdate); ok && mu.Map == valid {
				if k, isK := stripConv(mu.Value).(*ssa.Const); !isK || k.Value == nil || k.Value.String() != "true" {
					onlyTrue = false
				}
			}
		})
		inValid := func(v ssa.Value) bool {
			if l, ok := stripConv(v).(*ssa.Lookup); ok && !l.CommaOk && onlyTrue && l.X == valid && loop.key(l.Index) {
				return true
			}
			e, ok := stripConv(v).(*ssa.Extract)
			if !ok || e.Index != 1 {
				return false
			}
			l, ok := e.Tuple.(*ssa.Lookup)
			return ok && l.CommaOk && l.X == valid && loop.key(l.Index)
		}
		cs := newCondSpace(g.upd, recOf(boolAtom("stillUsed", inValid)), "stillUsed")
		imp, wit := cs.Implies(cs.Reach(call), cs.Not(cs.Atom("stillUsed")))
		full, _ := cs.Implies(and(cs.ReachBlock(loop.body()), cs.Not(cs.Atom("stillUsed"))), cs.Reach(call))
		// paired with Close and stopMonitoring of the same element on every path to the delete
		var closeC, stopC ssa.Instruction
		eachInstr(g.upd, func(in ssa.Instruction) {
			cl, ok := in.(*ssa.Call)
			if !ok || !loop.Blocks[cl.Block()] {
				return
			}
			if strings.HasSuffix(calleeOf(&cl.Call).Name(), "grpc.(*ClientConn).Close") {
				if f, base, isL := loadedField(cl.Call.Args[0]); isL && f == "monitoredConn.conn" && loop.val(base) {
					closeC = cl
				}
			}
			if isCallTo(cl, g.stop, p) && loop.val(cl.Call.Args[0]) {
				stopC = cl
			}
		})
		paired := closeC != nil && stopC != nil && dominatesInstr(closeC, call) && dominatesInstr(stopC, call)
		c.check(imp && full && cs.Seen("stillUsed") && paired, "C15.close", "obsolete pool removal", p.ipos(call), "a pool is deleted ⇔ no configured MultiEndpoint mentions its endpoint, after closing its connection and stopping its monitor", "pool removal is not exactly 'endpoint no longer mentioned' or is not paired with Close+stopMonitoring of the same pool: "+wit)
	}
	c.floor("C15.close", ndel, 1)
	// "no configured MultiEndpoint mentions them" speaks of the MultiEndpoints as they are AFTER the update: a pool may be
	// removed only by an update that goes through — never on a way that can still end in a rejection (the MultiEndpoints are
	// then the old ones, which may use the pool)
	for _, a := range g.ai.ByFn[g.upd] {
		if a.Field != "GCPMultiEndpoint.pools" || a.What != "map-delete" {
			continue
		}
		del := a.Instr
		bad := ""
		ucs := newCondSpace(g.upd, nil)
		for _, vr := range ucs.VirtualReturns() {
			errV := stripConv(vr.Vals[0])
			if isNilConst(errV) || !mayPrecede(del, vr.Ret) || !ucs.Satisfiable(and(vr.Cond, ucs.Reach(del))) {
				continue
			}
			if okInf, _ := g.errorInfeasible(vr.Ret, del, func(in ssa.Instruction) bool { return in == del }); okInf {
				continue
			}
			bad = "the update can still be rejected (" + vstr(errV) + " at " + p.ipos(vr.Ret) + ") after this removal"
		}
		c.check(bad == "", "C15.close", "pools are removed only by an update that is accepted", p.ipos(del), "no way from the removal of a pool leads to an error return", "a pool is removed although the update is rejected: the MultiEndpoints are still the previous ones and may use it: "+bad)
	}

	// ---- C15.mes
	opts := func(v ssa.Value) bool { return isLoadOf(v, "GCPMultiEndpointOptions.MultiEndpoints") }
	okAdd, okSet, okDelete := false, false, false
	for _, rl := range rangeLoops(g.upd, opts) {
		isKnown := func(v ssa.Value) bool {
			e, ok := stripConv(v).(*ssa.Extract)
			if !ok || e.Index != 1 {
				return false
			}
			l, ok := e.Tuple.(*ssa.Lookup)
			return ok && l.CommaOk && isLoadOf(l.X, "GCPMultiEndpoint.mes") && rl.key(l.Index)
		}
		cs := newCondSpace(g.upd, recOf(boolAtom("exists", isKnown)), "exists")
		if !cs.Seen("exists") {
			continue
		}
		eachInstr(g.upd, func(in ssa.Instruction) {
			if !rl.Blocks[in.Block()] {
				return
			}
			if mu, ok := in.(*ssa.MapUpdate); ok && isLoadOf(mu.Map, "GCPMultiEndpoint.mes") && rl.key(mu.Key) {
				if imp, _ := cs.Implies(cs.Reach(mu), cs.Not(cs.Atom("exists"))); imp {
					// (the stored value on the ways that reach the store: a helper's result variable is resolved)
					vals := cs.ResolveUnder(mu.Value, cs.Reach(mu))
					all := len(vals) > 0
					for _, v := range vals {
						good := false
						if e, isE := stripConv(v).(*ssa.Extract); isE && e.Index == 0 {
							if nc, isC := e.Tuple.(*ssa.Call); isC && strings.HasSuffix(calleeOf(&nc.Call).Name(), "multiendpoint.NewMultiEndpoint") && rl.val(nc.Call.Args[0]) {
								good = true
							}
						}
						if !good {
							all = false
						}
					}
					if all {
						okAdd = true
					}
				}
			}
			if call, ok := in.(*ssa.Call); ok && call.Call.IsInvoke() && call.Call.Method.Name() == "SetEndpoints" {
				if imp, _ := cs.Implies(cs.Reach(call), cs.Atom("exists")); imp {
					if f, base, isL := loadedField(call.Call.Args[0]); isL && f == "MultiEndpointOptions.Endpoints" && rl.val(base) {
						// and it happens for every existing one
						if full, _ := cs.Implies(and(cs.ReachBlock(rl.body()), cs.Atom("exists")), cs.Reach(call)); full {
							okSet = true
						}
					}
				}
			}
		})
	}
	for _, rl := range rangeLoops(g.upd, func(v ssa.Value) bool { return isLoadOf(v, "GCPMultiEndpoint.mes") }) {
		inOpts := func(v ssa.Value) bool {
			e, ok := stripConv(v).(*ssa.Extract)
			if !ok || e.Index != 1 {
				return false
			}
			l, ok := e.Tuple.(*ssa.Lookup)
			return ok && l.CommaOk && opts(l.X) && rl.key(l.Index)
		}
		cs := newCondSpace(g.upd, recOf(boolAtom("configured", inOpts)), "configured")
		for _, a := range g.ai.ByFn[g.upd] {
			if a.Field == "GCPMultiEndpoint.mes" && a.What == "map-delete" && rl.Blocks[a.Instr.Block()] {
				call := a.Instr.(*ssa.Call)
				imp, _ := cs.Implies(cs.Reach(call), cs.Not(cs.Atom("configured")))
				full, _ := cs.Implies(and(cs.ReachBlock(rl.body()), cs.Not(cs.Atom("configured"))), cs.Reach(call))
				if imp && full && rl.key(call.Call.Args[1]) {
					okDelete = true
				}
			}
		}
	}
	okDefault := false
	for _, a := range g.ai.ByFn[g.upd] {
		if a.Field == "GCPMultiEndpoint.defaultName" && a.What == "store" {
			if isLoadOf(a.Instr.(*ssa.Store).Val, "GCPMultiEndpointOptions.Default") {
				okDefault = true
			}
		}
	}
	// every phase runs on every way to a success return: none of them may be skipped under some further condition
	{
		ucs := newCondSpace(g.upd, nil)
		phases := map[string]ssa.Instruction{}
		for _, rl := range rangeLoops(g.upd, opts) {
			eachInstr(g.upd, func(in ssa.Instruction) {
				if !rl.Blocks[in.Block()] {
					return
				}
				if mu, ok := in.(*ssa.MapUpdate); ok && isLoadOf(mu.Map, "GCPMultiEndpoint.mes") {
					phases["add/update MultiEndpoints"] = rl.Range
				}
			})
		}
		for _, rl := range rangeLoops(g.upd, func(v ssa.Value) bool { return isLoadOf(v, "GCPMultiEndpoint.mes") }) {
			for _, a := range g.ai.ByFn[g.upd] {
				if a.Field == "GCPMultiEndpoint.mes" && a.What == "map-delete" && rl.Blocks[a.Instr.Block()] {
					phases["remove obsolete MultiEndpoints"] = rl.Range
				}
			}
		}
		for _, rl := range rangeLoops(g.upd, func(v ssa.Value) bool { return isLoadOf(v, "GCPMultiEndpoint.pools") }) {
			for _, a := range g.ai.ByFn[g.upd] {
				if a.Field == "GCPMultiEndpoint.pools" && a.What == "map-delete" && rl.Blocks[a.Instr.Block()] {
					phases["remove obsolete pools"] = rl.Range
				}
			}
		}
		for _, a := range g.ai.ByFn[g.upd] {
			if a.Field == "GCPMultiEndpoint.defaultName" && a.What == "store" {
				phases["default name"] = a.Instr
			}
		}
		var names []string
		for n := range phases {
			names = append(names, n)
		}
		sort.Strings(names)
		for _, n := range names {
			at := phases[n]
			good, wit := true, ""
			for i, vr := range ucs.VirtualReturns() {
				if certainlyNonNil(vr.Vals[0]) || knownNonNilExit(g.upd, i, vr) {
					continue
				}
				if imp, w2 := ucs.Implies(vr.Cond, ucs.Reach(at)); !imp {
					good, wit = false, w2
				}
			}
			c.check(good, "C15.mes", "phase on every way to success: "+n, p.ipos(at), "every success return is preceded by this phase, whatever else holds", "a successful update can skip this phase under some condition: "+wit)
		}
		c.floor("C15.mes:phases", len(names), 4)
	}
	c.check(okAdd, "C15.mes", "new MultiEndpoints added", p.pos(g.upd.Pos()), "every option name without a MultiEndpoint gets NewMultiEndpoint(its options) stored under that name", "new MultiEndpoints are not created from their own options under their own name")
	c.check(okSet, "C15.mes", "existing MultiEndpoints updated", p.pos(g.upd.Pos()), "every existing name gets SetEndpoints(its options' endpoint list)", "existing MultiEndpoints are not all updated with their own endpoint list")
	c.check(okDelete, "C15.mes", "obsolete MultiEndpoints removed", p.pos(g.upd.Pos()), "a MultiEndpoint is deleted ⇔ its name is not in the options", "obsolete MultiEndpoints are not removed exactly when their name left the options")
	c.check(okDefault, "C15.mes", "default name", p.pos(g.upd.Pos()), "defaultName ← options' Default", "default MultiEndpoint name is not taken from the options")
	g.whoMayWrite("C15.mes", "GCPMultiEndpoint.mes", map[string][]string{fname(g.upd): {"map-insert", "map-delete"}})
	g.whoMayWrite("C15.mes", "GCPMultiEndpoint.defaultName", map[string][]string{fname(g.upd): {"store"}})

	// ---- C15.sync
	var syncCall *ssa.Call
	for _, outer := range rangeLoops(g.upd, func(v ssa.Value) bool { return isLoadOf(v, "GCPMultiEndpoint.pools") }) {
		for _, inner := range rangeLoops(g.upd, func(v ssa.Value) bool { return isLoadOf(v, "GCPMultiEndpoint.mes") }) {
			if !outer.Blocks[inner.Header] || !outer.onEveryIteration(inner.Range) {
				continue
			}
			eachInstr(g.upd, func(in ssa.Instruction) {
				call, ok := in.(*ssa.Call)
				if !ok || !call.Call.IsInvoke() || call.Call.Method.Name() != "SetEndpointAvailability" || !inner.Blocks[call.Block()] {
					return
				}
				if os.Getenv("VERIF_DEBUG") != "" {
					fmt.Println("DEBUG sync cand", p.ipos(call), inner.val(call.Call.Value), outer.key(call.Call.Args[0]), kstr(call.Call.Value), "|", kstr(inner.Range.X))
				}
				if !inner.val(call.Call.Value) || !outer.key(call.Call.Args[0]) {
					return
				}
				// second argument: GetState(of the outer element's conn) == Ready
				sv, isEq := eqConstOperand(call.Call.Args[1], g.Ready, func(ssa.Value) bool { return true })
				if !isEq {
					return
				}
				st, isC := stripConv(sv).(*ssa.Call)
				if !isC || !strings.HasSuffix(calleeOf(&st.Call).Name(), "grpc.(*ClientConn).GetState") {
					return
				}
				if f, base, isL := loadedField(st.Call.Args[0]); isL && f == "monitoredConn.conn" && outer.val(base) && inner.onEveryIteration(call) {
					syncCall = call
				}
			})
			if syncCall != nil {
				okSync := true
				for _, r := range returnsOf(g.upd) {
					if nilErr, _ := allOrigins(r.Results[0], isConstNilOrigin); nilErr && !dominatesInstr(outer.Range, r) {
						okSync = false
						if os.Getenv("VERIF_DEBUG") != "" {
							fmt.Println("DEBUG sync: return not dominated", p.ipos(r))
						}
					}
				}
				// nothing mutates pools/mes after the sync loop
				for _, a := range g.ai.ByFn[g.upd] {
					if (a.Field == "GCPMultiEndpoint.pools" || a.Field == "GCPMultiEndpoint.mes") && a.isWrite() && mayPrecede(outer.Range, a.Instr) {
						okSync = false
						if os.Getenv("VERIF_DEBUG") != "" {
							fmt.Println("DEBUG sync: write after", p.ipos(a.Instr))
						}
					}
				}
				c.check(okSync, "C15.sync", "status sync before success", p.ipos(syncCall), "every success return is preceded by the pools × MultiEndpoints loop calling SetEndpointAvailability(endpoint, state == READY); nothing mutates pools/mes afterwards", "a successful update can return before every MultiEndpoint reflects the connectivity of the kept pools")
			}
		}
	}
	if syncCall == nil {
		c.fail("C15.sync", "status sync before success", p.pos(g.upd.Pos()), "no nested pools × MultiEndpoints loop reporting GetState() == READY found")
	}

	// ---- C15.notify
	// protocol: every WaitForStateChange(ctx, s) waits on a state s read by GetState() on the same connection and already
	// passed to notify on every path from that read to the wait (so no transition can be missed), inside the one loop
	var gss, nts, wfs []*ssa.Call
	eachInstr(g.monitor, func(in ssa.Instruction) {
		call, ok := in.(*ssa.Call)
		if !ok {
			return
		}
		n := calleeOf(&call.Call).Name()
		switch {
		case strings.HasSuffix(n, "grpc.(*ClientConn).GetState"):
			gss = append(gss, call)
		case isCallTo(call, g.notify, p):
			nts = append(nts, call)
		case strings.HasSuffix(n, "grpc.(*ClientConn).WaitForStateChange"):
			wfs = append(wfs, call)
		}
	})
	ownConn := func(v ssa.Value) bool {
		f, b, ok := loadedField(v)
		return ok && f == "monitoredConn.conn" && b == ssa.Value(g.monitor.Params[0])
	}
	okMon := len(gss) > 0 && len(nts) > 0 && len(wfs) > 0 && len(loopsOf(g.monitor)) == 1
	for _, wf := range wfs {
		if len(g.monitor.Params) < 2 || len(wf.Call.Args) < 3 || !inLoop(wf) || wf.Call.Args[1] != ssa.Value(g.monitor.Params[1]) || !ownConn(wf.Call.Args[0]) {
			okMon = false
			continue
		}
		if false {
			okMon = false
		}
		for _, o := range origins(wf.Call.Args[2]) {
			gs, isGS := o.Val.(*ssa.Call)
			if !isGS || !strings.HasSuffix(calleeOf(&gs.Call).Name(), "grpc.(*ClientConn).GetState") || !ownConn(gs.Call.Args[0]) {
				okMon = false
				continue
			}
			// notified between the read and the wait, on every path
			notified := false
			for _, nt := range nts {
				if len(nt.Call.Args) > 1 && nt.Call.Args[1] == ssa.Value(gs) && nt.Call.Args[0] == ssa.Value(g.monitor.Params[0]) && dominatesInstr(gs, nt) && !reachesAvoiding(gs, wf, nt) {
					notified = true
				}
			}
			if !notified {
				okMon = false
			}
		}
	}
	c.check(okMon, "C15.notify", "monitor loop", p.pos(g.monitor.Pos()), "each iteration reads the pool's state, notifies it, then waits for a change from exactly that state (no transition can be missed)", "the monitor can miss a state change (does not notify the state it subsequently waits on)")
	// notify: every MultiEndpoint, under the read lock, with state == Ready for its own endpoint
	okNt := false
	for _, rl := range rangeLoops(g.notify, func(v ssa.Value) bool { return isLoadOf(v, "GCPMultiEndpoint.mes") }) {
		eachInstr(g.notify, func(in ssa.Instruction) {
			call, ok := in.(*ssa.Call)
			if !ok || !call.Call.IsInvoke() || call.Call.Method.Name() != "SetEndpointAvailability" || !rl.onEveryIteration(call) || !rl.val(call.Call.Value) {
				return
			}
			if len(g.notify.Params) < 2 || len(call.Call.Args) < 2 {
				return
			}
			if _, isEq := eqConstOperand(call.Call.Args[1], g.Ready, isVal(g.notify.Params[1])); !isEq {
				return
			}
			if f, base, isL := loadedField(call.Call.Args[0]); isL && f == "monitoredConn.endpoint" && base == ssa.Value(g.notify.Params[0]) && g.lf.HeldAt(call)["GCPMultiEndpoint.mu"] >= 1 {
				okNt = true
			}
		})
	}
	c.check(okNt, "C15.notify", "notify reaches every MultiEndpoint", p.pos(g.notify.Pos()), "under gme.mu (read), every MultiEndpoint is told SetEndpointAvailability(own endpoint, state == READY)", "a connectivity change is not reported to every MultiEndpoint with the right endpoint/state")
	// every pool in the table is monitored: the only goroutine of the package is the monitor, started by the pool's
	// constructor with the cancel function kept in the pool (C16.close) — a pool whose monitor is started later, by
	// whoever created it, stays unmonitored when that caller leaves early, and its outages never reach a MultiEndpoint
	importPremisesIf(c, w, "C16", checkC16, []string{"C16.close"}, "C15.notify", func(construct string) bool {
		return strings.HasPrefix(construct, "goroutine started in")
	})
	_ = fmt.Sprint
}

// isCallTo: v is a call whose (module) callee is target.
func isCallTo(v ssa.Value, target *ssa.Function, p *Prog) bool {
	call, ok := stripConv(v).(*ssa.Call)
	if !ok {
		return false
	}
	for _, g := range p.calleesOf(&call.Call) {
		if g == target {
			return true
		}
	}
	return false
}

// reachesAvoiding: some path from just after `from` reaches `to` without executing `avoid`.
func reachesAvoiding(from, to, avoid ssa.Instruction) bool {
	seen := map[*ssa.BasicBlock]bool{}
	var scan func(b *ssa.BasicBlock, start int) bool
	scan = func(b *ssa.BasicBlock, start int) bool {
		for i := start; i < len(b.Instrs); i++ {
			if b.Instrs[i] == avoid {
				return false
			}
			if b.Instrs[i] == to {
				return true
			}
		}
		for _, s := range b.Succs {
			if seen[s] {
				continue
			}
			seen[s] = true
			if scan(s, 0) {
				return true
			}
		}
		return false
	}
	return scan(from.Block(), instrIndex(from)+1)
}

// eqConstOperand: v is `x == k` or `k == x` (possibly assigned to a local first) with subject(x); returns x.
func eqConstOperand(v ssa.Value, k int64, subject vpred) (ssa.Value, bool) {
	bo, ok := cellValue(v).(*ssa.BinOp)
	if !ok || bo.Op != token.EQL {
		return nil, false
	}
	x, y := bo.X, bo.Y
	if c, isK := constInt(x); isK && c == k {
		x, y = y, x
	}
	if c, isK := constInt(y); !isK || c != k || !subject(x) {
		return nil, false
	}
	return x, true
}
