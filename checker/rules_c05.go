package main

import (
	"fmt"
	"go/token"
	"go/types"
	"sort"
	"strings"

	"golang.org/x/tools/go/ssa"
)

func init() { register("C05", checkC05) }

type panicSite struct {
	fn      *ssa.Function
	in      ssa.Instruction
	kind    string    // index | div | assert | nil | close | panic | nilmap | nilfunc
	subject ssa.Value // the value whose property matters (slice, divisor, asserted operand, dereferenced pointer, ...)
	what    string
}

// nilCapableFields: pointer/interface/map/func/chan-typed struct fields that the module itself compares with nil
// somewhere (belief analysis: if the code checks it, it can be nil).
func nilCapableFields(p *Prog) map[string]bool {
	out := map[string]bool{}
	for _, f := range p.Funcs {
		eachInstr(f, func(in ssa.Instruction) {
			bo, ok := in.(*ssa.BinOp)
			if !ok || (bo.Op != token.EQL && bo.Op != token.NEQ) {
				return
			}
			x, y := bo.X, bo.Y
			if isNilConst(x) {
				x, y = y, x
			}
			if !isNilConst(y) {
				return
			}
			if fl, _, isL := loadedField(x); isL {
				out[fl] = true
			}
		})
	}
	return out
}

// mayReturnNil: module functions with a path returning a constant nil as result #i.
func mayReturnNil(fn *ssa.Function, idx int) bool {
	for _, r := range returnsOf(fn) {
		if idx < len(r.Results) {
			for _, o := range origins(r.Results[idx]) {
				if isConstNilOrigin(o) || o.Kind == "zero" {
					return true
				}
				// a map element may be absent
				if o.Kind == "lookup" {
					return true
				}
			}
		}
	}
	return false
}

// nilOrigins returns the origins of v that can be nil.
func nilOrigins(p *Prog, v ssa.Value, nilFields map[string]bool) []Origin {
	var out []Origin
	for _, o := range origins(v) {
		switch o.Kind {
		case "const":
			if isNilConst(o.Val) {
				out = append(out, o)
			}
		case "zero":
			out = append(out, o)
		case "lookup":
			out = append(out, o)
		case "typeassert":
			if e, ok := o.Val.(*ssa.Extract); ok {
				if ta, ok := e.Tuple.(*ssa.TypeAssert); ok && ta.CommaOk {
					out = append(out, o)
				}
			}
		case "extract", "call":
			var call *ssa.Call
			idx := 0
			if e, ok := o.Val.(*ssa.Extract); ok {
				call, _ = e.Tuple.(*ssa.Call)
				idx = e.Index
			} else {
				call, _ = o.Val.(*ssa.Call)
			}
			if call != nil {
				for _, g := range p.calleesOf(&call.Call) {
					if mayReturnNil(g, idx) {
						out = append(out, o)
						break
					}
				}
			}
		case "fieldload":
			if f, _, ok := loadedField(o.Val); ok && nilFields[f] {
				out = append(out, o)
			}
		case "param":
			// a parameter is as nil-capable as the code believes it to be: its own function compares it with nil, or a
			// call site in the module passes something nil-capable (entry points receive what gRPC passes: assumed non-nil)
			if prm, ok := o.Val.(*ssa.Parameter); ok && nilCapableParam(p, prm, nilFields, map[*ssa.Parameter]bool{}) {
				out = append(out, o)
			}
		case "next":
			// range value of a map/slice of pointers: as nil-capable as what is stored there — handled by the element lemma
			out = append(out, o)
		case "index":
			out = append(out, o)
		}
	}
	return out
}

// nilCapableParam: see nilOrigins.
func nilCapableParam(p *Prog, prm *ssa.Parameter, nilFields map[string]bool, seen map[*ssa.Parameter]bool) bool {
	if seen[prm] || !isPointerLike(prm.Type()) {
		return false
	}
	seen[prm] = true
	fn := prm.Parent()
	tested := false
	eachInstr(fn, func(in ssa.Instruction) {
		bo, ok := in.(*ssa.BinOp)
		if !ok || (bo.Op != token.EQL && bo.Op != token.NEQ) {
			return
		}
		if (stripConv(bo.X) == ssa.Value(prm) && isNilConst(bo.Y)) || (stripConv(bo.Y) == ssa.Value(prm) && isNilConst(bo.X)) {
			tested = true
		}
	})
	if tested {
		return true
	}
	idx := -1
	for i, q := range fn.Params {
		if q == prm {
			idx = i
		}
	}
	if idx < 0 {
		return false
	}
	capable := false
	for _, g := range p.Funcs {
		eachInstr(g, func(in ssa.Instruction) {
			cc := callCommon(in)
			if cc == nil || capable {
				return
			}
			for _, callee := range p.calleesOf(cc) {
				if callee != fn {
					continue
				}
				ai := idx
				if cc.IsInvoke() {
					ai = idx - 1 // the receiver is not among the arguments of an interface call
				}
				if ai < 0 || ai >= len(cc.Args) {
					continue
				}
				for _, ao := range origins(cc.Args[ai]) {
					switch ao.Kind {
					case "param":
						if q, ok := ao.Val.(*ssa.Parameter); ok && nilCapableParam(p, q, nilFields, seen) {
							capable = true
						}
					case "const":
						if isNilConst(ao.Val) {
							capable = true
						}
					case "zero":
						capable = true
					case "fieldload":
						if f, _, ok := loadedField(ao.Val); ok && nilFields[f] {
							capable = true
						}
					}
				}
			}
		})
	}
	return capable
}

func isPointerLike(t types.Type) bool {
	switch t.Underlying().(type) {
	case *types.Pointer, *types.Interface, *types.Map, *types.Signature, *types.Chan:
		return true
	}
	return false
}

// enumeratePanicSites lists the panic-capable instructions of fn.
func enumeratePanicSites(p *Prog, fn *ssa.Function) []panicSite {
	var out []panicSite
	add := func(in ssa.Instruction, kind string, subj ssa.Value, what string) {
		out = append(out, panicSite{fn, in, kind, subj, what})
	}
	eachInstr(fn, func(in ssa.Instruction) {
		switch x := in.(type) {
		case *ssa.IndexAddr:
			switch t := x.X.Type().Underlying().(type) {
			case *types.Pointer: // pointer to array
				if arr, ok := t.Elem().Underlying().(*types.Array); ok {
					if i, isC := constInt(x.Index); isC && i >= 0 && i < arr.Len() {
						return
					}
				}
				add(in, "index", x.X, "array index "+vstr(x.Index))
			case *types.Slice:
				add(in, "index", x.X, "slice index "+vstr(x.Index))
			}
		case *ssa.Index:
			add(in, "index", x.X, "index "+vstr(x.Index))
		case *ssa.Slice:
			if x.Low != nil || x.High != nil || x.Max != nil {
				add(in, "index", x.X, "slice expression with bounds")
			}
		case *ssa.BinOp:
			if x.Op == token.QUO || x.Op == token.REM {
				if b, ok := x.Type().Underlying().(*types.Basic); ok && b.Info()&types.IsInteger != 0 {
					if v, isC := constInt(x.Y); !isC || v == 0 {
						add(in, "div", x.Y, "integer "+x.Op.String()+" by "+vstr(x.Y))
					}
				}
			}
		case *ssa.TypeAssert:
			if !x.CommaOk {
				add(in, "assert", x.X, "unchecked assertion to "+shortType(x.AssertedType))
			}
		case *ssa.Panic:
			if s, ok := constString(x.X); ok && strings.HasPrefix(s, "blocking select matched no case") {
				return // unreachable arm synthesised by go/ssa for blocking selects
			}
			add(in, "panic", x.X, "explicit panic")
		case *ssa.FieldAddr:
			if _, ok := x.X.Type().Underlying().(*types.Pointer); ok {
				add(in, "nil", x.X, "field "+lastDot(fieldRefOfAddr(x))+" of "+vstr(x.X))
			}
		case *ssa.UnOp:
			if x.Op == token.MUL {
				switch x.X.(type) {
				case *ssa.FieldAddr, *ssa.IndexAddr, *ssa.Alloc, *ssa.Global, *ssa.FreeVar:
					return // the address computation itself is the deref site / always valid
				}
				add(in, "nil", x.X, "load through "+vstr(x.X))
			}
		case *ssa.MapUpdate:
			add(in, "nilmap", x.Map, "assignment to entry of "+vstr(x.Map))
		case *ssa.Call, *ssa.Go, *ssa.Defer:
			cc := callCommon(in)
			c := calleeOf(cc)
			switch {
			case cc.IsInvoke():
				add(in, "nil", cc.Value, "method "+cc.Method.Name()+" on interface "+vstr(cc.Value))
			case c.Builtin == "close":
				add(in, "close", cc.Args[0], "close("+vstr(cc.Args[0])+")")
			case c.Dynamic != nil:
				add(in, "nilfunc", cc.Value, "call of function value "+vstr(cc.Value))
			case c.Static != nil && c.Static.Blocks != nil && p.byName[fname(c.Static)] == c.Static:
				// module callee: a pointer argument that the callee dereferences on every path must not be nil
				for i, a := range cc.Args {
					if i >= len(c.Static.Params) {
						break
					}
					if _, isPtr := a.Type().Underlying().(*types.Pointer); !isPtr {
						continue
					}
					if derefsParamAlways(c.Static, c.Static.Params[i]) {
						add(in, "nil", a, fmt.Sprintf("argument %s of %s (dereferenced by the callee)", vstr(a), fname(c.Static)))
					}
				}
			case c.Static != nil:
				n := funcFullName(c.Static)
				if strings.HasSuffix(n, ".Fatal") || strings.HasSuffix(n, ".Fatalf") || strings.HasSuffix(n, ".Fatalln") || n == "os.Exit" {
					add(in, "panic", nil, "call of "+n)
				}
			}
			if cc.IsInvoke() && strings.HasPrefix(cc.Method.Name(), "Fatal") {
				add(in, "panic", nil, "call of "+cc.Method.Name())
			}
		}
	})
	return out
}

// apiEntryPoints: what gRPC or the application can call (C05's scope).
func apiEntryPoints(c *Ctx, p *Prog) []*ssa.Function {
	out := poolEntryPoints(c, p)
	for _, n := range []string{"GCPUnaryClientInterceptor", "GCPStreamClientInterceptor", "(*gcpClientStream).SendMsg", "(*gcpClientStream).RecvMsg"} {
		if f := c.need(p, "grpcgcp", n); f != nil {
			out = append(out, f)
		}
	}
	return out
}

// C05 — No panics: balancer, picker and completion callbacks are total.
func checkC05(c *Ctx, w *World) {
	c.Explanation = "Scan of every panic-capable SSA instruction (slice/array/string index and slice expression, integer division/modulo, unchecked type assertion, " +
		"dereference of / method call on / map assignment through / call of a value that has a nil-valued program state, close, explicit panic or Fatal) in every function " +
		"reachable from the library's entry points (Builder, Balancer, Picker, completion closures, interceptors, SendMsg/RecvMsg). Each site becomes an obligation that is " +
		"discharged by a recognised dominating guard (reaching-condition entailment of len/nil/comma-ok tests), by an earlier dereference of the same value, by a recover " +
		"barrier that converts panics of the callee subtree into errors, or by a named, machine-checked lemma (non-empty round-robin list, state-map/slot-map key agreement, " +
		"slots are never nil, configuration set before any pick, map fields made by the only constructor, channel re-made after close); anything else fails."
	c.RuleText = "one obligation per panic-capable instruction whose subject has a nil/short/zero-capable origin (sites whose subject can only be a parameter, a fresh allocation or a never-nil-tested field are counted as trivial); non-trivial = needed a guard, dominance or lemma"
	c.Assumptions = []string{
		"gRPC passes non-nil SubConn/ClientConn/Context values and calls Balancer methods only after Build and SubConn reports only for SubConns the balancer created",
		"panics raised inside gRPC, protobuf or reflect beyond the checked kind table are outside the verdict; pointer/interface fields that the module never compares with nil are assumed non-nil after construction",
	}
	c.Trusted = []string{"go/types", "golang.org/x/tools/go/ssa v0.29.0"}
	pl := newPool(c, w)
	if pl == nil {
		return
	}
	p := pl.p
	entries := apiEntryPoints(c, p)
	scope := p.reachable(entries...)
	for f := range scope {
		if f.Pkg == nil || f.Pkg.Pkg.Name() != "grpcgcp" {
			delete(scope, f)
		}
	}
	c.Extra["entry_points"] = names(entries)
	nilFields := nilCapableFields(p)
	var nf []string
	for f := range nilFields {
		nf = append(nf, f)
	}
	sort.Strings(nf)
	c.Extra["nil_capable_fields"] = nf

	lem := newLemmas(pl, scope)
	total, nontrivial := 0, 0
	for _, fn := range sortedFuncs(scope) {
		c.FuncsSeen[qname(fn)] = true
		ord := map[string]int{}
		barrier := lem.behindRecoverBarrier(fn)
		for _, s := range enumeratePanicSites(p, fn) {
			total++
			ord[s.kind+s.what]++
			construct := fmt.Sprintf("%s: %s#%d", fname(fn), s.what, ord[s.kind+s.what])
			ok, trivial, why := lem.discharge(s, nilFields)
			if !ok && barrier != "" {
				ok, trivial, why = true, false, "any panic here is converted into an error by the recover barrier of "+barrier
			}
			switch {
			case ok && trivial:
				c.okTrivial("C05.scan", construct, p.ipos(s.in), why)
			case ok:
				nontrivial++
				c.ok("C05.scan", construct, p.ipos(s.in), why)
			default:
				nontrivial++
				c.fail("C05.scan", construct, p.ipos(s.in), "panic-capable "+s.kind+" without a recognised guard: "+why)
			}
		}
	}
	c.Extra["panic_capable_sites"] = total
	c.floor("C05.scan", nontrivial, 25)
	lem.report()
}

// derefsParamAlways: the callee dereferences the parameter on every path (a field access or a load through it
// that post-dominates the entry), without first testing it for nil.
func derefsParamAlways(g *ssa.Function, prm *ssa.Parameter) bool {
	if prm.Referrers() == nil {
		return false
	}
	tested := false
	for _, r := range *prm.Referrers() {
		if bo, ok := r.(*ssa.BinOp); ok && (isNilConst(bo.X) || isNilConst(bo.Y)) {
			tested = true
		}
	}
	if tested {
		return false
	}
	for _, r := range *prm.Referrers() {
		var in ssa.Instruction
		switch x := r.(type) {
		case *ssa.FieldAddr:
			if x.X == ssa.Value(prm) {
				in = x
			}
		case *ssa.UnOp:
			if x.Op == token.MUL && x.X == ssa.Value(prm) {
				in = x
			}
		}
		if in == nil {
			continue
		}
		all := true
		for _, ret := range returnsOf(g) {
			if !dominatesInstr(in, ret) {
				all = false
			}
		}
		if all {
			return true
		}
	}
	return false
}
