package main

import (
	"fmt"
	"go/token"
	"go/types"
	"strings"

	"golang.org/x/tools/go/ssa"
)

func init() { register("C07", checkC07) }

func staticCallNamed(v ssa.Value, suffix string) (*ssa.Call, bool) {
	call, ok := stripConv(v).(*ssa.Call)
	if !ok {
		return nil, false
	}
	return call, strings.HasSuffix(calleeOf(&call.Call).Name(), suffix)
}

// C07 — Unresponsive-connection refresh: triggered exactly by rule, graceful, once.
func checkC07(c *Ctx, w *World) {
	c.Explanation = "Structural analysis of the refresh rule: refresh() is callable only from the detector and its reaching condition is exactly the " +
		"nine-conjunct rule (detection enabled, error present, code DeadlineExceeded, client-side message, context has a deadline that has passed, call started " +
		"not before the last response, counted calls ≥ threshold, last response older than the window); every other completion reaches gotResp (exact " +
		"complement), which resets exactly {lastResp, deCalls, refreshCnt}; exactly one count per qualifying completion; the window is computed in 64 bits from " +
		"refreshCnt and the configured period; refresh() is a typestate machine on the refreshing flag (test and set inside the critical section, exactly one " +
		"NewSubConn, every path that set the flag registers the replacement or resets it); refresh() leaves the serving connection untouched; the swap performs the full take-over."
	c.RuleText = "one obligation per call site / guard / writer / swap effect; non-trivial = needed a truth-table equivalence over the detector's conditions, a path or a provenance argument"
	c.Assumptions = []string{
		"the timed meaning of the conjuncts (what time.Now() returns, >= vs > at the thresholds) is not decided",
		"with detection disabled the detector returns before any effect (decided); that pickers are the only callers of the detector is decided by who-may-call",
	}
	c.Trusted = []string{"go/types", "golang.org/x/tools/go/ssa v0.29.0", "time / status / context library semantics"}
	pl := newPool(c, w)
	if pl == nil || pl.uscs == nil || pl.done == nil {
		return
	}
	p := pl.p
	du, refresh, gotResp := pl.f("(*gcpPicker).detectUnresponsive"), pl.f("(*gcpBalancer).refresh"), pl.f("(*subConnRef).gotResp")
	inc, win := pl.f("(*subConnRef).deCallsInc"), pl.f("(*gcpPicker).unresponsiveWindow")
	if du == nil || refresh == nil || gotResp == nil || inc == nil || win == nil {
		return
	}
	ctx, slot, started, rpcErr := du.Params[1], du.Params[2], du.Params[3], du.Params[4]
	// ---- C07.started: "that call started after the channel's last response" is stated over the start time handed to the
	// detector; it must be the clock read in Pick AFTER the channel was chosen (the choice can wait: a round-robin BIND pick
	// blocks until its channel is READY), not an earlier one
	{
		gai := pl.f("(*gcpPicker).getAndIncrementSubConnRef")
		nsites := 0
		for _, fn := range p.Funcs {
			eachInstr(fn, func(in ssa.Instruction) {
				call, ok := in.(*ssa.Call)
				if !ok || !isCallTo(call, du, p) || len(call.Call.Args) < 5 {
					return
				}
				nsites++
				var placements []*ssa.Call
				if gai != nil {
					placements = pl.callsIn(pl.pick, gai)
				}
				okStart, nNow, why := len(placements) > 0, 0, ""
				for _, o := range origins(call.Call.Args[3]) {
					if o.Kind == "zero" {
						continue // flow-insensitive artefact of a local struct's field; a clock read must exist (below)
					}
					now, isNowCall := staticCallNamed(o.Val, "time.Now")
					if !isNowCall || now.Parent() != pl.pick {
						okStart, why = false, "the start time is "+o.String()
						continue
					}
					nNow++
					for _, pc := range placements {
						if !dominatesInstr(pc, now) {
							okStart, why = false, "the clock is read at "+p.ipos(now)+", before the channel is chosen at "+p.ipos(pc)
						}
					}
				}
				c.check(okStart && nNow > 0, "C07.started", "start time of the call handed to the detector", p.ipos(call), "the call's start is time.Now() read in Pick after getAndIncrementSubConnRef returned the channel", "the call's recorded start is not the moment it was placed on its channel: "+why)
			})
		}
		c.floor("C07.started", nsites, 1)
	}
	codeDE, _ := p.constValue("google.golang.org/grpc/codes", "DeadlineExceeded")
	isLastResp := func(v ssa.Value) bool {
		f, base, ok := loadedField(v)
		return ok && f == "subConnRef.lastResp" && base == ssa.Value(slot)
	}
	isNow := func(v ssa.Value) bool { _, ok := staticCallNamed(v, "time.Now"); return ok }
	atoms := []atomDef{
		boolAtom("enabled", loadOf("gcpBalancer.unresponsiveDetection")),
		eqAtom("errNil", isVal(rpcErr), isNil),
		eqAtom("codeDE", func(v ssa.Value) bool {
			call, ok := staticCallNamed(v, "status.Code")
			return ok && call.Call.Args[0] == ssa.Value(rpcErr)
		}, constIs(codeDE)),
		eqAtom("clientMsg", func(v ssa.Value) bool {
			call, ok := stripConv(v).(*ssa.Call)
			return ok && call.Call.IsInvoke() && call.Call.Method.Name() == "Error" && call.Call.Value == ssa.Value(rpcErr)
		}, func(v ssa.Value) bool {
			call, ok := stripConv(v).(*ssa.Call)
			if !ok || !call.Call.IsInvoke() || call.Call.Method.Name() != "Error" {
				return false
			}
			u, ok := call.Call.Value.(*ssa.UnOp)
			if !ok {
				return false
			}
			g, ok := u.X.(*ssa.Global)
			return ok && g.Name() == "deErr"
		}),
		boolAtom("hasDeadline", func(v ssa.Value) bool {
			e, ok := stripConv(v).(*ssa.Extract)
			if !ok || e.Index != 1 {
				return false
			}
			call, ok := e.Tuple.(*ssa.Call)
			return ok && call.Call.IsInvoke() && call.Call.Method.Name() == "Deadline" && call.Call.Value == ssa.Value(ctx)
		}),
		boolAtom("deadlineInFuture", func(v ssa.Value) bool {
			call, ok := staticCallNamed(v, "time.(Time).After")
			if !ok {
				return false
			}
			e, isE := call.Call.Args[0].(*ssa.Extract)
			return isE && e.Index == 0 && isNow(call.Call.Args[1])
		}),
		boolAtom("startedBeforeLastResp", func(v ssa.Value) bool {
			call, ok := staticCallNamed(v, "time.(Time).Before")
			return ok && call.Call.Args[0] == ssa.Value(started) && isLastResp(call.Call.Args[1])
		}),
		ltAtom("tooFew", callTo(".deCallsInc"), callTo(".GetUnresponsiveCalls")),
		boolAtom("windowPassed", func(v ssa.Value) bool {
			call, ok := staticCallNamed(v, "time.(Time).Before")
			if !ok || !isLastResp(call.Call.Args[0]) {
				return false
			}
			add, ok := staticCallNamed(call.Call.Args[1], "time.(Time).Add")
			if !ok || !isNow(add.Call.Args[0]) {
				return false
			}
			neg, ok := add.Call.Args[1].(*ssa.UnOp)
			if !ok || neg.Op != token.SUB {
				return false
			}
			_, isWin := staticCallNamed(neg.X, ".unresponsiveWindow")
			return isWin
		}),
	}
	cs := newCondSpace(du, recOf(atoms...), atomNames(atoms...)...)
	if cs.err != "" {
		c.undecided("C07.trigger", fname(du), p.pos(du.Pos()), cs.err)
		return
	}
	A := cs.Atom
	for _, n := range atomNames(atoms...) {
		if !cs.Seen(n) {
			c.fail("C07.trigger", "detector tests "+n, p.pos(du.Pos()), "the detector no longer tests the condition '"+n+"' of the refresh rule")
		}
	}
	clientDeadline := cs.And(cs.Not(A("errNil")), A("codeDE"), A("clientMsg"), A("hasDeadline"), cs.Not(A("deadlineInFuture")))

	// ---- C07.trigger
	pl.whoMayCall("C07.trigger", du, fname(pl.done))
	rsites := pl.whoMayCall("C07.trigger", refresh, fname(du))
	c.floor("C07.trigger", len(rsites), 1)
	for _, s := range rsites {
		if s.Fn != du {
			continue
		}
		want := cs.And(A("enabled"), clientDeadline, cs.Not(A("startedBeforeLastResp")), cs.Not(A("tooFew")), A("windowPassed"))
		eq, wit := cs.EquivStrict(cs.Reach(s.Instr), want)
		c.check(eq, "C07.trigger", "refresh call: condition", p.ipos(s.Instr), "refresh ⇔ enabled ∧ client-side deadline error ∧ started after last response ∧ enough counted calls ∧ window passed (9 atoms, exact)", "refresh is not triggered exactly by the rule: "+wit)
		c.check(s.Call.Args[1] == ssa.Value(slot), "C07.trigger", "refresh call: slot", p.ipos(s.Instr), "refreshes the slot the call ran on", "refreshes a different slot")
	}
	// detection disabled ⇒ no effect at all
	neff := 0
	eachInstr(du, func(in ssa.Instruction) {
		if cc := callCommon(in); cc != nil {
			if len(p.calleesOf(cc)) == 0 {
				return
			}
			neff++
			if imp, _ := cs.Implies(cs.Reach(in), A("enabled")); !imp {
				c.fail("C07.trigger", fmt.Sprintf("detector effect#%d with detection disabled", neff), p.ipos(in), "a module call of the detector is reachable with detection disabled")
			}
		}
		if st, ok := in.(*ssa.Store); ok {
			if _, isFA := st.Addr.(*ssa.FieldAddr); isFA {
				c.fail("C07.trigger", "detector writes a field directly", p.ipos(in), "unexpected direct field write in the detector")
			}
		}
	})
	c.ok("C07.trigger", "detection disabled ⇒ no effect", p.pos(du.Pos()), fmt.Sprintf("all %d module calls of the detector are reachable only with detection enabled; it stores nothing itself", neff))
	// the detector is called by the completion closure with the placed slot, the pick-time context and start time, and the call's error
	for _, call := range pl.callsIn(pl.done, du) {
		errOK := paramFieldLoad(call.Call.Args[4], pl.done.Params[0], "DoneInfo.Err")
		first := true
		for _, in := range call.Block().Instrs {
			if in == ssa.Instruction(call) {
				break
			}
			if _, isIf := in.(*ssa.If); isIf {
				first = false
			}
		}
		c.check(errOK && call.Block() == pl.done.Blocks[0] && first, "C07.trigger", "completion closure → detector", p.ipos(call), "every completion (any outcome) is classified, with the call's own error", "not every completion is classified by the detector, or not with the call's error")
	}

	// ---- C07.response
	gsites := pl.whoMayCall("C07.response", gotResp, fname(du))
	c.floor("C07.response", len(gsites), 1)
	for _, s := range gsites {
		if s.Fn != du {
			continue
		}
		eq, wit := cs.EquivStrict(cs.Reach(s.Instr), cs.And(A("enabled"), cs.Not(clientDeadline)))
		c.check(eq && s.Call.Args[0] == ssa.Value(slot), "C07.response", "gotResp call: condition", p.ipos(s.Instr), "any completion that is not a client-side deadline error counts as a response (exact complement)", "responses are not recognised exactly as the complement of the client-deadline condition: "+wit)
	}
	// gotResp resets exactly {lastResp←now, deCalls←0, refreshCnt←0}
	var got []string
	okReset := true
	for _, a := range pl.ai.ByFn[gotResp] {
		if !a.isWrite() {
			continue
		}
		got = append(got, a.Field)
		switch a.Field {
		case "subConnRef.lastResp":
			st := a.Instr.(*ssa.Store)
			if _, isNowC := staticCallNamed(st.Val, "time.Now"); !isNowC {
				okReset = false
			}
		case "subConnRef.deCalls":
			cc := callCommon(a.Instr)
			if v, isC := constInt(cc.Args[1]); !isC || v != 0 || !strings.HasPrefix(a.What, "atomic:StoreUint32") {
				okReset = false
			}
		case "subConnRef.refreshCnt":
			st := a.Instr.(*ssa.Store)
			if v, isC := constInt(st.Val); !isC || v != 0 {
				okReset = false
			}
		default:
			okReset = false
		}
		if a.Base != ssa.Value(gotResp.Params[0]) {
			okReset = false
		}
	}
	c.check(okReset && len(got) == 3, "C07.response", "gotResp: effect", p.pos(gotResp.Pos()), "sets lastResp to now and resets deCalls and refreshCnt of its own slot, nothing else", "gotResp does not reset exactly {lastResp, deCalls, refreshCnt}: "+strings.Join(got, ","))

	// ---- C07.count
	isites := pl.whoMayCall("C07.count", inc, fname(du))
	c.floor("C07.count", len(isites), 1)
	c.check(len(isites) == 1, "C07.count", "one counting site", p.pos(du.Pos()), "exactly one deCallsInc call site", fmt.Sprintf("%d counting sites", len(isites)))
	for _, s := range isites {
		if s.Fn != du {
			continue
		}
		eq, wit := cs.EquivStrict(cs.Reach(s.Instr), cs.And(A("enabled"), clientDeadline, cs.Not(A("startedBeforeLastResp"))))
		c.check(eq && !inLoop(s.Instr), "C07.count", "deCallsInc call: condition", p.ipos(s.Instr), "counted once ⇔ client-side deadline error of a call started not before the last response", "deadline calls are not counted exactly once under the rule: "+wit)
	}
	pl.whoMayWrite("C07.count", "subConnRef.deCalls", map[string][]string{fname(inc): {"atomic"}, fname(gotResp): {"atomic"}, fname(pl.uscs): {"atomic"}})
	pl.whoMayWrite("C07.count", "subConnRef.lastResp", map[string][]string{fname(gotResp): {"store"}, fname(pl.uscs): {"store"}})
	pl.whoMayWrite("C07.count", "subConnRef.refreshCnt", map[string][]string{fname(gotResp): {"store"}, fname(pl.uscs): {"store"}})

	// ---- C07.recheck: "refreshed … only when … more than the period has passed since the last response … and no refresh is
	// already in progress": the detector evaluates the rule without the balancer lock; refresh() then takes the lock and
	// looks only at the in-progress flag. Whatever happened in between — a response, or the completion of the very refresh
	// the flag stood for (which sets the last response to now) — must be seen: either the decision and the start of the
	// refresh are one critical section of gb.mu, or refresh() re-validates the decision (reads the slot's lastResp / count
	// of deadline-exceeded calls, or compares a stamp handed in by the caller) under the lock
	{
		decidedUnderLock := true
		for _, call := range pl.callsInAll(refresh) {
			if pl.lf.HeldAt(call)["gcpBalancer.mu"] != 2 {
				decidedUnderLock = false
			}
		}
		revalidates := false
		for _, a := range pl.ai.ByFn[refresh] {
			if (a.Field == "subConnRef.lastResp" || a.Field == "subConnRef.deCalls") && (a.Mode == "R" || a.Mode == "A") && pl.lf.HeldAt(a.Instr)["gcpBalancer.mu"] == 2 {
				revalidates = true
			}
		}
		eachInstr(refresh, func(in ssa.Instruction) {
			if call, ok := in.(*ssa.Call); ok && pl.lf.HeldAt(call)["gcpBalancer.mu"] == 2 {
				n := calleeOf(&call.Call).Name()
				if strings.HasSuffix(n, ".getLastResp") || strings.HasSuffix(n, ".deCallsGet") || strings.HasSuffix(n, ".getDeCalls") {
					revalidates = true
				}
			}
		})
		c.check(decidedUnderLock || revalidates, "C07.recheck", "refresh(): the detector's decision is still valid when the refresh starts", p.pos(refresh.Pos()),
			"the rule is evaluated and acted on in one critical section of gb.mu, or refresh() re-validates it under the lock",
			"the refresh rule is evaluated in detectUnresponsive without gb.mu and refresh() re-checks only the in-progress flag: a qualifying completion overtaken by the take-over of the refresh it would have joined (or by a response) starts a refresh of a channel whose last response is a moment old")
	}

	// ---- C07.init: "more than the detection period has passed since the last response" — for a channel that has not had
	// a response yet the period counts from its creation: every new slot starts with lastResp = now
	{
		nnew := 0
		for _, a := range pl.ai.ByField["gcpBalancer.scRefs"] {
			mu, ok := a.Instr.(*ssa.MapUpdate)
			if !ok || a.What != "map-insert" {
				continue
			}
			for _, o := range origins(mu.Value) {
				al, isAl := o.Val.(*ssa.Alloc)
				if !isAl || shortType(al.Type()) != "*grpcgcp.subConnRef" {
					continue // an existing slot re-keyed at the swap
				}
				nnew++
				stamped := false
				for _, r := range *al.Referrers() {
					fa, isFA := r.(*ssa.FieldAddr)
					if !isFA || fieldRefOfAddr(fa) != "subConnRef.lastResp" {
						continue
					}
					for _, st := range storesTo(fa) {
						if isNow(st.Val) && dominatesInstr(st, mu) {
							stamped = true
						}
					}
				}
				c.check(stamped, "C07.init", "new slot in "+fname(a.Fn)+": lastResp", p.ipos(mu), "a new slot is registered with lastResp = time.Now()", "a new channel starts with a zero 'last response' time: its first deadline-exceeded calls trigger a refresh whatever the detection period")
			}
		}
		c.floor("C07.init", nnew, 1)
	}

	// ---- C07.window
	checkWindow(pl, win)

	// ---- C07.once (typestate of the refreshing flag in refresh)
	ref := refresh.Params[1]
	isFlag := func(v ssa.Value) bool {
		f, base, ok := loadedField(v)
		if !ok || f != "subConnRef.refreshing" || base != ssa.Value(ref) {
			return false
		}
		ld, _ := stripConv(v).(ssa.Instruction)
		return ld != nil && pl.lf.HeldAt(ld)["gcpBalancer.mu"] == 2
	}
	rcs := newCondSpace(refresh, recOf(boolAtom("refreshingLocked", isFlag)), "refreshingLocked")
	nsc := 0
	var creations []ssa.Instruction
	eachInstr(refresh, func(in ssa.Instruction) {
		if cc := callCommon(in); cc != nil && strings.HasSuffix(calleeOf(cc).Name(), "balancer.ClientConn.NewSubConn") {
			nsc++
			creations = append(creations, in)
			imp, wit := rcs.Implies(rcs.Reach(in), rcs.Not(rcs.Atom("refreshingLocked")))
			c.check(imp && rcs.Seen("refreshingLocked") && !inLoop(in), "C07.once", "refresh: NewSubConn", p.ipos(in), "a replacement is created only when the flag, read inside the critical section, is false; not in a loop", "a second replacement can be created while a refresh is in progress (flag not tested under the lock): "+wit)
		}
	})
	c.check(nsc == 1, "C07.once", "refresh: one creation site", p.pos(refresh.Pos()), "exactly one NewSubConn call", fmt.Sprintf("%d NewSubConn calls", nsc))
	// the flag's stores, per value: a store of a computed flag (`ref.refreshing = ok`) counts as a set on the ways on which the
	// value is true and as a reset on the ways on which it is false
	type flagStore struct {
		st *ssa.Store
		c  Bits
	}
	var setTrue, setFalse []flagStore
	var registers []*ssa.MapUpdate
	undetermined := ""
	for _, a := range pl.ai.ByFn[refresh] {
		if a.Field == "subConnRef.refreshing" && a.What == "store" {
			st := a.Instr.(*ssa.Store)
			for _, rv := range rcs.ResolveWithConds(st.Val, rcs.Reach(st)) {
				cst, ok := rv.V.(*ssa.Const)
				switch {
				case ok && cst.Value != nil && cst.Value.String() == "true":
					setTrue = append(setTrue, flagStore{st, rv.C})
				case ok && cst.Value != nil && cst.Value.String() == "false":
					setFalse = append(setFalse, flagStore{st, rv.C})
				default:
					undetermined = "the flag is assigned " + vstr(rv.V) + " at " + p.ipos(st)
				}
			}
		}
		if a.Field == "gcpBalancer.refreshingScRefs" && a.What == "map-insert" {
			mu := a.Instr.(*ssa.MapUpdate)
			if cellValue(mu.Value) == ssa.Value(ref) && len(creations) == 1 {
				own := true
				keys := rcs.ResolveUnder(mu.Key, rcs.Reach(mu))
				for _, k := range keys {
					if e, ok := k.(*ssa.Extract); !ok || e.Index != 0 || e.Tuple != creations[0].(ssa.Value) {
						own = false
					}
				}
				if own && len(keys) > 0 {
					registers = append(registers, mu)
				}
			}
		}
	}
	c.check(undetermined == "", "C07.once", "refresh: flag values", p.pos(refresh.Pos()), "every store to the flag in refresh() stores a value that is true or false on each way", undetermined)
	c.floor("C07.once:set", len(setTrue), 1)
	for _, fs := range setTrue {
		st := fs.st
		imp, wit := rcs.Implies(fs.c, rcs.Not(rcs.Atom("refreshingLocked")))
		followed := rcs.False()
		for _, mu := range registers {
			if mayPrecede(st, mu) {
				followed = or(followed, rcs.Reach(mu))
			}
		}
		for _, sf := range setFalse {
			if sf.st != st && mayPrecede(st, sf.st) {
				followed = or(followed, sf.c)
			}
		}
		closed, wit2 := rcs.Implies(fs.c, followed)
		c.check(imp && pl.lf.HeldAt(st)["gcpBalancer.mu"] == 2, "C07.once", "refresh: flag set", p.ipos(st), "flag set only after it was read false in the same critical section", "refreshing flag set without testing it under the lock: "+wit)
		c.check(closed, "C07.once", "refresh: flag set ⇒ registered ∨ reset", p.ipos(st), "every way that set the flag registers the replacement under its own key in refreshingScRefs or resets the flag before returning", "a way sets the refreshing flag and returns without registering a replacement or resetting it: no later refresh can ever start for this channel: "+wit2)
	}
	pl.whoMayWrite("C07.once", "subConnRef.refreshing", map[string][]string{fname(refresh): {"store"}, fname(pl.uscs): {"store"}})
	pl.flagClearedOnlyAtSwap("C07.once-clear")
	pl.whoMayWrite("C07.once", "gcpBalancer.refreshingScRefs", map[string][]string{fname(refresh): {"map-insert"}, fname(pl.uscs): {"map-delete"}})

	// ---- C07.graceful
	var bad []string
	for f := range pl.sums.Trans[refresh].Writes {
		switch f {
		case "subConnRef.refreshing", "gcpBalancer.refreshingScRefs":
		default:
			bad = append(bad, f)
		}
	}
	rem := false
	for k := range pl.sums.Trans[refresh].Calls {
		if strings.Contains(k, "RemoveSubConn") {
			rem = true
		}
	}
	c.check(len(bad) == 0 && !rem, "C07.graceful", "refresh: write set", p.pos(refresh.Pos()), "refresh() writes only the flag and the replacement registry and removes nothing: the old connection keeps serving", "starting a refresh disturbs the serving connection: writes "+strings.Join(bad, ",")+fmt.Sprintf(" remove=%v", rem))

	// ---- C07.enable: the first conjunct of the rule is the flag; it must mean "both thresholds configured (> 0)"
	if ic := pl.f("(*gcpBalancer).initializeConfig"); ic != nil {
		pl.whoMayWrite("C07.enable", "gcpBalancer.unresponsiveDetection", map[string][]string{fname(ic): {"store"}})
		isGetter := func(suffix string) vpred {
			return func(v ssa.Value) bool {
				_, ok := staticCallNamed(stripConv(v), suffix)
				return ok
			}
		}
		atoms := []atomDef{lenZeroAtom("callsZero", isGetter(".GetUnresponsiveCalls")), lenZeroAtom("msZero", isGetter(".GetUnresponsiveDetectionMs"))}
		ecs := newCondSpace(ic, recOf(atoms...), atomNames(atoms...)...)
		nst := 0
		for _, a := range pl.ai.ByFn[ic] {
			if a.Field != "gcpBalancer.unresponsiveDetection" || a.What != "store" {
				continue
			}
			nst++
			st := a.Instr.(*ssa.Store)
			val, ok := ecs.EvalValue(st.Val)
			if !ok {
				c.undecided("C07.enable", "detection flag value", p.ipos(st), "the stored value is not a boolean function of the two configured thresholds: "+vstr(st.Val))
				continue
			}
			// compared where the store is reached (a phi's value is only defined there)
			want := ecs.And(ecs.Not(ecs.Atom("callsZero")), ecs.Not(ecs.Atom("msZero")))
			diff := and(ecs.Reach(st), or(and(val, ecs.Not(want)), and(ecs.Not(val), want)))
			eq, wit := ecs.Implies(diff, ecs.False())
			c.check(eq, "C07.enable", "detection flag value", p.ipos(st), "detection enabled ⇔ unresponsive_calls > 0 ∧ unresponsive_detection_ms > 0 (both thresholds configured)", "detection is enabled under a different condition than 'both thresholds > 0' (with one threshold zero a single deadline-exceeded call, or elapsed time alone, would trigger a refresh): "+wit)
		}
		c.floor("C07.enable", nst, 1)
	}

	// ---- C07.swap
	checkSwap(pl)
	// "the replacement takes over the channel (its bound keys, …)": every connection-indexed table follows the swap
	pl.checkRetire("C07.swap-tables", func(string) bool { return true })
	// "… and the old connection keeps serving until / the replacement takes over": the replacement enters the state
	// table with the state recorded for the channel (a transfer paired with the removal of the old entry), not with a
	// state of its own that the evaluator never counted — otherwise the channel can stay out of every later picker
	importPremises(c, w, "C04", checkC04, []string{"C04.pair"}, "C07.states")
	// "… takes over the channel (… active streams …)": a call in flight at the take-over completes against the slot — the
	// completion closure is the one Pick built for the placed slot and resolves the slot's connection when it runs
	// (C02.pick), so its stream count, its BIND and its detector input land on the channel, not on the retired connection
	importPremises(c, w, "C02", checkC02, []string{"C02.pick"}, "C07.inflight")
}

// checkWindow: the window is derived from refreshCnt and the configured period, with no arithmetic narrower than 64 bits.
func checkWindow(pl *pool, win *ssa.Function) {
	c, p := pl.c, pl.p
	usesCnt, usesMs := false, false
	var narrow []string
	eachInstr(win, func(in ssa.Instruction) {
		if bo, ok := in.(*ssa.BinOp); ok {
			switch bo.Op {
			case token.SHL, token.MUL, token.ADD:
				if b, ok := bo.Type().Underlying().(*types.Basic); ok && b.Info()&types.IsInteger != 0 {
					sz := p.Pkgs[0].TypesSizes.Sizeof(bo.Type())
					_, isPhi := bo.X.(*ssa.Phi)
					isCounter := bo.Op == token.ADD && isPhi
					if sz < 8 && !isCounter {
						narrow = append(narrow, fmt.Sprintf("%s in %d-bit type at %s", bo.Op, sz*8, p.ipos(bo)))
					}
				}
			}
		}
		if v := valueOf(in); v != nil && isLoadOf(v, "subConnRef.refreshCnt") {
			usesCnt = true
		}
		if _, ok := staticCallNamed(valueOf(in), ".GetUnresponsiveDetectionMs"); ok {
			usesMs = true
		}
	})
	c.check(len(narrow) == 0, "C07.window", "unresponsiveWindow: arithmetic width", p.pos(win.Pos()), "no shift/multiplication of the window is performed in a type narrower than 64 bits", "window arithmetic can wrap around in a narrow type: "+strings.Join(narrow, "; "))
	c.check(usesCnt && usesMs, "C07.window", "unresponsiveWindow: inputs", p.pos(win.Pos()), "window depends on the slot's refreshCnt and the configured unresponsive_detection_ms", "window does not depend on both refreshCnt and unresponsive_detection_ms")
	// multiplications inside a loop are guarded by an overflow test that leaves the loop
	wcs := newCondSpace(win, nil)
	for _, l := range loopsOf(win) {
		for b := range l.Blocks {
			for _, in := range b.Instrs {
				bo, ok := in.(*ssa.BinOp)
				if !ok || (bo.Op != token.MUL && bo.Op != token.SHL) {
					continue
				}
				guarded := false
				for hb := range l.Blocks {
					iff, ok := hb.Instrs[len(hb.Instrs)-1].(*ssa.If)
					if !ok || !hb.Dominates(b) {
						continue
					}
					cmp, ok := iff.Cond.(*ssa.BinOp)
					if !ok {
						continue
					}
					_, cx := constInt(cmp.X)
					_, cy := constInt(cmp.Y)
					if (cmp.X == bo.X && cy) || (cmp.Y == bo.X && cx) {
						if !l.Blocks[hb.Succs[0]] || !l.Blocks[hb.Succs[1]] {
							guarded = true
							continue
						}
						// the guard's "too large" branch stays inside the loop for a while (it reports through a flag that is
						// tested later): accepted when, on that branch, neither the doubling nor a back edge can be reached
						for si := 0; si < 2 && !guarded; si++ {
							fire := wcs.EdgeCond(hb, si)
							if wcs.Satisfiable(and(fire, wcs.ReachBlock(b))) {
								continue
							}
							again := false
							for _, lt := range l.Latch {
								for bi, sb := range lt.Succs {
									if way := and(fire, wcs.EdgeCond(lt, bi)); sb == l.Header && wcs.Satisfiable(way) && !flagDownOnWay(wcs, l, lt, way, b) {
										again = true
									}
								}
							}
							guarded = !again
						}
					}
				}
				c.check(guarded, "C07.window", "unresponsiveWindow: doubling guarded", p.ipos(bo), "each doubling is preceded by a comparison of the accumulated window with a constant bound that leaves the loop", "window is doubled in a loop without an overflow guard")
			}
		}
	}
	// callers
	pl.whoMayCall("C07.window", win, "(*gcpPicker).detectUnresponsive")
}

// flagDownOnWay: the way round the loop (through latch lt, under condition way) carries the constant false into a boolean
// loop variable that the block b can only be reached with true: the next iteration cannot reach b (a `for … && fits`
// loop whose helper reports "does not fit" through its second result).
func flagDownOnWay(cs *CondSpace, l *Loop, lt *ssa.BasicBlock, way Bits, b *ssa.BasicBlock) bool {
	pi := -1
	for i, pb := range l.Header.Preds {
		if pb == lt {
			pi = i
		}
	}
	if pi < 0 {
		return false
	}
	for _, in := range l.Header.Instrs {
		ph, ok := in.(*ssa.Phi)
		if !ok {
			break
		}
		if !isBool(ph.Type()) {
			continue
		}
		need, known := cs.EvalValue(ph)
		if !known {
			continue
		}
		if imp, _ := cs.Implies(cs.ReachBlock(b), need); !imp {
			continue
		}
		vals := cs.ResolveUnder(ph.Edges[pi], way)
		down := len(vals) > 0
		for _, v := range vals {
			if cst, isC := v.(*ssa.Const); !isC || cst.Value == nil || cst.Value.String() != "false" {
				down = false
			}
		}
		if down {
			return true
		}
	}
	return false
}

func valueOf(in ssa.Instruction) ssa.Value {
	v, _ := in.(ssa.Value)
	return v
}

// checkSwap: the take-over performed when a replacement reports READY.
func checkSwap(pl *pool) {
	c, p := pl.c, pl.p
	cs := pl.uscsSpace()
	if cs == nil {
		return
	}
	swap := cs.And(cs.Atom("found"), cs.Atom("sReady"))
	sc := param(pl.uscs, 1)
	inSwap := func(in ssa.Instruction) bool {
		imp, _ := cs.Implies(cs.ForgetLoopVars(cs.Reach(in)), swap)
		return imp && cs.Satisfiable(cs.Reach(in))
	}
	isSlot := func(v ssa.Value) bool {
		e, ok := stripConv(v).(*ssa.Extract)
		if !ok || e.Index != 0 {
			return false
		}
		l, ok := e.Tuple.(*ssa.Lookup)
		return ok && isLoadOf(l.X, "gcpBalancer.refreshingScRefs") && l.Index == ssa.Value(sc)
	}
	want := map[string]bool{"subConn←new": false, "refreshing←false": false, "deCalls←0": false, "lastResp←now": false, "refreshCnt+1": false, "unregister": false}
	for _, a := range pl.ai.ByFn[pl.uscs] {
		if !a.isWrite() || !inSwap(a.Instr) || inLoop(a.Instr) {
			continue
		}
		switch a.Field {
		case "subConnRef.subConn":
			if st, ok := a.Instr.(*ssa.Store); ok && st.Val == ssa.Value(sc) && isSlot(a.Base) {
				want["subConn←new"] = true
			}
		case "subConnRef.refreshing":
			if st, ok := a.Instr.(*ssa.Store); ok && isSlot(a.Base) {
				if cst, ok := st.Val.(*ssa.Const); ok && cst.Value != nil && cst.Value.String() == "false" {
					want["refreshing←false"] = true
				}
			}
		case "subConnRef.deCalls":
			if cc := callCommon(a.Instr); cc != nil && isSlot(a.Base) {
				if v, isC := constInt(cc.Args[1]); isC && v == 0 {
					want["deCalls←0"] = true
				}
			}
		case "subConnRef.lastResp":
			if st, ok := a.Instr.(*ssa.Store); ok && isSlot(a.Base) {
				if _, isNow := staticCallNamed(st.Val, "time.Now"); isNow {
					want["lastResp←now"] = true
				}
			}
		case "subConnRef.refreshCnt":
			if st, ok := a.Instr.(*ssa.Store); ok && isSlot(a.Base) {
				if bo, ok := st.Val.(*ssa.BinOp); ok && bo.Op == token.ADD && isLoadOf(bo.X, "subConnRef.refreshCnt") {
					if v, isC := constInt(bo.Y); isC && v == 1 {
						want["refreshCnt+1"] = true
					}
				}
			}
		case "gcpBalancer.refreshingScRefs":
			if call, ok := a.Instr.(*ssa.Call); ok && a.What == "map-delete" && call.Call.Args[1] == ssa.Value(sc) {
				want["unregister"] = true
			}
		}
	}
	for k, ok := range want {
		c.check(ok, "C07.swap", "swap: "+k, p.pos(pl.uscs.Pos()), "performed exactly once on the swap path, on the slot registered for this replacement", "the take-over does not perform '"+k+"' on the registered slot")
	}
	// position kept: the swap does not touch scRefList
	touch := false
	for _, a := range pl.ai.ByFn[pl.uscs] {
		if a.Field == "gcpBalancer.scRefList" && a.isWrite() {
			touch = true
		}
	}
	c.check(!touch, "C07.swap", "swap: position kept", p.pos(pl.uscs.Pos()), "UpdateSubConnState never writes scRefList: the channel keeps its round-robin position", "connection state handling rewrites the round-robin list")
}

// flagClearedOnlyAtSwap: the per-channel "refresh in progress" flag (which blocks further replacements) is
// cleared only where no replacement is outstanding: in refresh() when the creation failed (nothing was
// registered on that path), or in the swap when the replacement takes over. Clearing it anywhere else
// lets a second replacement be created while the first is still registered.
func (pl *pool) flagClearedOnlyAtSwap(rule string) {
	c, p := pl.c, pl.p
	refresh := pl.f("(*gcpBalancer).refresh")
	if refresh == nil || pl.uscs == nil {
		return
	}
	cs := pl.uscsSpace()
	if cs == nil {
		return
	}
	swap := cs.And(cs.Atom("found"), cs.Atom("sReady"))
	n := 0
	rfs := newCondSpace(refresh, nil)
	for _, a := range pl.ai.ByField["subConnRef.refreshing"] {
		st, ok := a.Instr.(*ssa.Store)
		if !ok || freshAt(a.Base, a.Instr) {
			continue
		}
		// the ways on which this store clears the flag (a computed flag is resolved per way)
		var clears Bits
		isClear := false
		if a.Fn == refresh {
			for _, rv := range rfs.ResolveWithConds(st.Val, rfs.Reach(st)) {
				if cst, isC := rv.V.(*ssa.Const); isC && cst.Value != nil && cst.Value.String() == "true" {
					continue
				}
				clears, isClear = or(clears, rv.C), true
			}
		} else if cst, isC := st.Val.(*ssa.Const); !isC || cst.Value == nil || cst.Value.String() != "true" {
			isClear = true
		}
		if !isClear {
			continue
		}
		n++
		construct := fmt.Sprintf("refreshing←false in %s#%d", fname(a.Fn), n)
		switch a.Fn {
		case pl.uscs:
			imp, wit := cs.Implies(cs.ForgetLoopVars(cs.Reach(st)), swap)
			// and the replacement is unregistered on that path
			unreg := false
			for _, b := range pl.ai.ByFn[pl.uscs] {
				if b.Field == "gcpBalancer.refreshingScRefs" && b.What == "map-delete" && (dominatesInstr(b.Instr, st) || everyPathHits(st, map[ssa.Instruction]bool{b.Instr: true})) {
					unreg = true
				}
			}
			c.check(imp && unreg, rule, construct, p.ipos(st), "cleared only in the swap, where the replacement is unregistered and takes over", "the flag is cleared while a replacement may still be registered (a second replacement can be created for the same channel): "+wit)
		case refresh:
			// no registration on any way through this clearing store
			reg := false
			for _, b := range pl.ai.ByFn[refresh] {
				if b.Field == "gcpBalancer.refreshingScRefs" && b.What == "map-insert" && (mayPrecede(b.Instr, st) || mayPrecede(st, b.Instr)) && rfs.Satisfiable(and(clears, rfs.Reach(b.Instr))) {
					reg = true
				}
			}
			c.check(!reg, rule, construct, p.ipos(st), "cleared only on the way on which no replacement was registered (creation failed)", "the flag is cleared on a way that registers a replacement")
		default:
			c.fail(rule, construct, p.ipos(st), "the refresh-in-progress flag is cleared outside refresh() and the swap")
		}
	}
	c.floor(rule, n, 2)
}
