package main

import (
	"fmt"
	"go/token"
	"strings"

	"golang.org/x/tools/go/ssa"
)

func init() {
	register("C13", checkC13)
	register("C14", checkC14)
}

const pkgME = "github.com/GoogleCloudPlatform/grpc-gcp-go/grpcgcp/multiendpoint"

type mectx struct {
	*pool
	unavailable, available, recovering                            int64
	ctor, setEps, muc, sft, newEp, sea, seaInner, setState, sched *ssa.Function
	delayed, recovery                                             *ssa.Function // timer closures
	current                                                       *ssa.Function
}

func newME(c *Ctx, w *World) *mectx {
	pl := newPoolLite(c, w)
	if pl == nil {
		return nil
	}
	m := &mectx{pool: pl}
	get := func(name string) int64 {
		v, ok := pl.p.constValue(pkgME, name)
		if !ok {
			c.fail("engine.anchor", "const multiendpoint."+name, "-", "constant not found")
			return -99
		}
		return v
	}
	m.unavailable, m.available, m.recovering = get("unavailable"), get("available"), get("recovering")
	f := func(n string) *ssa.Function { return c.need(pl.p, "multiendpoint", n) }
	m.ctor, m.setEps, m.muc, m.sft = f("NewMultiEndpoint"), f("(*multiEndpoint).SetEndpoints"), f("(*multiEndpoint).maybeUpdateCurrent"), f("(*multiEndpoint).switchFromTo")
	m.newEp, m.sea, m.seaInner = f("(*multiEndpoint).newEndpoint"), f("(*multiEndpoint).SetEndpointAvailability"), f("(*multiEndpoint).setEndpointAvailability")
	m.setState, m.sched, m.current = f("setState"), f("(*multiEndpoint).scheduleUnavailable"), f("(*multiEndpoint).Current")
	// timer closures: whatever is passed as the callback to timeAfterFunc
	for _, host := range []*ssa.Function{m.sft, m.sched} {
		if host == nil {
			continue
		}
		eachInstr(host, func(in ssa.Instruction) {
			call, ok := in.(*ssa.Call)
			if !ok || !isTimeAfterFunc(&call.Call) {
				return
			}
			for _, o := range origins(call.Call.Args[1]) {
				if mc, ok := o.Val.(*ssa.MakeClosure); ok {
					if host == m.sft {
						m.delayed = mc.Fn.(*ssa.Function)
					} else {
						m.recovery = mc.Fn.(*ssa.Function)
					}
				}
			}
		})
	}
	if m.delayed == nil || m.recovery == nil {
		c.fail("engine.anchor", "timer closures", "-", "closures passed to timeAfterFunc by switchFromTo / scheduleUnavailable not found")
	}
	for _, fn := range []*ssa.Function{m.ctor, m.setEps, m.muc, m.sft, m.newEp, m.sea, m.seaInner, m.setState, m.sched, m.current, m.delayed, m.recovery} {
		if fn == nil {
			return nil
		}
		c.FuncsSeen[qname(fn)] = true
	}
	return m
}

// newPoolLite builds the shared context without the balancer-specific anchors.
func newPoolLite(c *Ctx, w *World) *pool {
	p := w.GCP()
	if p == nil {
		return nil
	}
	pl := &pool{c: c, p: p, lf: w.GCPLocks(), sums: w.GCPSums()}
	pl.ai = buildAccessIndex(p)
	return pl
}

func isTimeAfterFunc(cc *ssa.CallCommon) bool {
	u, ok := cc.Value.(*ssa.UnOp)
	if !ok {
		return false
	}
	g, ok := u.X.(*ssa.Global)
	return ok && g.Name() == "timeAfterFunc"
}

func isTimeNowVar(v ssa.Value) bool {
	call, ok := stripConv(v).(*ssa.Call)
	if !ok {
		return false
	}
	u, ok := call.Call.Value.(*ssa.UnOp)
	if !ok {
		return false
	}
	g, ok := u.X.(*ssa.Global)
	return ok && g.Name() == "timeNow"
}

// tableElem: v is an *endpoint read from me.endpoints in this function: a range value, or the value of a lookup.
func tableElem(v ssa.Value) (kind string, lk *ssa.Lookup, ok bool) {
	// `for id := range table { e := table[id] … }`: the value under a key the scan of the same, unchanged table yields
	if l, isL := stripConv(v).(*ssa.Lookup); isL && !l.CommaOk && isLoadOf(l.X, "multiEndpoint.endpoints") {
		if ke, isE := stripConv(l.Index).(*ssa.Extract); isE && ke.Index == 1 {
			if nx, isN := ke.Tuple.(*ssa.Next); isN {
				ensureEquiv(l.Parent())
				if rng, isR := nx.Iter.(*ssa.Range); isR && isLoadOf(rng.X, "multiEndpoint.endpoints") && kstr(rng.X) == kstr(l.X) {
					return "range", nil, true
				}
			}
		}
		return "", nil, false
	}
	e, isE := stripConv(v).(*ssa.Extract)
	if !isE {
		return "", nil, false
	}
	switch t := e.Tuple.(type) {
	case *ssa.Next:
		if rng, isR := t.Iter.(*ssa.Range); isR && isLoadOf(rng.X, "multiEndpoint.endpoints") && e.Index == 2 {
			return "range", nil, true
		}
	case *ssa.Lookup:
		if isLoadOf(t.X, "multiEndpoint.endpoints") && e.Index == 0 {
			return "lookup", t, true
		}
	}
	return "", nil, false
}

func statusOf(base vpred) vpred {
	return func(v ssa.Value) bool {
		f, b, ok := loadedField(v)
		return ok && f == "endpoint.status" && base(b)
	}
}

func prioOf(base vpred) vpred {
	return func(v ssa.Value) bool {
		f, b, ok := loadedField(v)
		return ok && f == "endpoint.priority" && base(b)
	}
}

// C13 — MultiEndpoint: current endpoint is a member, the top available one, sticky.
func checkC13(c *Ctx, w *World) {
	c.Explanation = "Structural analysis of the MultiEndpoint state machine's 'current' variable: who may write it, every value written is the id of an " +
		"endpoint read from the endpoint table in the same critical section (directly or through a parameter all of whose call sites satisfy this), ids equal " +
		"their table keys, every mutator re-evaluates current after its last table/status/priority write on every path before unlocking, the fallback-to-first " +
		"store only when current is gone and nothing is available, current is always (re)assigned when it is gone, the table is never empty (both constructors " +
		"of the table reject an empty list before any mutation and insert every element), and the decision structure of maybeUpdateCurrent as exact truth tables " +
		"(early return, switch, argmin loops)."
	c.RuleText = "one obligation per writer / stored value / mutator / return / decision; non-trivial = needed a truth-table equivalence, must-pass-through or provenance argument"
	c.Assumptions = []string{"'is the highest-priority available endpoint after every operation' over all histories and timer firings needs state exploration (not this family); decided here are the per-critical-section necessary conditions"}
	c.Trusted = []string{"go/types", "golang.org/x/tools/go/ssa v0.29.0"}
	m := newME(c, w)
	if m == nil {
		return
	}
	p := m.p
	lockRules(c, p, m.lf, p.reachableModule(m.ctor, m.setEps, m.sea, m.current, m.delayed, m.recovery), "C13.locks")

	// ---- C13.writers
	n := m.whoMayWrite("C13.writers", "multiEndpoint.current", map[string][]string{
		fname(m.muc): {"store"}, fname(m.sft): {"store"}, fname(m.delayed): {"store"},
	})
	c.floor("C13.writers", n, 3)

	// ---- C13.member
	checkMember := func(fn *ssa.Function, st *ssa.Store) {
		construct := fmt.Sprintf("current ← %s in %s", vstr(st.Val), fname(fn))
		f, base, ok := loadedField(st.Val)
		if !ok || f != "endpoint.id" {
			// alternatively: the key of a successful lookup in the table within this critical section
			ensureEquiv(fn)
			keyOK := false
			eachInstr(fn, func(in ssa.Instruction) {
				lk, isL := in.(*ssa.Lookup)
				if !isL || !lk.CommaOk || !isLoadOf(lk.X, "multiEndpoint.endpoints") || kstr(lk.Index) != kstr(st.Val) {
					return
				}
				cs := newCondSpace(fn, recOf(boolAtom("present", func(v ssa.Value) bool { return isExtractOf(stripConv(v), lk, 1) })), "present")
				if imp, _ := cs.Implies(cs.Reach(st), cs.Atom("present")); imp {
					keyOK = true
				}
			})
			c.check(keyOK && m.lf.HeldAt(st)["multiEndpoint.RWMutex"] == 2, "C13.member", construct, p.ipos(st), "value is the key of a successful table lookup in this critical section", "current is assigned something that is neither the id of an endpoint read from the table nor the key of a successful lookup")
			return
		}
		var bad []string
		for _, o := range origins(base) {
			if isConstNilOrigin(o) {
				continue // a nil candidate is excluded by the guards checked in C13.decision
			}
			if prm, isP := o.Val.(*ssa.Parameter); isP {
				// every call site must pass a table element of the caller's critical section
				idx := -1
				for i, q := range fn.Params {
					if q == prm {
						idx = i
					}
				}
				sites := 0
				for _, g := range p.Funcs {
					eachInstr(g, func(in ssa.Instruction) {
						call, isC := in.(*ssa.Call)
						if !isC {
							return
						}
						for _, callee := range p.calleesOf(&call.Call) {
							if callee != fn {
								continue
							}
							sites++
							for _, ao := range origins(call.Call.Args[idx]) {
								if isConstNilOrigin(ao) {
									continue
								}
								if _, _, isT := tableElem(ao.Val); !isT {
									bad = append(bad, fmt.Sprintf("argument of call at %s: %s", p.ipos(call), ao))
								}
							}
							if m.lf.HeldAt(call)["multiEndpoint.RWMutex"] != 2 {
								bad = append(bad, "call at "+p.ipos(call)+" without the write lock")
							}
						}
					})
				}
				if sites == 0 {
					bad = append(bad, "parameter with no call sites")
				}
				continue
			}
			kind, lk, isT := tableElem(o.Val)
			if !isT {
				bad = append(bad, o.String())
				continue
			}
			if kind == "lookup" {
				// must be guarded by the comma-ok flag
				cs := newCondSpace(fn, recOf(boolAtom("present", func(v ssa.Value) bool { return isExtractOf(stripConv(v), lk, 1) })), "present")
				if imp, _ := cs.Implies(cs.Reach(st), cs.Atom("present")); !imp || !lk.CommaOk {
					bad = append(bad, "lookup result used without checking presence")
				}
			}
		}
		held := m.lf.HeldAt(st)["multiEndpoint.RWMutex"] == 2
		c.check(len(bad) == 0 && held, "C13.member", construct, p.ipos(st), "value is the id of an endpoint read from the table in this critical section (write lock held)", "current can be set to a name that is not a member of the endpoint table: "+strings.Join(bad, "; "))
	}
	nst := 0
	for _, fn := range []*ssa.Function{m.muc, m.sft, m.delayed} {
		for _, a := range m.ai.ByFn[fn] {
			if a.Field == "multiEndpoint.current" && a.What == "store" {
				nst++
				checkMember(fn, a.Instr.(*ssa.Store))
			}
		}
	}
	c.floor("C13.member", nst, 3)
	// constructor: current = Endpoints[0] under len != 0, and the table is built from the same slice
	ctorOK := false
	b := m.ctor.Params[0]
	isList := func(v ssa.Value) bool {
		f, base, ok := loadedField(v)
		return ok && f == "MultiEndpointOptions.Endpoints" && base == ssa.Value(b)
	}
	for _, a := range m.ai.ByFn[m.ctor] {
		if a.Field == "multiEndpoint.current" && a.What == "store" {
			st := a.Instr.(*ssa.Store)
			if u, ok := st.Val.(*ssa.UnOp); ok {
				if ia, ok := u.X.(*ssa.IndexAddr); ok && isList(ia.X) {
					if i, isC := constInt(ia.Index); isC && i == 0 {
						cs := newCondSpace(m.ctor, recOf(lenZeroAtom("empty", func(v ssa.Value) bool {
							call, ok := stripConv(v).(*ssa.Call)
							return ok && calleeOf(&call.Call).Builtin == "len" && isList(call.Call.Args[0])
						})), "empty")
						if imp, _ := cs.Implies(cs.Reach(st), cs.Not(cs.Atom("empty"))); imp {
							ctorOK = true
						}
					}
				}
			}
		}
	}
	c.check(ctorOK, "C13.member", "constructor: current = Endpoints[0]", p.pos(m.ctor.Pos()), "initial current is the first element of the (non-empty) list the table is built from", "initial current is not the first element of a non-empty list")
	// ids equal keys
	idOK := true
	for _, a := range m.ai.ByField["endpoint.id"] {
		if a.isWrite() {
			st, ok := a.Instr.(*ssa.Store)
			if !ok || a.Fn != m.newEp || st.Val != ssa.Value(m.newEp.Params[1]) || !freshAt(a.Base, a.Instr) {
				idOK = false
			}
		}
	}
	nins := 0
	for _, fn := range []*ssa.Function{m.ctor, m.setEps} {
		eachInstr(fn, func(in ssa.Instruction) {
			mu, ok := in.(*ssa.MapUpdate)
			if !ok {
				return
			}
			call, isC := stripConv(mu.Value).(*ssa.Call)
			if !isC {
				return
			}
			for _, g := range p.calleesOf(&call.Call) {
				if g == m.newEp {
					nins++
					if call.Call.Args[1] != mu.Key {
						idOK = false
					}
				}
			}
		})
	}
	c.check(idOK && nins == 2, "C13.member", "endpoint.id == table key", p.pos(m.newEp.Pos()), "ids are set only by newEndpoint from its argument, and every table insert stores newEndpoint(key, …) under that key", "an endpoint can be stored under a key different from its id")
	// who may write the table
	m.whoMayWrite("C13.member", "multiEndpoint.endpoints", map[string][]string{fname(m.setEps): {"map-insert", "map-delete"}, fname(m.ctor): {"store"}})
	// an endpoint that stays in the list keeps its object (its status, stamp and timer are what Current() is decided on):
	// SetEndpoints removes an entry only when its key is not found — by a comma-ok lookup — in a set filled from every
	// element of the new list
	{
		ndel := 0
		for _, a := range m.ai.ByFn[m.setEps] {
			if a.Field != "multiEndpoint.endpoints" || a.What != "map-delete" {
				continue
			}
			ndel++
			del := a.Instr.(*ssa.Call)
			var scan *rangeLoop
			for _, rl := range rangeLoops(m.setEps, func(v ssa.Value) bool { return isLoadOf(v, "multiEndpoint.endpoints") }) {
				if rl.key(del.Call.Args[1]) {
					scan = rl
				}
			}
			good, why := scan != nil, "the removed key is not the key of a scan over the table"
			if scan != nil {
				listParam := m.setEps.Params[1]
				filledFromList := func(mp ssa.Value) bool {
					mk, isMk := stripConv(mp).(*ssa.MakeMap)
					if !isMk {
						return false
					}
					// (a range over a slice is an index loop in SSA: the key is the element at the loop's counter)
					for _, fill := range loopsOf(m.setEps) {
						if k, _ := fill.boundedKind(); k == "" {
							continue
						}
						okFill := false
						eachInstr(m.setEps, func(in ssa.Instruction) {
							mu, isMU := in.(*ssa.MapUpdate)
							if !isMU || mu.Map != ssa.Value(mk) || !fill.Blocks[mu.Block()] {
								return
							}
							u, isU := stripConv(mu.Key).(*ssa.UnOp)
							if !isU {
								return
							}
							ia, isIA := u.X.(*ssa.IndexAddr)
							if !isIA || !isVal(listParam)(ia.X) {
								return
							}
							if ph, step := fill.counterStep(ia.Index); ph == nil || step != 1 {
								return
							}
							for _, lt := range fill.Latch {
								if !mu.Block().Dominates(lt) {
									return
								}
							}
							okFill = true
						})
						if okFill {
							return true
						}
					}
					return false
				}
				listed := boolAtom("listed", func(v ssa.Value) bool {
					e, isE := stripConv(v).(*ssa.Extract)
					if !isE || e.Index != 1 {
						return false
					}
					l, isL := e.Tuple.(*ssa.Lookup)
					return isL && l.CommaOk && scan.key(l.Index) && filledFromList(l.X)
				})
				kcs := newCondSpace(m.setEps, recOf(listed), "listed")
				imp, wit := kcs.Implies(kcs.Reach(del), kcs.Not(kcs.Atom("listed")))
				if !imp || !kcs.Seen("listed") {
					good, why = false, "an endpoint can be removed although its name is in the new list (it would be re-created with a fresh state): "+wit
					// second idiom: no set — the removal follows a scan of the list that found no equal element
					// (`for _, e := range list { if e == k { continue outer } }; delete(table, k)`)
					for _, inner := range loopsOf(m.setEps) {
						if kk, _ := inner.boundedKind(); kk == "" || !scan.Blocks[inner.Header] || inner.Header == scan.Header || !inner.Header.Dominates(del.Block()) || inner.Blocks[del.Block()] {
							continue
						}
						found := false
						okExits := true
						var eqSucc *ssa.BasicBlock
						for b := range inner.Blocks {
							iff, isIf := b.Instrs[len(b.Instrs)-1].(*ssa.If)
							if !isIf {
								continue
							}
							cmp, isCmp := iff.Cond.(*ssa.BinOp)
							if !isCmp || (cmp.Op != token.EQL && cmp.Op != token.NEQ) {
								continue
							}
							isElem := func(v ssa.Value) bool {
								u, isU := stripConv(v).(*ssa.UnOp)
								if !isU {
									return false
								}
								ia, isIA := u.X.(*ssa.IndexAddr)
								if !isIA || !isVal(listParam)(ia.X) {
									return false
								}
								ph, step := inner.counterStep(ia.Index)
								return ph != nil && step == 1
							}
							if (isElem(cmp.X) && scan.key(cmp.Y)) || (isElem(cmp.Y) && scan.key(cmp.X)) {
								found = true
								eqSucc = b.Succs[0]
								if cmp.Op == token.NEQ {
									eqSucc = b.Succs[1]
								}
							}
						}
						if !found || eqSucc == nil || blockReachesAvoiding(eqSucc, del.Block(), map[*ssa.BasicBlock]bool{scan.Header: true}) {
							continue
						}
						for _, ex := range inner.exits() {
							if ex[0] != inner.Header && !(ex[1] == eqSucc || !blockReachesAvoiding(ex[1], del.Block(), map[*ssa.BasicBlock]bool{scan.Header: true})) {
								okExits = false
							}
						}
						if okExits {
							good, why = true, ""
						}
					}
				}
			}
			c.check(good, "C13.member", "SetEndpoints removes only endpoints that left the list", p.ipos(del), "delete(table, k) only when k is not found (comma-ok) in the set built from every element of the new list: surviving endpoints keep their object", why)
		}
		c.floor("C13.member:keep", ndel, 1)
	}

	reevalRules(m, c, func(r string) string { return r })

	// ---- C13.decision (maybeUpdateCurrent)
	var curLk *ssa.Lookup
	eachInstr(m.muc, func(in ssa.Instruction) {
		if l, ok := in.(*ssa.Lookup); ok && l.CommaOk && isLoadOf(l.X, "multiEndpoint.endpoints") && isLoadOf(l.Index, "multiEndpoint.current") {
			curLk = l
		}
	})
	var topA, top *ssa.Phi
	var elem ssa.Value
	var accs []*ssa.Phi
	for _, l := range loopsOf(m.muc) {
		var lelem ssa.Value
		for _, in := range l.Header.Instrs {
			if nx, ok := in.(*ssa.Next); ok && isLoadOf(nx.Iter.(*ssa.Range).X, "multiEndpoint.endpoints") {
				for _, r := range *nx.Referrers() {
					e, ok := r.(*ssa.Extract)
					if ok && e.Index == 2 {
						lelem = e
					}
					if ok && e.Index == 1 && lelem == nil {
						// scan by key: the element is the table's value under that key
						for _, kr := range *e.Referrers() {
							if lk, isL := kr.(*ssa.Lookup); isL {
								if k, _, isT := tableElem(lk); isT && k == "range" {
									lelem = lk
								}
							}
						}
					}
				}
			}
		}
		if lelem == nil {
			continue
		}
		elem = lelem
		// the accumulators: loop-carried endpoint variables of the table scan that start as nil
		for _, in := range l.Header.Instrs {
			if ph, ok := in.(*ssa.Phi); ok && shortType(ph.Type()) == "*multiendpoint.endpoint" {
				for ei, e := range ph.Edges {
					if !l.Blocks[l.Header.Preds[ei]] && isNilConst(stripConv(e)) {
						accs = append(accs, ph)
					}
				}
			}
		}
	}
	if curLk == nil || elem == nil {
		c.fail("C13.decision", "maybeUpdateCurrent: anchors", p.pos(m.muc.Pos()), "lookup of the current endpoint or the table iteration not found")
		return
	}
	// which accumulator is which is decided by structure, not by variable names: the one that takes the element only when
	// the element is available is the top AVAILABLE endpoint, the other one the top endpoint
	isElem := isVal(elem)
	if len(accs) == 2 {
		st0 := []atomDef{eqAtom("elAvailable", statusOf(isElem), constIs(m.available)), eqAtom("elUnavailable", statusOf(isElem), constIs(m.unavailable)), eqAtom("elRecovering", statusOf(isElem), constIs(m.recovering))}
		cs0 := newCondSpace(m.muc, recOf(st0...), atomNames(st0...)...)
		cs0.ExactlyOne("elAvailable", "elUnavailable", "elRecovering") // closed status domain (C13.status): "neither unavailable nor recovering" is "available"
		onlyAvail := func(ph *ssa.Phi) bool {
			q := ph
			for _, e := range ph.Edges {
				if mq, ok := e.(*ssa.Phi); ok && mq != ph {
					q = mq
				}
			}
			n, all := 0, true
			for i, e := range q.Edges {
				if e != elem {
					continue
				}
				n++
				pred := q.Block().Preds[i]
				edge := cs0.False()
				for si, sb := range pred.Succs {
					if sb == q.Block() {
						edge = or(edge, cs0.EdgeCond(pred, si))
					}
				}
				if imp, _ := cs0.Implies(edge, cs0.Atom("elAvailable")); !imp {
					all = false
				}
			}
			return n > 0 && all
		}
		a0, a1 := onlyAvail(accs[0]), onlyAvail(accs[1])
		switch {
		case a0 && !a1:
			topA, top = accs[0], accs[1]
		case a1 && !a0:
			topA, top = accs[1], accs[0]
		}
	}
	isCur := func(v ssa.Value) bool { return isExtractOf(stripConv(v), curLk, 0) }
	// accumulators as seen inside / after the loop: the header phi or the merge phi of the body
	accOf := func(ph *ssa.Phi) vpred {
		return func(v ssa.Value) bool {
			v = stripConv(v)
			if ph == nil {
				return false
			}
			if v == ssa.Value(ph) {
				return true
			}
			if q, ok := v.(*ssa.Phi); ok {
				for _, e := range q.Edges {
					if e == ssa.Value(ph) {
						return true
					}
				}
			}
			return false
		}
	}
	isTopA, isTop := accOf(topA), accOf(top)
	atoms := []atomDef{
		boolAtom("exists", func(v ssa.Value) bool { return isExtractOf(stripConv(v), curLk, 1) }),
		eqAtom("curRecovering", statusOf(isCur), constIs(m.recovering)),
		eqAtom("curAvailable", statusOf(isCur), constIs(m.available)),
		eqAtom("curUnavailable", statusOf(isCur), constIs(m.unavailable)),
		eqAtom("elUnavailable", statusOf(isElem), constIs(m.unavailable)),
		eqAtom("elRecovering", statusOf(isElem), constIs(m.recovering)),
		eqAtom("topANil", isTopA, isNil),
		ltAtom("curBetterThanTopA", prioOf(isCur), prioOf(isTopA)),
		eqAtom("elAvailable", statusOf(isElem), constIs(m.available)),
		ltAtom("elBetterThanTopA", prioOf(isElem), prioOf(isTopA)),
		eqAtom("topNil", isTop, isNil),
		ltAtom("elBetterThanTop", prioOf(isElem), prioOf(isTop)),
	}
	cs := newCondSpace(m.muc, recOf(atoms...), atomNames(atoms...)...)
	if cs.err != "" {
		c.undecided("C13.decision", fname(m.muc), p.pos(m.muc.Pos()), cs.err)
		return
	}
	A := cs.Atom
	// closed status domain (C13.status "endpoint.status domain")
	cs.ExactlyOne("curRecovering", "curAvailable", "curUnavailable")
	cs.ExactlyOne("elAvailable", "elUnavailable", "elRecovering")
	after := cs.OnlyNamed // loop variables are quantified away
	early := cs.And(A("exists"), A("curRecovering"), cs.Or(A("topANil"), A("curBetterThanTopA")))
	var sftCall *ssa.Call
	for _, call := range m.callsIn(m.muc, m.sft) {
		sftCall = call
	}
	var fbStore *ssa.Store
	for _, a := range m.ai.ByFn[m.muc] {
		if a.Field == "multiEndpoint.current" && a.What == "store" {
			fbStore = a.Instr.(*ssa.Store)
		}
	}
	// project onto the post-loop atoms
	post := func(b Bits) Bits {
		for _, n := range []string{"elAvailable", "elUnavailable", "elRecovering", "elBetterThanTopA", "topNil", "elBetterThanTop"} {
			b = cs.exists(b, cs.idx["@"+n])
		}
		return after(b)
	}
	// equivalence with a decision table: "⇒" after quantifying every unrecognised condition away; "⇐" universally in
	// every condition that is not a loop variable — no further test may stand between the table and the effect
	postLoop := func(b Bits) Bits {
		for _, n := range []string{"elAvailable", "elUnavailable", "elRecovering", "elBetterThanTopA", "topNil", "elBetterThanTop"} {
			b = cs.exists(b, cs.idx["@"+n])
		}
		return cs.ForgetLoopVars(b)
	}
	tableEq := func(reach, table Bits) (bool, string) {
		if ok, w := cs.Implies(post(reach), table); !ok {
			return false, "reached although the table says no: " + w
		}
		if ok, w := cs.Implies(table, postLoop(reach)); !ok {
			return false, "the table says yes but an additional, unrecognised condition guards it: " + w
		}
		return true, ""
	}
	if sftCall == nil || fbStore == nil {
		c.fail("C13.decision", "maybeUpdateCurrent: effects", p.pos(m.muc.Pos()), "switchFromTo call or fallback store not found")
	} else {
		eq, wit := tableEq(cs.Reach(sftCall), cs.And(cs.Not(early), cs.Not(A("topANil"))))
		c.check(eq, "C13.decision", "switch ⇔ ¬keep-recovering ∧ some endpoint available", p.ipos(sftCall), "switchFromTo(current, top available) is reached exactly when an endpoint is available and the recovering current endpoint is not to be kept", "the switch decision differs from the rule: "+wit)
		okArgs := isCur(sftCall.Call.Args[1]) && isTopA(sftCall.Call.Args[2])
		c.check(okArgs, "C13.decision", "switch arguments", p.ipos(sftCall), "from = the current endpoint object (nil if gone), to = the top available endpoint", "switchFromTo is not called with (current, top available)")
		eq2, wit2 := tableEq(cs.Reach(fbStore), cs.And(cs.Not(A("exists")), A("topANil")))
		c.check(eq2, "C13.fallback-first", "current ← first endpoint", p.ipos(fbStore), "resort to the top-priority endpoint ⇔ the current endpoint is gone and no endpoint is available", "fallback to the first endpoint happens under the wrong condition: "+wit2)
		f, base, _ := loadedField(fbStore.Val)
		c.check(f == "endpoint.id" && isTop(base), "C13.fallback-first", "fallback value", p.ipos(fbStore), "the top-priority endpoint's id", "fallback value is not the top-priority endpoint")
		// when current is gone it is always re-assigned
		avoid := map[*ssa.BasicBlock]bool{sftCall.Block(): true, fbStore.Block(): true}
		acs := newCondSpaceAvoid(m.muc, recOf(atoms...), avoid, atomNames(atoms...)...)
		okGone := true
		for _, r := range returnsOf(m.muc) {
			if imp, _ := acs.Implies(acs.Reach(r), acs.Atom("exists")); !imp {
				okGone = false
			}
		}
		c.check(okGone, "C13.fallback-first", "gone current is always replaced", p.pos(m.muc.Pos()), "every path on which the current endpoint is not in the table reaches a (re)assignment of current", "maybeUpdateCurrent can return leaving current pointing at a removed endpoint")
	}
	// early return
	for i, r := range returnsOf(m.muc) {
		if sftCall != nil && mayPrecede(sftCall, r) || fbStore != nil && (mayPrecede(fbStore, r) || dominatesInstr(r, fbStore)) {
			continue
		}
		reach := post(cs.Reach(r))
		if imp, _ := cs.Implies(reach, early); imp && cs.Satisfiable(reach) {
			eq, wit := cs.Equiv(reach, early)
			c.check(eq, "C13.decision", fmt.Sprintf("keep-recovering return#%d", i+1), p.ipos(r), "returns without change ⇔ current exists ∧ is recovering ∧ (nothing available ∨ the top available endpoint has lower priority)", "the recovering endpoint is kept under the wrong condition: "+wit)
		}
	}
	// argmin loops
	checkAcc := func(name string, ph *ssa.Phi, want Bits, wantDesc string) {
		if ph == nil {
			c.fail("C13.decision", "argmin "+name, p.pos(m.muc.Pos()), "accumulator not found")
			return
		}
		// merge phi in the body that feeds the header phi
		var merge *ssa.Phi
		for _, e := range ph.Edges {
			if q, ok := e.(*ssa.Phi); ok && q != ph {
				merge = q
			}
		}
		check := func(q *ssa.Phi, blockOf func(i int) *ssa.BasicBlock) {
			for i, e := range q.Edges {
				pred := blockOf(i)
				edge := cs.False()
				for si, sb := range pred.Succs {
					if sb == q.Block() {
						edge = or(edge, cs.EdgeCond(pred, si))
					}
				}
				if e == elem {
					imp, wit := cs.Implies(edge, want)
					c.check(imp, "C13.decision", fmt.Sprintf("argmin %s: update via block %d", name, pred.Index), p.ipos(q), "candidate replaces "+name+" only when "+wantDesc, "candidate can replace "+name+" when it should not: "+wit)
				} else if e == ssa.Value(ph) && pred != ph.Block().Preds[0] {
					imp, wit := cs.Implies(edge, cs.Not(want))
					// the keep edge from the loop-entry side is not a decision
					if isInLoopBody(pred, ph.Block()) {
						c.check(imp, "C13.decision", fmt.Sprintf("argmin %s: keep via block %d", name, pred.Index), p.ipos(q), name+" is kept only when not ("+wantDesc+")", "a better candidate can be skipped for "+name+": "+wit)
					}
				}
			}
		}
		if merge != nil {
			check(merge, func(i int) *ssa.BasicBlock { return merge.Block().Preds[i] })
		} else {
			check(ph, func(i int) *ssa.BasicBlock { return ph.Block().Preds[i] })
		}
	}
	checkAcc("topA", topA, cs.And(A("elAvailable"), cs.Or(A("topANil"), A("elBetterThanTopA"))), "it is available and (no candidate yet or it has strictly higher priority)")
	checkAcc("top", top, cs.Or(A("topNil"), A("elBetterThanTop")), "no candidate yet or it has strictly higher priority")

	// ---- C13.status: the decision clauses are stated over available / recovering / known-unavailable; the status
	// variable must change only through the specified transitions for them to mean what the property says
	statusRules(m, c, func(string) string { return "C13.status" })

	// ---- C13.switch-now: switchFromTo moves current inside the call exactly when it must
	delayRules(m, c, func(string) string { return "C13.switch-now" })
	// ---- C13.switch-later: the delayed switch completes only to a target that is still present and available ("if no
	// endpoint is available Current() does not change") and never down from a usable endpoint (shared with C14.revalidate)
	delayedSwitchRule(m, c, func(string) string { return "C13.switch-later" })

	// ---- C13.nonempty / C13.reject
	checkNonEmpty(m)
}

// reevalRules: every mutator re-evaluates current after its last table/status/priority write on every path before
// unlocking. Shared by C13 and C14 (convergence: once inputs stop, Current() is the top available endpoint — which
// needs the last input to have re-evaluated).
func reevalRules(m *mectx, c *Ctx, R func(string) string) {
	p := m.p
	// ---- C13.reeval
	watched := map[string]bool{"multiEndpoint.endpoints": true, "endpoint.status": true, "endpoint.priority": true}
	for _, root := range []*ssa.Function{m.setEps, m.sea, m.recovery} {
		var mucCalls = map[ssa.Instruction]bool{}
		var writes []ssa.Instruction
		eachInstr(root, func(in ssa.Instruction) {
			if cc := callCommon(in); cc != nil {
				for _, g := range p.calleesOf(cc) {
					if g == m.muc {
						mucCalls[in] = true
						return
					}
					for f := range m.sums.Trans[g].Writes {
						if watched[f] {
							writes = append(writes, in)
							return
						}
					}
				}
			}
		})
		for _, a := range m.ai.ByFn[root] {
			if watched[a.Field] && a.isWrite() && !freshAt(a.Base, a.Instr) {
				writes = append(writes, a.Instr)
			}
		}
		okAll := len(writes) > 0
		var miss string
		for _, wr := range writes {
			if !everyPathHits(wr, mucCalls) {
				okAll = false
				miss = p.ipos(wr)
			}
		}
		c.check(okAll, R("C13.reeval"), fname(root), p.pos(root.Pos()), fmt.Sprintf("every one of its %d table/status/priority writes is followed on every path by maybeUpdateCurrent before the lock is released", len(writes)),
			"a mutation of the endpoint table or an availability change can return without re-evaluating current (write at "+miss+")")
	}

}

func isInLoopBody(b, header *ssa.BasicBlock) bool {
	return header.Dominates(b) && b != header && canReach(b, header, false)
}

// checkNonEmpty: both builders of the endpoint table reject an empty list before any mutation, and insert every element.
func checkNonEmpty(m *mectx) {
	c, p := m.c, m.p
	for _, fn := range []*ssa.Function{m.ctor, m.setEps} {
		var list vpred
		if fn == m.ctor {
			b := fn.Params[0]
			list = func(v ssa.Value) bool {
				f, base, ok := loadedField(v)
				return ok && f == "MultiEndpointOptions.Endpoints" && base == ssa.Value(b)
			}
		} else {
			list = isVal(fn.Params[1])
		}
		lenEmpty := lenZeroAtom("empty", func(v ssa.Value) bool {
			call, ok := stripConv(v).(*ssa.Call)
			return ok && calleeOf(&call.Call).Builtin == "len" && list(call.Call.Args[0])
		})
		cs := newCondSpace(fn, recOf(lenEmpty), "empty")
		// every effect has reach ⇒ ¬empty; error returns have reach ⇒ empty and no effect precedes them
		var effects []ssa.Instruction
		for _, a := range m.ai.ByFn[fn] {
			if a.isWrite() && !freshAt(a.Base, a.Instr) {
				effects = append(effects, a.Instr)
			}
		}
		eachInstr(fn, func(in ssa.Instruction) {
			if cc := callCommon(in); cc != nil {
				if isTimeAfterFunc(cc) {
					effects = append(effects, in)
				}
				for _, g := range p.calleesOf(cc) {
					if t := m.sums.Trans[g]; t != nil && (len(t.Writes) > 0 || hasTimer(t)) {
						effects = append(effects, in)
					}
				}
			}
		})
		ok1 := cs.Seen("empty")
		for _, e := range effects {
			if imp, _ := cs.Implies(cs.Reach(e), cs.Not(cs.Atom("empty"))); !imp {
				ok1 = false
			}
		}
		nerr := 0
		errResult := len(fn.Signature.Results().At(fn.Signature.Results().Len()-1).Name()) >= 0
		_ = errResult
		for _, vr := range cs.VirtualReturns() {
			// (a merged `return result, err` is split per way of arriving)
			errv := vr.Vals[len(vr.Vals)-1]
			if nilErr, _ := allOrigins(errv, isConstNilOrigin); nilErr {
				if imp, _ := cs.Implies(vr.Cond, cs.Not(cs.Atom("empty"))); !imp {
					ok1 = false
				}
				continue
			}
			nerr++
			for _, e := range effects {
				if mayPrecede(e, vr.Ret) && cs.Satisfiable(and(cs.Reach(e), vr.Cond)) {
					ok1 = false
				}
			}
		}
		c.check(ok1 && nerr >= 1, "C13.reject", fname(fn)+": empty list", p.pos(fn.Pos()), fmt.Sprintf("an empty list is rejected with an error before any of the %d effects; success ⇒ list non-empty", len(effects)), "an empty endpoint list is not rejected before mutation (or is accepted)")
		// every element of the list ends up in the table
		okIns := false
		for _, l := range loopsOf(fn) {
			// range over the list: rangeindex loop whose bound is len(list)
			var key ssa.Value
			for b := range l.Blocks {
				for _, in := range b.Instrs {
					if u, ok := in.(*ssa.UnOp); ok && u.Op == token.MUL {
						if ia, ok := u.X.(*ssa.IndexAddr); ok && list(ia.X) {
							key = u
						}
					}
				}
			}
			if key == nil {
				continue
			}
			// on every iteration path: key inserted (MapUpdate) or known present (comma-ok lookup true)
			var ins []ssa.Instruction
			var present *ssa.Lookup
			for b := range l.Blocks {
				for _, in := range b.Instrs {
					if mu, ok := in.(*ssa.MapUpdate); ok && mu.Key == key {
						if fn == m.setEps && isLoadOf(mu.Map, "multiEndpoint.endpoints") || fn == m.ctor {
							ins = append(ins, in)
						}
					}
					if lk, ok := in.(*ssa.Lookup); ok && lk.CommaOk && lk.Index == key && isLoadOf(lk.X, "multiEndpoint.endpoints") {
						present = lk
					}
				}
			}
			avoid := map[*ssa.BasicBlock]bool{}
			for _, in := range ins {
				avoid[in.Block()] = true
			}
			rec := recOf(boolAtom("present", func(v ssa.Value) bool { return present != nil && isExtractOf(stripConv(v), present, 1) }))
			acs := newCondSpaceAvoid(fn, rec, avoid, "present")
			good := len(ins) > 0
			for _, latch := range l.Latch {
				edge := acs.False()
				for si, sb := range latch.Succs {
					if sb == l.Header {
						edge = or(edge, acs.EdgeCond(latch, si))
					}
				}
				if imp, _ := acs.Implies(edge, acs.Atom("present")); !imp {
					good = false
				}
			}
			if good {
				okIns = true
			}
		}
		// timers armed while the table is being built capture the object: they must not be able to run
		// maybeUpdateCurrent on a half-built (possibly nil/empty) table
		if fn == m.ctor {
			var tableStore ssa.Instruction
			for _, a := range m.ai.ByFn[fn] {
				if a.Field == "multiEndpoint.endpoints" && a.What == "store" {
					tableStore = a.Instr
				}
			}
			okTimers := true
			eachInstr(fn, func(in ssa.Instruction) {
				cc := callCommon(in)
				if cc == nil {
					return
				}
				for _, g := range p.calleesOf(cc) {
					if t := m.sums.Trans[g]; t != nil && hasTimer(t) {
						locked := m.lf.HeldAt(in)["multiEndpoint.RWMutex"] == 2
						after := tableStore != nil && dominatesInstr(tableStore, in)
						if !locked && !after {
							okTimers = false
						}
					}
				}
			})
			c.check(okTimers, "C13.nonempty", "constructor: timers cannot observe a half-built table", p.pos(fn.Pos()), "calls that arm recovery timers run with the write lock held (the callbacks block until the table is complete)", "recovery timers armed by the constructor capture the object before its endpoint table is set and without the lock: a short recovery timeout lets maybeUpdateCurrent run on a nil table (top == nil ⇒ nil dereference)")
		}
		// the constructor's map must be the one stored as the table
		if fn == m.ctor {
			stored := false
			for _, a := range m.ai.ByFn[fn] {
				if a.Field == "multiEndpoint.endpoints" && a.What == "store" {
					if _, isMk := a.Instr.(*ssa.Store).Val.(*ssa.MakeMap); isMk {
						stored = true
					}
				}
			}
			okIns = okIns && stored
		}
		c.check(okIns, "C13.nonempty", fname(fn)+": every listed endpoint is in the table", p.pos(fn.Pos()), "the insertion loop ranges over the validated list and leaves each element present on every iteration path: the table is never empty", "an element of the accepted list can be missing from the table")
	}
}

func hasTimer(t *Effects) bool {
	for k := range t.Calls {
		if strings.Contains(k, "timeAfterFunc") {
			return true
		}
	}
	return false
}
