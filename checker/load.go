package main

import (
	"fmt"
	"go/token"
	"go/types"
	"os"
	"path/filepath"
	"sort"
	"strings"

	"golang.org/x/tools/go/packages"
	"golang.org/x/tools/go/ssa"
	"golang.org/x/tools/go/ssa/ssautil"
)

// Prog is one loaded module: type-checked packages lowered to SSA.
type Prog struct {
	Dir      string
	Fset     *token.FileSet
	Pkgs     []*packages.Package // the module's own (initial) packages
	SSA      *ssa.Program
	SSAPkgs  []*ssa.Package  // SSA of the initial packages
	Funcs    []*ssa.Function // every source function (incl. closures, methods) of the initial packages, sorted
	byName   map[string]*ssa.Function
	AllSSA   bool // dependencies were loaded from source too
	NumFiles int
}

// loadProg loads patterns in dir. With all=false only the named packages are
// type-checked from source (dependencies from export data); with all=true the
// transitive closure is loaded from source (needed for the VTA cross-check).
// overlay maps absolute file names to replacement contents (sensitivity mutants).
func loadProg(dir string, patterns []string, all bool, overlay map[string][]byte, goarch string) (*Prog, error) {
	mode := packages.NeedName | packages.NeedFiles | packages.NeedCompiledGoFiles | packages.NeedImports |
		packages.NeedTypes | packages.NeedTypesSizes | packages.NeedSyntax | packages.NeedTypesInfo | packages.NeedModule
	if all {
		mode |= packages.NeedDeps
	}
	env := append(os.Environ(), "GOFLAGS=-mod=mod", "GOPROXY=off", "GOSUMDB=off", "GOTOOLCHAIN=local", "GOWORK=off")
	if goarch != "" {
		env = append(env, "GOARCH="+goarch)
	}
	cfg := &packages.Config{
		Mode:    mode,
		Dir:     dir,
		Tests:   false,
		Env:     env,
		Overlay: overlay,
	}
	pkgs, err := packages.Load(cfg, patterns...)
	if err != nil {
		return nil, fmt.Errorf("packages.Load %s: %v", dir, err)
	}
	if len(pkgs) == 0 {
		return nil, fmt.Errorf("no packages loaded from %s %v", dir, patterns)
	}
	var errs []string
	packages.Visit(pkgs, nil, func(p *packages.Package) {
		for _, e := range p.Errors {
			errs = append(errs, fmt.Sprintf("%s: %v", p.PkgPath, e))
		}
	})
	if len(errs) > 0 {
		return nil, fmt.Errorf("load/type errors in %s: %s", dir, strings.Join(errs, "; "))
	}
	p := &Prog{Dir: dir, Pkgs: pkgs, AllSSA: all, byName: map[string]*ssa.Function{}}
	var sprog *ssa.Program
	var spkgs []*ssa.Package
	if all {
		sprog, spkgs = ssautil.AllPackages(pkgs, ssa.InstantiateGenerics)
	} else {
		sprog, spkgs = ssautil.Packages(pkgs, ssa.InstantiateGenerics)
	}
	sprog.Build()
	p.SSA = sprog
	p.Fset = sprog.Fset
	for i, sp := range spkgs {
		if sp == nil {
			return nil, fmt.Errorf("no SSA for package %s", pkgs[i].PkgPath)
		}
		p.SSAPkgs = append(p.SSAPkgs, sp)
		p.NumFiles += len(pkgs[i].CompiledGoFiles)
	}
	own := map[*ssa.Package]bool{}
	for _, sp := range p.SSAPkgs {
		own[sp] = true
	}
	for fn := range ssautil.AllFunctions(sprog) {
		if fn.Pkg == nil || !own[fn.Pkg] || fn.Blocks == nil {
			continue
		}
		if fn.Synthetic != "" && !strings.HasPrefix(fn.Synthetic, "package initializer") {
			// wrappers, thunks and bound-method closures carry no source of their own
			continue
		}
		p.Funcs = append(p.Funcs, fn)
	}
	sort.Slice(p.Funcs, func(i, j int) bool { return fname(p.Funcs[i]) < fname(p.Funcs[j]) })
	for _, fn := range p.Funcs {
		p.byName[fname(fn)] = fn
	}
	return p, nil
}

// fname is the stable, package-relative name of a function:
// "(*gcpBalancer).refresh", "newGCPPicker", "(*gcpPicker).Pick$1", "multiendpoint.NewMultiEndpoint".
func fname(fn *ssa.Function) string {
	if fn == nil {
		return "<nil>"
	}
	if fn.Pkg == nil {
		return fn.String()
	}
	s := fn.RelString(fn.Pkg.Pkg)
	return s
}

// qname prefixes the package name for functions outside the main anchored package.
func qname(fn *ssa.Function) string {
	if fn == nil || fn.Pkg == nil {
		return fname(fn)
	}
	return fn.Pkg.Pkg.Name() + "::" + fname(fn)
}

func (p *Prog) pkgByName(name string) *ssa.Package {
	for _, sp := range p.SSAPkgs {
		if sp.Pkg.Name() == name {
			return sp
		}
	}
	return nil
}

// fn looks a function up by package name and relative name.
func (p *Prog) fn(pkg, name string) *ssa.Function {
	for _, f := range p.Funcs {
		if f.Pkg != nil && f.Pkg.Pkg.Name() == pkg && fname(f) == name {
			return f
		}
	}
	return nil
}

func (p *Prog) pos(pos token.Pos) string {
	if !pos.IsValid() {
		return "-"
	}
	ps := p.Fset.Position(pos)
	rel := ps.Filename
	if r, err := filepath.Rel(filepath.Dir(p.Dir), ps.Filename); err == nil && !strings.HasPrefix(r, "..") {
		rel = r
	}
	return fmt.Sprintf("%s:%d", rel, ps.Line)
}

// instrPos returns the best-effort source position of an instruction.
func (p *Prog) ipos(in ssa.Instruction) string {
	if in == nil {
		return "-"
	}
	pos := in.Pos()
	if !pos.IsValid() {
		// fall back to the nearest positioned instruction in the block
		if b := in.Block(); b != nil {
			for _, x := range b.Instrs {
				if x.Pos().IsValid() {
					pos = x.Pos()
					if x == in {
						break
					}
				}
			}
		}
	}
	if !pos.IsValid() && in.Parent() != nil {
		pos = in.Parent().Pos()
	}
	return p.pos(pos)
}

// namedStruct returns the named struct type pkg.name.
func (p *Prog) namedStruct(pkg, name string) (*types.Named, *types.Struct) {
	sp := p.pkgByName(pkg)
	if sp == nil {
		return nil, nil
	}
	obj := sp.Pkg.Scope().Lookup(name)
	if obj == nil {
		return nil, nil
	}
	n, ok := obj.Type().(*types.Named)
	if !ok {
		return nil, nil
	}
	st, ok := n.Underlying().(*types.Struct)
	if !ok {
		return n, nil
	}
	return n, st
}

// hasBuildTags reports module source files that carry build constraints.
func (p *Prog) buildTaggedFiles() []string {
	var out []string
	for _, pk := range p.Pkgs {
		for _, f := range pk.Syntax {
			for _, cg := range f.Comments {
				if cg.Pos() > f.Package {
					break
				}
				for _, c := range cg.List {
					if strings.HasPrefix(c.Text, "//go:build") || strings.HasPrefix(c.Text, "// +build") {
						out = append(out, p.pos(c.Pos()))
					}
				}
			}
		}
	}
	return out
}
