package main

import (
	"fmt"
	"go/token"
	"go/types"

	"golang.org/x/tools/go/ssa"
)

func init() { register("C06", checkC06) }

// C06 — Progress: no call into the pool deadlocks, spins or blocks others.
func checkC06(c *Ctx, w *World) {
	c.Explanation = "Static lock-discipline and loop-progress analysis of every function reachable from the channel pool's API " +
		"(Balancer/Builder/ConfigParser/Picker methods of package grpcgcp and the completion closures made by Pick). " +
		"Decides: no acquisition of a non-reentrant lock that may already be held on some call path (self-deadlock), acyclic lock order, " +
		"lock state restored on every exit and equal at every join, nothing that can block indefinitely while a lock is held, " +
		"every loop is bounded / a context-governed wait loop that blocks lock-free / a state loop with progress on every continuing iteration, " +
		"every recursion has a structural bound. It does not measure time."
	c.RuleText = "one obligation per lock-acquire site (reacquire), per function with lock operations (balanced), per blocking instruction (noblock), " +
		"per loop (loops), per recursive function (recursion), plus the lock-order graph; non-trivial = verdict needed the interprocedural entry-context fixpoint, a CFG path argument or a loop/progress argument"
	c.Assumptions = []string{
		"gRPC serialises Balancer callbacks and its ClientConn/SubConn methods do not synchronously re-enter the balancer (documented contract)",
		"lock identity is by declaring type and field (one balancer per picker), exact for self-deadlock, over-approximate for ordering",
		"library calls other than the blocking set {select, channel ops, time.Sleep, WaitGroup.Wait, Cond.Wait, WaitForStateChange} return",
	}
	c.Trusted = []string{"go/types", "golang.org/x/tools/go/ssa v0.29.0", "sync.Mutex/RWMutex/Cond semantics table"}
	p := w.GCP()
	if p == nil {
		return
	}
	lf := w.GCPLocks()
	entries := poolEntryPoints(c, p)
	scope := p.reachable(entries...)
	// keep only package grpcgcp proper (generated protobuf getters are lock-free leaf code)
	for f := range scope {
		if f.Pkg == nil || f.Pkg.Pkg.Name() != "grpcgcp" {
			delete(scope, f)
		}
	}
	c.Extra["entry_points"] = names(entries)
	acq := lockRules(c, p, lf, scope, "C06")
	c.floor("C06.reacquire", acq, 9)
	nl := loopRules(c, p, lf, scope, "C06")
	c.floor("C06.loops", nl, 10)
	recursionRules(c, p, scope, "C06")

	// C06.copylock: "never leaves a lock held": a lock copied in the held state is held for ever, in the copy. No value of a
	// type that contains a sync lock is copied — loaded as a whole, stored, passed or returned by value — anywhere in the package
	{
		nTypes, nCopies := 0, 0
		seenT := map[string]bool{}
		for _, fn := range p.Funcs {
			if fn.Pkg == nil || fn.Pkg.Pkg.Name() != "grpcgcp" {
				continue
			}
			eachInstr(fn, func(in ssa.Instruction) {
				if fa, ok := in.(*ssa.FieldAddr); ok {
					if t := fa.X.Type().Underlying().(*types.Pointer).Elem(); containsLock(t, 0) && !seenT[t.String()] {
						seenT[t.String()] = true
						nTypes++
					}
				}
				v, isV := in.(ssa.Value)
				if !isV || !containsLock(v.Type(), 0) {
					return
				}
				switch x := in.(type) {
				case *ssa.UnOp:
					if x.Op != token.MUL {
						return
					}
				case *ssa.Alloc, *ssa.Phi, *ssa.Extract:
					return // storage of its own / merges of copies already reported
				}
				nCopies++
				c.fail("C06.copylock", fmt.Sprintf("%s: %s", fname(fn), vstr(v)), p.ipos(in), "a value of type "+v.Type().String()+", which contains a lock, is copied: a lock copied while it is held stays held in the copy (every later user of the copy blocks for ever)")
			})
		}
		c.check(nCopies == 0, "C06.copylock", "no lock is copied", p.pos(rrPos(p)), fmt.Sprintf("no value of the %d lock-containing struct types of the package is loaded, passed or returned by value", nTypes), fmt.Sprintf("%d copies of lock-containing values", nCopies))
		c.floor("C06.copylock:types", nTypes, 3)
	}

	// C06.rr-isolated: the round-robin waiter blocks holding nothing and its select offers ctx.Done and the state signal.
	rr := c.need(p, "grpcgcp", "(*gcpBalancer).getSubConnRoundRobin")
	if rr != nil {
		found := 0
		eachInstr(rr, func(in ssa.Instruction) {
			sel, ok := in.(*ssa.Select)
			if !ok {
				return
			}
			found++
			held := lf.MayHeldAt(in)
			hasCtx, hasSig := false, false
			for _, st := range sel.States {
				if ctx, ok := isCtxDone(st.Chan); ok && ctxOrigin(ctx) != "" {
					hasCtx = true
				}
				if isLoadOf(st.Chan, "subConnRef.stateSignal") || isLoadOfLocalHolding(st.Chan, "subConnRef.stateSignal") {
					hasSig = true
				}
			}
			construct := fmt.Sprintf("%s: select#%d", fname(rr), found)
			switch {
			case len(held) > 0:
				c.fail("C06.rr-isolated", construct, p.ipos(in), fmt.Sprintf("the round-robin waiter blocks while holding %s: every other call is delayed", held))
			case !sel.Blocking:
				c.fail("C06.rr-isolated", construct, p.ipos(in), "select has a default case: the waiter spins")
			case !hasCtx || !hasSig:
				c.fail("C06.rr-isolated", construct, p.ipos(in), fmt.Sprintf("select must offer <-ctx.Done() (%v) and the slot's state signal (%v)", hasCtx, hasSig))
			default:
				c.ok("C06.rr-isolated", construct, p.ipos(in), "blocks with no lock held (neither picker nor balancer mutex on any call path); wakes on ctx.Done() and on the slot's state signal")
			}
		})
		c.floor("C06.rr-isolated", found, 1)
		// the waiter must not be entered with the picker mutex held (it would serialise all picks of this picker)
		may := lf.MayHeld[rr]
		c.check(len(may) == 0, "C06.rr-isolated", fname(rr)+": entry context", p.pos(rr.Pos()),
			"never called with a lock held", fmt.Sprintf("may be entered holding %s (%v)", may, lf.MayWhy[rr]))
	}
}

func rrPos(p *Prog) token.Pos {
	for _, fn := range p.Funcs {
		if fn.Pkg != nil && fn.Pkg.Pkg.Name() == "grpcgcp" {
			return fn.Pos()
		}
	}
	return token.NoPos
}

// containsLock: values of type t contain a sync.Mutex / RWMutex / Cond / WaitGroup / Once by value.
func containsLock(t types.Type, d int) bool {
	if d > 4 {
		return false
	}
	if n, ok := t.(*types.Named); ok && n.Obj().Pkg() != nil && n.Obj().Pkg().Path() == "sync" {
		switch n.Obj().Name() {
		case "Mutex", "RWMutex", "Cond", "WaitGroup", "Once":
			return true
		}
	}
	switch u := t.Underlying().(type) {
	case *types.Struct:
		for i := 0; i < u.NumFields(); i++ {
			if containsLock(u.Field(i).Type(), d+1) {
				return true
			}
		}
	case *types.Array:
		return containsLock(u.Elem(), d+1)
	}
	return false
}

// isLoadOfLocalHolding: v is a value whose single definition is a load of the field (e.g. sigChan := scRef.stateSignal).
func isLoadOfLocalHolding(v ssa.Value, field string) bool {
	v = stripConv(v)
	if u, ok := v.(*ssa.UnOp); ok {
		if al, ok := u.X.(*ssa.Alloc); ok {
			sts := storesTo(al)
			if len(sts) == 0 {
				return false
			}
			for _, st := range sts {
				if !isLoadOf(st.Val, field) {
					return false
				}
			}
			return true
		}
	}
	if ph, ok := v.(*ssa.Phi); ok {
		for _, e := range ph.Edges {
			if !isLoadOf(e, field) && !isLoadOfLocalHolding(e, field) {
				return false
			}
		}
		return len(ph.Edges) > 0
	}
	return false
}
