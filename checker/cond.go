package main

import (
	"fmt"
	"go/constant"
	"go/token"
	"go/types"
	"sort"
	"strings"

	"golang.org/x/tools/go/ssa"
)

// ---------------------------------------------------------------------------
// Reaching conditions as exact boolean functions (canonical decision diagrams).
//
// For a function, every distinct atomic condition tested by an `If` becomes a
// boolean variable; the reaching condition of a block is the disjunction over its
// forward (back-edge-free) predecessors of (reach(pred) ∧ edge condition). The
// functions are represented canonically (reduced ordered BDDs), so && / ||
// chains, switches, early returns and negated forms are all handled uniformly and
// entailment is decided exactly. Rules name the atoms they care
// about through a recogniser; everything else is a free variable.
// ---------------------------------------------------------------------------

// Bits is a boolean function over the variables of a CondSpace, represented as a node of a reduced ordered binary
// decision diagram kept in one process-wide table (variable i of every space is BDD variable i; canonical, so
// equality of functions is equality of node numbers). 0 is false, 1 is true.
type Bits int32

// maxCondVars bounds the number of distinct conditions of one function; maxBDDNodes bounds the table. Exceeding
// either makes the space unusable (cs.err) and every entailment query on it fails closed.
const maxCondVars = 96
const maxBDDNodes = 8 << 20

type bddNode struct {
	v      int32
	lo, hi Bits
}

var bdd = struct {
	nodes  []bddNode
	uniq   map[bddNode]Bits
	andM   map[[2]Bits]Bits
	notM   map[Bits]Bits
	exM    map[[2]int32]Bits
	blown  bool
	errors []string // spaces that could not be built in this run (reported fail-closed by runOne)
}{
	nodes: []bddNode{{v: 1 << 30}, {v: 1 << 30}},
	uniq:  map[bddNode]Bits{}, andM: map[[2]Bits]Bits{}, notM: map[Bits]Bits{}, exM: map[[2]int32]Bits{},
}

func bddMk(v int32, lo, hi Bits) Bits {
	if lo == hi {
		return lo
	}
	k := bddNode{v, lo, hi}
	if n, ok := bdd.uniq[k]; ok {
		return n
	}
	if len(bdd.nodes) >= maxBDDNodes {
		bdd.blown = true
		return 0
	}
	n := Bits(len(bdd.nodes))
	bdd.nodes = append(bdd.nodes, k)
	bdd.uniq[k] = n
	return n
}

func bddVar(i int) Bits { return bddMk(int32(i), 0, 1) }

func and(a, b Bits) Bits {
	switch {
	case a == 0 || b == 0:
		return 0
	case a == 1:
		return b
	case b == 1 || a == b:
		return a
	}
	if a > b {
		a, b = b, a
	}
	k := [2]Bits{a, b}
	if r, ok := bdd.andM[k]; ok {
		return r
	}
	na, nb := bdd.nodes[a], bdd.nodes[b]
	var r Bits
	switch {
	case na.v == nb.v:
		r = bddMk(na.v, and(na.lo, nb.lo), and(na.hi, nb.hi))
	case na.v < nb.v:
		r = bddMk(na.v, and(na.lo, b), and(na.hi, b))
	default:
		r = bddMk(nb.v, and(a, nb.lo), and(a, nb.hi))
	}
	bdd.andM[k] = r
	return r
}

func bddNot(a Bits) Bits {
	if a < 2 {
		return 1 - a
	}
	if r, ok := bdd.notM[a]; ok {
		return r
	}
	n := bdd.nodes[a]
	r := bddMk(n.v, bddNot(n.lo), bddNot(n.hi))
	bdd.notM[a] = r
	return r
}

func or(a, b Bits) Bits { return bddNot(and(bddNot(a), bddNot(b))) }

func bddExists(a Bits, i int32) Bits {
	if a < 2 {
		return a
	}
	n := bdd.nodes[a]
	if n.v > i {
		return a
	}
	k := [2]int32{int32(a), i}
	if r, ok := bdd.exM[k]; ok {
		return r
	}
	var r Bits
	if n.v == i {
		r = or(n.lo, n.hi)
	} else {
		r = bddMk(n.v, bddExists(n.lo, i), bddExists(n.hi, i))
	}
	bdd.exM[k] = r
	return r
}

func bddEval(a Bits, val func(v int32) bool) bool {
	for a >= 2 {
		n := bdd.nodes[a]
		if val(n.v) {
			a = n.hi
		} else {
			a = n.lo
		}
	}
	return a == 1
}

func bddSupport(a Bits) []int {
	seen := map[Bits]bool{}
	vars := map[int]bool{}
	var walk func(a Bits)
	walk = func(a Bits) {
		if a < 2 || seen[a] {
			return
		}
		seen[a] = true
		n := bdd.nodes[a]
		vars[int(n.v)] = true
		walk(n.lo)
		walk(n.hi)
	}
	walk(a)
	var out []int
	for v := range vars {
		out = append(out, v)
	}
	sort.Ints(out)
	return out
}

func isZero(a Bits) bool       { return a == 0 }
func equalBits(a, b Bits) bool { return a == b }

// AtomRecogniser maps an atomic boolean SSA value to a rule-level atom name.
// neg=true means the value is the negation of the named atom. name=="" : not recognised.
type AtomRecogniser func(leaf ssa.Value) (name string, neg bool)

type CondSpace struct {
	Fn       *ssa.Function
	Vars     []string       // variable keys, index = bit position
	VarVal   []ssa.Value    // a representative SSA leaf per variable (nil for pre-registered atoms never seen)
	LoopVar  []bool         // variable is tested by a loop header
	idx      map[string]int // key -> index
	In       map[*ssa.BasicBlock]Bits
	Univ     Bits // mutual-exclusion constraints between atoms
	rec      AtomRecogniser
	forms    map[*ssa.BasicBlock]*cformula
	phiDepth int
	err      string
	backTo   map[*ssa.BasicBlock]bool // loop headers
}

func (cs *CondSpace) True() Bits  { return 1 }
func (cs *CondSpace) False() Bits { return 0 }

func (cs *CondSpace) varBits(i int) Bits { return bddVar(i) }

func (cs *CondSpace) not(a Bits) Bits { return bddNot(a) }

// And/Or/Not over rule formulas.
func (cs *CondSpace) And(xs ...Bits) Bits {
	r := cs.True()
	for _, x := range xs {
		r = and(r, x)
	}
	return r
}
func (cs *CondSpace) Or(xs ...Bits) Bits {
	r := cs.False()
	for _, x := range xs {
		r = or(r, x)
	}
	return r
}
func (cs *CondSpace) Not(x Bits) Bits { return cs.not(x) }

// Atom returns the variable of a named atom (pre-registered or recognised).
func (cs *CondSpace) Atom(name string) Bits {
	i, ok := cs.idx["@"+name]
	if !ok {
		// unknown atom: behaves as an unconstrained fresh variable would — nothing entails it.
		// Callers pre-register their atoms, so this only happens on a programming error.
		panic("atom not registered: " + name)
	}
	return cs.varBits(i)
}

// Seen reports whether the named atom was actually tested somewhere in the function.
func (cs *CondSpace) Seen(name string) bool {
	i, ok := cs.idx["@"+name]
	return ok && cs.VarVal[i] != nil
}

// unusable: the space could not be built (too many conditions) or the node table overflowed; no entailment is
// ever reported on such a space.
func (cs *CondSpace) unusable() bool {
	if cs.err == "" && bdd.blown {
		cs.err = fmt.Sprintf("function %s: decision-diagram table exhausted (%d nodes)", fname(cs.Fn), maxBDDNodes)
		bdd.errors = append(bdd.errors, cs.err)
	}
	return cs.err != ""
}

// Implies decides a ⇒ b within the universe; on failure returns a falsifying assignment.
func (cs *CondSpace) Implies(a, b Bits) (bool, string) {
	if cs.unusable() {
		return false, cs.err
	}
	bad := and(and(a, cs.not(b)), cs.Univ)
	if cs.unusable() {
		return false, cs.err
	}
	if isZero(bad) {
		return true, ""
	}
	return false, cs.assignment(bad)
}

func (cs *CondSpace) Equiv(a, b Bits) (bool, string) {
	if ok, w := cs.Implies(a, b); !ok {
		return false, "reached although formula is false: " + w
	}
	if ok, w := cs.Implies(b, a); !ok {
		return false, "formula true but not reached: " + w
	}
	return true, ""
}

// EquivStrict: reach ⇔ want where want mentions only named atoms. "⇒" is checked after quantifying the unnamed
// conditions away existentially (some way of reaching the target must imply want); "⇐" is checked on the raw
// function, i.e. universally: no unnamed condition (a test the rule does not know about) may prevent the target from
// being reached when want holds.
func (cs *CondSpace) EquivStrict(reach, want Bits) (bool, string) {
	if ok, w := cs.Implies(cs.OnlyNamed(reach), want); !ok {
		return false, "reached although formula is false: " + w
	}
	if ok, w := cs.Implies(want, reach); !ok {
		return false, "formula true but not reached (an additional, unrecognised condition guards it): " + w
	}
	return true, ""
}

// Satisfiable: some assignment within the universe satisfies a. On an unusable space everything is reported
// satisfiable (rules use unsatisfiability as the proof step: "this path cannot happen").
func (cs *CondSpace) Satisfiable(a Bits) bool {
	if cs.unusable() {
		return true
	}
	r := and(a, cs.Univ)
	if cs.unusable() {
		return true
	}
	return !isZero(r)
}

// assignment: one satisfying assignment of bad (variables the function does not depend on are shown as false).
func (cs *CondSpace) assignment(bad Bits) string {
	val := map[int32]bool{}
	for a := bad; a >= 2; {
		n := bdd.nodes[a]
		if n.hi != 0 {
			val[n.v] = true
			a = n.hi
		} else {
			a = n.lo
		}
	}
	var parts []string
	for i, v := range cs.Vars {
		parts = append(parts, fmt.Sprintf("%s=%v", strings.TrimPrefix(v, "@"), val[int32(i)]))
	}
	return strings.Join(parts, " ")
}

// Exists quantifies variable i away (smoothing).
func (cs *CondSpace) exists(a Bits, i int) Bits { return bddExists(a, int32(i)) }

// OnlyNamed existentially quantifies all variables not named by the rule (free variables), keeping only named atoms.
func (cs *CondSpace) OnlyNamed(a Bits) Bits {
	for i := len(cs.Vars) - 1; i >= 0; i-- {
		if !strings.HasPrefix(cs.Vars[i], "@") {
			a = cs.exists(a, i)
		}
	}
	return a
}

func (cs *CondSpace) ForgetLoopVars(a Bits) Bits {
	for i := len(cs.Vars) - 1; i >= 0; i-- {
		if cs.LoopVar[i] && !strings.HasPrefix(cs.Vars[i], "@") {
			a = cs.exists(a, i)
		}
	}
	return a
}

// Describe renders a boolean function as a DNF over the variables it depends on (for reports).
func (cs *CondSpace) Describe(a Bits) string {
	if cs.err != "" {
		return "<" + cs.err + ">"
	}
	support := bddSupport(a)
	if isZero(a) {
		return "false"
	}
	if len(support) == 0 {
		return "true"
	}
	if len(support) > 10 {
		return fmt.Sprintf("<function of %d conditions>", len(support))
	}
	// enumerate minterms over the support
	var terms []string
	for m := 0; m < 1<<uint(len(support)); m++ {
		pos := map[int32]bool{}
		for k, i := range support {
			pos[int32(i)] = (m>>uint(k))&1 == 1
		}
		if !bddEval(a, func(v int32) bool { return pos[v] }) {
			continue
		}
		var lits []string
		for _, i := range support {
			name := strings.TrimPrefix(cs.Vars[i], "@")
			if pos[int32(i)] {
				lits = append(lits, name)
			} else {
				lits = append(lits, "¬"+name)
			}
		}
		terms = append(terms, strings.Join(lits, " ∧ "))
	}
	sort.Strings(terms)
	if len(terms) > 16 {
		return fmt.Sprintf("%s ∨ … (%d minterms)", strings.Join(terms[:8], "  ∨  "), len(terms))
	}
	return strings.Join(terms, "  ∨  ")
}

// ---------------------------------------------------------------------------

type leafRef struct {
	key string
	neg bool
}

// condFormula decomposes an If condition into a boolean formula over leaves.
type cformula struct {
	op   byte // 'v' leaf, '!' not, '=' iff, '^' xor, 'T', 'F', 'p' phi of booleans
	leaf leafRef
	a, b *cformula
	val  ssa.Value
	phi  *ssa.Phi
	subs []*cformula
}

func isBool(t types.Type) bool {
	b, ok := t.Underlying().(*types.Basic)
	return ok && b.Info()&types.IsBoolean != 0
}

func (cs *CondSpace) formulaOf(v ssa.Value) *cformula {
	switch x := v.(type) {
	case *ssa.Const:
		if x.Value != nil && x.Value.String() == "true" {
			return &cformula{op: 'T'}
		}
		if x.Value != nil && x.Value.String() == "false" {
			return &cformula{op: 'F'}
		}
	case *ssa.UnOp:
		if x.Op == token.NOT {
			return &cformula{op: '!', a: cs.formulaOf(x.X)}
		}
	case *ssa.Phi:
		// a boolean variable assigned on several paths (e.g. ok := false; if …{ ok = true }): its value is
		// the disjunction over incoming edges of (edge taken ∧ value on that edge). Loop-carried phis stay leaves.
		if isBool(x.Type()) && !cs.backTo[x.Block()] && cs.phiDepth < 3 {
			cs.phiDepth++
			f := &cformula{op: 'p', phi: x}
			for _, e := range x.Edges {
				f.subs = append(f.subs, cs.formulaOf(e))
			}
			cs.phiDepth--
			return f
		}
	case *ssa.BinOp:
		// status.FromContextError(e).Err() is nil exactly when e is nil (trusted library semantics: FromContextError(nil) is
		// the nil status, whose Err() is nil; any other error gives a non-OK status): its comparison with nil is e's
		if (x.Op == token.EQL || x.Op == token.NEQ) && cs.phiDepth < 3 {
			for _, pair := range [][2]ssa.Value{{x.X, x.Y}, {x.Y, x.X}} {
				if !isNilConst(pair[1]) {
					continue
				}
				if errCall, ok := stripConv(pair[0]).(*ssa.Call); ok && strings.HasSuffix(calleeOf(&errCall.Call).Name(), "status.(*Status).Err") && len(errCall.Call.Args) == 1 {
					if fce, ok := stripConv(errCall.Call.Args[0]).(*ssa.Call); ok && strings.HasSuffix(calleeOf(&fce.Call).Name(), "status.FromContextError") && len(fce.Call.Args) == 1 {
						return cs.formulaOf(&ssa.BinOp{Op: x.Op, X: fce.Call.Args[0], Y: pair[1]})
					}
				}
			}
		}
		// a merged value compared with nil (err := f(); if err == nil { err = g() }; if err != nil …): the comparison is the
		// disjunction over the phi's incoming edges of (edge taken ∧ that edge's value compared with nil)
		if (x.Op == token.EQL || x.Op == token.NEQ) && cs.phiDepth < 3 {
			ph, isPhi := x.X.(*ssa.Phi)
			other := x.Y
			if !isPhi {
				ph, isPhi = x.Y.(*ssa.Phi)
				other = x.X
			}
			oc, otherIsConst := stripConv(other).(*ssa.Const)
			if isPhi && otherIsConst && !cs.backTo[ph.Block()] {
				cs.phiDepth++
				f := &cformula{op: 'p', phi: ph}
				for _, e := range ph.Edges {
					if ec, isC := stripConv(e).(*ssa.Const); isC {
						same := (ec.Value == nil && oc.Value == nil) || (ec.Value != nil && oc.Value != nil && constant.Compare(ec.Value, token.EQL, oc.Value))
						if same == (x.Op == token.EQL) {
							f.subs = append(f.subs, &cformula{op: 'T'})
						} else {
							f.subs = append(f.subs, &cformula{op: 'F'})
						}
						continue
					}
					if oc.Value == nil && certainlyNonNil(e) {
						// errors.New / fmt.Errorf / a fresh allocation is never nil
						if x.Op == token.NEQ {
							f.subs = append(f.subs, &cformula{op: 'T'})
						} else {
							f.subs = append(f.subs, &cformula{op: 'F'})
						}
						continue
					}
					f.subs = append(f.subs, cs.formulaOf(&ssa.BinOp{Op: x.Op, X: e, Y: other}))
				}
				cs.phiDepth--
				return f
			}
		}
		if (x.Op == token.EQL || x.Op == token.NEQ) && isBool(x.X.Type()) {
			op := byte('=')
			if x.Op == token.NEQ {
				op = '^'
			}
			return &cformula{op: op, a: cs.formulaOf(x.X), b: cs.formulaOf(x.Y)}
		}
	}
	return &cformula{op: 'v', leaf: cs.leafKey(v), val: v}
}

// leafKey canonicalises an atomic condition.
func (cs *CondSpace) leafKey(v ssa.Value) leafRef {
	if cs.rec != nil {
		if name, neg := cs.rec(v); name != "" {
			return leafRef{"@" + name, neg}
		}
	}
	// a read of a local variable cell that holds exactly one value there IS that value
	norm := func(v ssa.Value) ssa.Value {
		if cv := cellValue(v); cv != stripConv(v) {
			return cv
		}
		return v
	}
	if x, ok := v.(*ssa.BinOp); ok {
		a, b := kstr(norm(x.X)), kstr(norm(x.Y))
		switch x.Op {
		case token.EQL, token.NEQ:
			if _, isC := stripConv(x.X).(*ssa.Const); isC {
				a, b = b, a
			} else if _, isC2 := stripConv(x.Y).(*ssa.Const); !isC2 && b < a {
				a, b = b, a
			}
			return leafRef{a + " == " + b, x.Op == token.NEQ}
		case token.LSS:
			return leafRef{a + " < " + b, false}
		case token.GEQ:
			return leafRef{a + " < " + b, true}
		case token.GTR:
			return leafRef{b + " < " + a, false}
		case token.LEQ:
			return leafRef{b + " < " + a, true}
		}
	}
	return leafRef{kstr(norm(v)), false}
}

func (cs *CondSpace) collect(f *cformula, loop bool) {
	switch f.op {
	case 'v':
		i, ok := cs.idx[f.leaf.key]
		if !ok {
			i = len(cs.Vars)
			cs.idx[f.leaf.key] = i
			cs.Vars = append(cs.Vars, f.leaf.key)
			cs.VarVal = append(cs.VarVal, f.val)
			cs.LoopVar = append(cs.LoopVar, loop)
		} else {
			if cs.VarVal[i] == nil {
				cs.VarVal[i] = f.val
			}
			cs.LoopVar[i] = cs.LoopVar[i] && loop
		}
	case '!':
		cs.collect(f.a, loop)
	case '=', '^':
		cs.collect(f.a, loop)
		cs.collect(f.b, loop)
	case 'p':
		for _, sub := range f.subs {
			cs.collect(sub, false)
		}
	}
}

func (cs *CondSpace) evalFormula(f *cformula) Bits {
	switch f.op {
	case 'T':
		return cs.True()
	case 'F':
		return cs.False()
	case 'v':
		b := cs.varBits(cs.idx[f.leaf.key])
		if f.leaf.neg {
			return cs.not(b)
		}
		return b
	case '!':
		return cs.not(cs.evalFormula(f.a))
	case '=':
		a, b := cs.evalFormula(f.a), cs.evalFormula(f.b)
		return or(and(a, b), and(cs.not(a), cs.not(b)))
	case '^':
		a, b := cs.evalFormula(f.a), cs.evalFormula(f.b)
		return or(and(a, cs.not(b)), and(cs.not(a), b))
	case 'p':
		r := cs.False()
		blk := f.phi.Block()
		for i, sub := range f.subs {
			pred := blk.Preds[i]
			edge := cs.False()
			for si, sb := range pred.Succs {
				if sb == blk {
					edge = or(edge, cs.EdgeCond(pred, si))
				}
			}
			r = or(r, and(edge, cs.evalFormula(sub)))
		}
		return r
	}
	return cs.False()
}

// EvalValue returns the boolean function denoted by a bool-typed SSA value (all its leaves must
// already be variables of the space, which holds for every If condition of the function).
func (cs *CondSpace) EvalValue(v ssa.Value) (Bits, bool) {
	f := cs.formulaOf(v)
	ok := true
	var chk func(f *cformula)
	chk = func(f *cformula) {
		if f == nil {
			return
		}
		if f.op == 'v' {
			if _, found := cs.idx[f.leaf.key]; !found {
				ok = false
			}
		}
		chk(f.a)
		chk(f.b)
		for _, sub := range f.subs {
			chk(sub)
		}
	}
	chk(f)
	if !ok {
		return 0, false
	}
	return cs.evalFormula(f), true
}

// isBackEdge: edge b→s where s dominates b.
func isBackEdge(b, s *ssa.BasicBlock) bool { return s.Dominates(b) }

// newCondSpace builds the condition space of fn. atoms are pre-registered names.
func newCondSpace(fn *ssa.Function, rec AtomRecogniser, atoms ...string) *CondSpace {
	return newCondSpaceAvoid(fn, rec, nil, atoms...)
}

// equivCtx, when set, enables available-load equivalence for condition variables.
var equivCtx struct {
	p    *Prog
	sums *Summaries
	lf   *LockFacts
	done map[*ssa.Function]bool
}

func ensureEquiv(fn *ssa.Function) {
	if equivCtx.p == nil || equivCtx.done[fn] {
		return
	}
	if equivCtx.p.byName[fname(fn)] != fn {
		return
	}
	equivCtx.done[fn] = true
	computeLoadEquiv(equivCtx.p, equivCtx.sums, equivCtx.lf, fn)
}

// newCondSpaceAvoid is newCondSpace where control never passes through the blocks in avoid
// (reaching conditions then describe only the paths that avoid them).
func newCondSpaceAvoid(fn *ssa.Function, rec AtomRecogniser, avoid map[*ssa.BasicBlock]bool, atoms ...string) *CondSpace {
	ensureEquiv(fn)
	cs := &CondSpace{Fn: fn, idx: map[string]int{}, rec: rec, In: map[*ssa.BasicBlock]Bits{}, backTo: map[*ssa.BasicBlock]bool{}}
	for _, a := range atoms {
		cs.idx["@"+a] = len(cs.Vars)
		cs.Vars = append(cs.Vars, "@"+a)
		cs.VarVal = append(cs.VarVal, nil)
		cs.LoopVar = append(cs.LoopVar, true) // cleared when seen outside a loop header
	}
	for _, b := range fn.Blocks {
		for _, s := range b.Succs {
			if isBackEdge(b, s) {
				cs.backTo[s] = true
			}
		}
	}
	forms := map[*ssa.BasicBlock]*cformula{}
	cs.forms = forms
	for _, b := range fn.Blocks {
		if len(b.Instrs) == 0 {
			continue
		}
		if iff, ok := b.Instrs[len(b.Instrs)-1].(*ssa.If); ok {
			if isLogVerbosity(iff.Cond) {
				// log-verbosity tests are treated as non-deterministic: both branches inherit the
				// block's reaching condition (no rule depends on verbosity; keeps the variable count low)
				continue
			}
			f := cs.formulaOf(iff.Cond)
			forms[b] = f
			cs.collect(f, cs.backTo[b])
		}
	}
	for i := range cs.Vars {
		if cs.VarVal[i] == nil {
			cs.LoopVar[i] = false
		}
	}
	if len(cs.Vars) > maxCondVars {
		cs.err = fmt.Sprintf("function %s tests %d distinct conditions (cap %d)", fname(fn), len(cs.Vars), maxCondVars)
		bdd.errors = append(bdd.errors, cs.err)
		return cs
	}
	// universe: x == c1 and x == c2 with distinct constants are mutually exclusive
	cs.Univ = cs.True()
	type eqc struct {
		idx int
		c   string
	}
	groups := map[string][]eqc{}
	for i, val := range cs.VarVal {
		bo, ok := val.(*ssa.BinOp)
		if !ok || (bo.Op != token.EQL && bo.Op != token.NEQ) {
			continue
		}
		x, y := bo.X, bo.Y
		if _, isC := stripConv(x).(*ssa.Const); isC {
			x, y = y, x
		}
		cst, isC := stripConv(y).(*ssa.Const)
		if !isC || cst.Value == nil {
			continue
		}
		g := kstr(x)
		groups[g] = append(groups[g], eqc{i, cst.Value.ExactString()})
	}
	for _, g := range groups {
		for i := 0; i < len(g); i++ {
			for j := i + 1; j < len(g); j++ {
				if g[i].c != g[j].c {
					cs.Univ = and(cs.Univ, cs.not(and(cs.varBits(g[i].idx), cs.varBits(g[j].idx))))
				}
			}
		}
	}
	// forward propagation over the DAG (back edges removed) in reverse postorder
	order := rpo(fn)
	if len(fn.Blocks) > 0 {
		cs.In[fn.Blocks[0]] = cs.True()
	}
	if fn.Recover != nil {
		// the recover block is entered only after a recovered panic; treat as unconstrained
		cs.In[fn.Recover] = cs.True()
	}
	for _, b := range order {
		in, ok := cs.In[b]
		if !ok {
			in = cs.False()
			cs.In[b] = in
		}
		if len(b.Instrs) == 0 {
			continue
		}
		if avoid[b] {
			cs.In[b] = cs.False()
			continue
		}
		f := forms[b]
		for si, s := range b.Succs {
			if isBackEdge(b, s) {
				continue
			}
			e := in
			if f != nil {
				c := cs.evalFormula(f)
				if si == 0 {
					e = and(in, c)
				} else {
					e = and(in, cs.not(c))
				}
			}
			if cur, ok := cs.In[s]; ok {
				cs.In[s] = or(cur, e)
			} else {
				cs.In[s] = e
			}
		}
	}
	return cs
}

// ExclusiveAtoms adds the constraint that at most one of the named atoms holds.
func (cs *CondSpace) ExclusiveAtoms(names ...string) {
	for i := 0; i < len(names); i++ {
		for j := i + 1; j < len(names); j++ {
			cs.Univ = and(cs.Univ, cs.not(and(cs.Atom(names[i]), cs.Atom(names[j]))))
		}
	}
}

// ExactlyOne adds the constraint that exactly one of the named atoms holds (the caller proves the domain is closed).
func (cs *CondSpace) ExactlyOne(names ...string) {
	cs.ExclusiveAtoms(names...)
	any := cs.False()
	for _, n := range names {
		any = or(any, cs.Atom(n))
	}
	cs.Univ = and(cs.Univ, any)
}

// EdgeCond is the condition under which control flows along the edge from → from.Succs[si].
func (cs *CondSpace) EdgeCond(from *ssa.BasicBlock, si int) Bits {
	in := cs.ReachBlock(from)
	f := cs.forms[from]
	if f == nil {
		return in
	}
	cnd := cs.evalFormula(f)
	if si == 0 {
		return and(in, cnd)
	}
	return and(in, cs.not(cnd))
}

// Reach returns the reaching condition of an instruction (= of its block).
func (cs *CondSpace) Reach(in ssa.Instruction) Bits {
	if b, ok := cs.In[in.Block()]; ok {
		return b
	}
	return cs.False()
}

func (cs *CondSpace) ReachBlock(b *ssa.BasicBlock) Bits {
	if x, ok := cs.In[b]; ok {
		return x
	}
	return cs.False()
}

// rpo: reverse postorder ignoring back edges.
func rpo(fn *ssa.Function) []*ssa.BasicBlock {
	seen := map[*ssa.BasicBlock]bool{}
	var post []*ssa.BasicBlock
	var dfs func(b *ssa.BasicBlock)
	dfs = func(b *ssa.BasicBlock) {
		seen[b] = true
		for _, s := range b.Succs {
			if !seen[s] && !isBackEdge(b, s) {
				dfs(s)
			}
		}
		post = append(post, b)
	}
	if len(fn.Blocks) > 0 {
		dfs(fn.Blocks[0])
	}
	if fn.Recover != nil && !seen[fn.Recover] {
		dfs(fn.Recover)
	}
	for i, j := 0, len(post)-1; i < j; i, j = i+1, j-1 {
		post[i], post[j] = post[j], post[i]
	}
	return post
}

// ---------------------------------------------------------------------------
// Plain CFG reachability helpers
// ---------------------------------------------------------------------------

// canReach reports whether there is a (possibly cyclic) path from block a to block b (a==b counts only via a cycle when strict).
func canReach(a, b *ssa.BasicBlock, strict bool) bool {
	if a == b && !strict {
		return true
	}
	seen := map[*ssa.BasicBlock]bool{}
	stack := append([]*ssa.BasicBlock{}, a.Succs...)
	for len(stack) > 0 {
		x := stack[len(stack)-1]
		stack = stack[:len(stack)-1]
		if x == b {
			return true
		}
		if seen[x] {
			continue
		}
		seen[x] = true
		stack = append(stack, x.Succs...)
	}
	return false
}

// mayPrecede: instruction a may execute before instruction b on some path.
func mayPrecede(a, b ssa.Instruction) bool {
	if a.Block() == b.Block() {
		if instrIndex(a) < instrIndex(b) {
			return true
		}
		return canReach(a.Block(), b.Block(), true)
	}
	return canReach(a.Block(), b.Block(), false)
}

// dominatesInstr: a executes before b on every path to b.
func dominatesInstr(a, b ssa.Instruction) bool {
	if a.Block() == b.Block() {
		return instrIndex(a) < instrIndex(b)
	}
	return a.Block().Dominates(b.Block())
}

// isLogVerbosity: v is  <grpclog.LoggerV2>.V(n).
func isLogVerbosity(v ssa.Value) bool {
	call, ok := v.(*ssa.Call)
	if !ok || !call.Call.IsInvoke() || call.Call.Method.Name() != "V" {
		return false
	}
	return strings.HasSuffix(shortType(call.Call.Value.Type()), "grpclog.LoggerV2")
}

// VRet is one way of leaving the function: a return together with concrete (phi-free) result values and the
// condition under which that combination is taken.
type VRet struct {
	Ret  *ssa.Return
	Cond Bits
	Vals []ssa.Value
}

// VirtualReturns splits every return whose results are phis (single-exit style: `return bytes, err` after nested
// ifs) into one virtual return per combination of incoming edges, so that rules written for early-return code apply
// unchanged to merged exits. Loop-carried phis are left alone.
func (cs *CondSpace) VirtualReturns() []VRet {
	var out []VRet
	var expand func(r *ssa.Return, vals []ssa.Value, cond Bits, depth int)
	expand = func(r *ssa.Return, vals []ssa.Value, cond Bits, depth int) {
		if !cs.Satisfiable(cond) {
			return
		}
		var ph *ssa.Phi
		if depth < 6 {
			for _, v := range vals {
				if q, ok := stripConv(v).(*ssa.Phi); ok && !cs.backTo[q.Block()] {
					ph = q
					break
				}
			}
		}
		if ph == nil && depth < 6 {
			// a result read from a variable cell that several stores reach: one virtual return per store
			for k, v := range vals {
				if cvals, cconds, isCell := cs.cellEdges(v); isCell {
					for ci, cv := range cvals {
						nv := append([]ssa.Value(nil), vals...)
						nv[k] = cv
						expand(r, nv, and(cond, cconds[ci]), depth+1)
					}
					return
				}
			}
		}
		if ph == nil {
			out = append(out, VRet{Ret: r, Cond: cond, Vals: vals})
			return
		}
		blk := ph.Block()
		for i, pred := range blk.Preds {
			edge := cs.False()
			for si, sb := range pred.Succs {
				if sb == blk {
					edge = or(edge, cs.EdgeCond(pred, si))
				}
			}
			nv := make([]ssa.Value, len(vals))
			for k, v := range vals {
				nv[k] = v
				if q, ok := stripConv(v).(*ssa.Phi); ok && q.Block() == blk {
					nv[k] = q.Edges[i]
				}
			}
			expand(r, nv, and(cond, edge), depth+1)
		}
	}
	for _, r := range returnsOf(cs.Fn) {
		vals := append([]ssa.Value(nil), r.Results...)
		for k, v := range vals {
			// results spilled into cells because the function has a defer: the load after rundefers is the stored value
			if cv := cellValue(v); cv != stripConv(v) {
				vals[k] = cv
			}
		}
		expand(r, vals, cs.Reach(r), 0)
	}
	return out
}

// ResolveUnder: the concrete (phi-free) values v can have on the ways through the function that satisfy cond:
// non-loop phis are expanded, keeping only the edges whose condition is compatible with cond.
func (cs *CondSpace) ResolveUnder(v ssa.Value, cond Bits) []ssa.Value {
	var out []ssa.Value
	seen := map[ssa.Value]bool{}
	var walk func(v ssa.Value, cond Bits, depth int)
	walk = func(v ssa.Value, cond Bits, depth int) {
		v = stripConv(v)
		if cvals, cconds, isCell := cs.cellEdges(v); isCell && depth <= 6 {
			for ci, cv := range cvals {
				if c2 := and(cond, cconds[ci]); cs.Satisfiable(c2) {
					walk(cv, c2, depth+1)
				}
			}
			return
		}
		if cv := cellValue(v); cv != v {
			v = cv // a cell with a single reaching store
		}
		ph, ok := v.(*ssa.Phi)
		if !ok || cs.backTo[ph.Block()] || depth > 6 {
			if !seen[v] {
				seen[v] = true
				out = append(out, v)
			}
			return
		}
		blk := ph.Block()
		for i, pred := range blk.Preds {
			edge := cs.False()
			for si, sb := range pred.Succs {
				if sb == blk {
					edge = or(edge, cs.EdgeCond(pred, si))
				}
			}
			c2 := and(cond, edge)
			if cs.Satisfiable(c2) {
				walk(ph.Edges[i], c2, depth+1)
			}
		}
	}
	walk(v, cond, 0)
	return out
}

// cellEdges: a read of a local variable cell (a named result or a local kept in memory because the function defers or
// a closure reads it) that several stores can reach behaves like a phi: its value is that of the last store executed on
// the way. Returned are the candidate values and, for each, the condition under which it is the one read. Only for
// cells written by their own function alone, with neither the read nor a reaching store inside a loop.
func (cs *CondSpace) cellEdges(v ssa.Value) (vals []ssa.Value, conds []Bits, ok bool) {
	u, isU := stripConv(v).(*ssa.UnOp)
	if !isU || u.Op != token.MUL || u.Parent() != cs.Fn {
		return nil, nil, false
	}
	a, isA := u.X.(*ssa.Alloc)
	if !isA || !cellLocalOnly(a, u.Parent()) || inLoop(u) {
		return nil, nil, false
	}
	sts, zero := reachingStores(a, u)
	if len(sts)+btoi(zero) < 2 {
		return nil, nil, false
	}
	for _, st := range sts {
		if st.Parent() != cs.Fn || inLoop(st) {
			return nil, nil, false
		}
	}
	for i, st := range sts {
		c := cs.Reach(st)
		for j, later := range sts {
			if i != j && mayPrecede(st, later) {
				c = and(c, cs.not(cs.Reach(later)))
			}
		}
		vals, conds = append(vals, st.Val), append(conds, c)
	}
	if zero {
		// the variable's zero value, when no store was executed; representable only for nil-able types
		switch a.Type().(*types.Pointer).Elem().Underlying().(type) {
		case *types.Pointer, *types.Interface, *types.Slice, *types.Map, *types.Chan, *types.Signature:
		default:
			return nil, nil, false
		}
		c := cs.True()
		for _, st := range sts {
			c = and(c, cs.not(cs.Reach(st)))
		}
		vals, conds = append(vals, ssa.NewConst(nil, a.Type().(*types.Pointer).Elem())), append(conds, c)
	}
	return vals, conds, true
}

func btoi(b bool) int {
	if b {
		return 1
	}
	return 0
}

// RVal is one concrete value a merged value can have, with the condition under which it has it.
type RVal struct {
	V ssa.Value
	C Bits
}

// ResolveWithConds is ResolveUnder that also returns, per concrete value, the condition of the ways on which the merged
// value is that one (several ways to the same value are united).
func (cs *CondSpace) ResolveWithConds(v ssa.Value, cond Bits) []RVal {
	var out []RVal
	var walk func(v ssa.Value, cond Bits, depth int)
	walk = func(v ssa.Value, cond Bits, depth int) {
		v = stripConv(v)
		if cvals, cconds, isCell := cs.cellEdges(v); isCell && depth <= 6 {
			for ci, cv := range cvals {
				if c2 := and(cond, cconds[ci]); cs.Satisfiable(c2) {
					walk(cv, c2, depth+1)
				}
			}
			return
		}
		if cv := cellValue(v); cv != v {
			v = cv
		}
		ph, ok := v.(*ssa.Phi)
		if !ok || cs.backTo[ph.Block()] || depth > 6 {
			for i := range out {
				if out[i].V == v {
					out[i].C = or(out[i].C, cond)
					return
				}
			}
			out = append(out, RVal{v, cond})
			return
		}
		blk := ph.Block()
		for i, pred := range blk.Preds {
			edge := cs.False()
			for si, sb := range pred.Succs {
				if sb == blk {
					edge = or(edge, cs.EdgeCond(pred, si))
				}
			}
			if c2 := and(cond, edge); cs.Satisfiable(c2) {
				walk(ph.Edges[i], c2, depth+1)
			}
		}
	}
	walk(v, cond, 0)
	return out
}

// certainlyNonNil: v is the result of an error constructor or a fresh allocation.
func certainlyNonNil(v ssa.Value) bool {
	v = stripConv(v)
	switch x := v.(type) {
	case *ssa.Alloc, *ssa.MakeMap, *ssa.MakeChan, *ssa.MakeSlice, *ssa.MakeClosure:
		return true
	case *ssa.FieldAddr, *ssa.IndexAddr:
		return true // the address of a field / element: computing it from a nil base would already have panicked
	case *ssa.Call:
		switch calleeOf(&x.Call).Name() {
		case "fmt.Errorf", "errors.New":
			return true
		}
	}
	return false
}
