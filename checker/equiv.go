package main

import (
	"go/token"
	"go/types"
	"strings"

	"golang.org/x/tools/go/ssa"
)

// Available-load equivalence (DESIGN §3.3): two loads of the same field of the same object (or two
// lookups of the same key in the same field map) denote the same value when, on every path, no store
// to that field, no lock acquisition/release, no blocking operation and no module call that may write
// the field lies between them. Equivalent loads share one condition variable.

// loadRep maps a load/lookup instruction to the name of its representative (set per function).
var loadRep = map[ssa.Value]string{}

func loadKey(v ssa.Value) (key, field string, ok bool) {
	switch x := v.(type) {
	case *ssa.UnOp:
		if x.Op != token.MUL {
			return "", "", false
		}
		if fa, isFA := x.X.(*ssa.FieldAddr); isFA {
			f := fieldRefOfAddr(fa)
			return "load|" + f + "|" + baseKey(fa.X), f, true
		}
		// element of a slice: two reads of s[i] with nothing in between that could write an element (any store through an
		// index address, any call) are one value — `if s[i] == nil { continue }; s[i].M()`
		if ia, isIA := x.X.(*ssa.IndexAddr); isIA {
			if _, isSlice := ia.X.Type().Underlying().(*types.Slice); isSlice {
				return "elem|" + baseKey(ia.X) + "|" + baseKey(ia.Index), "", true
			}
		}
		// local variable cells (address-taken or captured locals): eligible when every store to the
		// cell is in the function that loads it
		switch a := x.X.(type) {
		case *ssa.Alloc:
			if cellLocalOnly(a, x.Parent()) {
				return "cell|" + a.Name(), "", true
			}
		case *ssa.FreeVar:
			if cellLocalOnly(a, x.Parent()) {
				return "cell|^" + a.Name(), "", true
			}
		}
	case *ssa.Lookup:
		if f, base, isL := loadedField(x.X); isL {
			ck := ""
			if x.CommaOk {
				ck = ",ok"
			}
			return "lookup|" + f + "|" + baseKey(base) + "|" + keyOperand(x.Index) + ck, f, true
		}
	}
	return "", "", false
}

// keyOperand names a lookup key so that equal keys compare equal: registers by name, loads by their representative.
func keyOperand(v ssa.Value) string {
	if r, ok := loadRep[v]; ok {
		return "rep:" + r
	}
	return v.Name() + ":" + vstr(v)
}

// baseKey names the object a field belongs to: a register, or — for a pointer read from a local
// cell — the cell's current representative load.
func baseKey(v ssa.Value) string {
	if r, ok := loadRep[v]; ok {
		return "rep:" + r
	}
	return v.Name()
}

// cellLocalOnly: all stores to the cell are made by fn itself (so only fn's own stores can change it
// while fn runs; a closure that also writes the cell disables the equivalence).
func cellLocalOnly(cell ssa.Value, fn *ssa.Function) bool {
	switch a := cell.(type) {
	case *ssa.Alloc:
		for _, st := range storesTo(a) {
			if st.Parent() != fn {
				return false
			}
		}
		return true
	case *ssa.FreeVar:
		b := freeVarBinding(a)
		al, ok := b.(*ssa.Alloc)
		if !ok {
			return false
		}
		for _, st := range storesTo(al) {
			// stores by the parent happen before the closure runs only if the closure is invoked after
			// the parent is done with the variable; accept cells the closure itself never writes and
			// that no other closure writes
			if st.Parent() != al.Parent() {
				return false
			}
		}
		return true
	}
	return false
}

type availState map[string]string // key -> representative

func (s availState) clone() availState {
	r := availState{}
	for k, v := range s {
		r[k] = v
	}
	return r
}

func meetAvail(a, b availState) availState {
	r := availState{}
	for k, v := range a {
		if w, ok := b[k]; ok && w == v {
			r[k] = v
		}
	}
	return r
}

func sameAvail(a, b availState) bool {
	if len(a) != len(b) {
		return false
	}
	for k, v := range a {
		if b[k] != v {
			return false
		}
	}
	return true
}

func (s availState) killField(f string) {
	for k := range s {
		if strings.HasPrefix(k, "load|"+f+"|") || strings.HasPrefix(k, "lookup|"+f+"|") {
			delete(s, k)
		}
	}
}

// killCell: a store to a local cell invalidates its loads and every field load based on them.
func (s availState) killCell(name string) {
	rep, had := s["cell|"+name]
	delete(s, "cell|"+name)
	if had {
		for k := range s {
			if strings.HasSuffix(k, "|rep:"+rep) || strings.Contains(k, "|rep:"+rep+"|") {
				delete(s, k)
			}
		}
	}
}

// killAll: lock operations, blocking operations and lock-taking callees invalidate shared memory;
// local cells are unaffected.
func (s availState) killAll() {
	for k := range s {
		if strings.HasPrefix(k, "cell|") {
			continue
		}
		delete(s, k)
	}
}

// killElems: slice elements are invalidated by any indexed store and any call.
func (s availState) killElems() {
	for k := range s {
		if strings.HasPrefix(k, "elem|") {
			delete(s, k)
		}
	}
}

func (s availState) killEverything() {
	for k := range s {
		delete(s, k)
	}
}

// computeLoadEquiv fills loadRep for fn.
func computeLoadEquiv(p *Prog, sums *Summaries, lf *LockFacts, fn *ssa.Function) {
	if len(fn.Blocks) == 0 {
		return
	}
	in := map[*ssa.BasicBlock]availState{}
	in[fn.Blocks[0]] = availState{}
	// iterate to a fixpoint (must analysis, states only shrink)
	transfer := func(b *ssa.BasicBlock, st availState, record bool) availState {
		st = st.clone()
		for _, ins := range b.Instrs {
			if v, ok := ins.(ssa.Value); ok {
				if key, _, isL := loadKey(v); isL {
					if rep, have := st[key]; have {
						if record {
							loadRep[v] = rep
						}
					} else {
						st[key] = v.Name()
						if record {
							loadRep[v] = v.Name()
						}
					}
					continue
				}
			}
			switch x := ins.(type) {
			case *ssa.Store:
				if fa, ok := x.Addr.(*ssa.FieldAddr); ok {
					st.killField(fieldRefOfAddr(fa))
				}
				switch x.Addr.(type) {
				case *ssa.FieldAddr, *ssa.Alloc, *ssa.FreeVar, *ssa.Global:
				default:
					st.killElems() // a store through an index address or a computed pointer
				}
				switch a := x.Addr.(type) {
				case *ssa.Alloc:
					// `return picked, nil` with named results stores the cell's own current value back: not a change
					if rep, have := st["cell|"+a.Name()]; have && loadRep[x.Val] == rep {
						break
					}
					st.killCell(a.Name())
				case *ssa.FreeVar:
					if rep, have := st["cell|^"+a.Name()]; have && loadRep[x.Val] == rep {
						break
					}
					st.killCell("^" + a.Name())
				}
			case *ssa.MapUpdate:
				if f, _, ok := loadedField(x.Map); ok {
					st.killField(f)
				}
			case *ssa.Select, *ssa.Send:
				st.killAll()
			case *ssa.UnOp:
				if x.Op == token.ARROW {
					st.killAll()
				}
			case *ssa.Call, *ssa.Go, *ssa.Defer:
				cc := callCommon(ins)
				if b := calleeOf(cc).Builtin; b != "len" && b != "cap" {
					st.killElems() // any callee may hold the slice
				}
				if _, ok := lf.lockOpOf(cc); ok {
					if _, isDefer := ins.(*ssa.Defer); !isDefer {
						st.killAll()
					}
					continue
				}
				c := calleeOf(cc)
				if c.Builtin == "delete" && len(cc.Args) > 0 {
					if f, _, ok := loadedField(cc.Args[0]); ok {
						st.killField(f)
					}
					continue
				}
				if blockingKind(ins) != "" {
					st.killAll()
					continue
				}
				_, isGo := ins.(*ssa.Go)
				for _, g := range p.calleesOf(cc) {
					if t := sums.Trans[g]; t != nil {
						// a callee that takes a lock may release ours on the way (or wait for another writer): shared memory
						// is stale afterwards. A goroutine started here runs concurrently: its lock operations do not
						// release the spawner's locks; only what it writes is invalidated.
						if len(t.Acquires) > 0 && !isGo {
							st.killAll()
						}
						for f := range t.Writes {
							st.killField(f)
						}
					}
				}
			}
		}
		return st
	}
	for changed, iter := true, 0; changed && iter < 40; iter++ {
		changed = false
		for _, b := range fn.Blocks {
			st, ok := in[b]
			if !ok {
				continue
			}
			out := transfer(b, st, true)
			for _, s := range b.Succs {
				if cur, ok := in[s]; ok {
					m := meetAvail(cur, out)
					if !sameAvail(m, cur) {
						in[s] = m
						changed = true
					}
				} else {
					in[s] = out.clone()
					changed = true
				}
			}
		}
	}
	for _, b := range fn.Blocks {
		if st, ok := in[b]; ok {
			transfer(b, st, true)
		}
	}
}
