package main

import (
	"fmt"
	"go/token"
	"go/types"
	"os"
	"sort"
	"strings"

	"golang.org/x/tools/go/ssa"
)

// Available-load equivalence (DESIGN §3.3): two loads of the same field of the same object (or two
// lookups of the same key in the same field map, two reads of the same local cell or slice element)
// denote the same value when, on every path, no store to that location, no lock acquisition/release
// of a lock held here, no blocking operation and no module call that may write it lies between them.
// Equivalent loads share one condition variable.
//
// A location is named by its ACCESS PATH — `load|monitoredConn.conn|<lookup|GCPMultiEndpoint.pools|gme|t188>` —
// which is a static string; whatever invalidates a location invalidates every path that goes through it.
// Phase A is a plain must-analysis ("is the path's value available here?"); phase B, with the
// generating loads (loads executed when their path is not available) fixed by phase A, propagates for
// every available path the set of generating loads that can be the most recent one. Two loads are one
// variable iff those sets are equal.

// loadRep maps a load/lookup instruction to the name of its representative (set per function).
var loadRep = map[ssa.Value]string{}

func loadKey(v ssa.Value) (key, field string, ok bool) {
	switch x := v.(type) {
	case *ssa.UnOp:
		if x.Op != token.MUL {
			return "", "", false
		}
		if fa, isFA := x.X.(*ssa.FieldAddr); isFA {
			f := fieldRefOfAddr(fa)
			return "load|" + f + "|" + baseKey(fa.X), f, true
		}
		// element of a slice: two reads of s[i] with nothing in between that could write an element (any store through an
		// index address or a computed pointer, any call) are one value — `if s[i] == nil { continue }; s[i].M()`
		if ia, isIA := x.X.(*ssa.IndexAddr); isIA {
			if _, isSlice := ia.X.Type().Underlying().(*types.Slice); isSlice {
				return "elem|" + baseKey(ia.X) + "|" + baseKey(ia.Index), "", true
			}
		}
		// local variable cells (address-taken or captured locals): eligible when every store to the
		// cell is in the function that loads it
		switch a := x.X.(type) {
		case *ssa.Alloc:
			if cellLocalOnly(a, x.Parent()) {
				return "cell|" + a.Name() + ";", "", true
			}
		case *ssa.FreeVar:
			if cellLocalOnly(a, x.Parent()) {
				return "cell|^" + a.Name() + ";", "", true
			}
		}
	case *ssa.Lookup:
		if f, base, isL := loadedField(x.X); isL {
			ck := ""
			if x.CommaOk {
				ck = ",ok"
			}
			return "lookup|" + f + "|" + baseKey(base) + "|" + keyOperand(x.Index) + ck, f, true
		}
	}
	return "", "", false
}

// keyOperand names a lookup key so that equal keys compare equal: registers by name, loads by their access path.
func keyOperand(v ssa.Value) string {
	if k, _, ok := loadKey(v); ok {
		return "<" + k + ">"
	}
	return v.Name() + ":" + vstr(v)
}

// baseKey names the object a location belongs to: a register, or — for a pointer that is itself read from
// memory — the access path it was read through.
func baseKey(v ssa.Value) string {
	if k, _, ok := loadKey(v); ok {
		return "<" + k + ">"
	}
	return v.Name()
}

// cellLocalOnly: all stores to the cell are made by fn itself (so only fn's own stores can change it
// while fn runs; a closure that also writes the cell disables the equivalence).
func cellLocalOnly(cell ssa.Value, fn *ssa.Function) bool {
	switch a := cell.(type) {
	case *ssa.Alloc:
		for _, st := range storesTo(a) {
			if st.Parent() != fn {
				return false
			}
		}
		// the variable's address must not be handed to anybody who could write through it (`grpc.Header(&headers)`,
		// `row.Columns(&id, …)`, a deferred helper given `&err`): its direct stores would not be all its writes
		if addressEscapes(a, 0) {
			return false
		}
		return true
	case *ssa.FreeVar:
		b := freeVarBinding(a)
		al, ok := b.(*ssa.Alloc)
		if !ok {
			return false
		}
		for _, st := range storesTo(al) {
			// stores by the parent happen before the closure runs only if the closure is invoked after
			// the parent is done with the variable; accept cells the closure itself never writes and
			// that no other closure writes
			if st.Parent() != al.Parent() {
				return false
			}
		}
		return true
	}
	return false
}

// addressEscapes: the address v (of a local variable, or of a part of it) is passed to a call, stored, sent, converted or
// merged — anything but loaded from, stored to, and captured by this function's own closures (whose stores storesTo sees).
func addressEscapes(v ssa.Value, d int) bool {
	if d > 3 {
		return true
	}
	refs := v.Referrers()
	if refs == nil {
		return false
	}
	for _, r := range *refs {
		switch x := r.(type) {
		case *ssa.UnOp, *ssa.DebugRef, *ssa.MakeClosure:
		case *ssa.Store:
			if x.Val == v {
				return true
			}
		case *ssa.FieldAddr:
			if addressEscapes(x, d+1) {
				return true
			}
		case *ssa.IndexAddr:
			if addressEscapes(x, d+1) {
				return true
			}
		default:
			return true
		}
	}
	return false
}

type availState map[string]string // access path -> set of generating loads ("t5+t9"; "" in phase A)

func (s availState) clone() availState {
	r := availState{}
	for k, v := range s {
		r[k] = v
	}
	return r
}

func sameAvail(a, b availState) bool {
	if len(a) != len(b) {
		return false
	}
	for k, v := range a {
		if w, ok := b[k]; !ok || w != v {
			return false
		}
	}
	return true
}

// kill removes every path that goes through a location whose name contains one of the given fragments.
func (s availState) kill(frags ...string) {
	for k := range s {
		for _, f := range frags {
			if strings.Contains(k, f) {
				delete(s, k)
				break
			}
		}
	}
}

func (s availState) killField(f string) { s.kill("load|"+f+"|", "lookup|"+f+"|") }

// killCell: a store to a local cell invalidates its loads and every path through them.
func (s availState) killCell(name string) { s.kill("cell|" + name + ";") }

// killElems: slice elements are invalidated by any store through an index address or computed pointer and by any call.
func (s availState) killElems() { s.kill("elem|") }

// killAll: lock operations, blocking operations and callees that take a lock held here invalidate shared memory;
// local cells themselves are unaffected (what is reached THROUGH them is shared memory).
func (s availState) killAll() {
	for k := range s {
		if strings.HasPrefix(k, "cell|") {
			continue
		}
		delete(s, k)
	}
}

// computeLoadEquiv fills loadRep for fn.
func computeLoadEquiv(p *Prog, sums *Summaries, lf *LockFacts, fn *ssa.Function) {
	if len(fn.Blocks) == 0 {
		return
	}
	debug := debugEquiv != "" && strings.Contains(fname(fn), debugEquiv)
	// generator[v]: decided by phase A — the path of load v is not available where v executes
	generator := map[ssa.Value]bool{}
	transfer := func(b *ssa.BasicBlock, st availState, phase int, record bool) availState {
		st = st.clone()
		for idx, ins := range b.Instrs {
			if v, ok := ins.(ssa.Value); ok {
				if key, _, isL := loadKey(v); isL {
					cur, have := st[key]
					switch phase {
					case 0:
						if record {
							generator[v] = !have
						}
						st[key] = ""
					default:
						if generator[v] || !have {
							cur = v.Name()
							st[key] = cur
						}
						if record {
							loadRep[v] = cur
						}
					}
					continue
				}
			}
			switch x := ins.(type) {
			case *ssa.Store:
				if fa, ok := x.Addr.(*ssa.FieldAddr); ok {
					st.killField(fieldRefOfAddr(fa))
				}
				switch a := x.Addr.(type) {
				case *ssa.FieldAddr, *ssa.Global:
				case *ssa.Alloc:
					if !storesBackOwnValue(b, idx, x) {
						st.killCell(a.Name())
					}
				case *ssa.FreeVar:
					if !storesBackOwnValue(b, idx, x) {
						st.killCell("^" + a.Name())
					}
				default:
					st.killElems() // a store through an index address or a computed pointer
				}
			case *ssa.MapUpdate:
				if f, _, ok := loadedField(x.Map); ok {
					st.killField(f)
				}
			case *ssa.Select, *ssa.Send:
				st.killAll()
			case *ssa.UnOp:
				if x.Op == token.ARROW {
					st.killAll()
				}
			case *ssa.Call, *ssa.Go, *ssa.Defer:
				cc := callCommon(ins)
				if b := calleeOf(cc).Builtin; b != "len" && b != "cap" {
					// any callee may hold the slice — unless it is module code that, transitively, calls nothing outside the
					// module and never stores through an index address or a computed pointer (generated getters, predicates)
					pure := false
					if gs := p.calleesOf(cc); len(gs) > 0 && b == "" {
						pure = true
						for _, g := range gs {
							if t := sums.Trans[g]; t == nil || t.Elems || len(t.Calls) > 0 || t.Go {
								pure = false
							}
						}
					}
					if !pure {
						st.killElems()
					}
				}
				if _, ok := lf.lockOpOf(cc); ok {
					if _, isDefer := ins.(*ssa.Defer); !isDefer {
						st.killAll()
					}
					continue
				}
				c := calleeOf(cc)
				if c.Builtin == "delete" && len(cc.Args) > 0 {
					if f, _, ok := loadedField(cc.Args[0]); ok {
						st.killField(f)
					}
					continue
				}
				if blockingKind(ins) != "" {
					st.killAll()
					continue
				}
				_, isGo := ins.(*ssa.Go)
				for _, g := range p.calleesOf(cc) {
					if t := sums.Trans[g]; t != nil {
						// a callee that takes a lock may release ours on the way: shared memory is stale afterwards — but only
						// a callee that takes a lock which may be held HERE can do that; a callee that takes other locks leaves
						// what our locks protect alone (and what no held lock protects can change at any time, call or no
						// call). A goroutine started here runs concurrently: its lock operations do not release the spawner's
						// locks; only what it writes is invalidated.
						if len(t.Acquires) > 0 && !isGo {
							held := lf.MayHeldAt(ins)
							if len(held) == 0 {
								st.killAll()
							}
							for l := range t.Acquires {
								if held[l] != 0 {
									st.killAll()
								}
							}
						}
						for f := range t.Writes {
							st.killField(f)
						}
					}
				}
			}
		}
		return st
	}
	order := rpo(fn)
	if fn.Recover != nil {
		order = append(order, fn.Recover)
	}
	// solve runs one phase to its fixpoint, optimistically (predecessors not visited yet are ignored): phase 0 intersects
	// availability, phase 1 additionally unites the generator sets of the paths available on every predecessor.
	solve := func(phase int) (map[*ssa.BasicBlock]availState, bool) {
		in := map[*ssa.BasicBlock]availState{}
		out := map[*ssa.BasicBlock]availState{}
		for iter := 0; iter < 60; iter++ {
			stable := true
			for _, b := range order {
				var st availState
				if b == fn.Blocks[0] || b == fn.Recover {
					st = availState{}
				} else {
					var first availState
					for _, pr := range b.Preds {
						if o, visited := out[pr]; visited && first == nil {
							first = o
						}
					}
					if first == nil {
						continue // no predecessor visited yet
					}
					st = availState{}
					for k := range first {
						all := true
						gens := map[string]bool{}
						for _, pr := range b.Preds {
							o, visited := out[pr]
							if !visited {
								continue
							}
							w, ok := o[k]
							if !ok {
								all = false
								break
							}
							if w != "" {
								for _, g := range strings.Split(w, "+") {
									gens[g] = true
								}
							}
						}
						if !all {
							continue
						}
						var names []string
						for g := range gens {
							names = append(names, g)
						}
						sort.Strings(names)
						st[k] = strings.Join(names, "+")
					}
				}
				in[b] = st
				o := transfer(b, st, phase, false)
				if prev, ok := out[b]; !ok || !sameAvail(prev, o) {
					out[b] = o
					stable = false
				}
			}
			if stable {
				return in, true
			}
		}
		return in, false
	}
	giveUp := func() {
		// no equivalences for this function: every load is its own variable
		for _, b := range fn.Blocks {
			for _, ins := range b.Instrs {
				if v, ok := ins.(ssa.Value); ok {
					delete(loadRep, v)
				}
			}
		}
	}
	inA, okA := solve(0)
	if !okA {
		giveUp()
		return
	}
	for _, b := range order {
		if st, ok := inA[b]; ok {
			transfer(b, st, 0, true)
		}
	}
	inB, okB := solve(1)
	if !okB {
		giveUp()
		return
	}
	for _, b := range order {
		if st, ok := inB[b]; ok {
			if debug {
				fmt.Println("DEBUG equiv in", b.Index, st)
			}
			transfer(b, st, 1, true)
		}
	}
}

// storesBackOwnValue: the store writes back a value that was loaded from the same cell earlier in the block with no
// other store to the cell in between (`return picked, nil` with named results: `t = *picked; *picked = t`).
func storesBackOwnValue(b *ssa.BasicBlock, idx int, st *ssa.Store) bool {
	u, ok := st.Val.(*ssa.UnOp)
	if !ok || u.Op != token.MUL || u.X != st.Addr || u.Block() != b {
		return false
	}
	seenLoad := false
	for i := 0; i < idx; i++ {
		if b.Instrs[i] == ssa.Instruction(u) {
			seenLoad = true
			continue
		}
		if s2, isS := b.Instrs[i].(*ssa.Store); isS && seenLoad && s2.Addr == st.Addr {
			return false
		}
	}
	return seenLoad
}

func init() {
	if os.Getenv("VERIF_DEBUG_EQUIV") != "" {
		debugEquiv = os.Getenv("VERIF_DEBUG_EQUIV")
	}
}

var debugEquiv string
