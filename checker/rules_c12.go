package main

import (
	"fmt"
	"go/types"
	"strings"

	"golang.org/x/tools/go/ssa"
)

func init() { register("C12", checkC12) }

// gcpContextLit: v is interface-wrapped &gcpContext{...}; returns the values stored into its fields.
func gcpContextLit(v ssa.Value) (map[string]ssa.Value, bool) {
	al, ok := stripConv(v).(*ssa.Alloc)
	if !ok || shortType(al.Type()) != "*grpcgcp.gcpContext" {
		return nil, false
	}
	out := map[string]ssa.Value{}
	for _, r := range *al.Referrers() {
		if fa, ok := r.(*ssa.FieldAddr); ok {
			for _, st := range storesTo(fa) {
				out[lastDot(fieldRefOfAddr(fa))] = st.Val
			}
		}
	}
	return out, true
}

// withGCPValue: v is context.WithValue(parent, gcpKey, &gcpContext{...}).
func withGCPValue(v ssa.Value) (parent ssa.Value, fields map[string]ssa.Value, ok bool) {
	call, isC := staticCallNamed(v, "context.WithValue")
	if !isC {
		return nil, nil, false
	}
	keyOK := false
	for _, o := range origins(call.Call.Args[1]) {
		if u, isU := o.Val.(*ssa.UnOp); isU {
			if g, isG := u.X.(*ssa.Global); isG && g.Name() == "gcpKey" {
				keyOK = true
			}
		}
	}
	f, lit := gcpContextLit(call.Call.Args[2])
	if !keyOK || !lit {
		return nil, nil, false
	}
	return call.Call.Args[0], f, true
}

// C12 — Interceptors: transparent, and streams are created once on first send.
func checkC12(c *Ctx, w *World) {
	c.Explanation = "Structural analysis of the interceptors: the unary interceptor calls the invoker exactly once with all its parameters and a context derived " +
		"from the caller's by WithValue(gcpKey, &gcpContext{req, reply}) and returns its result; the stream's underlying ClientStream is created by the stored " +
		"streamer only in SendMsg, only while none exists, under the stream mutex, with the first message in the picker context and the constructor's parameters; " +
		"the result is stored in the same critical section (error path stores only the error); every path that writes the latch fields broadcasts before returning; " +
		"RecvMsg waits only inside a predicate loop over both fields under the mutex, then returns the creation error or delegates the same message; SendMsg " +
		"delegates on every non-error path; the wait loop must have a context-governed exit; every method of grpc.ClientStream must be declared by the wrapper " +
		"with a guard on the embedded stream (else it is promoted from a possibly nil interface)."
	c.RuleText = "one obligation per call / store / loop / interface method; non-trivial = needed a reaching-condition, must-pass-through or provenance argument"
	c.Assumptions = []string{"run-time ordering of delegated calls and absence of lost wake-ups beyond the protocol shape are not decided"}
	c.Trusted = []string{"go/types", "golang.org/x/tools/go/ssa v0.29.0", "sync.Cond / context.WithValue semantics"}
	pl := newPoolLite(c, w)
	if pl == nil {
		return
	}
	p := pl.p
	un, si := c.need(p, "grpcgcp", "GCPUnaryClientInterceptor"), c.need(p, "grpcgcp", "GCPStreamClientInterceptor")
	send, recv := c.need(p, "grpcgcp", "(*gcpClientStream).SendMsg"), c.need(p, "grpcgcp", "(*gcpClientStream).RecvMsg")
	if un == nil || si == nil || send == nil || recv == nil {
		return
	}
	lockRules(c, p, pl.lf, map[*ssa.Function]bool{un: true, si: true, send: true, recv: true}, "C12.locks")

	// ---- C12.unary
	var inv []*ssa.Call
	eachInstr(un, func(in ssa.Instruction) {
		if call, ok := in.(*ssa.Call); ok && call.Call.Value == ssa.Value(un.Params[5]) {
			inv = append(inv, call)
		}
	})
	okU := len(inv) == 1
	why := fmt.Sprintf("%d invoker calls", len(inv))
	if okU {
		call := inv[0]
		a := call.Call.Args
		parent, fields, isWV := withGCPValue(a[0])
		switch {
		case !isWV || parent != ssa.Value(un.Params[0]):
			okU, why = false, "context is not context.WithValue(<caller's ctx>, gcpKey, &gcpContext{…})"
		case fields["reqMsg"] != ssa.Value(un.Params[2]) || fields["replyMsg"] != ssa.Value(un.Params[3]):
			okU, why = false, "request/reply objects are not handed to the picker"
		case a[1] != ssa.Value(un.Params[1]) || a[2] != ssa.Value(un.Params[2]) || a[3] != ssa.Value(un.Params[3]) || a[4] != ssa.Value(un.Params[4]) || a[5] != ssa.Value(un.Params[6]):
			okU, why = false, "method / req / reply / cc / options are not passed through unchanged"
		case inLoop(call):
			okU, why = false, "invoker called in a loop"
		}
		for _, r := range returnsOf(un) {
			if r.Results[0] != ssa.Value(call) || !dominatesInstr(call, r) {
				okU, why = false, "the invoker's result is not what is returned on every path"
			}
		}
	}
	c.check(okU, "C12.unary", "GCPUnaryClientInterceptor", p.pos(un.Pos()), "exactly one invoker call on every path with (WithValue(ctx, gcpKey, &gcpContext{req, reply}), method, req, reply, cc, opts...); its error is returned", why)

	// ---- C12.ctor: the wrapper stores the constructor's parameters and they are never rewritten
	fieldsWant := map[string]int{"ctx": 0, "desc": 1, "cc": 2, "method": 3, "streamer": 4, "opts": 5}
	okCtor := true
	for f, pi := range fieldsWant {
		found := false
		for _, a := range pl.ai.ByField["gcpClientStream."+f] {
			if !a.isWrite() {
				continue
			}
			if a.Fn == si && freshAt(a.Base, a.Instr) && a.Instr.(*ssa.Store).Val == ssa.Value(si.Params[pi]) {
				found = true
			} else {
				okCtor = false
			}
		}
		if !found {
			okCtor = false
		}
	}
	c.check(okCtor, "C12.once", "GCPStreamClientInterceptor: stored parameters", p.pos(si.Pos()), "ctx, desc, cc, method, streamer and options are stored once, in the constructor, from its own parameters", "the stream wrapper does not keep exactly its constructor's parameters")
	condOK := false
	for _, a := range pl.ai.ByField["gcpClientStream.cond"] {
		if a.isWrite() && a.Fn == si {
			if call, ok := a.Instr.(*ssa.Store).Val.(*ssa.Call); ok && strings.HasSuffix(calleeOf(&call.Call).Name(), "sync.NewCond") && stripConv(call.Call.Args[0]) == stripConv(a.Base) {
				condOK = true
			}
		}
	}
	c.check(condOK && pl.lf.CondLock["gcpClientStream.cond"] == "gcpClientStream.Mutex", "C12.cond", "cond is bound to the stream mutex", p.pos(si.Pos()), "cond = sync.NewCond(cs): cond.L is the mutex that guards the latch fields", "the condition variable is not bound to the stream's own mutex")

	// ---- C12.once
	var creates []*ssa.Call
	for _, fn := range p.Funcs {
		eachInstr(fn, func(in ssa.Instruction) {
			if call, ok := in.(*ssa.Call); ok && isLoadOf(call.Call.Value, "gcpClientStream.streamer") {
				creates = append(creates, call)
			}
		})
	}
	c.floor("C12.once", len(creates), 1)
	cs0 := send.Params[0]
	m := send.Params[1]
	isCSField := func(field string) vpred {
		return func(v ssa.Value) bool {
			f, base, ok := loadedField(v)
			return ok && f == field && isParamValue(base, cs0)
		}
	}
	sAtoms := []atomDef{
		eqAtom("noStream", func(v ssa.Value) bool {
			if !isCSField("gcpClientStream.ClientStream")(v) {
				return false
			}
			ld, _ := stripConv(v).(ssa.Instruction)
			return ld != nil && pl.lf.HeldAt(ld)["gcpClientStream.Mutex"] == 2
		}, isNil),
	}
	var create *ssa.Call
	for _, cr := range creates {
		if cr.Parent() != send {
			c.fail("C12.once", "stream creation in "+fname(cr.Parent()), p.ipos(cr), "the underlying stream is created outside SendMsg")
			continue
		}
		create = cr
	}
	if create != nil {
		sAtoms = append(sAtoms, eqAtom("createFailed", func(v ssa.Value) bool { return isExtractOf(stripConv(v), create, 1) }, isNil))
		scs := newCondSpace(send, recOf(sAtoms...), atomNames(sAtoms...)...)
		imp, wit := scs.Implies(scs.Reach(create), scs.Atom("noStream"))
		held := pl.lf.HeldAt(create)["gcpClientStream.Mutex"] == 2
		// the nil test and the creation must share one critical section (no release in between)
		for i, val := range scs.VarVal {
			if val == nil || scs.Vars[i] != "@noStream" {
				continue
			}
			if bo, ok := val.(*ssa.BinOp); ok {
				for _, side := range []ssa.Value{bo.X, bo.Y} {
					if ld, isI := stripConv(side).(*ssa.UnOp); isI && !sameHold(pl.lf, ld, create) {
						held = false
					}
				}
			}
		}
		c.check(imp && held && len(creates) == 1 && !inLoop(create), "C12.once", "SendMsg: creation guard", p.ipos(create), "the streamer is called only while ClientStream == nil, read under the stream mutex which is still held: never a second stream after a success", "a second underlying stream can be created (guard missing or not under the mutex): "+wit)
		// arguments
		parent, fields, isWV := withGCPValue(create.Call.Args[0])
		a := create.Call.Args
		okArgs := isWV && isCSField("gcpClientStream.ctx")(parent) && fields["reqMsg"] == ssa.Value(m) &&
			isCSField("gcpClientStream.desc")(a[1]) && isCSField("gcpClientStream.cc")(a[2]) && isCSField("gcpClientStream.method")(a[3]) && isCSField("gcpClientStream.opts")(a[4])
		c.check(okArgs, "C12.once", "SendMsg: creation arguments", p.ipos(create), "created with WithValue(cs.ctx, gcpKey, &gcpContext{reqMsg: first message}) and the stored desc, cc, method, options", "the stream is not created from the stored parameters with the first message visible to the picker")
		// success path stores the result in the same critical section; error path stores only the error
		var stStream, stErr *ssa.Store
		for _, ac := range pl.ai.ByFn[send] {
			if ac.What != "store" {
				continue
			}
			st := ac.Instr.(*ssa.Store)
			if ac.Field == "gcpClientStream.ClientStream" && isExtractOf(st.Val, create, 0) {
				stStream = st
			}
			if ac.Field == "gcpClientStream.initStreamErr" && isExtractOf(st.Val, create, 1) {
				stErr = st
			}
		}
		okStore := stStream != nil && stErr != nil
		if okStore {
			i1, _ := scs.Implies(scs.Reach(stStream), scs.Atom("createFailed")) // atom name denotes err == nil
			i2, _ := scs.Implies(scs.Reach(stErr), scs.Not(scs.Atom("createFailed")))
			okStore = i1 && i2 && pl.lf.HeldAt(stStream)["gcpClientStream.Mutex"] == 2 && pl.lf.HeldAt(stErr)["gcpClientStream.Mutex"] == 2 && sameHold(pl.lf, create, stStream) && sameHold(pl.lf, create, stErr)
		}
		c.check(okStore, "C12.once", "SendMsg: result stored", p.pos(send.Pos()), "on success the new stream is stored, on failure only the error, both before the mutex taken for the nil test is released", "creation result is not recorded in the critical section that tested for absence")
		// who may write the latch fields
		pl.whoMayWrite("C12.once", "gcpClientStream.ClientStream", map[string][]string{fname(send): {"store"}})
		pl.whoMayWrite("C12.once", "gcpClientStream.initStreamErr", map[string][]string{fname(send): {"store"}})
		// ---- C12.cond: every write is followed by a Broadcast on every path
		bcast := map[ssa.Instruction]bool{}
		eachInstr(send, func(in ssa.Instruction) {
			if call, ok := in.(*ssa.Call); ok && strings.HasSuffix(calleeOf(&call.Call).Name(), "sync.(*Cond).Broadcast") && isCSField("gcpClientStream.cond")(call.Call.Args[0]) {
				bcast[in] = true
			}
		})
		for _, st := range []*ssa.Store{stStream, stErr} {
			if st != nil {
				c.check(everyPathHits(st, bcast), "C12.cond", "SendMsg: broadcast after "+lastDot(fieldRefOfAddr(st.Addr.(*ssa.FieldAddr))), p.ipos(st), "every path from this write reaches cond.Broadcast() before returning", "a waiter in RecvMsg is not woken after this write")
			}
		}
		// SendMsg delegates the same message on every non-error path, returns creation error otherwise
		okDel := true
		for _, vr := range newCondSpace(send, nil).VirtualReturns() {
			// (a merged `initErr := …; if initErr != nil { return initErr }` is split per way of arriving)
			res := stripConv(vr.Vals[0])
			if isExtractOf(res, create, 1) {
				continue
			}
			call, isC := res.(*ssa.Call)
			if !isC || !call.Call.IsInvoke() || call.Call.Method.Name() != "SendMsg" || !isCSField("gcpClientStream.ClientStream")(call.Call.Value) || call.Call.Args[0] != ssa.Value(m) {
				okDel = false
			}
		}
		c.check(okDel, "C12.cond", "SendMsg: delegation", p.pos(send.Pos()), "every return is the creation error or the underlying SendMsg(m) of the same message", "SendMsg does not deliver the message to the underlying stream on every non-error path")
	}

	// ---- C12.cond (RecvMsg)
	r0 := recv.Params[0]
	rField := func(field string) vpred {
		return func(v ssa.Value) bool {
			f, base, ok := loadedField(v)
			if !ok || f != field || !isParamValue(base, r0) {
				return false
			}
			ld, _ := stripConv(v).(ssa.Instruction)
			return ld != nil && pl.lf.HeldAt(ld)["gcpClientStream.Mutex"] == 2
		}
	}
	rAtoms := []atomDef{eqAtom("noErr", rField("gcpClientStream.initStreamErr"), isNil), eqAtom("noStream", rField("gcpClientStream.ClientStream"), isNil),
		eqAtom("ctxAlive", func(v ssa.Value) bool {
			call, ok := stripConv(v).(*ssa.Call)
			if !ok || !call.Call.IsInvoke() || call.Call.Method.Name() != "Err" || shortType(call.Call.Value.Type()) != "context.Context" {
				return false
			}
			f, base, isL := loadedField(call.Call.Value)
			return isL && f == "gcpClientStream.ctx" && isParamValue(base, r0)
		}, isNil)}
	rcs := newCondSpace(recv, recOf(rAtoms...), atomNames(rAtoms...)...)
	var waits []*ssa.Call
	eachInstr(recv, func(in ssa.Instruction) {
		if call, ok := in.(*ssa.Call); ok && strings.HasSuffix(calleeOf(&call.Call).Name(), "sync.(*Cond).Wait") {
			waits = append(waits, call)
		}
	})
	c.floor("C12.cond:wait", len(waits), 1)
	for _, wt := range waits {
		imp, wit := rcs.Implies(rcs.Reach(wt), rcs.And(rcs.Atom("noErr"), rcs.Atom("noStream")))
		// no lost wake-up: the predicate is tested and Wait is entered in ONE critical section (cond.Wait releases the lock
		// atomically with parking; a release in between lets SendMsg store + Broadcast before the waiter is parked)
		for _, l := range loopsOf(recv) {
			if !l.Blocks[wt.Block()] {
				continue
			}
			for _, in := range l.Header.Instrs {
				u, isU := in.(*ssa.UnOp)
				if !isU {
					continue
				}
				if f, _, ok := loadedField(u); ok && (f == "gcpClientStream.initStreamErr" || f == "gcpClientStream.ClientStream") {
					c.check(sameHoldOf(pl.lf, "gcpClientStream.Mutex", u, wt), "C12.cond", "RecvMsg: predicate test and Wait in one critical section ("+lastDot(f)+")", p.ipos(wt),
						"the stream mutex is not released between the test of the predicate and cond.Wait()", "the stream mutex is released between the predicate test and cond.Wait(): a SendMsg that stores the stream and broadcasts in that gap is missed and RecvMsg blocks although the stream exists")
				}
			}
		}
		c.check(imp && inLoop(wt), "C12.cond", "RecvMsg: wait inside a predicate loop", p.ipos(wt), "Wait is reached only when neither a stream nor a creation error exists, and is re-tested in a loop (spurious wake-ups are harmless)", "RecvMsg waits outside a loop over the predicate (if instead of for), or with the wrong predicate: "+wit)
	}
	okRecv := true
	nDel := 0
	for _, vr := range rcs.VirtualReturns() {
		// (results read from the result cell of a function with defers, or merged from several branches, are split per way
		// of arriving)
		r := vr
		res := stripConv(oneOrigin(vr.Vals[0]))
		if call, isC := res.(*ssa.Call); isC && call.Call.IsInvoke() && call.Call.Method.Name() == "RecvMsg" {
			nDel++
			f, base, ok := loadedField(call.Call.Value)
			if !ok || f != "gcpClientStream.ClientStream" || !isParamValue(base, r0) || !isParamValue(call.Call.Args[0], recv.Params[1]) {
				okRecv = false
			}
			// reached only when no error and a stream exists
			if imp, _ := rcs.Implies(r.Cond, rcs.And(rcs.Atom("noErr"), rcs.Not(rcs.Atom("noStream")))); !imp {
				okRecv = false
			}
			continue
		}
		// or: the call's context ended while waiting — the context's own error (as a status), only when ctx.Err() != nil
		// (a value merged from several branches is resolved to what it is on the ways that reach this return)
		resolve := func(v ssa.Value) ssa.Value {
			if rs := rcs.ResolveUnder(v, r.Cond); len(rs) == 1 {
				return oneOrigin(rs[0])
			}
			return oneOrigin(v)
		}
		if ctxErrCall := contextErrOf(res, resolve); ctxErrCall != nil {
			f, base, ok := loadedField(ctxErrCall.Call.Value)
			imp, _ := rcs.Implies(r.Cond, rcs.Not(rcs.Atom("ctxAlive")))
			if !ok || f != "gcpClientStream.ctx" || !isParamValue(base, r0) || !imp {
				okRecv = false
			}
			continue
		}
		// otherwise: the creation error, non-nil
		if !originsAll(res, func(o Origin) bool { return isLoadOf(o.Val, "gcpClientStream.initStreamErr") }) {
			okRecv = false
		}
		if imp, _ := rcs.Implies(r.Cond, rcs.Not(rcs.Atom("noErr"))); !imp {
			okRecv = false
		}
	}
	c.check(okRecv && nDel == 1, "C12.cond", "RecvMsg: after the wait", p.pos(recv.Pos()), "returns the creation error if there is one (or the context's error if the call's context ended while waiting), else delegates RecvMsg(m) with the same message to the existing stream", "RecvMsg does not return the creation error / delegate to the created stream exactly")

	// ---- C12.ctx-exit
	for i, l := range loopsOf(recv) {
		construct := fmt.Sprintf("(*gcpClientStream).RecvMsg: wait loop#%d", i+1)
		var blockers []ssa.Instruction
		for b := range l.Blocks {
			for _, in := range b.Instrs {
				if blockingKind(in) != "" {
					blockers = append(blockers, in)
				}
			}
		}
		if len(blockers) == 0 {
			continue
		}
		ok, detail := waitLoopOK(p, pl.lf, recv, l, blockers)
		if ok {
			c.ok("C12.ctx-exit", construct, p.ipos(blockers[0]), detail)
		} else {
			c.fail("C12.ctx-exit", construct, p.ipos(blockers[0]), "RecvMsg issued before the first SendMsg waits on the condition variable only: "+detail)
		}
	}

	// ---- C12.methods
	csT := p.importedType("google.golang.org/grpc", "ClientStream")
	named, _ := p.namedStruct("grpcgcp", "gcpClientStream")
	if csT == nil || named == nil {
		c.fail("engine.anchor", "grpc.ClientStream / gcpClientStream", "-", "types not found")
		return
	}
	iface := csT.Underlying().(*types.Interface)
	ms := p.SSA.MethodSets.MethodSet(types.NewPointer(named))
	for i := 0; i < iface.NumMethods(); i++ {
		im := iface.Method(i)
		construct := "(*gcpClientStream)." + im.Name()
		sel := ms.Lookup(im.Pkg(), im.Name())
		if sel == nil {
			c.fail("C12.methods", construct, "-", "method missing")
			continue
		}
		if len(sel.Index()) == 1 {
			// declared by the wrapper itself: it must only touch the embedded stream behind a guard
			fn := p.SSA.FuncValue(sel.Obj().(*types.Func))
			guarded := fn != nil
			if fn != nil {
				for _, a := range pl.ai.ByFn[fn] {
					if a.Field != "gcpClientStream.ClientStream" || a.What != "load" {
						continue
					}
					// a use as a receiver must be dominated by a non-nil observation or a store (latch rule of C10 covers the rest)
					usedAsRecv := false
					if ld, ok := a.Instr.(*ssa.UnOp); ok {
						for _, r := range *ld.Referrers() {
							if cc := callCommon(r); cc != nil && cc.IsInvoke() && cc.Value == ssa.Value(ld) {
								usedAsRecv = true
							}
						}
					}
					if usedAsRecv {
						if ok, _ := latchReadOK(p, pl.lf, fn, a, "gcpClientStream.Mutex"); !ok {
							guarded = false
						}
					}
				}
			}
			c.check(guarded, "C12.methods", construct, p.pos(sel.Obj().Pos()), "declared by the wrapper; the embedded stream is used only after it was stored or observed non-nil under the mutex", "the wrapper's own method can call the embedded stream while it is still nil")
		} else {
			c.fail("C12.methods", construct, p.pos(named.Obj().Pos()), "method is promoted from the embedded grpc.ClientStream, which is nil until the first successful SendMsg: calling it earlier dereferences a nil interface")
		}
	}
}

// sameHold: no release of the stream mutex can occur between a and b (both in one critical section).
func sameHold(lf *LockFacts, a, b ssa.Instruction) bool {
	return sameHoldOf(lf, "gcpClientStream.Mutex", a, b)
}

// sameHoldOf: b may follow a and no release of lock can lie between them (one critical section).
func sameHoldOf(lf *LockFacts, lock string, a, b ssa.Instruction) bool {
	if !mayPrecede(a, b) {
		return false
	}
	// any Unlock that may lie between them breaks the critical section
	bad := false
	eachInstr(a.Parent(), func(in ssa.Instruction) {
		cc := callCommon(in)
		if cc == nil {
			return
		}
		if _, isDefer := in.(*ssa.Defer); isDefer {
			return
		}
		if op, ok := lf.lockOpOf(cc); ok && (op.kind == "Unlock" || op.kind == "RUnlock") && op.lock == lock {
			if mayPrecede(a, in) && mayPrecede(in, b) {
				bad = true
			}
		}
	})
	return !bad
}

// isParamValue: v is the parameter itself or a load of the cell it was spilled into (a parameter captured by a
// closure lives in a heap cell that is assigned exactly once, from the parameter).
func isParamValue(v ssa.Value, prm *ssa.Parameter) bool {
	v = stripConv(v)
	if v == ssa.Value(prm) {
		return true
	}
	return originsAll(v, func(o Origin) bool { return o.Val == ssa.Value(prm) })
}

// contextErrOf: v is ctx.Err() or status.FromContextError(ctx.Err()).Err(); returns the ctx.Err() call.
func contextErrOf(v ssa.Value, resolve func(ssa.Value) ssa.Value) *ssa.Call {
	v = stripConv(resolve(v))
	call, ok := v.(*ssa.Call)
	if !ok {
		return nil
	}
	if call.Call.IsInvoke() && call.Call.Method.Name() == "Err" && shortType(call.Call.Value.Type()) == "context.Context" {
		return call
	}
	if c2, isS := staticCallNamed(v, "status.(*Status).Err"); isS {
		if c3, isF := staticCallNamed(stripConv(c2.Call.Args[0]), "status.FromContextError"); isF {
			return contextErrOf(c3.Call.Args[0], resolve)
		}
	}
	return nil
}
