// verifcheck decides the properties of /verif/properties.jsonl for grpc-gcp-go by
// static analysis of /repo's current working tree (see /verif/DESIGN.md).
package main

import (
	"flag"
	"fmt"
	"os"
	"path/filepath"
	"runtime/debug"
	"sort"
	"strconv"

	"golang.org/x/tools/go/ssa"
)

type propFunc func(c *Ctx, w *World)

var props = map[string]propFunc{}

func register(id string, f propFunc) { props[id] = f }

// World lazily loads the anchored modules.
type World struct {
	c       *Ctx
	repo    string
	all     bool
	gcp     *Prog
	gcpLF   *LockFacts
	gcpSums *Summaries
	prober  *Prog
	csum    *Prog
	overlay map[string][]byte
	goarch  string
}

func (w *World) GCP() *Prog {
	if w.gcp == nil {
		p, err := loadProg(filepath.Join(w.repo, "grpcgcp"), []string{".", "./multiendpoint", "./grpc_gcp"}, w.all, w.overlay, w.goarch)
		if err != nil {
			w.c.fatalf("load grpcgcp: %v", err)
			return nil
		}
		w.gcp = p
		w.note(p)
	}
	return w.gcp
}

func (w *World) GCPLocks() *LockFacts {
	if w.gcpLF == nil && w.GCP() != nil {
		w.gcpLF = buildLockFacts(w.gcp)
		w.gcpSums = buildSummaries(w.gcp)
		equivCtx.p, equivCtx.sums, equivCtx.lf, equivCtx.done = w.gcp, w.gcpSums, w.gcpLF, map[*ssa.Function]bool{}
	}
	return w.gcpLF
}

func (w *World) GCPSums() *Summaries {
	w.GCPLocks()
	return w.gcpSums
}

func (w *World) Prober() *Prog {
	if w.prober == nil {
		p, err := loadProg(filepath.Join(w.repo, "spanner_prober"), []string{".", "./prober"}, w.all, w.overlay, w.goarch)
		if err != nil {
			w.c.fatalf("load spanner_prober: %v", err)
			return nil
		}
		w.prober = p
		w.note(p)
	}
	return w.prober
}

func (w *World) Checksum() *Prog {
	if w.csum == nil {
		p, err := loadProg(filepath.Join(w.repo, "e2e-checksum"), []string{"."}, w.all, w.overlay, w.goarch)
		if err != nil {
			w.c.fatalf("load e2e-checksum: %v", err)
			return nil
		}
		w.csum = p
		w.note(p)
	}
	return w.csum
}

func (w *World) note(p *Prog) {
	for _, pk := range p.Pkgs {
		w.c.Packages = append(w.c.Packages, fmt.Sprintf("%s (%d files)", pk.PkgPath, len(pk.CompiledGoFiles)))
	}
	if tagged := p.buildTaggedFiles(); len(tagged) > 0 {
		// build-constrained files would be invisible to a single-configuration load: fail closed
		w.c.fail("engine.buildtags", p.Dir, tagged[0], fmt.Sprintf("anchored packages contain build-constrained files %v; the analysis covers one configuration only", tagged))
	}
	w.c.Extra["functions_loaded"] = len(p.Funcs)
}

func main() {
	property := flag.String("property", "", "property id (C01..C20), or 'all'")
	tier := flag.String("tier", "quick", "quick|thorough")
	repo := flag.String("repo", "/repo", "repository root")
	verif := flag.String("verif", "/verif", "verif root (evidence, known findings)")
	dump := flag.String("dump", "", "debug: dump facts (locks|funcs)")
	flag.Parse()

	if *dump != "" {
		os.Exit(debugDump(*dump, *repo))
	}
	ids := []string{*property}
	if *property == "all" {
		ids = nil
		for id := range props {
			ids = append(ids, id)
		}
		sort.Strings(ids)
	}
	status := 0
	for _, id := range ids {
		if runOne(id, *tier, *repo, *verif) != 0 {
			status = 1
		}
	}
	os.Exit(status)
}

func runOne(id, tier, repo, verif string) (status int) {
	f, ok := props[id]
	if !ok {
		fmt.Printf("unknown property %q\n", id)
		return 2
	}
	c := newCtx(id, tier, repo, verif)
	if s := os.Getenv("VERIF_SEED"); s != "" {
		c.Seed, _ = strconv.ParseInt(s, 10, 64)
	}
	w := &World{c: c, repo: repo, all: tier == "thorough"}
	if err := c.loadKnown(filepath.Join(verif, "KNOWN_FINDINGS.txt")); err != nil {
		c.fatalf("%v", err)
	}
	func() {
		defer func() {
			if r := recover(); r != nil {
				// a crash of the checker is never a pass
				c.fatalf("checker panic: %v\n%s", r, debug.Stack())
			}
		}()
		bdd.errors = nil
		f(c, w)
		reportCondErrors(c)
		if c.hasAlarms() {
			// normalisation fallback (inline.go): helpers that are new relative to known_funcs.txt are inlined into an
			// in-memory copy and the same rules are applied to that copy
			if ir := inlineNewHelpers(repo); ir.Overlay != nil {
				if d := os.Getenv("VERIF_DUMP_NORM"); d != "" {
					for name, src := range ir.Overlay {
						os.WriteFile(filepath.Join(d, filepath.Base(name)), src, 0o644)
					}
				}
				c2 := newCtx(id, tier, repo, verif)
				c2.Seed = c.Seed
				if err := c2.loadKnown(filepath.Join(verif, "KNOWN_FINDINGS.txt")); err == nil {
					w2 := &World{c: c2, repo: repo, all: tier == "thorough", overlay: ir.Overlay}
					resetGlobals()
					f(c2, w2)
					reportCondErrors(c2)
					if !c2.hasAlarms() && len(c2.Obs) > 0 {
						c2.Extra["normalised"] = map[string]interface{}{
							"explanation": "the check did not pass on the sources as written; it passes on an in-memory copy in which calls of helpers that are new relative to known_funcs.txt are replaced by the helpers' bodies (behaviour-preserving code motion, see inline.go); the obligations below are those of the copy",
							"inlined":     ir.Inlined,
						}
						fmt.Printf("NOTE: %s passes after inlining new helpers %v\n", id, ir.Inlined)
						c, w = c2, w2
					} else if n2, n1 := c2.countAlarms(), c.countAlarms(); n2 > 0 && n2 < n1 && len(c2.fatal) == 0 {
						// neither passes: the normalised copy usually pinpoints the cause better than the lost-anchor reports
						c2.Extra["normalised"] = map[string]interface{}{"inlined": ir.Inlined,
							"result": fmt.Sprintf("the check fails on the sources as written (%d alarms) and on the copy with new helpers inlined (%d alarms); the alarms below are those of the copy, whose positions point into the real files", n1, n2)}
						fmt.Printf("NOTE: %s fails also after inlining new helpers %v; reporting the alarms of the normalised copy\n", id, ir.Inlined)
						c, w = c2, w2
					} else {
						resetGlobals()
						c.Extra["normalised"] = map[string]interface{}{"attempted": ir.Inlined, "result": "the copy with new helpers inlined does not pass either; reporting the result on the sources as written"}
						// re-establish the caches of the first world for the thorough extras
						if tier == "thorough" {
							c = newCtx(id, tier, repo, verif)
							c.loadKnown(filepath.Join(verif, "KNOWN_FINDINGS.txt"))
							w = &World{c: c, repo: repo, all: true}
							f(c, w)
							reportCondErrors(c)
						}
					}
				}
			}
		}
		if tier == "thorough" {
			thoroughExtras(c, w)
		}
	}()
	if len(c.Obs) == 0 && len(c.fatal) == 0 {
		c.fatalf("no obligations were generated for %s", id)
	}
	return c.finish()
}

// reportCondErrors: a condition space that could not be built means some rule decided (or skipped) an entailment
// without its premises; whatever the rule did with it, the run is undecided.
func reportCondErrors(c *Ctx) {
	seen := map[string]bool{}
	for _, e := range bdd.errors {
		if !seen[e] {
			seen[e] = true
			c.undecided("engine.cond", e, "-", "a reaching-condition space could not be built: "+e)
		}
	}
	bdd.errors = nil
}
