package main

import (
	"sort"

	"golang.org/x/tools/go/ssa"
)

// Effects is the transitive effect summary of a function (DESIGN §3.6).
type Effects struct {
	Writes   map[string]bool // "Struct.field" written (store, map insert/delete, atomic write, close)
	Calls    map[string]bool // callee names (Callee.Name()) of non-module calls and dynamic calls
	Go       bool            // starts a goroutine
	Acquires map[string]bool // locks acquired
	Elems    bool            // may write memory that is not a struct field or a local variable (a store through an index address or a computed pointer)
}

type Summaries struct {
	P      *Prog
	Direct map[*ssa.Function]*Effects
	Trans  map[*ssa.Function]*Effects
}

func newEffects() *Effects {
	return &Effects{Writes: map[string]bool{}, Calls: map[string]bool{}, Acquires: map[string]bool{}}
}

func buildSummaries(p *Prog) *Summaries {
	s := &Summaries{P: p, Direct: map[*ssa.Function]*Effects{}, Trans: map[*ssa.Function]*Effects{}}
	callees := map[*ssa.Function][]*ssa.Function{}
	for _, f := range p.Funcs {
		e := newEffects()
		for _, a := range accessesIn(f) {
			if a.Mode == "W" || (a.Mode == "A" && len(a.What) > 0 && a.What[len(a.What)-1] == 'W') {
				// initialisation of a fresh object is not an effect on shared state
				if !freshAt(a.Base, a.Instr) {
					e.Writes[a.Field] = true
				}
			}
		}
		eachInstr(f, func(in ssa.Instruction) {
			if st, isSt := in.(*ssa.Store); isSt {
				switch st.Addr.(type) {
				case *ssa.FieldAddr, *ssa.Alloc, *ssa.FreeVar, *ssa.Global:
				default:
					e.Elems = true
				}
			}
			cc := callCommon(in)
			if cc == nil {
				return
			}
			if _, isGo := in.(*ssa.Go); isGo {
				e.Go = true
			}
			mod := p.calleesOf(cc)
			if len(mod) > 0 {
				callees[f] = append(callees[f], mod...)
				return
			}
			c := calleeOf(cc)
			if c.Builtin != "" {
				return
			}
			e.Calls[c.Name()] = true
			if c.Static != nil {
				if k, ok := lockFuncs[funcFullName(c.Static)]; ok && (k == "Lock" || k == "RLock") && len(cc.Args) > 0 {
					e.Acquires[lockIDOfAddr(cc.Args[0])] = true
				}
			}
		})
		s.Direct[f] = e
	}
	for _, f := range p.Funcs {
		t := newEffects()
		seen := map[*ssa.Function]bool{}
		var visit func(g *ssa.Function)
		visit = func(g *ssa.Function) {
			if seen[g] {
				return
			}
			seen[g] = true
			d := s.Direct[g]
			if d == nil {
				return
			}
			for k := range d.Writes {
				t.Writes[k] = true
			}
			for k := range d.Calls {
				t.Calls[k] = true
			}
			for k := range d.Acquires {
				t.Acquires[k] = true
			}
			t.Go = t.Go || d.Go
			t.Elems = t.Elems || d.Elems
			for _, h := range callees[g] {
				visit(h)
			}
		}
		visit(f)
		s.Trans[f] = t
	}
	return s
}

func keys(m map[string]bool) []string {
	var out []string
	for k := range m {
		out = append(out, k)
	}
	sort.Strings(out)
	return out
}
