package main

// Normalisation fallback: inlining of helpers that did not exist when the rules were written.
//
// The rules are anchored on the functions of the code base as it stood when they were confirmed
// (known_funcs.txt). A clean-up commit that extracts part of an anchored function into a new private
// helper moves the constructs a rule looks for out of its anchor. When a check does not pass as is,
// the checker builds an in-memory copy of the module in which every call of such a NEW helper is
// replaced by the helper's body (pure code motion in the other direction) and analyses that copy
// with the same rules. Inlining is only done where it is obviously semantics-preserving:
//
//   - the callee is an unexported function/method declared in the same file, not in known_funcs.txt,
//     not variadic, not generic, never used as a value, with no defer / recover / goto / go-to labels;
//   - the call is a whole statement, the single right-hand side of an assignment or definition, the
//     single operand of a return, or one of these in the init clause of an if statement;
//   - receiver and arguments are bound, in order, to fresh variables of the declared types; results go
//     through fresh variables; `return` inside the body becomes an assignment plus a labelled break
//     out of a `switch { default: … }` wrapper.
//
// A helper all of whose calls were inlined is removed from the copy. The copy must type-check, else
// the fallback is abandoned. A proof on the copy is a proof on the sources (the transformation
// preserves behaviour); a violation inside a helper is still seen because its body is analysed in place.

import (
	"bytes"
	_ "embed"
	"fmt"
	"go/ast"
	"go/token"
	"go/types"
	"os"
	"sort"
	"strings"

	"golang.org/x/tools/go/packages"
)

//go:embed known_funcs.txt
var knownFuncsTxt string

var knownFuncs = map[string]bool{}

func init() {
	for _, l := range strings.Split(knownFuncsTxt, "\n") {
		l = strings.TrimSpace(l)
		if l != "" && !strings.HasPrefix(l, "#") {
			knownFuncs[l] = true
		}
	}
}

// declKey: "<pkgname>::<recv>.<name>" as used in known_funcs.txt.
func declKey(pkg string, fd *ast.FuncDecl) string {
	name := fd.Name.Name
	if fd.Recv != nil && len(fd.Recv.List) == 1 {
		name = "(" + types.ExprString(fd.Recv.List[0].Type) + ")." + name
	}
	return pkg + "::" + name
}

type inlineResult struct {
	Overlay map[string][]byte
	Inlined []string // helper → number of call sites
	Reason  string   // why nothing was done
}

var moduleRoots = []string{"grpcgcp", "spanner_prober", "e2e-checksum"}

func loadSyntax(dir string, overlay map[string][]byte) ([]*packages.Package, error) {
	cfg := &packages.Config{
		Mode: packages.NeedName | packages.NeedFiles | packages.NeedCompiledGoFiles | packages.NeedImports | packages.NeedTypes | packages.NeedSyntax | packages.NeedTypesInfo,
		Dir:  dir, Tests: false, Overlay: overlay,
		Env: append(os.Environ(), "GOFLAGS=-mod=mod", "GOPROXY=off", "GOSUMDB=off", "GOTOOLCHAIN=local", "GOWORK=off"),
	}
	pkgs, err := packages.Load(cfg, "./...")
	if err != nil {
		return nil, err
	}
	for _, p := range pkgs {
		if len(p.Errors) > 0 {
			return nil, fmt.Errorf("%s: %v", p.PkgPath, p.Errors[0])
		}
	}
	return pkgs, nil
}

// dumpKnownFuncs prints the declaration keys of every function of the module packages (devtools: regenerates known_funcs.txt).
func dumpKnownFuncs(repo string) {
	var keys []string
	for _, root := range moduleRoots {
		pkgs, err := loadSyntax(repo+"/"+root, nil)
		if err != nil {
			fmt.Fprintln(os.Stderr, "load", root, err)
			os.Exit(2)
		}
		for _, p := range pkgs {
			for _, f := range p.Syntax {
				for _, d := range f.Decls {
					if fd, ok := d.(*ast.FuncDecl); ok {
						keys = append(keys, declKey(p.Name, fd))
					}
				}
			}
		}
	}
	sort.Strings(keys)
	fmt.Println("# functions of the module as of the tree the rules were confirmed on (generated: verifcheck -dump knownfuncs)")
	for _, k := range keys {
		fmt.Println(k)
	}
}

type edit struct {
	pos, end int
	text     string
}

func applyEdits(src []byte, edits []edit) []byte {
	sort.Slice(edits, func(i, j int) bool {
		if edits[i].pos != edits[j].pos {
			return edits[i].pos < edits[j].pos
		}
		return edits[i].end < edits[j].end
	})
	var out bytes.Buffer
	last := 0
	for _, e := range edits {
		if e.pos < last {
			continue // overlapping: keep the first
		}
		out.Write(src[last:e.pos])
		out.WriteString(e.text)
		last = e.end
	}
	out.Write(src[last:])
	return out.Bytes()
}

// inlineNewHelpers builds the normalised copy. Up to three rounds (helpers calling helpers).
func inlineNewHelpers(repo string) inlineResult {
	res := inlineResult{Overlay: map[string][]byte{}}
	counts := map[string]int{}
	uniq := 0
	for _, root := range moduleRoots {
		dir := repo + "/" + root
		for round := 0; round < 3; round++ {
			pkgs, err := loadSyntax(dir, res.Overlay)
			if err != nil {
				res.Reason = "normalised copy does not load: " + err.Error()
				res.Overlay = nil
				return res
			}
			changed := false
			for _, p := range pkgs {
				for i, f := range p.Syntax {
					path := p.CompiledGoFiles[i]
					src, ok := res.Overlay[path]
					if !ok {
						b, err := os.ReadFile(path)
						if err != nil {
							continue
						}
						src = b
					}
					out, n := inlineFile(p, f, src, &uniq, counts)
					if n > 0 {
						res.Overlay[path] = out
						changed = true
					}
				}
			}
			if !changed {
				break
			}
		}
	}
	if len(counts) == 0 {
		res.Overlay = nil
		res.Reason = "no call of a helper that is new relative to known_funcs.txt could be inlined"
		return res
	}
	// final load check
	for _, root := range moduleRoots {
		if _, err := loadSyntax(repo+"/"+root, res.Overlay); err != nil {
			res.Reason = "normalised copy does not type-check: " + err.Error()
			res.Overlay = nil
			return res
		}
	}
	for k, n := range counts {
		res.Inlined = append(res.Inlined, fmt.Sprintf("%s×%d", k, n))
	}
	sort.Strings(res.Inlined)
	return res
}

// candidate: a helper that may be inlined.
type candidate struct {
	decl *ast.FuncDecl
	obj  *types.Func
	key  string
}

func inlineFile(p *packages.Package, f *ast.File, src []byte, uniq *int, counts map[string]int) ([]byte, int) {
	fset := p.Fset
	off := func(pos token.Pos) int { return fset.Position(pos).Offset }
	// 1. candidates declared in this file
	cands := map[*types.Func]*candidate{}
	for _, d := range f.Decls {
		fd, ok := d.(*ast.FuncDecl)
		if !ok || fd.Body == nil || fd.Name.IsExported() || fd.Name.Name == "init" || fd.Name.Name == "main" {
			continue
		}
		key := declKey(p.Name, fd)
		if knownFuncs[key] {
			continue
		}
		obj, _ := p.TypesInfo.Defs[fd.Name].(*types.Func)
		if obj == nil {
			continue
		}
		sig := obj.Type().(*types.Signature)
		if sig.Variadic() || sig.TypeParams().Len() > 0 || sig.RecvTypeParams().Len() > 0 {
			continue
		}
		bad := false
		ast.Inspect(fd.Body, func(n ast.Node) bool {
			switch x := n.(type) {
			case *ast.DeferStmt:
				bad = true
			case *ast.BranchStmt:
				if x.Tok == token.GOTO {
					bad = true
				}
			case *ast.CallExpr:
				if id, ok := x.Fun.(*ast.Ident); ok && id.Name == "recover" {
					bad = true
				}
				// direct recursion
				if callee := calleeFunc(p.TypesInfo, x); callee == obj {
					bad = true
				}
			}
			return true
		})
		if bad {
			continue
		}
		cands[obj] = &candidate{decl: fd, obj: obj, key: key}
	}
	if len(cands) == 0 {
		return src, 0
	}
	// a helper used as a value anywhere in the package is not inlined/removed
	usedAsValue := map[*types.Func]bool{}
	callFun := map[*ast.Ident]bool{}
	for _, g := range p.Syntax {
		ast.Inspect(g, func(n ast.Node) bool {
			if ce, ok := n.(*ast.CallExpr); ok {
				switch fun := ce.Fun.(type) {
				case *ast.Ident:
					callFun[fun] = true
				case *ast.SelectorExpr:
					callFun[fun.Sel] = true
				}
			}
			return true
		})
	}
	for id, o := range p.TypesInfo.Uses {
		if fn, ok := o.(*types.Func); ok && cands[fn] != nil && !callFun[id] {
			usedAsValue[fn] = true
		}
	}
	// 2. call sites in this file
	var edits []edit
	n := 0
	remaining := map[*types.Func]int{}
	here := map[*types.Func]int{}
	var visitStmts func(list []ast.Stmt)
	handle := func(st ast.Stmt) bool {
		call, form := inlinableCall(st)
		if call == nil {
			return false
		}
		callee := calleeFunc(p.TypesInfo, call)
		c := cands[callee]
		if c == nil || usedAsValue[callee] || call.Ellipsis.IsValid() {
			return false
		}
		// not inside the helper itself, and not a call nested in another candidate's body that is itself about to vanish is fine
		*uniq++
		text, ok := expandCall(p, f, src, st, form, call, c, *uniq)
		if !ok {
			return false
		}
		edits = append(edits, edit{off(st.Pos()), off(st.End()), text})
		counts[c.key]++
		here[callee]++
		n++
		return true
	}
	visitStmts = func(list []ast.Stmt) {
		for _, st := range list {
			if handle(st) {
				continue
			}
			// descend
			ast.Inspect(st, func(nd ast.Node) bool {
				switch x := nd.(type) {
				case *ast.BlockStmt:
					if nd != st {
						visitStmts(x.List)
						return false
					}
				case *ast.CaseClause:
					visitStmts(x.Body)
					return false
				case *ast.CommClause:
					visitStmts(x.Body)
					return false
				case *ast.FuncLit:
					visitStmts(x.Body.List)
					return false
				}
				return true
			})
		}
	}
	for _, d := range f.Decls {
		if fd, ok := d.(*ast.FuncDecl); ok && fd.Body != nil {
			visitStmts(fd.Body.List)
		}
	}
	if n == 0 {
		return src, 0
	}
	// 3. count the calls that remain after this round (anywhere in the package); remove helpers with none
	for _, g := range p.Syntax {
		ast.Inspect(g, func(nd ast.Node) bool {
			if ce, ok := nd.(*ast.CallExpr); ok {
				if callee := calleeFunc(p.TypesInfo, ce); cands[callee] != nil {
					remaining[callee]++
				}
			}
			return true
		})
	}
	for fn, c := range cands {
		if usedAsValue[fn] {
			continue
		}
		if remaining[fn] == here[fn] && here[fn] > 0 && !calledFromOtherCandidate(p, cands, fn) {
			start := c.decl.Pos()
			if c.decl.Doc != nil {
				start = c.decl.Doc.Pos()
			}
			edits = append(edits, edit{off(start), off(c.decl.End()), ""})
		}
	}
	return applyEdits(src, edits), n
}

// calledFromOtherCandidate: fn is called inside the body of another candidate (whose body text is copied verbatim into
// call sites in this round, so the call would survive): keep fn's declaration for the next round.
func calledFromOtherCandidate(p *packages.Package, cands map[*types.Func]*candidate, fn *types.Func) bool {
	found := false
	for other, c := range cands {
		if other == fn {
			continue
		}
		ast.Inspect(c.decl.Body, func(nd ast.Node) bool {
			if ce, ok := nd.(*ast.CallExpr); ok && calleeFunc(p.TypesInfo, ce) == fn {
				found = true
			}
			return true
		})
	}
	return found
}

func calleeFunc(info *types.Info, ce *ast.CallExpr) *types.Func {
	switch fun := ce.Fun.(type) {
	case *ast.Ident:
		fn, _ := info.Uses[fun].(*types.Func)
		return fn
	case *ast.SelectorExpr:
		fn, _ := info.Uses[fun.Sel].(*types.Func)
		return fn
	}
	return nil
}

// inlinableCall: the call of a supported statement form ("expr", "assign", "return", "if-expr", "if-assign").
func inlinableCall(st ast.Stmt) (*ast.CallExpr, string) {
	simple := func(s ast.Stmt) (*ast.CallExpr, string) {
		switch x := s.(type) {
		case *ast.ExprStmt:
			if ce, ok := x.X.(*ast.CallExpr); ok {
				return ce, "expr"
			}
		case *ast.AssignStmt:
			if len(x.Rhs) == 1 && (x.Tok == token.ASSIGN || x.Tok == token.DEFINE) {
				if ce, ok := x.Rhs[0].(*ast.CallExpr); ok {
					return ce, "assign"
				}
			}
		case *ast.ReturnStmt:
			if len(x.Results) == 1 {
				if ce, ok := x.Results[0].(*ast.CallExpr); ok {
					return ce, "return"
				}
			}
		}
		return nil, ""
	}
	if ce, form := simple(st); ce != nil {
		return ce, form
	}
	if ifs, ok := st.(*ast.IfStmt); ok && ifs.Init != nil {
		if ce, form := simple(ifs.Init); ce != nil && form != "return" {
			return ce, "if-" + form
		}
	}
	return nil, ""
}

func expandCall(p *packages.Package, f *ast.File, src []byte, st ast.Stmt, form string, call *ast.CallExpr, c *candidate, id int) (string, bool) {
	fset := p.Fset
	off := func(pos token.Pos) int { return fset.Position(pos).Offset }
	text := func(n ast.Node) string { return string(src[off(n.Pos()):off(n.End())]) }
	sig := c.obj.Type().(*types.Signature)
	fd := c.decl
	suffix := fmt.Sprintf("__inl%d", id)
	label := "L" + suffix
	// rename map: parameter / receiver / named-result objects → fresh names
	ren := map[types.Object]string{}
	var pre []string
	// receiver
	if fd.Recv != nil && len(fd.Recv.List) == 1 {
		sel, ok := call.Fun.(*ast.SelectorExpr)
		if !ok {
			return "", false
		}
		// receiver expression must have exactly the declared receiver type (no implicit & or *)
		rt := p.TypesInfo.TypeOf(sel.X)
		if rt == nil || !types.Identical(rt, sig.Recv().Type()) {
			return "", false
		}
		name := "recv" + suffix
		var robj types.Object
		if len(fd.Recv.List[0].Names) == 1 && fd.Recv.List[0].Names[0].Name != "_" {
			robj = p.TypesInfo.Defs[fd.Recv.List[0].Names[0]]
		}
		if id, isId := sel.X.(*ast.Ident); isId && plainLocal(p.TypesInfo, id) && !assignedIn(p.TypesInfo, fd.Body, robj) {
			// the receiver expression is a plain local that the helper never assigns: use it directly
			if robj != nil {
				ren[robj] = id.Name
			}
		} else {
			if robj != nil {
				ren[robj] = name
			}
			pre = append(pre, fmt.Sprintf("var %s %s = %s; _ = %s", name, text(fd.Recv.List[0].Type), text(sel.X), name))
		}
	}
	// parameters
	ai := 0
	for _, fld := range fd.Type.Params.List {
		names := fld.Names
		if len(names) == 0 {
			names = []*ast.Ident{nil}
		}
		for _, nm := range names {
			if ai >= len(call.Args) {
				return "", false
			}
			name := fmt.Sprintf("p%d%s", ai, suffix)
			var pobj types.Object
			if nm != nil && nm.Name != "_" {
				pobj = p.TypesInfo.Defs[nm]
			}
			if id, isId := call.Args[ai].(*ast.Ident); isId && pobj != nil && plainLocal(p.TypesInfo, id) && !assignedIn(p.TypesInfo, fd.Body, pobj) &&
				types.Identical(p.TypesInfo.TypeOf(id), pobj.Type()) && !shadowedIn(p.TypesInfo, fd.Body, id.Name) {
				// an argument that is a plain local of the caller, bound to a parameter the helper never assigns: substituted
				ren[pobj] = id.Name
			} else {
				if pobj != nil {
					ren[pobj] = name
				}
				pre = append(pre, fmt.Sprintf("var %s %s = %s; _ = %s", name, text(fld.Type), text(call.Args[ai]), name))
			}
			ai++
		}
	}
	if ai != len(call.Args) {
		return "", false
	}
	// results
	var resNames []string
	if fd.Type.Results != nil {
		ri := 0
		for _, fld := range fd.Type.Results.List {
			names := fld.Names
			if len(names) == 0 {
				names = []*ast.Ident{nil}
			}
			for _, nm := range names {
				name := fmt.Sprintf("r%d%s", ri, suffix)
				if nm != nil && nm.Name != "_" {
					ren[p.TypesInfo.Defs[nm]] = name
				}
				pre = append(pre, fmt.Sprintf("var %s %s; _ = %s", name, text(fld.Type), name))
				resNames = append(resNames, name)
				ri++
			}
		}
	}
	// body edits: identifier renames and return rewriting (not inside function literals for returns)
	var edits []edit
	bodyStart, bodyEnd := off(fd.Body.Lbrace)+1, off(fd.Body.Rbrace)
	ast.Inspect(fd.Body, func(nd ast.Node) bool {
		if id, ok := nd.(*ast.Ident); ok {
			if o := p.TypesInfo.Uses[id]; o != nil {
				if nn, ok := ren[o]; ok {
					edits = append(edits, edit{off(id.Pos()), off(id.End()), nn})
				}
			}
		}
		return true
	})
	okRet := true
	var walk func(nd ast.Node, inLit bool)
	walk = func(nd ast.Node, inLit bool) {
		ast.Inspect(nd, func(x ast.Node) bool {
			switch y := x.(type) {
			case *ast.FuncLit:
				if x != nd {
					return false // returns inside literals belong to the literal
				}
			case *ast.ReturnStmt:
				switch {
				case len(y.Results) == 0:
					edits = append(edits, edit{off(y.Pos()), off(y.Pos()) + len("return"), "break " + label})
				case len(resNames) == 0:
					okRet = false
				default:
					edits = append(edits, edit{off(y.Pos()), off(y.Pos()) + len("return"), "{ " + strings.Join(resNames, ", ") + " ="})
					edits = append(edits, edit{off(y.End()), off(y.End()), "; break " + label + " }"})
				}
			}
			return true
		})
	}
	walk(fd.Body, false)
	if !okRet {
		return "", false
	}
	// restrict edits to the body and rebase
	var be []edit
	for _, e := range edits {
		if e.pos >= bodyStart && e.end <= bodyEnd {
			be = append(be, edit{e.pos - bodyStart, e.end - bodyStart, e.text})
		}
	}
	body := string(applyEdits(append([]byte(nil), src[bodyStart:bodyEnd]...), be))
	file := fset.Position(fd.Pos()).Filename
	bodyLine := fset.Position(fd.Body.Lbrace).Line
	stLine := fset.Position(st.Pos()).Line
	endLine := fset.Position(st.End()).Line
	var b strings.Builder
	results := strings.Join(resNames, ", ")
	emitCore := func() {
		for _, l := range pre {
			b.WriteString(l + "\n")
		}
		if strings.Contains(body, "break "+label) {
			b.WriteString(label + ":\n")
		}
		b.WriteString("switch {\ndefault:\n")
		fmt.Fprintf(&b, "//line %s:%d\n", file, bodyLine)
		b.WriteString(body)
		fmt.Fprintf(&b, "\n//line %s:%d\n", file, stLine)
		b.WriteString("}\n")
	}
	replaceCall := func(s ast.Stmt) (string, bool) {
		switch x := s.(type) {
		case *ast.ExprStmt:
			return "", true
		case *ast.AssignStmt:
			if len(resNames) == 0 {
				return "", false
			}
			return string(src[off(x.Pos()):off(x.Rhs[0].Pos())]) + results, true
		case *ast.ReturnStmt:
			if len(resNames) == 0 {
				return "", false
			}
			return "return " + results, true
		}
		return "", false
	}
	switch form {
	case "expr", "assign", "return":
		tail, ok := replaceCall(st)
		if !ok {
			return "", false
		}
		emitCore()
		b.WriteString(tail)
		fmt.Fprintf(&b, "\n//line %s:%d\n", file, endLine)
	case "if-expr", "if-assign":
		ifs := st.(*ast.IfStmt)
		tail, ok := replaceCall(ifs.Init)
		if !ok {
			return "", false
		}
		b.WriteString("{\n")
		emitCore()
		if tail != "" {
			b.WriteString(tail + "\n")
		}
		b.WriteString("if " + string(src[off(ifs.Cond.Pos()):off(ifs.End())]) + "\n}")
		fmt.Fprintf(&b, "\n//line %s:%d\n", file, endLine)
	default:
		return "", false
	}
	return b.String(), true
}

// plainLocal: id denotes a local variable or parameter (not a package-level variable, constant or field).
func plainLocal(info *types.Info, id *ast.Ident) bool {
	v, ok := info.Uses[id].(*types.Var)
	return ok && !v.IsField() && v.Parent() != nil && v.Pkg() != nil && v.Parent() != v.Pkg().Scope()
}

// assignedIn: obj is assigned, incremented, or has its address taken somewhere in body.
func assignedIn(info *types.Info, body *ast.BlockStmt, obj types.Object) bool {
	if obj == nil {
		return false
	}
	is := func(e ast.Expr) bool {
		id, ok := e.(*ast.Ident)
		return ok && (info.Uses[id] == obj || info.Defs[id] == obj)
	}
	found := false
	ast.Inspect(body, func(n ast.Node) bool {
		switch x := n.(type) {
		case *ast.AssignStmt:
			for _, l := range x.Lhs {
				if is(l) {
					found = true
				}
			}
		case *ast.IncDecStmt:
			if is(x.X) {
				found = true
			}
		case *ast.UnaryExpr:
			if x.Op == token.AND && is(x.X) {
				found = true
			}
		case *ast.RangeStmt:
			if (x.Key != nil && is(x.Key)) || (x.Value != nil && is(x.Value)) {
				found = true
			}
		}
		return true
	})
	return found
}

// shadowedIn: the body declares something called name (a substituted caller identifier would be captured).
func shadowedIn(info *types.Info, body *ast.BlockStmt, name string) bool {
	found := false
	ast.Inspect(body, func(n ast.Node) bool {
		if id, ok := n.(*ast.Ident); ok && id.Name == name && info.Defs[id] != nil {
			found = true
		}
		return true
	})
	return found
}
