package main

// Normalisation fallback: inlining of helpers that did not exist when the rules were written.
//
// The rules are anchored on the functions of the code base as it stood when they were confirmed
// (known_funcs.txt). A clean-up commit that extracts part of an anchored function into a new private
// helper moves the constructs a rule looks for out of its anchor. When a check does not pass as is,
// the checker builds an in-memory copy of the module in which every call of such a NEW helper is
// replaced by the helper's body (pure code motion in the other direction) and analyses that copy
// with the same rules. Inlining is only done where it is obviously semantics-preserving:
//
//   - the callee is an unexported function/method declared in the same file, not in known_funcs.txt,
//     not variadic, not generic, never used as a value, with no defer / recover / goto / go-to labels;
//   - the call is a whole statement, the single right-hand side of an assignment or definition, the
//     single operand of a return, or one of these in the init clause of an if statement;
//   - receiver and arguments are bound, in order, to fresh variables of the declared types; results go
//     through fresh variables; `return` inside the body becomes an assignment plus a labelled break
//     out of a `switch { default: … }` wrapper.
//
// A helper all of whose calls were inlined is removed from the copy. The copy must type-check, else
// the fallback is abandoned. A proof on the copy is a proof on the sources (the transformation
// preserves behaviour); a violation inside a helper is still seen because its body is analysed in place.

import (
	"bytes"
	_ "embed"
	"fmt"
	"go/ast"
	"go/token"
	"go/types"
	"os"
	"sort"
	"strings"

	"golang.org/x/tools/go/packages"
)

//go:embed known_funcs.txt
var knownFuncsTxt string

var knownFuncs = map[string]bool{}

func init() {
	for _, l := range strings.Split(knownFuncsTxt, "\n") {
		l = strings.TrimSpace(l)
		if l != "" && !strings.HasPrefix(l, "#") {
			knownFuncs[l] = true
		}
	}
}

// declKey: "<pkgname>::<recv>.<name>" as used in known_funcs.txt.
func declKey(pkg string, fd *ast.FuncDecl) string {
	name := fd.Name.Name
	if fd.Recv != nil && len(fd.Recv.List) == 1 {
		name = "(" + types.ExprString(fd.Recv.List[0].Type) + ")." + name
	}
	return pkg + "::" + name
}

type inlineResult struct {
	Overlay map[string][]byte
	Inlined []string // helper → number of call sites
	Reason  string   // why nothing was done
}

var moduleRoots = []string{"grpcgcp", "spanner_prober", "e2e-checksum"}

func loadSyntax(dir string, overlay map[string][]byte) ([]*packages.Package, error) {
	cfg := &packages.Config{
		Mode: packages.NeedName | packages.NeedFiles | packages.NeedCompiledGoFiles | packages.NeedImports | packages.NeedTypes | packages.NeedSyntax | packages.NeedTypesInfo,
		Dir:  dir, Tests: false, Overlay: overlay,
		Env: append(os.Environ(), "GOFLAGS=-mod=mod", "GOPROXY=off", "GOSUMDB=off", "GOTOOLCHAIN=local", "GOWORK=off"),
	}
	pkgs, err := packages.Load(cfg, "./...")
	if err != nil {
		return nil, err
	}
	for _, p := range pkgs {
		if len(p.Errors) > 0 {
			return nil, fmt.Errorf("%s: %v", p.PkgPath, p.Errors[0])
		}
	}
	return pkgs, nil
}

// dumpKnownFuncs prints the declaration keys of every function of the module packages (devtools: regenerates known_funcs.txt).
func dumpKnownFuncs(repo string) {
	var keys []string
	for _, root := range moduleRoots {
		pkgs, err := loadSyntax(repo+"/"+root, nil)
		if err != nil {
			fmt.Fprintln(os.Stderr, "load", root, err)
			os.Exit(2)
		}
		for _, p := range pkgs {
			for _, f := range p.Syntax {
				for _, d := range f.Decls {
					if fd, ok := d.(*ast.FuncDecl); ok {
						keys = append(keys, declKey(p.Name, fd))
					}
				}
			}
		}
	}
	sort.Strings(keys)
	fmt.Println("# functions of the module as of the tree the rules were confirmed on (generated: verifcheck -dump knownfuncs)")
	for _, k := range keys {
		fmt.Println(k)
	}
}

type edit struct {
	pos, end int
	text     string
}

func applyEdits(src []byte, edits []edit) []byte {
	sort.Slice(edits, func(i, j int) bool {
		if edits[i].pos != edits[j].pos {
			return edits[i].pos < edits[j].pos
		}
		return edits[i].end < edits[j].end
	})
	var out bytes.Buffer
	last := 0
	for _, e := range edits {
		if e.pos < last {
			continue // overlapping: keep the first
		}
		out.Write(src[last:e.pos])
		out.WriteString(e.text)
		last = e.end
	}
	out.Write(src[last:])
	return out.Bytes()
}

// inlineNewHelpers builds the normalised copy. Up to three rounds (helpers calling helpers).
func inlineNewHelpers(repo string) inlineResult {
	res := inlineResult{Overlay: map[string][]byte{}}
	counts := map[string]int{}
	uniq := 0
	for _, root := range moduleRoots {
		dir := repo + "/" + root
		for round := 0; round < 8; round++ {
			pkgs, err := loadSyntax(dir, res.Overlay)
			if err != nil {
				res.Reason = "normalised copy does not load: " + err.Error()
				res.Overlay = nil
				return res
			}
			changed := false
			for _, p := range pkgs {
				for i, f := range p.Syntax {
					path := p.CompiledGoFiles[i]
					src, ok := res.Overlay[path]
					if !ok {
						b, err := os.ReadFile(path)
						if err != nil {
							continue
						}
						src = b
					}
					// (unrolling comes first: bodies of inlined helpers carry labels, which must not be duplicated)
					out, n := unrollSmallRanges(p, f, src, counts)
					if n == 0 {
						out, n = methodValuesToClosures(p, f, src)
					}
					if n == 0 {
						out, n = substExprHelpers(p, f, src, counts)
					}
					if n == 0 {
						out, n = inlineFile(p, f, src, &uniq, counts)
					}
					if n == 0 {
						out, n = splitLocalStructs(p, f, src, counts)
					}
					if n > 0 {
						res.Overlay[path] = out
						changed = true
					}
				}
			}
			if !changed {
				break
			}
		}
	}
	if len(counts) == 0 {
		res.Overlay = nil
		res.Reason = "no call of a helper that is new relative to known_funcs.txt could be inlined"
		return res
	}
	// final load check
	for _, root := range moduleRoots {
		if _, err := loadSyntax(repo+"/"+root, res.Overlay); err != nil {
			res.Reason = "normalised copy does not type-check: " + err.Error()
			res.Overlay = nil
			return res
		}
	}
	for k, n := range counts {
		res.Inlined = append(res.Inlined, fmt.Sprintf("%s×%d", k, n))
	}
	sort.Strings(res.Inlined)
	return res
}

// candidate: a helper that may be inlined.
type candidate struct {
	decl *ast.FuncDecl
	obj  *types.Func
	key  string
	// lockedGetter: the body is `x.Lock(); defer x.Unlock(); …pure statements…; return <pure>`: the deferred unlock is
	// replaced by an explicit unlock in front of every exit (nothing in between can panic or call out)
	deferStmt  *ast.DeferStmt
	unlockText string
	// tailOnly: the body contains other defer statements: it may only be inlined where the call is the last thing its caller
	// does (the deferred calls then still run right after the body, at the caller's exit)
	tailOnly bool
}

func inlineFile(p *packages.Package, f *ast.File, src []byte, uniq *int, counts map[string]int) ([]byte, int) {
	fset := p.Fset
	off := func(pos token.Pos) int { return fset.Position(pos).Offset }
	// 1. candidates declared in this file
	cands := map[*types.Func]*candidate{}
	for _, d := range f.Decls {
		fd, ok := d.(*ast.FuncDecl)
		if !ok || fd.Body == nil || fd.Name.IsExported() || fd.Name.Name == "init" || fd.Name.Name == "main" {
			continue
		}
		key := declKey(p.Name, fd)
		if knownFuncs[key] {
			continue
		}
		obj, _ := p.TypesInfo.Defs[fd.Name].(*types.Func)
		if obj == nil {
			continue
		}
		sig := obj.Type().(*types.Signature)
		if sig.Variadic() || sig.TypeParams().Len() > 0 || sig.RecvTypeParams().Len() > 0 {
			continue
		}
		bad := false
		hasOtherDefer := false
		var lockedDefer *ast.DeferStmt
		if len(fd.Body.List) >= 3 {
			if es, ok := fd.Body.List[0].(*ast.ExprStmt); ok {
				if ds, ok := fd.Body.List[1].(*ast.DeferStmt); ok {
					lc, isCall := es.X.(*ast.CallExpr)
					if isCall {
						ls, ok1 := lc.Fun.(*ast.SelectorExpr)
						us, ok2 := ds.Call.Fun.(*ast.SelectorExpr)
						if ok1 && ok2 && ((ls.Sel.Name == "Lock" && us.Sel.Name == "Unlock") || (ls.Sel.Name == "RLock" && us.Sel.Name == "RUnlock")) &&
							types.ExprString(ls.X) == types.ExprString(us.X) && len(lc.Args) == 0 && len(ds.Call.Args) == 0 {
							// the rest must be call-free apart from builtins / conversions / getters
							pure := true
							for _, st := range fd.Body.List[2:] {
								ast.Inspect(st, func(n ast.Node) bool {
									switch y := n.(type) {
									case *ast.CallExpr:
										switch f := y.Fun.(type) {
										case *ast.Ident:
											if f.Name != "len" && f.Name != "cap" {
												if tv, ok := p.TypesInfo.Types[y.Fun]; !ok || !tv.IsType() {
													pure = false
												}
											}
										case *ast.SelectorExpr:
											if !strings.HasPrefix(f.Sel.Name, "Get") {
												if tv, ok := p.TypesInfo.Types[y.Fun]; !ok || !tv.IsType() {
													pure = false
												}
											}
										default:
											pure = false
										}
									case *ast.DeferStmt, *ast.GoStmt, *ast.FuncLit:
										pure = false
									}
									return true
								})
							}
							if pure {
								lockedDefer = ds
							}
						}
					}
				}
			}
		}
		ast.Inspect(fd.Body, func(n ast.Node) bool {
			switch x := n.(type) {
			case *ast.DeferStmt:
				if x != lockedDefer {
					hasOtherDefer = true
				}
			case *ast.BranchStmt:
				if x.Tok == token.GOTO {
					bad = true
				}
			case *ast.CallExpr:
				if id, ok := x.Fun.(*ast.Ident); ok && id.Name == "recover" {
					bad = true
				}
				// direct recursion
				if callee := calleeFunc(p.TypesInfo, x); callee == obj {
					bad = true
				}
			}
			return true
		})
		if bad {
			continue
		}
		cd := &candidate{decl: fd, obj: obj, key: key, tailOnly: hasOtherDefer}
		if hasOtherDefer {
			// NAMED results could be modified by the deferred calls after the return values are set: keep it simple. Unnamed
			// results are fixed when the helper's return statement is evaluated; such a helper may be expanded where its call
			// is the operand of a return statement (`return h(x)`): its deferred calls then run right after the results are
			// set and before anything else — as they did — and before the caller's own, earlier registered, deferred calls
			named := false
			if fd.Type.Results != nil {
				for _, r := range fd.Type.Results.List {
					if len(r.Names) > 0 {
						named = true
					}
				}
			}
			if named {
				// … unless no deferred call can reach them: a deferred closure, or a deferred call given the address of
				// something, could; `defer mu.Unlock()` cannot
				ast.Inspect(fd.Body, func(n ast.Node) bool {
					if ds, isD := n.(*ast.DeferStmt); isD {
						if _, isLit := ds.Call.Fun.(*ast.FuncLit); isLit {
							bad = true
						}
						for _, a := range ds.Call.Args {
							ast.Inspect(a, func(m ast.Node) bool {
								if u, isU := m.(*ast.UnaryExpr); isU && u.Op == token.AND {
									bad = true
								}
								if _, isLit := m.(*ast.FuncLit); isLit {
									bad = true
								}
								return true
							})
						}
					}
					return true
				})
			}
			if bad {
				continue
			}
			lockedDefer = nil
		}
		if lockedDefer != nil {
			cd.deferStmt = lockedDefer
			cd.unlockText = types.ExprString(lockedDefer.Call)
		}
		cands[obj] = cd
	}
	if len(cands) == 0 {
		return src, 0
	}
	// a helper used as a value anywhere in the package is not inlined/removed
	usedAsValue := map[*types.Func]bool{}
	callFun := map[*ast.Ident]bool{}
	for _, g := range p.Syntax {
		ast.Inspect(g, func(n ast.Node) bool {
			if ce, ok := n.(*ast.CallExpr); ok {
				switch fun := ce.Fun.(type) {
				case *ast.Ident:
					callFun[fun] = true
				case *ast.SelectorExpr:
					callFun[fun.Sel] = true
				}
			}
			return true
		})
	}
	for id, o := range p.TypesInfo.Uses {
		if fn, ok := o.(*types.Func); ok && cands[fn] != nil && !callFun[id] {
			usedAsValue[fn] = true
		}
	}
	// 2. call sites in this file
	var edits []edit
	n := 0
	remaining := map[*types.Func]int{}
	here := map[*types.Func]int{}
	tailStmts := map[ast.Stmt]bool{}
	var visitStmts func(list []ast.Stmt)
	var lowerStmt func(st ast.Stmt) bool
	// what each edit was counted for: an edit nested inside another one is dropped when the edits are applied (the outer
	// text was produced from the unedited source), so its calls are still there and must not count as inlined
	type editRec struct {
		pos, end int
		hit      map[*types.Func]int
	}
	var recs []editRec
	handle := func(st ast.Stmt) bool {
		call, form := inlinableCall(st)
		if call == nil || cands[calleeFunc(p.TypesInfo, call)] == nil {
			return lowerStmt(st)
		}
		callee := calleeFunc(p.TypesInfo, call)
		c := cands[callee]
		if c == nil || usedAsValue[callee] || call.Ellipsis.IsValid() {
			return false
		}
		if c.tailOnly && !(tailStmts[st] && form == "expr") && form != "return" {
			return false
		}
		// not inside the helper itself, and not a call nested in another candidate's body that is itself about to vanish is fine
		*uniq++
		text, ok := expandCall(p, f, src, st, form, call, c, *uniq)
		if !ok {
			return false
		}
		edits = append(edits, edit{off(st.Pos()), off(st.End()), text})
		counts[c.key]++
		here[callee]++
		n++
		recs = append(recs, editRec{off(st.Pos()), off(st.End()), map[*types.Func]int{callee: 1}})
		return true
	}
	// helper calls in expression position (conditions, operands, arguments): hoisted in evaluation order
	lowerStmt = func(st ast.Stmt) bool {
		lw := &lowerer{p: p, src: src, cands: cands, usedAsValue: usedAsValue, uniq: uniq, resume: fset.Position(st.Pos()).Line}
		text, ok := lw.stmt(st)
		if !ok || lw.n == 0 {
			return false
		}
		endLine := fset.Position(st.End()).Line
		file := fset.Position(st.Pos()).Filename
		edits = append(edits, edit{off(st.Pos()), off(st.End()), text + fmt.Sprintf("\n//line %s:%d\n", file, endLine)})
		hit := map[*types.Func]int{}
		for fn, k := range lw.hit {
			counts[cands[fn].key] += k
			here[fn] += k
			hit[fn] = k
		}
		n += lw.n
		recs = append(recs, editRec{off(st.Pos()), off(st.End()), hit})
		return true
	}
	visited := map[ast.Stmt]bool{}
	visitStmts = func(list []ast.Stmt) {
		for _, st := range list {
			// (an else-if body is reached both through its if statement and through the generic descent: once is enough)
			if visited[st] {
				continue
			}
			visited[st] = true
			if bs, isBlock := st.(*ast.BlockStmt); isBlock {
				visitStmts(bs.List)
				continue
			}
			if handle(st) {
				continue
			}
			// descend
			ast.Inspect(st, func(nd ast.Node) bool {
				switch x := nd.(type) {
				case *ast.IfStmt:
					if els, isIf := x.Else.(*ast.IfStmt); isIf && nd == st {
						visitStmts([]ast.Stmt{els})
					}
				case *ast.BlockStmt:
					if nd != st {
						visitStmts(x.List)
						return false
					}
				case *ast.CaseClause:
					visitStmts(x.Body)
					return false
				case *ast.CommClause:
					visitStmts(x.Body)
					return false
				case *ast.FuncLit:
					visitStmts(x.Body.List)
					return false
				}
				return true
			})
		}
	}
	ast.Inspect(f, func(nd ast.Node) bool {
		var body *ast.BlockStmt
		hasDefer := false
		switch x := nd.(type) {
		case *ast.FuncDecl:
			body = x.Body
		case *ast.FuncLit:
			body = x.Body
		}
		if body != nil && len(body.List) > 0 {
			// the caller itself must not have defers registered (their order relative to the helper's would change)
			for _, st := range body.List {
				if _, isD := st.(*ast.DeferStmt); isD {
					hasDefer = true
				}
			}
			if !hasDefer {
				tailStmts[body.List[len(body.List)-1]] = true
			}
		}
		return true
	})
	for _, d := range f.Decls {
		if fd, ok := d.(*ast.FuncDecl); ok && fd.Body != nil {
			visitStmts(fd.Body.List)
		}
		// function literals in package-level variable initialisers (`var hook = func(…) { … }`)
		if gd, ok := d.(*ast.GenDecl); ok && gd.Tok == token.VAR {
			ast.Inspect(gd, func(nd ast.Node) bool {
				if lit, isLit := nd.(*ast.FuncLit); isLit {
					visitStmts(lit.Body.List)
					return false
				}
				return true
			})
		}
	}
	for i, r := range recs {
		for j, o := range recs {
			if i != j && o.pos <= r.pos && r.end <= o.end && (o.pos < r.pos || r.end < o.end) {
				for fn, k := range r.hit {
					here[fn] -= k
					counts[cands[fn].key] -= k
					if counts[cands[fn].key] <= 0 {
						delete(counts, cands[fn].key)
					}
					n -= k
				}
				break
			}
		}
	}
	if n <= 0 {
		return src, 0
	}
	// 3. count the calls that remain after this round (anywhere in the package); remove helpers with none
	for _, g := range p.Syntax {
		ast.Inspect(g, func(nd ast.Node) bool {
			if ce, ok := nd.(*ast.CallExpr); ok {
				if callee := calleeFunc(p.TypesInfo, ce); cands[callee] != nil {
					remaining[callee]++
				}
			}
			return true
		})
	}
	for fn, c := range cands {
		if os.Getenv("VERIF_DEBUG_INL") != "" {
			fmt.Fprintf(os.Stderr, "INL %s: remaining=%d here=%d usedAsValue=%v calledFromOther=%v\n", fn.Name(), remaining[fn], here[fn], usedAsValue[fn], calledFromOtherCandidate(p, cands, fn))
		}
		if usedAsValue[fn] {
			continue
		}
		if remaining[fn] == here[fn] && here[fn] > 0 && !calledFromOtherCandidate(p, cands, fn) {
			start := c.decl.Pos()
			if c.decl.Doc != nil {
				start = c.decl.Doc.Pos()
			}
			edits = append(edits, edit{off(start), off(c.decl.End()), ""})
		}
	}
	return applyEdits(src, edits), n
}

// calledFromOtherCandidate: fn is called inside the body of another candidate (whose body text is copied verbatim into
// call sites in this round, so the call would survive): keep fn's declaration for the next round.
func calledFromOtherCandidate(p *packages.Package, cands map[*types.Func]*candidate, fn *types.Func) bool {
	found := false
	for other, c := range cands {
		if other == fn {
			continue
		}
		ast.Inspect(c.decl.Body, func(nd ast.Node) bool {
			if ce, ok := nd.(*ast.CallExpr); ok && calleeFunc(p.TypesInfo, ce) == fn {
				found = true
			}
			return true
		})
	}
	return found
}

func calleeFunc(info *types.Info, ce *ast.CallExpr) *types.Func {
	switch fun := ce.Fun.(type) {
	case *ast.Ident:
		fn, _ := info.Uses[fun].(*types.Func)
		return fn
	case *ast.SelectorExpr:
		fn, _ := info.Uses[fun.Sel].(*types.Func)
		return fn
	}
	return nil
}

// inlinableCall: the call of a supported statement form ("expr", "assign", "return", "if-expr", "if-assign").
func inlinableCall(st ast.Stmt) (*ast.CallExpr, string) {
	simple := func(s ast.Stmt) (*ast.CallExpr, string) {
		switch x := s.(type) {
		case *ast.ExprStmt:
			if ce, ok := x.X.(*ast.CallExpr); ok {
				return ce, "expr"
			}
		case *ast.AssignStmt:
			if len(x.Rhs) == 1 && (x.Tok == token.ASSIGN || x.Tok == token.DEFINE) {
				if ce, ok := x.Rhs[0].(*ast.CallExpr); ok {
					return ce, "assign"
				}
			}
		case *ast.ReturnStmt:
			if len(x.Results) == 1 {
				if ce, ok := x.Results[0].(*ast.CallExpr); ok {
					return ce, "return"
				}
			}
		}
		return nil, ""
	}
	if ce, form := simple(st); ce != nil {
		return ce, form
	}
	if ifs, ok := st.(*ast.IfStmt); ok && ifs.Init != nil {
		if ce, form := simple(ifs.Init); ce != nil && form != "return" {
			return ce, "if-" + form
		}
	}
	return nil, ""
}

// expandCore: the statements that evaluate one helper call in place (receiver/argument bindings, result variables, the
// body wrapped in a switch with returns turned into assignments + labelled breaks) and the names of the result variables.
func expandCore(p *packages.Package, src []byte, call *ast.CallExpr, c *candidate, id int, resumeLine int) (string, []string, bool) {
	fset := p.Fset
	off := func(pos token.Pos) int { return fset.Position(pos).Offset }
	text := func(n ast.Node) string { return string(src[off(n.Pos()):off(n.End())]) }
	sig := c.obj.Type().(*types.Signature)
	fd := c.decl
	suffix := fmt.Sprintf("__inl%d", id)
	label := "L" + suffix
	// rename map: parameter / receiver / named-result objects → fresh names
	ren := map[types.Object]string{}
	litArgs := map[types.Object]*ast.FuncLit{}
	var pre []string
	// receiver
	if fd.Recv != nil && len(fd.Recv.List) == 1 {
		sel, ok := call.Fun.(*ast.SelectorExpr)
		if !ok {
			return "", nil, false
		}
		// receiver expression must have exactly the declared receiver type (no implicit & or *)
		rt := p.TypesInfo.TypeOf(sel.X)
		if rt == nil || !types.Identical(rt, sig.Recv().Type()) {
			return "", nil, false
		}
		name := "recv" + suffix
		var robj types.Object
		if len(fd.Recv.List[0].Names) == 1 && fd.Recv.List[0].Names[0].Name != "_" {
			robj = p.TypesInfo.Defs[fd.Recv.List[0].Names[0]]
		}
		if id, isId := sel.X.(*ast.Ident); isId && plainLocal(p.TypesInfo, id) && !assignedIn(p.TypesInfo, fd.Body, robj) {
			// the receiver expression is a plain local that the helper never assigns: use it directly
			if robj != nil {
				ren[robj] = id.Name
			}
		} else {
			if robj != nil {
				ren[robj] = name
			}
			pre = append(pre, fmt.Sprintf("var %s %s = %s; _ = %s", name, text(fd.Recv.List[0].Type), text(sel.X), name))
		}
	}
	// parameters
	ai := 0
	for _, fld := range fd.Type.Params.List {
		names := fld.Names
		if len(names) == 0 {
			names = []*ast.Ident{nil}
		}
		for _, nm := range names {
			if ai >= len(call.Args) {
				return "", nil, false
			}
			name := fmt.Sprintf("p%d%s", ai, suffix)
			var pobj types.Object
			if nm != nil && nm.Name != "_" {
				pobj = p.TypesInfo.Defs[nm]
			}
			if id, isId := call.Args[ai].(*ast.Ident); isId && pobj != nil && plainLocal(p.TypesInfo, id) && !assignedIn(p.TypesInfo, fd.Body, pobj) &&
				types.Identical(p.TypesInfo.TypeOf(id), pobj.Type()) && !shadowedIn(p.TypesInfo, fd.Body, id.Name) {
				// an argument that is a plain local of the caller, bound to a parameter the helper never assigns: substituted
				ren[pobj] = id.Name
			} else if lit, isLit := call.Args[ai].(*ast.FuncLit); isLit && pobj != nil && litCallsOnly(p.TypesInfo, fd.Body, pobj, lit) {
				// a predicate literal that the helper only calls, with plain variables as arguments, and whose body is one
				// returned expression: every call is replaced by that expression (no closure is created in the copy)
				litArgs[pobj] = lit
			} else {
				if pobj != nil {
					ren[pobj] = name
				}
				pre = append(pre, fmt.Sprintf("var %s %s = %s; _ = %s", name, text(fld.Type), text(call.Args[ai]), name))
			}
			ai++
		}
	}
	if ai != len(call.Args) {
		return "", nil, false
	}
	// results
	var resNames, innerDecl, innerNames []string
	if fd.Type.Results != nil {
		ri := 0
		for _, fld := range fd.Type.Results.List {
			names := fld.Names
			if len(names) == 0 {
				names = []*ast.Ident{nil}
			}
			for _, nm := range names {
				name := fmt.Sprintf("r%d%s", ri, suffix)
				if nm != nil && nm.Name != "_" {
					// a named result lives in the helper's outermost scope, where `x, err := f()` re-uses it; the copy keeps
					// that: the named result becomes a variable declared in the same scope as the body's top-level statements,
					// and every return copies the values out into the result temporaries
					inner := fmt.Sprintf("n%d%s", ri, suffix)
					ren[p.TypesInfo.Defs[nm]] = inner
					innerDecl = append(innerDecl, fmt.Sprintf("var %s %s; _ = %s", inner, text(fld.Type), inner))
					innerNames = append(innerNames, inner)
				}
				pre = append(pre, fmt.Sprintf("var %s %s; _ = %s", name, text(fld.Type), name))
				resNames = append(resNames, name)
				ri++
			}
		}
	}
	// names of package-level (or predeclared / imported-package) things the body refers to must mean the same thing at the
	// call site: a local of the caller with the same name would capture them
	if scope := p.Types.Scope().Innermost(call.Pos()); scope != nil {
		captured := false
		ast.Inspect(fd.Body, func(nd ast.Node) bool {
			id, ok := nd.(*ast.Ident)
			if !ok {
				return true
			}
			o := p.TypesInfo.Uses[id]
			if o == nil {
				return true
			}
			_, isPkgName := o.(*types.PkgName)
			if !isPkgName && o.Parent() != p.Types.Scope() && o.Parent() != types.Universe {
				return true
			}
			if _, found := scope.LookupParent(id.Name, call.Pos()); found != o {
				captured = true
			}
			return true
		})
		if captured {
			return "", nil, false
		}
	}
	// body edits: identifier renames and return rewriting (not inside function literals for returns)
	var edits []edit
	bodyStart, bodyEnd := off(fd.Body.Lbrace)+1, off(fd.Body.Rbrace)
	ast.Inspect(fd.Body, func(nd ast.Node) bool {
		if id, ok := nd.(*ast.Ident); ok {
			if o := p.TypesInfo.Uses[id]; o != nil {
				if nn, ok := ren[o]; ok {
					edits = append(edits, edit{off(id.Pos()), off(id.End()), nn})
				}
			}
		}
		return true
	})
	// calls of predicate-literal parameters → the literal's expression with the call's arguments substituted
	if len(litArgs) > 0 {
		type span struct{ pos, end int }
		var spans []span
		ast.Inspect(fd.Body, func(nd ast.Node) bool {
			ce, ok := nd.(*ast.CallExpr)
			if !ok {
				return true
			}
			fid, ok := ce.Fun.(*ast.Ident)
			if !ok {
				return true
			}
			lit := litArgs[p.TypesInfo.Uses[fid]]
			if lit == nil {
				return true
			}
			// parameter objects of the literal → argument text at this call
			sub := map[types.Object]string{}
			k := 0
			unused := ""
			for _, fld := range lit.Type.Params.List {
				for _, nm := range fld.Names {
					a := ce.Args[k].(*ast.Ident)
					txt := a.Name
					if nn, isRen := ren[p.TypesInfo.Uses[a]]; isRen {
						txt = nn
					}
					if nm.Name != "_" {
						sub[p.TypesInfo.Defs[nm]] = txt
					} else {
						// the literal ignores this argument; keep the variable "used" without evaluating anything
						unused += "(false && interface{}(" + txt + ") == nil) || "
					}
					k++
				}
			}
			ret := lit.Body.List[0].(*ast.ReturnStmt).Results[0]
			var es []edit
			base := off(ret.Pos())
			ast.Inspect(ret, func(x ast.Node) bool {
				if id, isId := x.(*ast.Ident); isId {
					if txt, isP := sub[p.TypesInfo.Uses[id]]; isP {
						es = append(es, edit{off(id.Pos()) - base, off(id.End()) - base, txt})
					}
				}
				return true
			})
			expr := string(applyEdits(append([]byte(nil), src[base:off(ret.End())]...), es))
			spans = append(spans, span{off(ce.Pos()), off(ce.End())})
			edits = append(edits, edit{off(ce.Pos()), off(ce.End()), "(" + unused + "(" + expr + "))"})
			return false
		})
		// identifier renames inside a replaced call are subsumed by the replacement
		var kept []edit
		for _, e := range edits {
			inside := false
			for _, sp := range spans {
				if e.pos >= sp.pos && e.end <= sp.end && !(e.pos == sp.pos && e.end == sp.end) {
					inside = true
				}
			}
			if !inside {
				kept = append(kept, e)
			}
		}
		edits = kept
	}
	okRet := true
	var walk func(nd ast.Node, inLit bool)
	walk = func(nd ast.Node, inLit bool) {
		ast.Inspect(nd, func(x ast.Node) bool {
			switch y := x.(type) {
			case *ast.FuncLit:
				if x != nd {
					return false // returns inside literals belong to the literal
				}
			case *ast.ReturnStmt:
				unlock := ""
				if c.deferStmt != nil {
					unlock = c.unlockText + "; "
				}
				switch {
				case len(y.Results) == 0 && len(innerNames) > 0:
					if len(innerNames) != len(resNames) {
						okRet = false // partly named results cannot occur; be safe
						break
					}
					edits = append(edits, edit{off(y.Pos()), off(y.Pos()) + len("return"), "{ " + strings.Join(resNames, ", ") + " = " + strings.Join(innerNames, ", ") + "; " + unlock + "break " + label + " }"})
				case len(y.Results) == 0:
					edits = append(edits, edit{off(y.Pos()), off(y.Pos()) + len("return"), "{ " + unlock + "break " + label + " }"})
				case len(resNames) == 0:
					okRet = false
				default:
					edits = append(edits, edit{off(y.Pos()), off(y.Pos()) + len("return"), "{ " + strings.Join(resNames, ", ") + " ="})
					edits = append(edits, edit{off(y.End()), off(y.End()), "; " + unlock + "break " + label + " }"})
				}
			}
			return true
		})
	}
	walk(fd.Body, false)
	if c.deferStmt != nil {
		edits = append(edits, edit{off(c.deferStmt.Pos()), off(c.deferStmt.End()), ""})
		// a body that can fall off its end (no result) must unlock there too
		if len(resNames) == 0 {
			if _, endsInReturn := fd.Body.List[len(fd.Body.List)-1].(*ast.ReturnStmt); !endsInReturn {
				edits = append(edits, edit{off(fd.Body.Rbrace), off(fd.Body.Rbrace), "\n" + c.unlockText + "\n"})
			}
		}
	}
	if !okRet {
		return "", nil, false
	}
	// restrict edits to the body and rebase
	var be []edit
	for _, e := range edits {
		if e.pos >= bodyStart && e.end <= bodyEnd {
			be = append(be, edit{e.pos - bodyStart, e.end - bodyStart, e.text})
		}
	}
	body := string(applyEdits(append([]byte(nil), src[bodyStart:bodyEnd]...), be))
	file := fset.Position(fd.Pos()).Filename
	bodyLine := fset.Position(fd.Body.Lbrace).Line
	var b strings.Builder
	for _, l := range pre {
		b.WriteString(l + "\n")
	}
	if strings.Contains(body, "break "+label) {
		b.WriteString(label + ":\n")
	}
	b.WriteString("switch {\ndefault:\n")
	for _, l := range innerDecl {
		b.WriteString(l + "\n")
	}
	fmt.Fprintf(&b, "//line %s:%d\n", file, bodyLine)
	b.WriteString(body)
	fmt.Fprintf(&b, "\n//line %s:%d\n", file, resumeLine)
	b.WriteString("}\n")
	return b.String(), resNames, true
}

func expandCall(p *packages.Package, f *ast.File, src []byte, st ast.Stmt, form string, call *ast.CallExpr, c *candidate, id int) (string, bool) {
	fset := p.Fset
	off := func(pos token.Pos) int { return fset.Position(pos).Offset }
	fd := c.decl
	stLine := fset.Position(st.Pos()).Line
	coreText, resNames, ok := expandCore(p, src, call, c, id, stLine)
	if !ok {
		return "", false
	}
	file := fset.Position(fd.Pos()).Filename
	endLine := fset.Position(st.End()).Line
	var b strings.Builder
	results := strings.Join(resNames, ", ")
	emitCore := func() { b.WriteString(coreText) }
	replaceCall := func(s ast.Stmt) (string, bool) {
		switch x := s.(type) {
		case *ast.ExprStmt:
			return "", true
		case *ast.AssignStmt:
			if len(resNames) == 0 {
				return "", false
			}
			return string(src[off(x.Pos()):off(x.Rhs[0].Pos())]) + results, true
		case *ast.ReturnStmt:
			if len(resNames) == 0 {
				return "", false
			}
			return "return " + results, true
		}
		return "", false
	}
	switch form {
	case "expr", "assign", "return":
		tail, ok := replaceCall(st)
		if !ok {
			return "", false
		}
		emitCore()
		b.WriteString(tail)
		fmt.Fprintf(&b, "\n//line %s:%d\n", file, endLine)
	case "if-expr", "if-assign":
		ifs := st.(*ast.IfStmt)
		tail, ok := replaceCall(ifs.Init)
		if !ok {
			return "", false
		}
		b.WriteString("{\n")
		emitCore()
		if tail != "" {
			b.WriteString(tail + "\n")
		}
		b.WriteString("if " + string(src[off(ifs.Cond.Pos()):off(ifs.End())]) + "\n}")
		fmt.Fprintf(&b, "\n//line %s:%d\n", file, endLine)
	default:
		return "", false
	}
	return b.String(), true
}

// plainLocal: id denotes a local variable or parameter (not a package-level variable, constant or field).
func plainLocal(info *types.Info, id *ast.Ident) bool {
	v, ok := info.Uses[id].(*types.Var)
	return ok && !v.IsField() && v.Parent() != nil && v.Pkg() != nil && v.Parent() != v.Pkg().Scope()
}

// assignedIn: obj is assigned, incremented, or has its address taken somewhere in body.
func assignedIn(info *types.Info, body *ast.BlockStmt, obj types.Object) bool {
	if obj == nil {
		return false
	}
	is := func(e ast.Expr) bool {
		id, ok := e.(*ast.Ident)
		return ok && (info.Uses[id] == obj || info.Defs[id] == obj)
	}
	found := false
	ast.Inspect(body, func(n ast.Node) bool {
		switch x := n.(type) {
		case *ast.AssignStmt:
			for _, l := range x.Lhs {
				if is(l) {
					found = true
				}
			}
		case *ast.IncDecStmt:
			if is(x.X) {
				found = true
			}
		case *ast.UnaryExpr:
			if x.Op == token.AND && is(x.X) {
				found = true
			}
		case *ast.RangeStmt:
			if (x.Key != nil && is(x.Key)) || (x.Value != nil && is(x.Value)) {
				found = true
			}
		}
		return true
	})
	return found
}

// shadowedIn: the body declares something called name (a substituted caller identifier would be captured).
func shadowedIn(info *types.Info, body *ast.BlockStmt, name string) bool {
	found := false
	ast.Inspect(body, func(n ast.Node) bool {
		if id, ok := n.(*ast.Ident); ok && id.Name == name && info.Defs[id] != nil {
			found = true
		}
		return true
	})
	return found
}

// ---- helper calls in expression position ----

type lowerer struct {
	p           *packages.Package
	src         []byte
	cands       map[*types.Func]*candidate
	usedAsValue map[*types.Func]bool
	uniq        *int
	resume      int
	n           int
	hit         map[*types.Func]int
}

func (lw *lowerer) off(pos token.Pos) int { return lw.p.Fset.Position(pos).Offset }
func (lw *lowerer) text(n ast.Node) string {
	return string(lw.src[lw.off(n.Pos()):lw.off(n.End())])
}

func (lw *lowerer) isHelperCall(ce *ast.CallExpr) *candidate {
	fn := calleeFunc(lw.p.TypesInfo, ce)
	c := lw.cands[fn]
	if c == nil || lw.usedAsValue[fn] || ce.Ellipsis.IsValid() || c.tailOnly {
		return nil
	}
	return c
}

// pureCall: a call whose evaluation order relative to a hoisted helper does not matter (builtins, conversions, getters).
func (lw *lowerer) pureCall(ce *ast.CallExpr) bool {
	if tv, ok := lw.p.TypesInfo.Types[ce.Fun]; ok && tv.IsType() {
		return true // conversion
	}
	switch f := ce.Fun.(type) {
	case *ast.Ident:
		if _, isB := lw.p.TypesInfo.Uses[f].(*types.Builtin); isB {
			return f.Name == "len" || f.Name == "cap"
		}
	case *ast.SelectorExpr:
		return strings.HasPrefix(f.Sel.Name, "Get") || strings.HasPrefix(f.Sel.Name, "get")
	}
	return false
}

func containsHelper(lw *lowerer, e ast.Node) bool {
	found := false
	ast.Inspect(e, func(n ast.Node) bool {
		if _, isLit := n.(*ast.FuncLit); isLit {
			return false
		}
		if ce, ok := n.(*ast.CallExpr); ok && lw.isHelperCall(ce) != nil {
			found = true
		}
		return true
	})
	return found
}

// leaf: hoists the helper calls of an expression without && / || at its top. Returns (prelude, rewritten expression).
func (lw *lowerer) leaf(e ast.Expr) (string, string, bool) {
	var helpers []*ast.CallExpr
	var others []*ast.CallExpr
	bad := false
	ast.Inspect(e, func(n ast.Node) bool {
		if _, isLit := n.(*ast.FuncLit); isLit {
			return false
		}
		if ce, ok := n.(*ast.CallExpr); ok {
			if lw.isHelperCall(ce) != nil {
				helpers = append(helpers, ce)
				for _, a := range ce.Args {
					if containsHelper(lw, a) {
						bad = true // nested helper calls: leave alone
					}
				}
				if sel, isSel := ce.Fun.(*ast.SelectorExpr); isSel && containsHelper(lw, sel.X) {
					bad = true
				}
				return true
			}
			others = append(others, ce)
		}
		return true
	})
	if len(helpers) == 0 {
		return "", lw.text(e), true
	}
	if bad {
		return "", "", false
	}
	// every non-pure call that is evaluated before a helper call (starts before it and does not contain it) forbids hoisting
	for _, h := range helpers {
		for _, o := range others {
			if o.Pos() < h.Pos() && !(o.Pos() <= h.Pos() && h.End() <= o.End()) && !lw.pureCall(o) {
				return "", "", false
			}
			// an impure call whose ARGUMENTS are evaluated before the helper (helper is a later argument of it)
			if o.Pos() <= h.Pos() && h.End() <= o.End() {
				for _, a := range o.Args {
					if a.End() <= h.Pos() {
						impure := false
						ast.Inspect(a, func(n ast.Node) bool {
							if ce, ok := n.(*ast.CallExpr); ok && lw.isHelperCall(ce) == nil && !lw.pureCall(ce) {
								impure = true
							}
							return true
						})
						if impure {
							return "", "", false
						}
					}
				}
			}
		}
	}
	var pre strings.Builder
	var edits []edit
	base := lw.off(e.Pos())
	for _, h := range helpers {
		c := lw.isHelperCall(h)
		if c.obj.Type().(*types.Signature).Results().Len() != 1 {
			return "", "", false
		}
		*lw.uniq++
		core, res, ok := expandCore(lw.p, lw.src, h, c, *lw.uniq, lw.resume)
		if !ok || len(res) != 1 {
			return "", "", false
		}
		pre.WriteString(core)
		edits = append(edits, edit{lw.off(h.Pos()) - base, lw.off(h.End()) - base, res[0]})
		lw.n++
		if lw.hit == nil {
			lw.hit = map[*types.Func]int{}
		}
		lw.hit[c.obj]++
	}
	out := applyEdits(append([]byte(nil), lw.src[base:lw.off(e.End())]...), edits)
	return pre.String(), string(out), true
}

// expr lowers a (boolean) expression, preserving short-circuit evaluation.
func (lw *lowerer) expr(e ast.Expr) (string, string, bool) {
	if !containsHelper(lw, e) {
		return "", lw.text(e), true
	}
	switch x := e.(type) {
	case *ast.ParenExpr:
		pre, r, ok := lw.expr(x.X)
		return pre, "(" + r + ")", ok
	case *ast.UnaryExpr:
		if x.Op == token.NOT {
			pre, r, ok := lw.expr(x.X)
			return pre, "!(" + r + ")", ok
		}
	case *ast.BinaryExpr:
		if x.Op == token.LAND || x.Op == token.LOR {
			preL, rL, ok1 := lw.expr(x.X)
			preR, rR, ok2 := lw.expr(x.Y)
			if !ok1 || !ok2 {
				return "", "", false
			}
			if preR == "" {
				return preL, "(" + rL + ") " + x.Op.String() + " (" + rR + ")", true
			}
			*lw.uniq++
			t := fmt.Sprintf("c__inl%d", *lw.uniq)
			var b strings.Builder
			b.WriteString(preL)
			fmt.Fprintf(&b, "var %s bool\n", t)
			if x.Op == token.LAND {
				fmt.Fprintf(&b, "if %s {\n%s%s = %s\n}\n", rL, preR, t, rR)
			} else {
				fmt.Fprintf(&b, "if %s {\n%s = true\n} else {\n%s%s = %s\n}\n", rL, t, preR, t, rR)
			}
			return b.String(), t, true
		}
	}
	return lw.leaf(e)
}

// stmt rewrites one statement whose expressions contain helper calls; ok=false if the form is not supported.
func (lw *lowerer) stmt(st ast.Stmt) (string, bool) {
	switch x := st.(type) {
	case *ast.IfStmt:
		if x.Init != nil && containsHelper(lw, x.Init) {
			return "", false
		}
		if !containsHelper(lw, x.Cond) {
			return "", false
		}
		pre, r, ok := lw.expr(x.Cond)
		if !ok {
			return "", false
		}
		var b strings.Builder
		b.WriteString("{\n")
		if x.Init != nil {
			b.WriteString(lw.text(x.Init) + "\n")
		}
		b.WriteString(pre)
		b.WriteString("if " + r + " " + string(lw.src[lw.off(x.Body.Pos()):lw.off(x.End())]) + "\n}")
		return b.String(), true
	case *ast.ForStmt:
		if (x.Init != nil && containsHelper(lw, x.Init)) || (x.Post != nil && containsHelper(lw, x.Post)) {
			// `for v := h(); cond; v = h() { body }`: init in front, the post statement at the top of every iteration but the
			// first (so that `continue` still runs it), the condition as a leading `if !cond { break }`. The helper calls are
			// then ordinary statements for the next round. Not done when a literal in the loop captures an init variable.
			captured := false
			if as, isAs := x.Init.(*ast.AssignStmt); isAs && as.Tok == token.DEFINE {
				for _, l := range as.Lhs {
					id, isId := l.(*ast.Ident)
					if !isId {
						continue
					}
					obj := lw.p.TypesInfo.Defs[id]
					ast.Inspect(x, func(n ast.Node) bool {
						switch y := n.(type) {
						case *ast.FuncLit:
							ast.Inspect(y, func(z ast.Node) bool {
								if zi, ok := z.(*ast.Ident); ok && obj != nil && lw.p.TypesInfo.Uses[zi] == obj {
									captured = true
								}
								return true
							})
						case *ast.UnaryExpr:
							if zi, ok := y.X.(*ast.Ident); ok && y.Op == token.AND && obj != nil && lw.p.TypesInfo.Uses[zi] == obj {
								captured = true
							}
						}
						return true
					})
				}
			}
			if captured {
				return "", false
			}
			// `for v := E; cond; v = E { body }` with the same E on both sides evaluates E afresh before every test: a plain
			// `for { v := E; if !cond { break }; body }` (a `continue` re-evaluates E either way)
			if ias, ok1 := x.Init.(*ast.AssignStmt); ok1 && ias.Tok == token.DEFINE && len(ias.Lhs) == 1 && len(ias.Rhs) == 1 {
				if pas, ok2 := x.Post.(*ast.AssignStmt); ok2 && pas.Tok == token.ASSIGN && len(pas.Lhs) == 1 && len(pas.Rhs) == 1 && x.Cond != nil {
					li, isI1 := ias.Lhs[0].(*ast.Ident)
					lp, isI2 := pas.Lhs[0].(*ast.Ident)
					if isI1 && isI2 && lw.p.TypesInfo.Uses[lp] == lw.p.TypesInfo.Defs[li] && lw.text(ias.Rhs[0]) == lw.text(pas.Rhs[0]) {
						var b strings.Builder
						b.WriteString("for {\n" + lw.text(x.Init) + "\n")
						b.WriteString("if !(" + lw.text(x.Cond) + ") {\nbreak\n}\n")
						b.WriteString(string(lw.src[lw.off(x.Body.Lbrace)+1 : lw.off(x.Body.Rbrace)]))
						b.WriteString("\n}")
						lw.n++
						return b.String(), true
					}
				}
			}
			*lw.uniq++
			first := fmt.Sprintf("first__inl%d", *lw.uniq)
			var b strings.Builder
			b.WriteString("{\n")
			if x.Init != nil {
				b.WriteString(lw.text(x.Init) + "\n")
			}
			fmt.Fprintf(&b, "for %s := true; ; %s = false {\n", first, first)
			if x.Post != nil {
				fmt.Fprintf(&b, "if !%s {\n%s\n}\n", first, lw.text(x.Post))
			}
			if x.Cond != nil {
				b.WriteString("if !(" + lw.text(x.Cond) + ") {\nbreak\n}\n")
			}
			b.WriteString(string(lw.src[lw.off(x.Body.Lbrace)+1 : lw.off(x.Body.Rbrace)]))
			b.WriteString("\n}\n}")
			lw.n++
			return b.String(), true
		}
		if x.Cond == nil || !containsHelper(lw, x.Cond) {
			return "", false
		}
		pre, r, ok := lw.expr(x.Cond)
		if !ok {
			return "", false
		}
		var b strings.Builder
		b.WriteString("{\n")
		if x.Init != nil {
			b.WriteString(lw.text(x.Init) + "\n")
		}
		b.WriteString("for ; ; ")
		if x.Post != nil {
			b.WriteString(lw.text(x.Post) + " ")
		}
		b.WriteString("{\n" + pre + "if !(" + r + ") {\nbreak\n}\n")
		b.WriteString(string(lw.src[lw.off(x.Body.Lbrace)+1 : lw.off(x.Body.Rbrace)]))
		b.WriteString("\n}\n}")
		return b.String(), true
	case *ast.ReturnStmt:
		var pres, rs []string
		for _, e := range x.Results {
			pre, r, ok := lw.expr(e)
			if !ok {
				return "", false
			}
			pres = append(pres, pre)
			rs = append(rs, r)
		}
		// a later result must not be hoisted in front of an earlier impure one: only allowed if all earlier results are call-free
		for i := range x.Results {
			if pres[i] != "" {
				for j := 0; j < i; j++ {
					impure := false
					ast.Inspect(x.Results[j], func(n ast.Node) bool {
						if ce, ok := n.(*ast.CallExpr); ok && lw.isHelperCall(ce) == nil && !lw.pureCall(ce) {
							impure = true
						}
						return true
					})
					if impure {
						return "", false
					}
				}
			}
		}
		return strings.Join(pres, "") + "return " + strings.Join(rs, ", "), true
	case *ast.AssignStmt:
		if len(x.Rhs) != 1 || (x.Tok != token.ASSIGN && x.Tok != token.DEFINE) {
			return "", false
		}
		for _, l := range x.Lhs {
			if containsHelper(lw, l) {
				return "", false
			}
			impure := false
			ast.Inspect(l, func(n ast.Node) bool {
				if _, ok := n.(*ast.CallExpr); ok {
					impure = true
				}
				return true
			})
			if impure {
				return "", false
			}
		}
		pre, r, ok := lw.expr(x.Rhs[0])
		if !ok {
			return "", false
		}
		return pre + string(lw.src[lw.off(x.Pos()):lw.off(x.Rhs[0].Pos())]) + r, true
	case *ast.ExprStmt:
		pre, r, ok := lw.leaf(x.X)
		if !ok {
			return "", false
		}
		return pre + r, true
	case *ast.DeclStmt:
		// var x T = <expression with helper calls> (the form argument bindings of an earlier round have)
		gd, ok := x.Decl.(*ast.GenDecl)
		if !ok || gd.Tok != token.VAR || len(gd.Specs) != 1 {
			return "", false
		}
		vs, ok := gd.Specs[0].(*ast.ValueSpec)
		if !ok || len(vs.Names) != 1 || len(vs.Values) != 1 || !containsHelper(lw, vs.Values[0]) {
			return "", false
		}
		pre, r, ok := lw.expr(vs.Values[0])
		if !ok {
			return "", false
		}
		return pre + string(lw.src[lw.off(x.Pos()):lw.off(vs.Values[0].Pos())]) + r, true
	case *ast.SwitchStmt:
		if x.Init != nil {
			return "", false
		}
		if x.Tag != nil {
			// switch helper(x) { … }: the tag is evaluated once, before any case
			if !containsHelper(lw, x.Tag) {
				return "", false
			}
			pre, r, ok := lw.leaf(x.Tag)
			if !ok {
				return "", false
			}
			return "{\n" + pre + "switch " + r + " " + string(lw.src[lw.off(x.Body.Pos()):lw.off(x.End())]) + "\n}", true
		}
		// tagless switch with a helper call in a case expression: the cases are evaluated in order until one holds, which
		// is an if / else-if chain; it is kept inside a one-armed switch so that an unlabelled break in a case body still
		// leaves the statement. The chain's own conditions are lowered in the next round.
		var chain []string
		deflt := ""
		found := false
		for _, cl := range x.Body.List {
			cc := cl.(*ast.CaseClause)
			for _, st := range cc.Body {
				if br, isBr := st.(*ast.BranchStmt); isBr && br.Tok == token.FALLTHROUGH {
					return "", false
				}
			}
			body := ""
			if len(cc.Body) > 0 {
				body = string(lw.src[lw.off(cc.Body[0].Pos()):lw.off(cc.Body[len(cc.Body)-1].End())])
			}
			if cc.List == nil {
				deflt = body
				continue
			}
			var conds []string
			for _, e := range cc.List {
				if containsHelper(lw, e) {
					found = true
				}
				conds = append(conds, "("+lw.text(e)+")")
			}
			chain = append(chain, "if "+strings.Join(conds, " || ")+" {\n"+body+"\n}")
		}
		if !found || len(chain) == 0 {
			return "", false
		}
		lw.n++ // a rewrite that inlines nothing by itself but enables the next round
		return "switch {\ndefault:\n" + strings.Join(chain, " else ") + " else {\n" + deflt + "\n}\n}", true
	case *ast.RangeStmt:
		if !containsHelper(lw, x.X) {
			return "", false
		}
		pre, r, ok := lw.leaf(x.X)
		if !ok {
			return "", false
		}
		return "{\n" + pre + string(lw.src[lw.off(x.Pos()):lw.off(x.X.Pos())]) + r + " " + string(lw.src[lw.off(x.Body.Pos()):lw.off(x.End())]) + "\n}", true
	}
	return "", false
}

// litCallsOnly: the function-valued parameter prm is bound to a literal whose body is a single `return <expr>`; the helper
// never assigns prm and uses it only as the callee of calls whose arguments are plain identifiers (not inside a nested
// literal); and no name the literal's expression refers to is declared inside the helper (it would be captured).
func litCallsOnly(info *types.Info, body *ast.BlockStmt, prm types.Object, lit *ast.FuncLit) bool {
	if len(lit.Body.List) != 1 || lit.Type.Results == nil || len(lit.Type.Results.List) != 1 {
		return false
	}
	rs, ok := lit.Body.List[0].(*ast.ReturnStmt)
	if !ok || len(rs.Results) != 1 {
		return false
	}
	if assignedIn(info, body, prm) {
		return false
	}
	nparams := 0
	own := map[types.Object]bool{}
	for _, fld := range lit.Type.Params.List {
		if len(fld.Names) == 0 {
			return false
		}
		for _, nm := range fld.Names {
			nparams++
			if d := info.Defs[nm]; d != nil {
				own[d] = true
			}
		}
	}
	bad := false
	ast.Inspect(rs.Results[0], func(n ast.Node) bool {
		switch x := n.(type) {
		case *ast.FuncLit:
			bad = true
		case *ast.Ident:
			if o := info.Uses[x]; o != nil && !own[o] && shadowedIn(info, body, x.Name) {
				bad = true
			}
		}
		return true
	})
	if bad {
		return false
	}
	calls := map[*ast.Ident]bool{}
	depth := 0
	var visit func(n ast.Node) bool
	visit = func(n ast.Node) bool {
		switch x := n.(type) {
		case *ast.FuncLit:
			depth++
			ast.Inspect(x.Body, visit)
			depth--
			return false
		case *ast.CallExpr:
			if id, ok := x.Fun.(*ast.Ident); ok && info.Uses[id] == prm {
				if depth > 0 || len(x.Args) != nparams || x.Ellipsis.IsValid() {
					bad = true
				}
				for _, a := range x.Args {
					if aid, isId := a.(*ast.Ident); !isId || !plainLocal(info, aid) {
						bad = true
					}
				}
				calls[id] = true
			}
		case *ast.Ident:
			if info.Uses[x] == prm && !calls[x] {
				bad = true
			}
		}
		return true
	}
	ast.Inspect(body, visit)
	return !bad && len(calls) > 0
}

// substExprHelpers: calls of NEW helpers whose body is a single `return <expr>` and whose receiver and arguments at the call
// are plain (identifiers, field selections of identifiers, literals) are replaced, wherever they occur — conditions,
// operands, select cases, function literals —, by that expression with the parameters substituted: the expression is
// evaluated at exactly the point where the call was. A round that finds such calls does only this.
func substExprHelpers(p *packages.Package, f *ast.File, src []byte, counts map[string]int) ([]byte, int) {
	fset := p.Fset
	off := func(pos token.Pos) int { return fset.Position(pos).Offset }
	info := p.TypesInfo
	type ehelper struct {
		decl *ast.FuncDecl
		expr ast.Expr
		key  string
	}
	helpers := map[*types.Func]*ehelper{}
	for _, d := range f.Decls {
		fd, ok := d.(*ast.FuncDecl)
		if !ok || fd.Body == nil || fd.Name.IsExported() || len(fd.Body.List) != 1 {
			continue
		}
		key := declKey(p.Name, fd)
		if knownFuncs[key] {
			continue
		}
		rs, ok := fd.Body.List[0].(*ast.ReturnStmt)
		if !ok || len(rs.Results) != 1 {
			continue
		}
		obj, _ := info.Defs[fd.Name].(*types.Func)
		if obj == nil {
			continue
		}
		sig := obj.Type().(*types.Signature)
		if sig.Variadic() || sig.TypeParams().Len() > 0 || sig.RecvTypeParams().Len() > 0 || sig.Results().Len() != 1 {
			continue
		}
		hasLit := false
		ast.Inspect(rs.Results[0], func(n ast.Node) bool {
			if _, isLit := n.(*ast.FuncLit); isLit {
				hasLit = true
			}
			// no recursion
			if ce, isC := n.(*ast.CallExpr); isC && calleeFunc(info, ce) == obj {
				hasLit = true
			}
			return true
		})
		if hasLit {
			continue
		}
		// the result must have the declared result type without an implicit conversion that the context would change
		if tv, ok := info.Types[rs.Results[0]]; !ok || !types.Identical(tv.Type, sig.Results().At(0).Type()) {
			continue
		}
		helpers[obj] = &ehelper{fd, rs.Results[0], key}
	}
	if len(helpers) == 0 {
		return src, 0
	}
	var plain func(e ast.Expr) bool
	plain = func(e ast.Expr) bool {
		switch x := e.(type) {
		case *ast.Ident:
			return true
		case *ast.BasicLit:
			return true
		case *ast.SelectorExpr:
			if sel, ok := info.Selections[x]; ok && sel.Kind() != types.FieldVal {
				return false
			}
			return plain(x.X)
		case *ast.ParenExpr:
			return plain(x.X)
		}
		return false
	}
	var edits []edit
	n := 0
	used := map[*types.Func]int{}
	ast.Inspect(f, func(nd ast.Node) bool {
		ce, ok := nd.(*ast.CallExpr)
		if !ok {
			return true
		}
		fn := calleeFunc(info, ce)
		h := helpers[fn]
		if h == nil {
			return true
		}
		// not inside the helper's own declaration
		if ce.Pos() >= h.decl.Pos() && ce.End() <= h.decl.End() {
			return true
		}
		sub := map[types.Object]string{}
		okCall := !ce.Ellipsis.IsValid()
		if h.decl.Recv != nil && len(h.decl.Recv.List) == 1 {
			sel, isSel := ce.Fun.(*ast.SelectorExpr)
			if !isSel || !plain(sel.X) {
				okCall = false
			} else if rt := info.TypeOf(sel.X); rt == nil || !types.Identical(rt, fn.Type().(*types.Signature).Recv().Type()) {
				okCall = false
			} else if len(h.decl.Recv.List[0].Names) == 1 {
				sub[info.Defs[h.decl.Recv.List[0].Names[0]]] = "(" + string(src[off(sel.X.Pos()):off(sel.X.End())]) + ")"
			}
		}
		ai := 0
		for _, fld := range h.decl.Type.Params.List {
			for _, nm := range fld.Names {
				if ai >= len(ce.Args) || !plain(ce.Args[ai]) {
					okCall = false
				} else if at := info.TypeOf(ce.Args[ai]); at == nil || !types.Identical(at, info.Defs[nm].Type()) {
					okCall = false // an implicit conversion at the call would be lost
				} else {
					sub[info.Defs[nm]] = "(" + string(src[off(ce.Args[ai].Pos()):off(ce.Args[ai].End())]) + ")"
				}
				ai++
			}
			if len(fld.Names) == 0 {
				okCall = false
			}
		}
		if !okCall || ai != len(ce.Args) {
			return true
		}
		// names the expression refers to must mean the same thing at the call
		scope := p.Types.Scope().Innermost(ce.Pos())
		base := off(h.expr.Pos())
		var es []edit
		ast.Inspect(h.expr, func(x ast.Node) bool {
			// a qualified identifier (fmt.Sprintf, proto.Clone): the package name must mean the same package at the call;
			// the member's name is not looked up in any scope
			if se, isSel := x.(*ast.SelectorExpr); isSel {
				if pid, isPid := se.X.(*ast.Ident); isPid {
					if pn, isPkg := info.Uses[pid].(*types.PkgName); isPkg {
						if scope == nil {
							okCall = false
						} else if _, found := scope.LookupParent(pid.Name, ce.Pos()); found != types.Object(pn) {
							okCall = false
						}
						return false
					}
				}
				return true
			}
			id, isId := x.(*ast.Ident)
			if !isId {
				return true
			}
			o := info.Uses[id]
			if o == nil {
				return true
			}
			if txt, isP := sub[o]; isP {
				es = append(es, edit{off(id.Pos()) - base, off(id.End()) - base, txt})
				return true
			}
			if _, isField := o.(*types.Var); isField && o.(*types.Var).IsField() {
				return true
			}
			if _, isFn := o.(*types.Func); isFn && o.(*types.Func).Type().(*types.Signature).Recv() != nil {
				return true // a method name after a dot
			}
			if scope == nil {
				okCall = false
				return true
			}
			if _, found := scope.LookupParent(id.Name, ce.Pos()); found != o {
				okCall = false
			}
			return true
		})
		if !okCall {
			return true
		}
		expr := string(applyEdits(append([]byte(nil), src[base:off(h.expr.End())]...), es))
		edits = append(edits, edit{off(ce.Pos()), off(ce.End()), "(" + expr + ")"})
		n++
		used[fn]++
		counts[h.key]++
		return false // operands are plain: nothing to visit inside
	})
	if n == 0 {
		return src, 0
	}
	// a helper all of whose calls (in the package) are gone is removed
	total := map[*types.Func]int{}
	for _, g := range p.Syntax {
		ast.Inspect(g, func(nd ast.Node) bool {
			if ce, ok := nd.(*ast.CallExpr); ok {
				if fn := calleeFunc(info, ce); helpers[fn] != nil {
					total[fn]++
				}
			}
			return true
		})
	}
	for fn, h := range helpers {
		if used[fn] > 0 && used[fn] == total[fn] && !usedAsFuncValue(p, fn) {
			start := h.decl.Pos()
			if h.decl.Doc != nil {
				start = h.decl.Doc.Pos()
			}
			edits = append(edits, edit{off(start), off(h.decl.End()), ""})
		}
	}
	return applyEdits(src, edits), n
}

// usedAsFuncValue: fn is referenced somewhere other than as the callee of a call.
func usedAsFuncValue(p *packages.Package, fn *types.Func) bool {
	callee := map[*ast.Ident]bool{}
	for _, g := range p.Syntax {
		ast.Inspect(g, func(nd ast.Node) bool {
			if ce, ok := nd.(*ast.CallExpr); ok {
				switch f := ce.Fun.(type) {
				case *ast.Ident:
					callee[f] = true
				case *ast.SelectorExpr:
					callee[f.Sel] = true
				}
			}
			return true
		})
	}
	found := false
	for id, o := range p.TypesInfo.Uses {
		if o == fn && !callee[id] {
			found = true
		}
	}
	return found
}

// methodValuesToClosures: a NEW helper used as a bound method value — `timeAfterFunc(d, me.completeSwitch)` — is rewritten
// into the closure that calls it, `func() { me.completeSwitch() }`, so that the call can be inlined in a later round. A
// method value binds its receiver when it is evaluated, the closure reads the variable when it runs: the rewrite is made
// only when the receiver is a plain local variable or parameter that its function never assigns.
func methodValuesToClosures(p *packages.Package, f *ast.File, src []byte) ([]byte, int) {
	fset := p.Fset
	off := func(pos token.Pos) int { return fset.Position(pos).Offset }
	info := p.TypesInfo
	decls := map[*types.Func]*ast.FuncDecl{}
	for _, g := range p.Syntax {
		for _, d := range g.Decls {
			if fd, ok := d.(*ast.FuncDecl); ok && fd.Body != nil && fd.Recv != nil && !fd.Name.IsExported() && !knownFuncs[declKey(p.Name, fd)] {
				if obj, _ := info.Defs[fd.Name].(*types.Func); obj != nil {
					decls[obj] = fd
				}
			}
		}
	}
	if len(decls) == 0 {
		return src, 0
	}
	callee := map[*ast.SelectorExpr]bool{}
	ast.Inspect(f, func(n ast.Node) bool {
		if ce, ok := n.(*ast.CallExpr); ok {
			if se, isSel := ce.Fun.(*ast.SelectorExpr); isSel {
				callee[se] = true
			}
		}
		return true
	})
	var edits []edit
	for _, d := range f.Decls {
		encl, ok := d.(*ast.FuncDecl)
		if !ok || encl.Body == nil {
			continue
		}
		ast.Inspect(encl.Body, func(n ast.Node) bool {
			se, ok := n.(*ast.SelectorExpr)
			if !ok || callee[se] {
				return true
			}
			sel := info.Selections[se]
			if sel == nil || sel.Kind() != types.MethodVal {
				return true
			}
			fn, _ := sel.Obj().(*types.Func)
			fd := decls[fn]
			recv, isId := se.X.(*ast.Ident)
			if fd == nil || !isId || !plainLocal(info, recv) || assignedIn(info, encl.Body, info.Uses[recv]) {
				return true
			}
			sig := fn.Type().(*types.Signature)
			if sig.Variadic() || !types.Identical(info.TypeOf(recv), sig.Recv().Type()) {
				return true
			}
			var params, args []string
			for i := 0; i < sig.Params().Len(); i++ {
				name := fmt.Sprintf("a%d__mv", i)
				params = append(params, name+" "+types.TypeString(sig.Params().At(i).Type(), types.RelativeTo(p.Types)))
				args = append(args, name)
			}
			res, ret := "", ""
			if sig.Results().Len() > 0 {
				var rs []string
				for i := 0; i < sig.Results().Len(); i++ {
					rs = append(rs, types.TypeString(sig.Results().At(i).Type(), types.RelativeTo(p.Types)))
				}
				res, ret = " ("+strings.Join(rs, ", ")+")", "return "
			}
			text := fmt.Sprintf("func(%s)%s { %s%s.%s(%s) }", strings.Join(params, ", "), res, ret, recv.Name, se.Sel.Name, strings.Join(args, ", "))
			edits = append(edits, edit{off(se.Pos()), off(se.End()), text})
			return false
		})
	}
	if len(edits) == 0 {
		return src, 0
	}
	return applyEdits(src, edits), len(edits)
}

// splitLocalStructs (scalar replacement): a local variable of struct type that is only ever used field by field —
// `var top struct{ overall, avail *endpoint }` … `top.avail = e` … `top.avail.priority` — is replaced by one local
// variable per field. Nothing can observe the difference: the variable's address is never taken as a whole, it is never
// copied, passed, returned, compared or captured as a whole, and it has no methods called on it. go/ssa keeps such a
// struct in memory (field addresses), which hides loop-carried values from the rules; separate locals become registers.
func splitLocalStructs(p *packages.Package, f *ast.File, src []byte, counts map[string]int) ([]byte, int) {
	fset := p.Fset
	off := func(pos token.Pos) int { return fset.Position(pos).Offset }
	text := func(n ast.Node) string { return string(src[off(n.Pos()):off(n.End())]) }
	info := p.TypesInfo
	// local package names of this file
	local := map[string]string{}
	for _, im := range f.Imports {
		path := strings.Trim(im.Path.Value, `"`)
		name := ""
		if im.Name != nil {
			name = im.Name.Name
		} else if pk := p.Imports[path]; pk != nil {
			name = pk.Name
		}
		if name != "" && name != "_" && name != "." {
			local[path] = name
		}
	}
	typeOK := true
	qual := func(pk *types.Package) string {
		if pk == p.Types {
			return ""
		}
		if n, ok := local[pk.Path()]; ok {
			return n
		}
		typeOK = false
		return pk.Name()
	}
	// candidates: declaration statement → variable
	type cand struct {
		obj   *types.Var
		st    *types.Struct
		stmt  ast.Stmt
		lit   *ast.CompositeLit
		name  string
		bad   bool
		uses  []*ast.SelectorExpr
		nuses int
	}
	cands := map[*types.Var]*cand{}
	consider := func(id *ast.Ident, stmt ast.Stmt, val ast.Expr) {
		obj, _ := info.Defs[id].(*types.Var)
		if obj == nil || obj.Parent() == nil || obj.Parent() == p.Types.Scope() || id.Name == "_" {
			return
		}
		st, ok := obj.Type().Underlying().(*types.Struct)
		if !ok || st.NumFields() == 0 || st.NumFields() > 8 {
			return
		}
		for i := 0; i < st.NumFields(); i++ {
			if st.Field(i).Embedded() || st.Field(i).Name() == "_" {
				return
			}
		}
		var lit *ast.CompositeLit
		if val != nil {
			cl, isLit := val.(*ast.CompositeLit)
			if !isLit {
				return
			}
			if _, isStruct := info.TypeOf(cl).Underlying().(*types.Struct); !isStruct {
				return
			}
			lit = cl
		}
		cands[obj] = &cand{obj: obj, st: st, stmt: stmt, lit: lit, name: id.Name}
	}
	ast.Inspect(f, func(n ast.Node) bool {
		switch x := n.(type) {
		case *ast.DeclStmt:
			gd, ok := x.Decl.(*ast.GenDecl)
			if !ok || gd.Tok != token.VAR || len(gd.Specs) != 1 {
				return true
			}
			vs := gd.Specs[0].(*ast.ValueSpec)
			if len(vs.Names) != 1 || len(vs.Values) > 1 {
				return true
			}
			var val ast.Expr
			if len(vs.Values) == 1 {
				val = vs.Values[0]
			}
			consider(vs.Names[0], x, val)
		case *ast.AssignStmt:
			if x.Tok == token.DEFINE && len(x.Lhs) == 1 && len(x.Rhs) == 1 {
				if id, ok := x.Lhs[0].(*ast.Ident); ok {
					consider(id, x, x.Rhs[0])
				}
			}
		}
		return true
	})
	if len(cands) == 0 {
		return src, 0
	}
	// every use must be the operand of a direct field selection
	var stack []ast.Node
	ast.Inspect(f, func(n ast.Node) bool {
		if n == nil {
			stack = stack[:len(stack)-1]
			return true
		}
		stack = append(stack, n)
		id, ok := n.(*ast.Ident)
		if !ok {
			return true
		}
		obj, _ := info.Uses[id].(*types.Var)
		c := cands[obj]
		if c == nil {
			return true
		}
		c.nuses++
		if len(stack) < 2 {
			c.bad = true
			return true
		}
		se, isSel := stack[len(stack)-2].(*ast.SelectorExpr)
		if !isSel || se.X != ast.Expr(id) {
			c.bad = true
			return true
		}
		sel := info.Selections[se]
		if sel == nil || sel.Kind() != types.FieldVal || len(sel.Index()) != 1 {
			c.bad = true
			return true
		}
		c.uses = append(c.uses, se)
		return true
	})
	var edits []edit
	n := 0
	var ordered []*cand
	for _, c := range cands {
		ordered = append(ordered, c)
	}
	sort.Slice(ordered, func(i, j int) bool { return ordered[i].stmt.Pos() < ordered[j].stmt.Pos() })
	for _, c := range ordered {
		if c.bad || c.nuses == 0 || n > 0 {
			continue // one variable per round: edits of two variables could nest
		}
		// the literal must not mention the variable's own name (shadowing) and must be keyed or positional-complete
		vals := make([]string, c.st.NumFields())
		order := []int{}
		okLit := true
		if c.lit != nil {
			ast.Inspect(c.lit, func(nd ast.Node) bool {
				if id, ok := nd.(*ast.Ident); ok && id.Name == c.name {
					okLit = false
				}
				return true
			})
			for i, el := range c.lit.Elts {
				if kv, isKV := el.(*ast.KeyValueExpr); isKV {
					key, isId := kv.Key.(*ast.Ident)
					idx := -1
					for k := 0; isId && k < c.st.NumFields(); k++ {
						if c.st.Field(k).Name() == key.Name {
							idx = k
						}
					}
					if idx < 0 {
						okLit = false
						break
					}
					vals[idx] = text(kv.Value)
					order = append(order, idx)
				} else {
					if i >= c.st.NumFields() {
						okLit = false
						break
					}
					vals[i] = text(el)
					order = append(order, i)
				}
			}
		}
		if !okLit {
			continue
		}
		typeOK = true
		names := make([]string, c.st.NumFields())
		var decls []string
		emitted := map[int]bool{}
		emit := func(k int) {
			if emitted[k] {
				return
			}
			emitted[k] = true
			names[k] = fmt.Sprintf("%s_%s__sroa", c.name, c.st.Field(k).Name())
			d := fmt.Sprintf("var %s %s", names[k], types.TypeString(c.st.Field(k).Type(), qual))
			if vals[k] != "" {
				d += " = " + vals[k]
			}
			decls = append(decls, d, "_ = "+names[k])
		}
		for _, k := range order {
			emit(k) // evaluation order of the literal's elements
		}
		for k := 0; k < c.st.NumFields(); k++ {
			emit(k)
		}
		if !typeOK {
			continue
		}
		edits = append(edits, edit{off(c.stmt.Pos()), off(c.stmt.End()), strings.Join(decls, "; ")})
		for _, se := range c.uses {
			k := info.Selections[se].Index()[0]
			edits = append(edits, edit{off(se.Pos()), off(se.End()), names[k]})
		}
		counts["split local struct "+c.name]++
		n++
	}
	if n == 0 {
		return src, 0
	}
	return applyEdits(src, edits), n
}

// unrollSmallRanges: `for i, v := range <composite literal of ≤ 4 elements>` (written in place, or held by a local variable that
// is used for nothing else) is replaced by one copy of the body per element, each in its own block with `i := <k>` and
// `v := <element k>`. Behaviour is unchanged when the elements are pure and stable (constants, never-reassigned locals and
// parameters, operators, conversions, literals of those) and the body has no break/continue/goto/label/defer/go/closure of
// its own level: the literal's elements are then evaluated to the same values wherever they are written. Table-driven code
// (`steps := [...]struct{state State; delta uint64}{{old, ^uint64(0)}, {new, 1}}; for _, s := range steps {…}`) thereby
// becomes the straight-line code the rules reason about.
func unrollSmallRanges(p *packages.Package, f *ast.File, src []byte, counts map[string]int) ([]byte, int) {
	fset := p.Fset
	off := func(pos token.Pos) int { return fset.Position(pos).Offset }
	text := func(n ast.Node) string { return string(src[off(n.Pos()):off(n.End())]) }
	info := p.TypesInfo
	// variables assigned after their declaration, or whose address is taken, anywhere in the file
	unstable := map[types.Object]bool{}
	ast.Inspect(f, func(n ast.Node) bool {
		switch x := n.(type) {
		case *ast.AssignStmt:
			if x.Tok != token.DEFINE {
				for _, l := range x.Lhs {
					if id, ok := l.(*ast.Ident); ok {
						unstable[info.Uses[id]] = true
					}
				}
			} else {
				for _, l := range x.Lhs {
					if id, ok := l.(*ast.Ident); ok && info.Defs[id] == nil {
						unstable[info.Uses[id]] = true // redeclared by := together with a new variable
					}
				}
			}
		case *ast.IncDecStmt:
			if id, ok := x.X.(*ast.Ident); ok {
				unstable[info.Uses[id]] = true
			}
		case *ast.UnaryExpr:
			if x.Op == token.AND {
				if id, ok := x.X.(*ast.Ident); ok {
					unstable[info.Uses[id]] = true
				}
			}
		case *ast.RangeStmt:
			if x.Tok == token.ASSIGN {
				for _, e := range []ast.Expr{x.Key, x.Value} {
					if id, ok := e.(*ast.Ident); ok {
						unstable[info.Uses[id]] = true
					}
				}
			}
		}
		return true
	})
	var assignedF map[*types.Var]bool
	assignedFields := func() map[*types.Var]bool {
		if assignedF != nil {
			return assignedF
		}
		assignedF = map[*types.Var]bool{}
		mark := func(e ast.Expr) {
			for {
				switch y := e.(type) {
				case *ast.ParenExpr:
					e = y.X
					continue
				case *ast.IndexExpr:
					// x.f[i] = … on an array field writes the field; on a map or slice it does not, but be strict
					if _, isArr := info.TypeOf(y.X).Underlying().(*types.Array); isArr {
						e = y.X
						continue
					}
				case *ast.SelectorExpr:
					if fv, ok := info.Uses[y.Sel].(*types.Var); ok && fv.IsField() {
						assignedF[fv] = true
					}
				}
				return
			}
		}
		for _, sf := range p.Syntax {
			ast.Inspect(sf, func(n ast.Node) bool {
				switch y := n.(type) {
				case *ast.AssignStmt:
					for _, l := range y.Lhs {
						mark(l)
					}
				case *ast.IncDecStmt:
					mark(y.X)
				case *ast.UnaryExpr:
					if y.Op == token.AND {
						mark(y.X)
					}
				case *ast.RangeStmt:
					if y.Tok == token.ASSIGN {
						if y.Key != nil {
							mark(y.Key)
						}
						if y.Value != nil {
							mark(y.Value)
						}
					}
				}
				return true
			})
		}
		return assignedF
	}
	var pure func(e ast.Expr) bool
	pure = func(e ast.Expr) bool {
		switch x := e.(type) {
		case *ast.BasicLit:
			return true
		case *ast.Ident:
			switch o := info.Uses[x].(type) {
			case *types.Const, *types.Nil:
				return true
			case *types.Var:
				return !o.IsField() && o.Parent() != p.Types.Scope() && o.Parent() != nil && !unstable[o]
			case *types.TypeName:
				return true
			}
			return false
		case *ast.SelectorExpr:
			if _, isConst := info.Uses[x.Sel].(*types.Const); isConst {
				return true
			}
			// a field that is set only where its struct is built (never assigned, never addressed, anywhere in the
			// package) read through a stable variable: reading it once before the loop or once per copy is the same
			if fv, isVar := info.Uses[x.Sel].(*types.Var); isVar && fv.IsField() && !assignedFields()[fv] {
				if id, isId := x.X.(*ast.Ident); isId {
					return pure(id)
				}
			}
			return false
		case *ast.ParenExpr:
			return pure(x.X)
		case *ast.UnaryExpr:
			return x.Op != token.AND && x.Op != token.ARROW && pure(x.X)
		case *ast.BinaryExpr:
			if x.Op == token.QUO || x.Op == token.REM || x.Op == token.SHL || x.Op == token.SHR {
				return false // may panic
			}
			return pure(x.X) && pure(x.Y)
		case *ast.CallExpr:
			// conversions only
			if tv, ok := info.Types[x.Fun]; ok && tv.IsType() && len(x.Args) == 1 {
				return pure(x.Args[0])
			}
			return false
		case *ast.CompositeLit:
			if _, isStruct := info.TypeOf(x).Underlying().(*types.Struct); !isStruct {
				return false
			}
			for _, el := range x.Elts {
				if kv, ok := el.(*ast.KeyValueExpr); ok {
					if !pure(kv.Value) {
						return false
					}
				} else if !pure(el) {
					return false
				}
			}
			return true
		}
		return false
	}
	// local variables holding a literal, with their declaration statement and number of uses
	type holder struct {
		lit  *ast.CompositeLit
		stmt ast.Stmt
		uses int
	}
	holders := map[types.Object]*holder{}
	ast.Inspect(f, func(n ast.Node) bool {
		switch x := n.(type) {
		case *ast.AssignStmt:
			if x.Tok == token.DEFINE && len(x.Lhs) == 1 && len(x.Rhs) == 1 {
				if id, ok := x.Lhs[0].(*ast.Ident); ok {
					if cl, isLit := x.Rhs[0].(*ast.CompositeLit); isLit && info.Defs[id] != nil {
						holders[info.Defs[id]] = &holder{lit: cl, stmt: x}
					}
				}
			}
		case *ast.DeclStmt:
			if gd, ok := x.Decl.(*ast.GenDecl); ok && gd.Tok == token.VAR && len(gd.Specs) == 1 {
				vs := gd.Specs[0].(*ast.ValueSpec)
				if len(vs.Names) == 1 && len(vs.Values) == 1 {
					if cl, isLit := vs.Values[0].(*ast.CompositeLit); isLit && info.Defs[vs.Names[0]] != nil {
						holders[info.Defs[vs.Names[0]]] = &holder{lit: cl, stmt: x}
					}
				}
			}
		}
		return true
	})
	for id, o := range info.Uses {
		_ = id
		if h := holders[o]; h != nil {
			h.uses++
		}
	}
	labelled := map[ast.Stmt]bool{}
	ast.Inspect(f, func(n ast.Node) bool {
		if ls, ok := n.(*ast.LabeledStmt); ok {
			labelled[ls.Stmt] = true
		}
		return true
	})
	bodyOK := func(body *ast.BlockStmt, loopVars map[types.Object]bool) bool {
		ok := true
		var walk func(n ast.Node, inLoop, inBreakable bool)
		walk = func(n ast.Node, inLoop, inBreakable bool) {
			if n == nil || !ok {
				return
			}
			switch x := n.(type) {
			case *ast.FuncLit, *ast.DeferStmt, *ast.GoStmt, *ast.LabeledStmt:
				ok = false
				return
			case *ast.BranchStmt:
				switch {
				case x.Label != nil, x.Tok == token.GOTO:
					ok = false
				case x.Tok == token.CONTINUE && !inLoop:
					ok = false
				case x.Tok == token.BREAK && !inBreakable:
					ok = false
				}
				return
			case *ast.UnaryExpr:
				if id, isId := x.X.(*ast.Ident); isId && x.Op == token.AND && loopVars[info.Uses[id]] {
					ok = false
					return
				}
			case *ast.ForStmt:
				walk(x.Init, inLoop, inBreakable)
				walk(x.Cond, inLoop, inBreakable)
				walk(x.Post, inLoop, inBreakable)
				walk(x.Body, true, true)
				return
			case *ast.RangeStmt:
				walk(x.X, inLoop, inBreakable)
				walk(x.Body, true, true)
				return
			case *ast.SwitchStmt:
				walk(x.Init, inLoop, inBreakable)
				walk(x.Tag, inLoop, inBreakable)
				walk(x.Body, inLoop, true)
				return
			case *ast.TypeSwitchStmt:
				walk(x.Body, inLoop, true)
				return
			case *ast.SelectStmt:
				walk(x.Body, inLoop, true)
				return
			}
			ast.Inspect(n, func(c ast.Node) bool {
				if c == n || c == nil {
					return c == n
				}
				walk(c, inLoop, inBreakable)
				return false
			})
		}
		walk(body, false, false)
		return ok
	}
	var edits []edit
	n := 0
	ast.Inspect(f, func(nd ast.Node) bool {
		rs, ok := nd.(*ast.RangeStmt)
		if !ok || n > 0 || rs.Tok != token.DEFINE || labelled[rs] {
			return true
		}
		var lit *ast.CompositeLit
		var drop ast.Stmt
		switch x := rs.X.(type) {
		case *ast.CompositeLit:
			lit = x
		case *ast.Ident:
			if h := holders[info.Uses[x]]; h != nil && h.uses == 1 && !unstable[info.Uses[x]] {
				lit, drop = h.lit, h.stmt
			}
		}
		if lit == nil || len(lit.Elts) == 0 || len(lit.Elts) > 4 {
			return true
		}
		at, isArr := lit.Type.(*ast.ArrayType)
		if !isArr {
			return true
		}
		switch info.TypeOf(lit).Underlying().(type) {
		case *types.Array, *types.Slice:
		default:
			return true
		}
		if _, isPtr := at.Elt.(*ast.StarExpr); isPtr {
			return true
		}
		for _, el := range lit.Elts {
			if _, isKV := el.(*ast.KeyValueExpr); isKV {
				return true
			}
			if cl, isCL := el.(*ast.CompositeLit); isCL && cl.Type == nil {
				// elided element type: judged with the array's element type in front
				if _, isStruct := info.TypeOf(cl).Underlying().(*types.Struct); !isStruct {
					return true
				}
			}
			if !pure(el) {
				return true
			}
		}
		loopVars := map[types.Object]bool{}
		keyName, valName := "", ""
		if id, isId := rs.Key.(*ast.Ident); isId && id.Name != "_" {
			keyName = id.Name
			loopVars[info.Defs[id]] = true
		} else if rs.Key != nil && !isId {
			return true
		}
		if id, isId := rs.Value.(*ast.Ident); isId && id.Name != "_" {
			valName = id.Name
			loopVars[info.Defs[id]] = true
		} else if rs.Value != nil && !isId {
			return true
		}
		if !bodyOK(rs.Body, loopVars) {
			return true
		}
		// the elements are written inside the scope of the new `key := …; value := …` declarations: they must not mention
		// those names (they would be captured)
		captured := false
		for _, el := range lit.Elts {
			ast.Inspect(el, func(c ast.Node) bool {
				if id, isId := c.(*ast.Ident); isId && (id.Name == keyName || id.Name == valName) && id.Name != "" {
					captured = true
				}
				return true
			})
		}
		ast.Inspect(at.Elt, func(c ast.Node) bool {
			if id, isId := c.(*ast.Ident); isId && (id.Name == keyName || id.Name == valName) && id.Name != "" {
				captured = true
			}
			return true
		})
		if captured {
			return true
		}
		elt := text(at.Elt)
		usedInBody := map[string]bool{}
		ast.Inspect(rs.Body, func(c ast.Node) bool {
			if id, isId := c.(*ast.Ident); isId && loopVars[info.Uses[id]] {
				usedInBody[id.Name] = true
			}
			return true
		})
		keep := func(name string) string {
			if usedInBody[name] {
				return "" // (a blank use would count as a use of the whole variable and stop it from being split)
			}
			return "_ = " + name + "; "
		}
		var sb strings.Builder
		sb.WriteString("{ ")
		for k, el := range lit.Elts {
			sb.WriteString("{ ")
			if keyName != "" {
				fmt.Fprintf(&sb, "%s := %d; %s", keyName, k, keep(keyName))
			}
			if valName != "" {
				if cl, isCL := el.(*ast.CompositeLit); isCL && cl.Type == nil {
					fmt.Fprintf(&sb, "%s := %s%s; %s", valName, elt, text(el), keep(valName))
				} else {
					fmt.Fprintf(&sb, "var %s %s = %s; %s", valName, elt, text(el), keep(valName))
				}
			}
			sb.WriteString(text(rs.Body))
			sb.WriteString(" }; ")
		}
		sb.WriteString("}")
		edits = append(edits, edit{off(rs.Pos()), off(rs.End()), sb.String()})
		if drop != nil {
			edits = append(edits, edit{off(drop.Pos()), off(drop.End()), ""})
		}
		counts["unrolled range over a "+fmt.Sprint(len(lit.Elts))+"-element literal"]++
		n++
		return false
	})
	if n == 0 {
		return src, 0
	}
	return applyEdits(src, edits), n
}
