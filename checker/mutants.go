package main

import (
	_ "embed"
	"encoding/json"
)

//go:embed mutants.json
var mutantsJSON []byte

var mutantTable []mutant

func init() {
	if err := json.Unmarshal(mutantsJSON, &mutantTable); err != nil {
		panic("mutants.json: " + err.Error())
	}
}
