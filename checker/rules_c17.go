package main

import (
	"fmt"
	"go/types"
	"strings"

	"golang.org/x/tools/go/ssa"
)

func init() { register("C17", checkC17) }

// cloneOf: v is proto.Clone(x).(*T) (possibly through the interface conversion); returns x.
func cloneOf(v ssa.Value) (ssa.Value, bool) {
	v = stripConv(v)
	if ta, ok := v.(*ssa.TypeAssert); ok {
		v = ta.X
	}
	call, ok := staticCallNamed(v, "proto.Clone")
	if !ok {
		return nil, false
	}
	return stripConv(call.Call.Args[0]), true
}

// pointerLike: values of this type can alias storage (everything but basic types; strings are immutable).
func pointerLike(t types.Type) bool {
	_, basic := t.Underlying().(*types.Basic)
	return !basic
}

// taintedBy: v may carry a pointer derived from prm that did not pass through proto.Clone.
func taintedBy(v ssa.Value, prm *ssa.Parameter, seen map[ssa.Value]bool, d int) bool {
	if v == nil || seen[v] || d > 16 {
		return false
	}
	seen[v] = true
	if v == ssa.Value(prm) {
		return true
	}
	if !pointerLike(v.Type()) {
		return false
	}
	if _, isClone := cloneOf(v); isClone {
		return false
	}
	switch x := v.(type) {
	case *ssa.Call:
		if calleeOf(&x.Call).Builtin == "len" || calleeOf(&x.Call).Builtin == "cap" {
			return false
		}
		for _, a := range x.Call.Args {
			if taintedBy(a, prm, seen, d+1) {
				return true
			}
		}
		if x.Call.IsInvoke() {
			return taintedBy(x.Call.Value, prm, seen, d+1)
		}
	case *ssa.UnOp:
		if taintedBy(x.X, prm, seen, d+1) {
			return true
		}
		if al, ok := x.X.(*ssa.Alloc); ok {
			for _, st := range storesTo(al) {
				if taintedBy(st.Val, prm, seen, d+1) {
					return true
				}
			}
		}
	case *ssa.Alloc:
		for _, st := range storesTo(x) {
			if taintedBy(st.Val, prm, seen, d+1) {
				return true
			}
		}
	case *ssa.FieldAddr:
		return taintedBy(x.X, prm, seen, d+1)
	case *ssa.Field:
		return taintedBy(x.X, prm, seen, d+1)
	case *ssa.IndexAddr:
		return taintedBy(x.X, prm, seen, d+1)
	case *ssa.Index:
		return taintedBy(x.X, prm, seen, d+1)
	case *ssa.Lookup:
		return taintedBy(x.X, prm, seen, d+1)
	case *ssa.Slice:
		return taintedBy(x.X, prm, seen, d+1)
	case *ssa.Extract:
		return taintedBy(x.Tuple, prm, seen, d+1)
	case *ssa.Next:
		return taintedBy(x.Iter, prm, seen, d+1)
	case *ssa.Range:
		return taintedBy(x.X, prm, seen, d+1)
	case *ssa.TypeAssert:
		return taintedBy(x.X, prm, seen, d+1)
	case *ssa.ChangeType:
		return taintedBy(x.X, prm, seen, d+1)
	case *ssa.ChangeInterface:
		return taintedBy(x.X, prm, seen, d+1)
	case *ssa.MakeInterface:
		return taintedBy(x.X, prm, seen, d+1)
	case *ssa.Convert:
		return taintedBy(x.X, prm, seen, d+1)
	case *ssa.Phi:
		for _, e := range x.Edges {
			if taintedBy(e, prm, seen, d+1) {
				return true
			}
		}
	}
	return false
}

// taintedFieldOfFresh: a field of the freshly allocated message (or of a fresh message nested in it) is assigned a
// pointer-like value derived from prm without passing through proto.Clone; returns a description or "".
func taintedFieldOfFresh(al *ssa.Alloc, prm *ssa.Parameter, d int) string {
	if d > 4 {
		return "nesting too deep to decide"
	}
	for _, r := range *al.Referrers() {
		fa, ok := r.(*ssa.FieldAddr)
		if !ok {
			continue
		}
		for _, st := range storesTo(fa) {
			if inner, isFresh := st.Val.(*ssa.Alloc); isFresh {
				if bad := taintedFieldOfFresh(inner, prm, d+1); bad != "" {
					return bad
				}
				continue
			}
			if pointerLike(st.Val.Type()) && taintedBy(st.Val, prm, map[ssa.Value]bool{}, 0) {
				return "field " + fieldRefOfAddr(fa) + " of the balancer's copy is assigned " + vstr(st.Val) + ", which points into the caller's configuration (not a proto.Clone)"
			}
		}
	}
	return ""
}

// C17 — Configuration: defaults, fidelity and immutability of the pool config.
func checkC17(c *Ctx, w *World) {
	c.Explanation = "Structural analysis of configuration handling: ParseConfig unmarshals with the package-level protojson.Unmarshal (default options: unknown " +
		"fields rejected) into a fresh message and returns it and the error unchanged; initializeConfig applies exactly three defaults (minSize 1, maxSize 4, " +
		"watermark 100), each ⇔ the same field's getter returned 0, on an object that is a proto.Clone of the caller's message or a fresh literal (never the " +
		"caller's object); no balancer field receives a pointer originating from the caller's config; the configuration is written only by initializeConfig, " +
		"which runs only while gb.cfg == nil; the method table is a fresh map filled with name → the same entry's affinity section under names≠nil ∧ affinity≠nil; " +
		"GCPMultiEndpoint stores and returns clones and serialises the caller's config with protojson.Marshal under the balancer's name."
	c.RuleText = "one obligation per parse step / default store / config writer / table store / clone site; non-trivial = needed a truth-table equivalence or provenance argument"
	c.Assumptions = []string{"protojson's accepted language and losslessness are trusted library behaviour; last-writer-wins for a method listed in several entries is reported, not judged"}
	c.Trusted = []string{"go/types", "golang.org/x/tools/go/ssa v0.29.0", "proto.Clone / protojson semantics"}
	pl := newPoolLite(c, w)
	if pl == nil {
		return
	}
	p := pl.p
	parse, ic := c.need(p, "grpcgcp", "(*gcpBalancerBuilder).ParseConfig"), c.need(p, "grpcgcp", "(*gcpBalancer).initializeConfig")
	uccs := c.need(p, "grpcgcp", "(*gcpBalancer).UpdateClientConnState")
	ctor, getCfg, mk := c.need(p, "grpcgcp", "NewGCPMultiEndpoint"), c.need(p, "grpcgcp", "(*GCPMultiEndpoint).GCPConfig"), c.need(p, "grpcgcp", "makeOpts")
	if parse == nil || ic == nil || uccs == nil || ctor == nil || getCfg == nil || mk == nil {
		return
	}

	// ---- C17.parse
	var um *ssa.Call
	nUm := 0
	eachInstr(parse, func(in ssa.Instruction) {
		if call, ok := in.(*ssa.Call); ok {
			n := calleeOf(&call.Call).Name()
			if strings.Contains(n, "protojson") {
				nUm++
				if n == "protojson.Unmarshal" {
					um = call
				}
			}
		}
	})
	okParse := um != nil && nUm == 1
	if okParse {
		okParse = stripConv(um.Call.Args[0]) == ssa.Value(parse.Params[1])
		target, isAl := stripConv(um.Call.Args[1]).(*ssa.Alloc)
		okParse = okParse && isAl && shortType(target.Type()) == "*grpcgcp.GCPBalancerConfig"
		if okParse {
			// ApiConfig field initialised with a fresh message
			fresh := false
			for _, r := range *target.Referrers() {
				if fa, ok := r.(*ssa.FieldAddr); ok && fieldRefOfAddr(fa) == "GCPBalancerConfig.ApiConfig" {
					for _, st := range storesTo(fa) {
						if al, ok := st.Val.(*ssa.Alloc); ok && shortType(al.Type()) == "*grpc_gcp.ApiConfig" {
							fresh = true
						}
					}
				}
			}
			okParse = fresh
			for _, r := range returnsOf(parse) {
				if stripConv(r.Results[0]) != ssa.Value(target) || r.Results[1] != ssa.Value(um) {
					okParse = false
				}
			}
		}
	}
	c.check(okParse, "C17.parse", "ParseConfig", p.pos(parse.Pos()), "protojson.Unmarshal(raw JSON, fresh &GCPBalancerConfig{ApiConfig: &ApiConfig{}}) with default options; the object and the error are returned unchanged", "ParseConfig does not parse with default protojson options into a fresh config, or alters the result/error")

	// ---- C17.defaults
	want := map[string]int64{"ChannelPoolConfig.MinSize": 1, "ChannelPoolConfig.MaxSize": 4, "ChannelPoolConfig.MaxConcurrentStreamsLowWatermark": 100}
	getter := map[string]string{"ChannelPoolConfig.MinSize": ".GetMinSize", "ChannelPoolConfig.MaxSize": ".GetMaxSize", "ChannelPoolConfig.MaxConcurrentStreamsLowWatermark": ".GetMaxConcurrentStreamsLowWatermark"}
	var atoms []atomDef
	for f, g := range getter {
		g := g
		atoms = append(atoms, eqAtom("zero:"+f, callTo(g), constIs(0)))
	}
	atoms = append(atoms, eqAtom("poolNil", callTo(".GetChannelPool"), isNil))
	cs := newCondSpace(ic, recOf(atoms...), atomNames(atoms...)...)
	nDef := 0
	var cpObj ssa.Value
	for _, a := range pl.ai.ByFn[ic] {
		if !strings.HasPrefix(a.Field, "ChannelPoolConfig.") || a.What != "store" || freshAt(a.Base, a.Instr) {
			continue
		}
		nDef++
		st := a.Instr.(*ssa.Store)
		construct := "default for " + lastDot(a.Field)
		wv, known := want[a.Field]
		v, isC := constInt(st.Val)
		if !known || !isC || v != wv {
			c.fail("C17.defaults", construct, p.ipos(st), fmt.Sprintf("unexpected default store %s ← %s (expected only minSize←1, maxSize←4, watermark←100)", a.Field, vstr(st.Val)))
			continue
		}
		// the getter tested is on the same object as the store
		var gcall *ssa.Call
		for i, val := range cs.VarVal {
			if val != nil && cs.Vars[i] == "@zero:"+a.Field {
				if bo, ok := val.(*ssa.BinOp); ok {
					for _, side := range []ssa.Value{bo.X, bo.Y} {
						if call, ok := side.(*ssa.Call); ok {
							gcall = call
						}
					}
				}
			}
		}
		same := gcall != nil && gcall.Call.Args[0] == a.Base
		eq := false
		wit := ""
		if gcall != nil {
			eq, wit = cs.Equiv(cs.Reach(st), and(cs.Reach(gcall), cs.Atom("zero:"+a.Field)))
		}
		// … and the test is made on every way through the function on which the section exists (three independent tests,
		// not alternatives of one another): no return is reachable with the section present and this getter not consulted;
		// a section created because there was none may instead be built with this default in place
		if gcall != nil && eq {
			freshDefault := false
			for _, b := range pl.ai.ByFn[ic] {
				if b.Field == a.Field && b.What == "store" && freshAt(b.Base, b.Instr) {
					if fv, isK := constInt(b.Instr.(*ssa.Store).Val); isK && fv == wv {
						freshDefault = true
					}
				}
			}
			for _, r := range returnsOf(ic) {
				skipped := and(cs.Reach(r), cs.Not(cs.Reach(gcall)))
				if !freshDefault || !cs.Seen("poolNil") {
					// nothing else can supply the default: the test is on every way
				} else {
					skipped = and(skipped, cs.Not(cs.Atom("poolNil")))
				}
				if cs.Satisfiable(skipped) {
					eq, wit = false, "the function can return without having tested this field: "+cs.assignment(skipped)
				}
			}
		}
		c.check(same && eq, "C17.defaults", construct, p.ipos(st), fmt.Sprintf("%s ← %d ⇔ its own getter returned 0, on the same message", lastDot(a.Field), wv), "default is applied under a condition other than 'this field is zero': "+wit)
		cpObj = a.Base
	}
	c.check(nDef == 3, "C17.defaults", "exactly three defaults", p.pos(ic.Pos()), "minSize, maxSize and the stream watermark are the only defaulted fields", fmt.Sprintf("%d fields of the channel-pool config are defaulted", nDef))
	// ChannelPool replaced only when nil, by a fresh message
	for _, a := range pl.ai.ByFn[ic] {
		if a.Field == "ApiConfig.ChannelPool" && a.What == "store" && !freshAt(a.Base, a.Instr) {
			st := a.Instr.(*ssa.Store)
			al, isAl := st.Val.(*ssa.Alloc)
			imp, wit := cs.Implies(cs.Reach(st), cs.Atom("poolNil"))
			c.check(isAl && al.Heap && imp, "C17.defaults", "ChannelPool created only when absent", p.ipos(st), "a fresh ChannelPoolConfig is installed only when GetChannelPool() == nil", "the channel-pool section can be replaced although present: "+wit)
		}
	}
	// any other write to a config message in the module?
	nOther := 0
	for field, as := range pl.ai.ByField {
		for _, a := range as {
			if !a.isWrite() || freshAt(a.Base, a.Instr) {
				continue
			}
			if pkg, own := ownStructField(p, a); own && pkg == "grpc_gcp" && a.Fn.Pkg.Pkg.Name() != "grpc_gcp" {
				if a.Fn != ic {
					nOther++
					c.fail("C17.defaults", "config message written in "+fname(a.Fn), p.ipos(a.Instr), "field "+field+" of a configuration message is written outside initializeConfig")
				}
			}
		}
	}

	// ---- C17.clone
	cfgParam := ic.Params[1]
	fromParam := func(v ssa.Value) bool { return usesParam(v, cfgParam) }
	okClone := cpObj != nil
	aliasWhy := ""
	// every store to gb.cfg is a fresh GCPBalancerConfig whose ApiConfig is fresh or a clone of the parameter's
	nCfgStores := 0
	apiOrigins := map[ssa.Value]bool{} // what the message inside the stored wrapper can be
	for _, a := range pl.ai.ByFn[ic] {
		if a.Field != "gcpBalancer.cfg" || a.What != "store" {
			continue
		}
		nCfgStores++
		// the stored wrapper: an allocation of this call (possibly one per branch: a composite literal on each)
		var wrappers []*ssa.Alloc
		os := origins(a.Instr.(*ssa.Store).Val)
		if len(os) == 0 {
			okClone = false
		}
		for _, o := range os {
			al, isAl := o.Val.(*ssa.Alloc)
			if !isAl || o.Kind != "alloc" {
				okClone = false
				continue
			}
			wrappers = append(wrappers, al)
		}
		var refs []ssa.Instruction
		for _, al := range wrappers {
			refs = append(refs, *al.Referrers()...)
		}
		for _, r := range refs {
			fa, ok := r.(*ssa.FieldAddr)
			if !ok || fieldRefOfAddr(fa) != "GCPBalancerConfig.ApiConfig" {
				continue
			}
			for _, st := range storesTo(fa) {
				// (the stored message may be merged from several branches: `apiCfg` = fresh literal | clone)
				os := origins(st.Val)
				if len(os) == 0 {
					okClone = false
				}
				for _, o := range os {
					apiOrigins[o.Val] = true
					if fresh, isFresh := o.Val.(*ssa.Alloc); isFresh && o.Kind == "alloc" {
						// a hand-built message: none of its fields may carry a pointer into the caller's object
						if bad := taintedFieldOfFresh(fresh, cfgParam, 0); bad != "" {
							okClone = false
							aliasWhy = bad
						}
						continue
					}
					src, isClone := cloneOf(o.Val)
					if !isClone || !fromParam(src) {
						okClone = false
					}
				}
			}
		}
	}
	// the defaulted object is GetChannelPool(<gb.cfg>.ApiConfig), i.e. inside the balancer's own copy
	// (or of the message that is then wrapped and stored: the same origins as the stored wrapper's ApiConfig; a section
	// created because there was none is a fresh message — "ChannelPool created only when absent" above)
	if cpObj != nil {
		os := origins(cpObj)
		if len(os) == 0 {
			okClone = false
		}
		for _, o := range os {
			if _, isFresh := o.Val.(*ssa.Alloc); isFresh && o.Kind == "alloc" {
				continue
			}
			call, isC := staticCallNamed(o.Val, ".GetChannelPool")
			if !isC {
				okClone = false
				continue
			}
			if f, base, ok := loadedField(call.Call.Args[0]); ok && f == "GCPBalancerConfig.ApiConfig" && isLoadOf(base, "gcpBalancer.cfg") {
				continue
			}
			aos := origins(call.Call.Args[0])
			if len(aos) == 0 {
				okClone = false
			}
			for _, ao := range aos {
				if !apiOrigins[ao.Val] {
					okClone = false
					aliasWhy = "defaults are stored into " + vstr(ao.Val) + ", which is not the message the balancer keeps"
				}
			}
		}
	}
	// no balancer field receives a pointer that originates from the parameter without passing through Clone
	for _, a := range pl.ai.ByFn[ic] {
		if !strings.HasPrefix(a.Field, "gcpBalancer.") || !a.isWrite() {
			continue
		}
		if st, ok := a.Instr.(*ssa.Store); ok {
			for _, o := range origins(st.Val) {
				if o.Val == ssa.Value(cfgParam) {
					okClone = false
				}
				if _, isFresh := o.Val.(*ssa.Alloc); !isFresh && pointerLike(o.Val.Type()) && taintedBy(o.Val, cfgParam, map[ssa.Value]bool{}, 0) {
					okClone = false
					aliasWhy = a.Field + " receives " + vstr(o.Val) + ", which points into the caller's configuration"
				}
				if f, base, isL := loadedField(o.Val); isL && strings.HasPrefix(f, "GCPBalancerConfig.") && usesParam(base, cfgParam) {
					okClone = false
				}
			}
		}
	}
	c.check(okClone && nCfgStores >= 1, "C17.clone", "initializeConfig works on its own copy", p.pos(ic.Pos()), "gb.cfg is a fresh wrapper around a fresh message or proto.Clone(caller's ApiConfig); defaults are stored into that copy; no balancer field aliases the caller's object", "the balancer mutates or aliases the caller's configuration object"+func() string {
		if aliasWhy != "" {
			return ": " + aliasWhy
		}
		return ""
	}())

	// ---- C17.once
	for _, f := range []string{"cfg", "methodCfg", "unresponsiveDetection"} {
		pl.whoMayWrite("C17.once", "gcpBalancer."+f, map[string][]string{fname(ic): {"store"}})
	}
	pl.whoMayCall("C17.once", ic, fname(uccs))
	for _, call := range pl.callsIn(uccs, ic) {
		ucs := newCondSpace(uccs, recOf(eqAtom("cfgNil", loadOf("gcpBalancer.cfg"), isNil)), "cfgNil")
		imp, wit := ucs.Implies(ucs.Reach(call), ucs.Atom("cfgNil"))
		// the argument is the update's own config after the type assertion
		nAssert := 0
		okArg := originsAll(call.Call.Args[1], func(o Origin) bool {
			if isConstNilOrigin(o) {
				return true // no configuration supplied: what the failed assertion of a nil interface yields as well
			}
			e, ok := o.Val.(*ssa.Extract)
			if !ok || e.Index != 0 {
				return false
			}
			ta, ok := e.Tuple.(*ssa.TypeAssert)
			if ok && ta.CommaOk && shortType(ta.AssertedType) == "*grpcgcp.GCPBalancerConfig" {
				nAssert++
				return true
			}
			return false
		}) && nAssert > 0
		c.check(imp && okArg, "C17.once", "UpdateClientConnState → initializeConfig", p.ipos(call), "the configuration is fixed by the first resolver update (only while gb.cfg == nil), from that update's own BalancerConfig", "later resolver updates can re-initialise the configuration: "+wit)
		// a foreign BalancerConfig is rejected before the configuration is touched
		for _, vr := range ucs.VirtualReturns() {
			// (a merged `return err` is split per way of arriving)
			if nilErr, _ := allOrigins(vr.Vals[0], isConstNilOrigin); !nilErr && mayPrecede(call, vr.Ret) && ucs.Satisfiable(and(vr.Cond, ucs.Reach(call))) {
				c.fail("C17.once", "error return after initializeConfig", p.ipos(vr.Ret), "an update can be rejected after the configuration was already applied")
			}
		}
	}

	// ---- C17.methods
	var table *ssa.MakeMap
	for _, a := range pl.ai.ByFn[ic] {
		if a.Field == "gcpBalancer.methodCfg" && a.What == "store" {
			// (the map may reach the field through the result of an inlined helper: one origin, the make)
			if os := origins(a.Instr.(*ssa.Store).Val); len(os) == 1 {
				table, _ = os[0].Val.(*ssa.MakeMap)
			}
		}
	}
	okTab := table != nil
	nmu := 0
	if okTab {
		eachInstr(ic, func(in ssa.Instruction) {
			mu, ok := in.(*ssa.MapUpdate)
			if !ok || mu.Map != ssa.Value(table) {
				return
			}
			nmu++
			aff, isA := staticCallNamed(mu.Value, ".GetAffinity")
			var names *ssa.Call
			if u, ok := mu.Key.(*ssa.UnOp); ok {
				if ia, ok := u.X.(*ssa.IndexAddr); ok {
					names, _ = staticCallNamed(ia.X, ".GetName")
				}
			}
			ensureEquiv(ic)
			// (the same entry: one value, or two reads of the same element with nothing in between that could change it)
			if !isA || names == nil || (aff.Call.Args[0] != names.Call.Args[0] && kstr(aff.Call.Args[0]) != kstr(names.Call.Args[0])) {
				okTab = false
				return
			}
			// the entry is an element of GetMethod() of the balancer's own config
			entryOK := false
			if u, ok := aff.Call.Args[0].(*ssa.UnOp); ok {
				if ia, ok := u.X.(*ssa.IndexAddr); ok {
					if _, isM := staticCallNamed(ia.X, ".GetMethod"); isM {
						entryOK = true
					}
				}
			}
			tcs := newCondSpace(ic, recOf(eqAtom("namesNil", isVal(names), isNil), eqAtom("affNil", isVal(aff), isNil)), "namesNil", "affNil")
			// (the key is an element of the name list, so the store is inside a scan of it: a nil list has no elements and
			// needs no test of its own)
			imp, _ := tcs.Implies(tcs.Reach(mu), tcs.Not(tcs.Atom("affNil")))
			if !imp || !entryOK {
				okTab = false
			}
			// … for EVERY name of EVERY entry: both scans run to exhaustion (left only at their header), every iteration of the
			// name scan stores, and the name scan is entered for every entry that has names and an affinity section
			var inner, outer *Loop
			for _, l := range loopsOf(ic) {
				if !l.Blocks[mu.Block()] {
					continue
				}
				if inner == nil || len(l.Blocks) < len(inner.Blocks) {
					inner = l
				}
			}
			for _, l := range loopsOf(ic) {
				if inner != nil && l.Header != inner.Header && l.Blocks[inner.Header] && (outer == nil || len(l.Blocks) < len(outer.Blocks)) {
					outer = l
				}
			}
			complete := inner != nil && outer != nil
			if complete {
				for _, l := range []*Loop{inner, outer} {
					for _, ex := range l.exits() {
						if ex[0] != l.Header {
							complete = false
						}
					}
				}
				for _, lt := range inner.Latch {
					if !mu.Block().Dominates(lt) {
						complete = false
					}
				}
				body := outer.Header.Succs[0]
				if !outer.Blocks[body] {
					body = outer.Header.Succs[len(outer.Header.Succs)-1]
				}
				if full, _ := tcs.Implies(tcs.And(tcs.ReachBlock(body), tcs.Not(tcs.Atom("namesNil")), tcs.Not(tcs.Atom("affNil"))), tcs.ReachBlock(inner.Header)); !full {
					complete = false
				}
			}
			if !complete {
				okTab = false
			}
		})
	}
	c.check(okTab && nmu == 1, "C17.methods", "method table", p.pos(ic.Pos()), "fresh map; mp[name] = entry.GetAffinity() for every name of entry.GetName() of the same entry, only when both are non-nil", "the method table does not map every listed name to its own entry's affinity section")
	// Pick reads the entry of info.FullMethodName only
	pick := c.need(p, "grpcgcp", "(*gcpPicker).Pick")
	if pick != nil {
		okLk, n := true, 0
		eachInstr(pick, func(in ssa.Instruction) {
			if l, ok := in.(*ssa.Lookup); ok && isLoadOf(l.X, "gcpBalancer.methodCfg") {
				n++
				if !originsAll(l.Index, func(o Origin) bool { return paramFieldLoad(o.Val, pick.Params[1], "PickInfo.FullMethodName") }) {
					okLk = false
				}
			}
		})
		c.check(okLk && n == 1, "C17.methods", "Pick consults the entry of its own method", p.pos(pick.Pos()), "methodCfg[info.FullMethodName]", "Pick looks the method configuration up under a different name")
	}

	// ---- C17.gme
	okStore := false
	for _, a := range pl.ai.ByField["GCPMultiEndpoint.gcpConfig"] {
		if !a.isWrite() {
			continue
		}
		if a.Fn != ctor {
			c.fail("C17.gme", "gcpConfig written in "+fname(a.Fn), p.ipos(a.Instr), "stored configuration is rewritten after construction")
			continue
		}
		if src, ok := cloneOf(a.Instr.(*ssa.Store).Val); ok {
			if f, base, isL := loadedField(src); isL && f == "GCPMultiEndpointOptions.GRPCgcpConfig" && base == ssa.Value(ctor.Params[0]) {
				okStore = true
			}
		}
	}
	c.check(okStore, "C17.gme", "constructor stores a clone", p.pos(ctor.Pos()), "gcpConfig ← proto.Clone(options.GRPCgcpConfig)", "GCPMultiEndpoint keeps the caller's configuration object itself")
	okRet := true
	for _, r := range returnsOf(getCfg) {
		src, ok := cloneOf(r.Results[0])
		if !ok || !isLoadOf(src, "GCPMultiEndpoint.gcpConfig") {
			okRet = false
		}
	}
	c.check(okRet, "C17.gme", "GCPConfig returns a clone", p.pos(getCfg.Pos()), "proto.Clone(gme.gcpConfig)", "GCPConfig() hands out the internal configuration object")
	okMk := false
	eachInstr(mk, func(in ssa.Instruction) {
		if call, ok := staticCallNamed(valueOf(in), "protojson.Marshal"); ok {
			if f, base, isL := loadedField(stripConv(call.Call.Args[0])); isL && f == "GCPMultiEndpointOptions.GRPCgcpConfig" && base == ssa.Value(mk.Params[0]) {
				okMk = true
			}
		}
	})
	// the service config names the balancer by its registered Name constant
	nameOK := false
	eachInstr(mk, func(in ssa.Instruction) {
		if call, ok := staticCallNamed(valueOf(in), "fmt.Sprintf"); ok {
			if f, isS := constString(call.Call.Args[0]); isS && strings.Contains(f, `"loadBalancingConfig"`) && strings.Contains(f, `"%s":%s`) {
				if sl, ok := call.Call.Args[1].(*ssa.Slice); ok {
					if al, ok := sl.X.(*ssa.Alloc); ok {
						for _, r := range *al.Referrers() {
							if ia, ok := r.(*ssa.IndexAddr); ok {
								if i, _ := constInt(ia.Index); i == 0 {
									for _, st := range storesTo(ia) {
										if s, isS := constString(st.Val); isS && s == "grpc_gcp" {
											nameOK = true
										}
									}
								}
							}
						}
					}
				}
			}
		}
	})
	// the caller's option slice is only read: appending INTO it would write the service config into the caller's backing
	// array, where the next GCPMultiEndpoint built from the same slice overwrites it
	for _, prm := range mk.Params {
		if _, isSlice := prm.Type().Underlying().(*types.Slice); !isSlice {
			continue
		}
		bad := writableUses(p, prm, map[ssa.Value]bool{}, 0)
		// handing the slice to append as the SOURCE (a copy) is fine; returning it unchanged is not used here
		c.check(len(bad) == 0, "C17.gme", "makeOpts does not write into the caller's option slice ("+prm.Name()+")", p.pos(mk.Pos()), "the caller's slice is only read (copied before the grpc-gcp options are appended)", "the caller's option slice is used as an append destination / stored / passed on: the grpc-gcp options (with this object's service config) land in the caller's backing array and can be overwritten through it: "+strings.Join(bad, "; "))
	}
	// the grpc-gcp options come LAST: gRPC applies dial options in order and the last default service config wins, so a
	// caller-supplied one placed behind them would replace this object's configuration
	{
		var gcpAp, callerAp *ssa.Call
		hasDSC := func(v ssa.Value) bool {
			for _, o := range origins(v) {
				sl, ok := stripConv(o.Val).(*ssa.Slice)
				if !ok {
					continue
				}
				al, ok := sl.X.(*ssa.Alloc)
				if !ok {
					continue
				}
				for _, r := range *al.Referrers() {
					if ia, isIA := r.(*ssa.IndexAddr); isIA {
						for _, st := range storesTo(ia) {
							if _, isD := staticCallNamed(st.Val, "grpc.WithDefaultServiceConfig"); isD {
								return true
							}
						}
					}
				}
			}
			return false
		}
		fromParam := func(v ssa.Value) bool {
			for _, o := range origins(v) {
				if prm, ok := o.Val.(*ssa.Parameter); ok && prm.Parent() == mk {
					return true
				}
			}
			return false
		}
		eachInstr(mk, func(in ssa.Instruction) {
			ap, ok := in.(*ssa.Call)
			if !ok || calleeOf(&ap.Call).Builtin != "append" || len(ap.Call.Args) < 2 {
				return
			}
			if hasDSC(ap.Call.Args[1]) {
				gcpAp = ap
			}
			if fromParam(ap.Call.Args[1]) {
				callerAp = ap
			}
		})
		okOrder := gcpAp != nil && callerAp != nil && reachesThroughAppends(gcpAp.Call.Args[0], callerAp) && !reachesThroughAppends(callerAp.Call.Args[0], gcpAp)
		if okOrder {
			for _, r := range returnsOf(mk) {
				if nilErr, _ := allOrigins(r.Results[1], isConstNilOrigin); !nilErr {
					continue
				}
				fromGcp := false
				for _, o := range origins(r.Results[0]) {
					if reachesThroughAppends(o.Val, gcpAp) {
						fromGcp = true
					}
				}
				if !fromGcp {
					okOrder = false
				}
			}
		}
		c.check(okOrder, "C17.gme", "makeOpts puts the grpc-gcp options behind the caller's", p.pos(mk.Pos()), "result = append(copy of the caller's options, grpc-gcp options…): this object's default service config is the last one", "the caller's dial options are placed behind the grpc-gcp ones (or the result is not that concatenation): a caller-supplied default service config would replace this object's configuration")
	}
	c.check(okMk && nameOK, "C17.gme", "makeOpts serialises the caller's config", p.pos(mk.Pos()), "protojson.Marshal(options.GRPCgcpConfig) embedded in the default service config under the balancer's registered name", "the pools are not configured with the JSON rendering of the caller's config under the grpc_gcp balancer name")
}
