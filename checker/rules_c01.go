package main

import (
	"fmt"
	"go/constant"
	"go/types"
	"strings"

	"golang.org/x/tools/go/ssa"
)

func init() { register("C01", checkC01) }

// originsAll: every origin of v satisfies pred (and there is at least one).
func originsAll(v ssa.Value, pred func(o Origin) bool) bool {
	os := origins(v)
	if len(os) == 0 {
		return false
	}
	for _, o := range os {
		if !pred(o) {
			return false
		}
	}
	return true
}

func isCallOrigin(o Origin, suffix string) bool {
	call, ok := o.Val.(*ssa.Call)
	return ok && strings.HasSuffix(calleeOf(&call.Call).Name(), suffix)
}

// cmdValue: v is the method's affinity command (result of GetCommand, or the zero value of the variable).
func cmdValue(v ssa.Value) bool {
	if _, isC := stripConv(v).(*ssa.Const); isC {
		return false
	}
	return originsAll(v, func(o Origin) bool {
		return o.Kind == "zero" || isZeroConstOrigin(o) || isCallOrigin(o, ".GetCommand") || o.Kind == "param" && o.Val.Name() == "cmd"
	})
}

// isZeroConstOrigin: the origin is a constant equal to the zero value of its type (what `var x T` holds).
func isZeroConstOrigin(o Origin) bool {
	k, ok := o.Val.(*ssa.Const)
	if !ok || o.Kind != "const" {
		return false
	}
	if k.Value == nil {
		return true
	}
	switch k.Value.Kind() {
	case constant.Int, constant.Float:
		return constant.Sign(k.Value) == 0
	case constant.String:
		return constant.StringVal(k.Value) == ""
	case constant.Bool:
		return !constant.BoolVal(k.Value)
	}
	return false
}

// hasCtxFlag: v is the comma-ok flag of ctx.Value(gcpKey).(*gcpContext).
func hasCtxFlag(v ssa.Value) bool {
	return originsAll(v, func(o Origin) bool {
		e, ok := o.Val.(*ssa.Extract)
		if !ok || e.Index != 1 {
			return false
		}
		ta, ok := e.Tuple.(*ssa.TypeAssert)
		return ok && strings.HasSuffix(shortType(ta.AssertedType), "*grpcgcp.gcpContext")
	})
}

// gcpCtxValue: v is the *gcpContext obtained from that assertion.
func gcpCtxValue(v ssa.Value) bool {
	return originsAll(v, func(o Origin) bool {
		e, ok := o.Val.(*ssa.Extract)
		if !ok || e.Index != 0 {
			return false
		}
		ta, ok := e.Tuple.(*ssa.TypeAssert)
		return ok && strings.HasSuffix(shortType(ta.AssertedType), "*grpcgcp.gcpContext")
	})
}

// C01 — Affinity: a bound key always travels on the channel it was bound to.
func checkC01(c *Ctx, w *World) {
	c.Explanation = "Structural analysis of the affinity-key table: who may write it, BIND/UNBIND bookkeeping only on the success path of the matching " +
		"command with keys taken from the reply (BIND) / request (UNBIND) and the connection of the very slot the call was placed on, no re-binding of an " +
		"already bound key, request-key extraction exactly for configured BOUND/UNBIND methods with an interceptor context, the bound-slot lookup returns the " +
		"home slot exactly when it is READY and never another slot unless fallback is enabled, the bound lookup takes precedence over load, and the refresh swap " +
		"re-keys or purges every balancer table indexed by connection identity."
	c.RuleText = "one obligation per writer / call site / return / table; non-trivial = needed a reaching-condition entailment or provenance argument"
	c.Assumptions = []string{
		"gRPC uses the most recently published picker for new picks (history-level routing is not decided)",
		"the Shutdown retire point is outside C01 (the property speaks of refresh); its nil-dereference consequence is C05's",
	}
	c.Trusted = []string{"go/types", "golang.org/x/tools/go/ssa v0.29.0"}
	pl := newPool(c, w)
	if pl == nil || pl.pick == nil || pl.done == nil || pl.uscs == nil {
		return
	}
	p := pl.p
	bind, unbind := pl.f("(*gcpBalancer).bindSubConn"), pl.f("(*gcpBalancer).unbindSubConn")
	grs, gsr := pl.f("(*gcpBalancer).getReadySubConnRef"), pl.f("(*gcpPicker).getSubConnRef")
	gai := pl.f("(*gcpPicker).getAndIncrementSubConnRef")
	if bind == nil || unbind == nil || grs == nil || gsr == nil || gai == nil {
		return
	}

	// ---- C01.writers
	n := pl.whoMayWrite("C01.writers", "gcpBalancer.affinityMap", map[string][]string{
		fname(bind): {"map-insert"}, fname(unbind): {"map-delete"}, fname(pl.uscs): {"map-insert"},
	})
	c.floor("C01.writers", n, 2)

	// ---- C01.no-move
	for _, a := range pl.ai.ByFn[bind] {
		if a.Field != "gcpBalancer.affinityMap" || a.What != "map-insert" {
			continue
		}
		mu := a.Instr.(*ssa.MapUpdate)
		key := mu.Key
		isOK := func(v ssa.Value) bool {
			e, ok := stripConv(v).(*ssa.Extract)
			if !ok || e.Index != 1 {
				return false
			}
			l, ok := e.Tuple.(*ssa.Lookup)
			return ok && l.CommaOk && isLoadOf(l.X, "gcpBalancer.affinityMap") && l.Index == key
		}
		cs := newCondSpace(bind, recOf(boolAtom("bound", isOK)), "bound")
		imp, wit := cs.Implies(cs.Reach(mu), cs.Not(cs.Atom("bound")))
		okArgs := key == ssa.Value(bind.Params[1]) && mu.Value == ssa.Value(bind.Params[2])
		// test and insert form one critical section: gb.mu is write-held from the lookup to the insert, so two BIND
		// completions carrying the same key cannot both see it unbound
		atomicOK := false
		for i, val := range cs.VarVal {
			if val == nil || cs.Vars[i] != "@bound" {
				continue
			}
			if e, isE := stripConv(val).(*ssa.Extract); isE {
				if lk, isL := e.Tuple.(*ssa.Lookup); isL {
					atomicOK = pl.lf.HeldThroughout(lk, mu, "gcpBalancer.mu")
				}
			}
		}
		c.check(atomicOK, "C01.no-move", "bindSubConn: test and insert in one critical section", p.ipos(mu), "gb.mu is write-held from the comma-ok lookup to the insert", "the 'not bound yet' test and the insert are not in one critical section of gb.mu: two BIND completions with the same key can both find it unbound and the second moves it")
		c.check(imp && okArgs && cs.Seen("bound"), "C01.no-move", "bindSubConn: insert", p.ipos(mu), "affinityMap[key] = sc only when the key is not bound yet (comma-ok lookup of the same key, same critical section)",
			"a BIND for an already bound key can move it (or the stored pair is not the parameters): "+wit)
	}
	for _, a := range pl.ai.ByFn[unbind] {
		if a.Field == "gcpBalancer.affinityMap" && a.What == "map-delete" {
			call := a.Instr.(*ssa.Call)
			c.check(call.Call.Args[1] == ssa.Value(unbind.Params[1]), "C01.no-move", "unbindSubConn: delete", p.ipos(call), "removes exactly the given key", "unbind removes a different key than the one given")
			// "after a successful UNBIND the key is routed like an unknown key": the binding is removed whenever it exists,
			// whichever channel the UNBIND call travelled on (it may have been a fallback channel)
			ukey := unbind.Params[1]
			found := func(v ssa.Value) bool {
				e, ok := stripConv(v).(*ssa.Extract)
				if !ok || e.Index != 1 {
					return false
				}
				l, ok := e.Tuple.(*ssa.Lookup)
				return ok && l.CommaOk && isLoadOf(l.X, "gcpBalancer.affinityMap") && l.Index == ssa.Value(ukey)
			}
			ucs := newCondSpace(unbind, recOf(boolAtom("bound", found)), "bound")
			eq, wit := ucs.EquivStrict(ucs.Reach(call), ucs.Atom("bound"))
			c.check(eq, "C01.unbind", "unbindSubConn: removes every existing binding", p.ipos(call), "the key's binding is deleted ⇔ the key is bound (no other condition)", "a successful UNBIND can leave the key bound: "+wit)
		}
	}

	// ---- C01.success-only + C01.args (completion closure)
	info := pl.done.Params[0]
	errLoad := func(v ssa.Value) bool { return paramFieldLoad(v, info, "DoneInfo.Err") }
	dAtoms := []atomDef{
		eqAtom("errnil", errLoad, isNil),
		eqAtom("cmdBIND", cmdValue, constIs(pl.BIND)),
		eqAtom("cmdUNBIND", cmdValue, constIs(pl.UNBIND)),
		eqAtom("cmdBOUND", cmdValue, constIs(pl.BOUND)),
		boolAtom("hasCtx", hasCtxFlag),
	}
	dcs := newCondSpace(pl.done, recOf(dAtoms...), atomNames(dAtoms...)...)
	dcs.ExclusiveAtoms("cmdBIND", "cmdUNBIND", "cmdBOUND")
	bsites := pl.whoMayCall("C01.success-only", bind, fname(pl.done))
	usites := pl.whoMayCall("C01.success-only", unbind, fname(pl.done))
	c.floor("C01.success-only", len(bsites)+len(usites), 2)
	gcalls := pl.callsIn(pl.pick, gai)
	isSlot := func(v ssa.Value) bool {
		val, onlyNil, ok := slotOrigin(v)
		if !ok || onlyNil || len(gcalls) != 1 {
			return false
		}
		return isExtractOf(val, gcalls[0], 0)
	}
	for _, s := range bsites {
		if s.Fn != pl.done {
			continue
		}
		imp, wit := dcs.Implies(dcs.Reach(s.Instr), dcs.And(dcs.Atom("errnil"), dcs.Atom("cmdBIND")))
		c.check(imp, "C01.success-only", "bindSubConn call", p.ipos(s.Instr), "reached only when the call succeeded and the method's command is BIND", "a failed call or a non-BIND method can bind a key: "+wit)
		// args: (gb, key, sc)
		key, conn := s.Call.Args[1], s.Call.Args[2]
		// the key list extracted from this call's reply with the method's key path (a nil list has no elements)
		isReplyKeys := func(v ssa.Value) bool {
			n := 0
			all := originsAll(v, func(o Origin) bool {
				if isConstNilOrigin(o) {
					return true
				}
				e, ok := o.Val.(*ssa.Extract)
				if !ok || e.Index != 0 {
					return false
				}
				call, ok := e.Tuple.(*ssa.Call)
				if !ok || !strings.HasSuffix(calleeOf(&call.Call).Name(), ".getAffinityKeysFromMessage") {
					return false
				}
				f, base, ok := loadedField(call.Call.Args[1])
				if !ok || f != "gcpContext.replyMsg" || !gcpCtxValue(base) {
					return false
				}
				n++
				return originsAll(call.Call.Args[0], func(o Origin) bool {
					return o.Kind == "const" || o.Kind == "zero" || isCallOrigin(o, ".GetAffinityKey")
				})
			})
			return all && n > 0
		}
		// every origin of the key is an element of that list
		keyOK := originsAll(key, func(o Origin) bool {
			u, ok := o.Val.(*ssa.UnOp)
			if !ok {
				return false
			}
			ia, ok := u.X.(*ssa.IndexAddr)
			return ok && isReplyKeys(ia.X)
		})
		c.check(keyOK, "C01.args", "bind key", p.ipos(s.Instr), "key is an element of getAffinityKeysFromMessage(method's key path, reply message of this call)", "bound key is not extracted from this call's reply with the method's key path: "+originStrings(origins(key)))
		f, base, isL := loadedField(conn)
		c.check(isL && f == "subConnRef.subConn" && isSlot(base), "C01.args", "bind connection", p.ipos(s.Instr), "bound connection is the connection of the slot this call was placed on", "key is bound to a connection other than the one the call ran on: "+vstr(conn))
	}
	for _, s := range usites {
		if s.Fn != pl.done {
			continue
		}
		imp, wit := dcs.Implies(dcs.Reach(s.Instr), dcs.And(dcs.Atom("errnil"), dcs.Atom("cmdUNBIND")))
		c.check(imp, "C01.success-only", "unbindSubConn call", p.ipos(s.Instr), "reached only when the call succeeded and the method's command is UNBIND", "a failed call or a non-UNBIND method can unbind a key: "+wit)
		okKey := originsAll(s.Call.Args[1], func(o Origin) bool { return isRequestKey(o) })
		c.check(okKey, "C01.args", "unbind key", p.ipos(s.Instr), "key is the request key extracted at pick time (or empty)", "unbound key is not the request's key: "+originStrings(origins(s.Call.Args[1])))
	}

	// "configured" is stated over the method table: every configured method must be in it, with its own entry's section
	importPremises(c, w, "C17", checkC17, []string{"C17.methods"}, "C01.config")
	// "its channel is READY / not READY" is read from the state record: it must follow the reports of the slot's connection,
	// also after a completed refresh (the replacement must stop being treated as a replacement in progress)
	importPremises(c, w, "C04", checkC04, []string{"C04.pair", "C04.refresh-complete"}, "C01.states")

	// ---- C01.extract (Pick)
	pAtoms := []atomDef{
		boolAtom("configured", lookupOK("gcpBalancer.methodCfg")),
		boolAtom("hasCtx", hasCtxFlag),
		eqAtom("cmdBOUND", cmdValue, constIs(pl.BOUND)),
		eqAtom("cmdUNBIND", cmdValue, constIs(pl.UNBIND)),
		eqAtom("cmdBIND", cmdValue, constIs(pl.BIND)),
		lenZeroAtom("noSlots", func(v ssa.Value) bool {
			call, ok := stripConv(v).(*ssa.Call)
			return ok && calleeOf(&call.Call).Builtin == "len" && isLoadOf(call.Call.Args[0], "gcpPicker.scRefs")
		}),
	}
	pcs := newCondSpace(pl.pick, recOf(pAtoms...), atomNames(pAtoms...)...)
	pcs.ExclusiveAtoms("cmdBOUND", "cmdUNBIND", "cmdBIND")
	var extr []*ssa.Call
	eachInstr(pl.pick, func(in ssa.Instruction) {
		if call, ok := in.(*ssa.Call); ok && strings.HasSuffix(calleeOf(&call.Call).Name(), ".getAffinityKeysFromMessage") {
			extr = append(extr, call)
		}
	})
	c.floor("C01.extract", len(extr), 1)
	for _, call := range extr {
		// the command tested must be the one of the configured method (no zero default inside the guard)
		want := pcs.And(pcs.Atom("configured"), pcs.Atom("hasCtx"), pcs.Or(pcs.Atom("cmdBOUND"), pcs.Atom("cmdUNBIND")))
		// … past the empty-snapshot guard, if Pick has one; "⇐" is universal: no further condition may prevent the extraction
		if pcs.Seen("noSlots") {
			want = pcs.And(pcs.Not(pcs.Atom("noSlots")), want)
		}
		eq, wit := pcs.EquivStrict(pcs.Reach(call), want)
		c.check(eq, "C01.extract", "request key extraction: condition", p.ipos(call), "performed ⇔ method configured ∧ interceptor context present ∧ command ∈ {BOUND, UNBIND}", "request key is not extracted exactly for configured BOUND/UNBIND calls: "+wit)
		f, base, isL := loadedField(call.Call.Args[1])
		locOK := false
		{
			n := 0
			all := originsAll(call.Call.Args[0], func(o Origin) bool {
				if isCallOrigin(o, ".GetAffinityKey") {
					n++
					return true
				}
				return o.Kind == "zero" || isZeroConstOrigin(o) // the variable's initial value (unconfigured method)
			})
			locOK = all && n > 0
		}
		c.check(isL && f == "gcpContext.reqMsg" && gcpCtxValue(base) && locOK, "C01.extract", "request key extraction: arguments", p.ipos(call), "key path of the configured method applied to this call's request message", "extraction does not use the method's key path on the request message")
	}
	if len(gcalls) == 1 {
		okKey := originsAll(gcalls[0].Call.Args[2], isRequestKey)
		c.check(okKey, "C01.extract", "key handed to placement", p.ipos(gcalls[0]), "bound key is \"\" or the first extracted request key", "placement is asked for a key that is not the request's: "+originStrings(origins(gcalls[0].Call.Args[2])))
		cmdOK := cmdValue(gcalls[0].Call.Args[3])
		c.check(cmdOK, "C01.extract", "command handed to placement", p.ipos(gcalls[0]), "command is the configured method's command", "placement is given a command that is not the method's")
	}

	lookupRules(pl, grs, gsr, func(r string) string { return r })

	// ---- C01.retire
	pl.checkRetire("C01.retire", func(field string) bool { return true })
}

// lookupRules: the bound-key lookup (getReadySubConnRef) and its use by getSubConnRef. Shared by C01 (a bound key
// goes home) and C02 (a key that is NOT in the key table is load-balanced: it must never be reported as known).
func lookupRules(pl *pool, grs, gsr *ssa.Function, R func(string) string, strict ...bool) {
	c, p := pl.c, pl.p
	lookupAlways := len(strict) > 0 && strict[0]
	// ---- C01.lookup (getReadySubConnRef)
	key := grs.Params[1]
	isHome := func(v ssa.Value) bool { // the connection the key is bound to
		e, ok := stripConv(v).(*ssa.Extract)
		if !ok || e.Index != 0 {
			return false
		}
		l, ok := e.Tuple.(*ssa.Lookup)
		return ok && isLoadOf(l.X, "gcpBalancer.affinityMap") && l.Index == ssa.Value(key)
	}
	homeState := func(v ssa.Value) bool {
		l, ok := stripConv(v).(*ssa.Lookup)
		return ok && isLoadOf(l.X, "gcpBalancer.scStates") && isHome(l.Index)
	}
	gAtoms := []atomDef{
		boolAtom("keyFound", func(v ssa.Value) bool {
			e, ok := stripConv(v).(*ssa.Extract)
			if !ok || e.Index != 1 {
				return false
			}
			l, ok := e.Tuple.(*ssa.Lookup)
			return ok && l.CommaOk && isLoadOf(l.X, "gcpBalancer.affinityMap") && l.Index == ssa.Value(key)
		}),
		eqAtom("homeReady", homeState, constIs(pl.Ready)),
		boolAtom("fallback", callTo(".GetFallbackToReady")),
	}
	gcs := newCondSpace(grs, recOf(gAtoms...), atomNames(gAtoms...)...)
	KF, HR, FB := gcs.Atom("keyFound"), gcs.Atom("homeReady"), gcs.Atom("fallback")
	homeRet := gcs.False()
	nret := 0
	type lret struct {
		ret   *ssa.Return
		cond  Bits
		slot  ssa.Value
		found int // 1 true, 0 false, -1 undecidable
	}
	var lrets []lret
	for _, vr := range gcs.VirtualReturns() {
		// (a return of values merged from several branches is split per way of arriving)
		isConst := func(want string) bool {
			ok, _ := allOrigins(vr.Vals[1], func(o Origin) bool {
				return o.Kind == "const" && o.Val.(*ssa.Const).Value != nil && o.Val.(*ssa.Const).Value.String() == want
			})
			return ok
		}
		switch {
		case isConst("true"):
			lrets = append(lrets, lret{vr.Ret, vr.Cond, vr.Vals[0], 1})
		case isConst("false"):
			lrets = append(lrets, lret{vr.Ret, vr.Cond, vr.Vals[0], 0})
		default:
			// the flag is a computed value (typically the comma-ok flag of the key lookup itself, returned through a named
			// result): the exit is split into the ways on which it is true and those on which it is false
			if fv, ok := gcs.EvalValue(vr.Vals[1]); ok {
				if t := and(vr.Cond, fv); gcs.Satisfiable(t) {
					lrets = append(lrets, lret{vr.Ret, t, vr.Vals[0], 1})
				}
				if f := and(vr.Cond, gcs.Not(fv)); gcs.Satisfiable(f) {
					lrets = append(lrets, lret{vr.Ret, f, vr.Vals[0], 0})
				}
			} else {
				lrets = append(lrets, lret{vr.Ret, vr.Cond, vr.Vals[0], -1})
			}
		}
	}
	for i, lr := range lrets {
		nret++
		r := lr.ret
		construct := fmt.Sprintf("getReadySubConnRef return#%d", i+1)
		reach := lr.cond
		foundTrue, foundFalse := lr.found == 1, lr.found == 0
		v, onlyNil, ok := slotOrigin(lr.slot)
		switch {
		case !ok || (!foundTrue && !foundFalse):
			c.undecided(R("C01.lookup"), construct, p.ipos(r), "result has mixed origins: "+originStrings(origins(lr.slot)))
		case foundFalse:
			imp, wit := gcs.Implies(reach, gcs.Not(KF))
			c.check(imp && onlyNil, R("C01.lookup"), construct, p.ipos(r), "reports 'not bound' only when the key is not in the table, with no slot", "a bound key can be reported as unknown (the call would then be load-balanced): "+wit)
		case onlyNil:
			imp, wit := gcs.Implies(reach, gcs.And(KF, gcs.Not(HR)))
			c.check(imp, R("C01.lookup"), construct, p.ipos(r), "bound key, no slot (caller is told to wait): only when the home channel is not READY", "a bound key whose channel is READY can be refused: "+wit)
		default:
			l, isLk := stripConv(v).(*ssa.Lookup)
			if isLk && isLoadOf(l.X, "gcpBalancer.scRefs") && isHome(l.Index) {
				imp, wit := gcs.Implies(reach, gcs.And(KF, HR))
				homeRet = or(homeRet, reach)
				c.check(imp, R("C01.lookup"), construct, p.ipos(r), "returns the home slot scRefs[affinityMap[key]] only when that channel is READY", "the home slot can be returned while its channel is not READY: "+wit)
			} else {
				imp, wit := gcs.Implies(reach, gcs.And(KF, gcs.Not(HR), FB))
				c.check(imp, R("C01.lookup"), construct, p.ipos(r), "returns another slot only for a bound key whose home is not READY and with fallback enabled", "a bound key can be placed on a different channel while its channel is READY or with fallback disabled: "+wit)
			}
		}
	}
	c.floor(R("C01.lookup"), nret, 3)
	eq, wit := gcs.EquivStrict(homeRet, gcs.OnlyNamed(gcs.And(KF, HR)))
	c.check(eq, R("C01.lookup"), "getReadySubConnRef: home slot ⇔ bound ∧ READY", p.pos(grs.Pos()), "whenever the key is bound and its channel READY the home slot is returned", "bound key with a READY channel is not always given its home slot: "+wit)

	// ---- C01.bound-first (getSubConnRef)
	grsCalls := pl.callsIn(gsr, grs)
	lb := pl.f("(*gcpPicker).getLeastBusySubConnRef")
	if len(grsCalls) == 1 && lb != nil {
		g := grsCalls[0]
		sAtoms := []atomDef{
			eqAtom("keyEmpty", isVal(gsr.Params[1]), func(v ssa.Value) bool { s, ok := constString(v); return ok && s == "" }),
			boolAtom("found", func(v ssa.Value) bool { return isExtractOf(stripConv(v), g, 1) }),
		}
		scs := newCondSpace(gsr, recOf(sAtoms...), atomNames(sAtoms...)...)
		for _, call := range pl.callsIn(gsr, lb) {
			imp, wit := scs.Implies(scs.Reach(call), scs.Or(scs.Atom("keyEmpty"), scs.Not(scs.Atom("found"))))
			c.check(imp, R("C01.bound-first"), "getSubConnRef: least-busy selection", p.ipos(call), "load-based selection only for calls without a key or with an unknown key", "a bound key can be load-balanced regardless of its binding: "+wit)
		}
		imp, wit := scs.Implies(scs.Reach(g), scs.Not(scs.Atom("keyEmpty")))
		if lookupAlways && imp {
			// (fallback stickiness) no shortcut may serve a keyed call without consulting — and updating — the balancer's tables
			imp, wit = scs.EquivStrict(scs.Reach(g), scs.Not(scs.Atom("keyEmpty")))
		}
		c.check(imp && g.Call.Args[1] == ssa.Value(gsr.Params[1]), R("C01.bound-first"), "getSubConnRef: bound lookup", p.ipos(g), "every non-empty key is looked up first, with the caller's key", "bound lookup skipped or performed with another key: "+wit)
		for i, r := range returnsOf(gsr) {
			if mayPrecede(g, r) {
				if v, onlyNil, ok := slotOrigin(r.Results[0]); ok && !onlyNil && isExtractOf(v, g, 0) {
					imp, _ := scs.Implies(scs.Reach(r), scs.Atom("found"))
					c.check(imp, R("C01.bound-first"), fmt.Sprintf("getSubConnRef return#%d", i+1), p.ipos(r), "the bound slot is returned exactly as found", "bound slot returned although the key was not found")
				}
			}
		}
		// the reverse: found ⇒ that return (no fall-through to load-based selection) is the first check above
	} else {
		c.fail(R("C01.bound-first"), "getSubConnRef: bound lookup", p.pos(gsr.Pos()), "expected exactly one getReadySubConnRef call in getSubConnRef")
	}

}

// isRequestKey: origin is "" or element 0 of getAffinityKeysFromMessage(locator, gcpCtx.reqMsg).
func isRequestKey(o Origin) bool {
	if s, ok := constString(o.Val); ok && s == "" {
		return true
	}
	if o.Kind == "zero" {
		return true // the zero value of the string variable that holds the key
	}
	if o.Kind == "param" && o.Val.Name() == "boundKey" {
		return true
	}
	u, ok := o.Val.(*ssa.UnOp)
	if !ok {
		return false
	}
	ia, ok := u.X.(*ssa.IndexAddr)
	if !ok {
		return false
	}
	if i, isC := constInt(ia.Index); !isC || i != 0 {
		return false
	}
	e, ok := ia.X.(*ssa.Extract)
	if !ok || e.Index != 0 {
		return false
	}
	call, ok := e.Tuple.(*ssa.Call)
	if !ok || !strings.HasSuffix(calleeOf(&call.Call).Name(), ".getAffinityKeysFromMessage") {
		return false
	}
	f, base, ok := loadedField(call.Call.Args[1])
	return ok && f == "gcpContext.reqMsg" && gcpCtxValue(base)
}

// checkRetire: at the refresh swap (the point that retires a connection identity), every gcpBalancer
// table whose key or value type is balancer.SubConn is re-keyed old→new or purged of old, in the swap region.
func (pl *pool) checkRetire(rule string, want func(field string) bool) {
	c, p := pl.c, pl.p
	cs := pl.uscsSpace()
	if cs == nil {
		return
	}
	swap := cs.And(cs.Atom("found"), cs.Atom("sReady"))
	inSwap := func(in ssa.Instruction) bool {
		imp, _ := cs.Implies(cs.ForgetLoopVars(cs.Reach(in)), swap)
		return imp && cs.Satisfiable(cs.Reach(in))
	}
	sc := param(pl.uscs, 1)
	// old identity: loads of <slot>.subConn in the swap region that precede the store slot.subConn = sc
	var subStore *ssa.Store
	for _, a := range pl.ai.ByFn[pl.uscs] {
		if a.Field == "subConnRef.subConn" && a.What == "store" {
			subStore = a.Instr.(*ssa.Store)
		}
	}
	if subStore == nil || subStore.Val != ssa.Value(sc) || !inSwap(subStore) {
		c.fail(rule, "swap: slot.subConn = new", p.pos(pl.uscs.Pos()), "the refresh swap does not store the replacement connection into the slot")
		return
	}
	isOld := func(v ssa.Value) bool {
		ld, ok := stripConv(v).(*ssa.UnOp)
		return ok && isLoadOf(ld, "subConnRef.subConn") && dominatesInstr(ld, subStore)
	}
	_, st := p.namedStruct("grpcgcp", "gcpBalancer")
	if st == nil {
		c.fail("engine.anchor", "type gcpBalancer", "-", "struct not found")
		return
	}
	isSubConn := func(t types.Type) bool { return strings.HasSuffix(shortType(t), "balancer.SubConn") }
	ntab := 0
	for i := 0; i < st.NumFields(); i++ {
		m, ok := st.Field(i).Type().Underlying().(*types.Map)
		if !ok || (!isSubConn(m.Key()) && !isSubConn(m.Elem())) {
			continue
		}
		field := "gcpBalancer." + st.Field(i).Name()
		if !want(field) {
			continue
		}
		ntab++
		construct := "swap maintains " + field
		done, how := false, ""
		for _, a := range pl.ai.ByFn[pl.uscs] {
			if a.Field != field || !a.isWrite() || !inSwap(a.Instr) {
				continue
			}
			if isSubConn(m.Key()) {
				if call, ok := a.Instr.(*ssa.Call); ok && a.What == "map-delete" {
					k := call.Call.Args[1]
					if isOld(k) || k == ssa.Value(sc) {
						done, how = true, "delete("+lastDot(field)+", "+vstr(k)+")"
					}
				}
			} else {
				// value-typed table: inside a range over the same table, guarded by value == old
				var nx *ssa.Next
				switch x := a.Instr.(type) {
				case *ssa.MapUpdate:
					if e, ok := x.Key.(*ssa.Extract); ok {
						nx, _ = e.Tuple.(*ssa.Next)
					}
					if x.Value != ssa.Value(sc) {
						nx = nil
					}
				case *ssa.Call:
					if e, ok := x.Call.Args[1].(*ssa.Extract); ok {
						nx, _ = e.Tuple.(*ssa.Next)
					}
				}
				if nx == nil {
					continue
				}
				rng, _ := nx.Iter.(*ssa.Range)
				if rng == nil || !isLoadOf(rng.X, field) {
					continue
				}
				// the entry's value: the scan's value, or the table read under the scan's key
				isV := (&rangeLoop{Next: nx, Range: rng}).val
				rcs := newCondSpace(pl.uscs, recOf(eqAtom("isOld", isV, isOld)), "isOld")
				if imp, _ := rcs.Implies(rcs.Reach(a.Instr), rcs.Atom("isOld")); imp && rcs.Seen("isOld") {
					// and every entry with value old is handled: the loop body reaches this update whenever value == old
					if eq, _ := rcs.Implies(and(rcs.ReachBlock(nx.Block().Succs[0]), rcs.Atom("isOld")), rcs.Reach(a.Instr)); eq {
						done, how = true, "range over "+lastDot(field)+": entries whose value is the old connection are re-keyed/purged"
					}
				}
			}
		}
		if done {
			c.ok(rule, construct, p.ipos(subStore), how)
		} else {
			c.fail(rule, construct, p.ipos(subStore), fmt.Sprintf("table %s is indexed by connection identity but the refresh swap neither re-keys nor purges the retired connection: entries keep pointing at the removed connection", field))
		}
	}
	c.floor(rule, ntab, 1)
}
