package main

import (
	"fmt"
	"strings"

	"golang.org/x/tools/go/ssa"
)

// C14 — MultiEndpoint: recovery window, switching delay and convergence.
func checkC14(c *Ctx, w *World) {
	c.Explanation = "Structural analysis of the timer-driven part of the MultiEndpoint state machine: endpoint status changes only through setState (which stops the " +
		"pending timer, stores the status and stamps the change time on every path), timer callbacks take the write lock first and the recovery callback re-validates " +
		"its captured stamp before acting (outdated timers are no-ops), a recovery timer is scheduled only from the available→recovering transition (never re-scheduled by " +
		"repeated unavailable reports), an availability report always reaches setState(available), the immediate/delayed switch decision as an exact truth table, and " +
		"every assignment of current is justified within its own critical section (a target remembered from an earlier critical section is not a justification)."
	c.RuleText = "one obligation per writer / timer closure / scheduling site / switch branch / current-store; non-trivial = needed a truth-table equivalence, path or provenance argument"
	c.Assumptions = []string{"window lengths, the order of simultaneously due timers and convergence at quiescence are liveness/timing statements outside this family"}
	c.Trusted = []string{"go/types", "golang.org/x/tools/go/ssa v0.29.0"}
	m := newME(c, w)
	if m == nil {
		return
	}
	p := m.p

	statusRules(m, c, func(r string) string { return r })

	delayRules(m, c, func(r string) string { return r })

	// ---- C14.identity: pending timers hold *endpoint pointers: the table must keep the very objects the timers were armed
	// for (never copies), i.e. table values are only ever fresh newEndpoint results stored under their own id (C13.member),
	// and the table is written only by its two builders
	importPremises(c, w, "C13", checkC13, []string{"C13.member", "C13.nonempty"}, "C14.identity")
	// convergence is to "the highest-priority available endpoint": what a re-evaluation decides is C13's decision table
	importPremises(c, w, "C13", checkC13, []string{"C13.decision", "C13.fallback-first"}, "C14.decision")

	// ---- C14.converge: the last input (report, list replacement, recovery timer) re-evaluates current before it returns
	reevalRules(m, c, func(string) string { return "C14.converge" })

	// ---- C14.revalidate: every store to current is justified in its own critical section
	for _, fn := range []*ssa.Function{m.muc, m.sft, m.delayed} {
		for _, a := range m.ai.ByFn[fn] {
			if a.Field != "multiEndpoint.current" || a.What != "store" {
				continue
			}
			st := a.Instr.(*ssa.Store)
			construct := fmt.Sprintf("current-store in %s", fname(fn))
			just, why := justifiedStore(m, fn, st)
			if just {
				c.ok("C14.revalidate", construct, p.ipos(st), why)
			} else {
				c.fail("C14.revalidate", construct, p.ipos(st), why)
			}
		}
	}
	delayedSwitchRule(m, c, func(r string) string { return r })
}

// delayRules: the immediate / delayed decision of switchFromTo as exact truth tables. Shared by C14 (switching delay)
// and C13 ("when the current endpoint is known to be unavailable or gone, Current() is the top available endpoint when
// the triggering call returns": the immediate branch must be taken then, whatever else is pending).
func delayRules(m *mectx, c *Ctx, R func(string) string) {
	p := m.p
	// ---- C14.delay (switchFromTo)
	f, t := m.sft.Params[1], m.sft.Params[2]
	atoms := []atomDef{
		eqAtom("alreadyCurrent", loadOf("multiEndpoint.current"), func(v ssa.Value) bool {
			fl, b, ok := loadedField(v)
			return ok && fl == "endpoint.id" && b == ssa.Value(t)
		}),
		eqAtom("noDelay", loadOf("multiEndpoint.switchingDelay"), constIs(0)),
		eqAtom("fromNil", isVal(f), isNil),
		eqAtom("fromUnavailable", statusOf(isVal(f)), constIs(m.unavailable)),
		eqAtom("fromAvailable", statusOf(isVal(f)), constIs(m.available)),
		eqAtom("fromRecovering", statusOf(isVal(f)), constIs(m.recovering)),
	}
	cs := newCondSpace(m.sft, recOf(atoms...), atomNames(atoms...)...)
	cs.ExactlyOne("fromUnavailable", "fromAvailable", "fromRecovering") // closed domain: C14.status "endpoint.status domain"
	A := cs.Atom
	immediate := cs.And(cs.Not(A("alreadyCurrent")), cs.Or(A("noDelay"), A("fromNil"), A("fromUnavailable")))
	nim, ndl := 0, 0
	for _, a := range m.ai.ByFn[m.sft] {
		if a.Field == "multiEndpoint.current" && a.What == "store" {
			nim++
			eq, wit := cs.EquivStrict(cs.Reach(a.Instr), immediate)
			c.check(eq, R("C14.delay"), "switchFromTo: immediate switch", p.ipos(a.Instr), "current changes inside the triggering call ⇔ target differs ∧ (no delay configured ∨ no current endpoint ∨ current is unavailable)", "an immediate switch away from an available/recovering endpoint is possible although a delay is configured (or a due switch is not immediate): "+wit)
		}
	}
	eachInstr(m.sft, func(in ssa.Instruction) {
		if call, ok := in.(*ssa.Call); ok && isTimeAfterFunc(&call.Call) {
			ndl++
			eq, wit := cs.EquivStrict(cs.Reach(call), cs.And(cs.Not(A("alreadyCurrent")), cs.Not(cs.Or(A("noDelay"), A("fromNil"), A("fromUnavailable")))))
			c.check(eq && isLoadOf(call.Call.Args[0], "multiEndpoint.switchingDelay"), R("C14.delay"), "switchFromTo: delayed switch", p.ipos(call), "a timer of switchingDelay is armed exactly in the complementary case", "the delayed switch is not armed exactly when the immediate one is not taken: "+wit)
		}
	})
	c.floor(R("C14.delay"), nim+ndl, 2)

}

// statusDomainClosed: all stores to endpoint.status hold one of the three status constants.
func statusDomainClosed(m *mectx) bool {
	isStatusConst := func(v ssa.Value) bool {
		k, ok := constInt(v)
		return ok && (k == m.unavailable || k == m.available || k == m.recovering)
	}
	n := 0
	for _, a := range m.ai.ByField["endpoint.status"] {
		if !a.isWrite() {
			continue
		}
		st, ok := a.Instr.(*ssa.Store)
		if !ok {
			return false
		}
		n++
		for _, o := range origins(st.Val) {
			if prm, isP := o.Val.(*ssa.Parameter); isP && prm.Parent() == m.setState {
				for _, g := range m.p.Funcs {
					for _, call := range m.callsIn(g, m.setState) {
						// every value the argument can have where the call is reached: a status constant, or a status read
						// from an endpoint (inside the domain already)
						gcs := newCondSpace(g, nil)
						for _, av := range gcs.ResolveUnder(call.Call.Args[1], gcs.Reach(call)) {
							if isStatusConst(av) {
								continue
							}
							if f, _, isL := loadedField(av); isL && f == "endpoint.status" {
								continue
							}
							return false
						}
					}
				}
				continue
			}
			if !isStatusConst(o.Val) {
				return false
			}
		}
	}
	return n >= 2
}

// delayedSwitchRule: the delayed-switch timer moves current only to its still-present, still-available target, and never
// from a present current endpoint that is available or recovering to a lower-priority one (exact reaching condition
// over the closure's own lookups; the status domain is closed by C14.status).
func delayedSwitchRule(m *mectx, c *Ctx, R func(string) string) {
	p, fn := m.p, m.delayed
	var lkF, lkC *ssa.Lookup
	eachInstr(fn, func(in ssa.Instruction) {
		if l, ok := in.(*ssa.Lookup); ok && l.CommaOk && isLoadOf(l.X, "multiEndpoint.endpoints") {
			if isLoadOf(l.Index, "multiEndpoint.future") {
				lkF = l
			}
			if isLoadOf(l.Index, "multiEndpoint.current") {
				lkC = l
			}
		}
	})
	var stores []*ssa.Store
	for _, a := range m.ai.ByFn[fn] {
		if a.Field == "multiEndpoint.current" && a.What == "store" {
			stores = append(stores, a.Instr.(*ssa.Store))
		}
	}
	if len(stores) == 0 {
		return // the closure delegates the decision (covered by C13.writers / C14.revalidate)
	}
	if lkF == nil || lkC == nil {
		c.fail(R("C14.revalidate"), "delayed switch: decision", p.pos(fn.Pos()), "the delayed-switch timer stores current without looking up both its target and the current endpoint in its own critical section")
		return
	}
	// the looked-up element, also after it went through a helper's result variable (a merge whose other ways carry nil:
	// a use of the merged value on such a way would be a nil dereference, which is C05's business, not a wrong switch)
	elemOf := func(lk *ssa.Lookup) func(v ssa.Value) bool {
		var is func(v ssa.Value, d int) bool
		is = func(v ssa.Value, d int) bool {
			v = cellValue(v)
			if isExtractOf(v, lk, 0) {
				return true
			}
			ph, ok := v.(*ssa.Phi)
			if !ok || d > 3 {
				return false
			}
			some := false
			for _, e := range ph.Edges {
				if isNilConst(e) {
					continue
				}
				if !is(e, d+1) {
					return false
				}
				some = true
			}
			return some
		}
		return func(v ssa.Value) bool { return is(v, 0) }
	}
	isF, isC := elemOf(lkF), elemOf(lkC)
	atoms := []atomDef{
		boolAtom("targetPresent", func(v ssa.Value) bool { return isExtractOf(stripConv(v), lkF, 1) }),
		boolAtom("curPresent", func(v ssa.Value) bool { return isExtractOf(stripConv(v), lkC, 1) }),
		eqAtom("targetAvailable", statusOf(isF), constIs(m.available)),
		eqAtom("targetUnavailable", statusOf(isF), constIs(m.unavailable)),
		eqAtom("targetRecovering", statusOf(isF), constIs(m.recovering)),
		eqAtom("curAvailable", statusOf(isC), constIs(m.available)),
		eqAtom("curUnavailable", statusOf(isC), constIs(m.unavailable)),
		eqAtom("curRecovering", statusOf(isC), constIs(m.recovering)),
		ltAtom("curBetter", prioOf(isC), prioOf(isF)),
	}
	cs := newCondSpace(fn, recOf(atoms...), atomNames(atoms...)...)
	if cs.err != "" {
		c.undecided(R("C14.revalidate"), "delayed switch: decision", p.pos(fn.Pos()), cs.err)
		return
	}
	cs.ExactlyOne("targetAvailable", "targetUnavailable", "targetRecovering")
	cs.ExactlyOne("curAvailable", "curUnavailable", "curRecovering")
	A := cs.Atom
	for _, st := range stores {
		reach := cs.Reach(st)
		fld, tgt, _ := loadedField(st.Val)
		isTarget := tgt != nil && fld == "endpoint.id" && isF(tgt)
		if !isTarget {
			// the key under which the target was just found stands for the target's id (ids = keys: C13.member)
			ensureEquiv(fn)
			isTarget = kstr(st.Val) == kstr(lkF.Index) && dominatesInstr(lkF, st)
		}
		imp1, w1 := cs.Implies(reach, cs.And(A("targetPresent"), A("targetAvailable")))
		c.check(imp1 && isTarget, R("C14.revalidate"), "delayed switch: target still present and available", p.ipos(st),
			"the timer moves current only to its target, and only if that is still in the table and available now", "the delayed switch can move current to a target that was removed or is no longer available: "+w1)
		imp2, w2 := cs.Implies(cs.And(reach, A("curPresent"), A("curBetter")), A("curUnavailable"))
		c.check(imp2, R("C14.revalidate"), "delayed switch: never down from a usable endpoint", p.ipos(st),
			"current moves to a lower-priority target only when the current endpoint is gone or unavailable (not while it is available or still recovering)",
			"an outdated delayed switch can move current from an endpoint that is available or still inside its recovery window to a lower-priority one: "+w2)
	}
}

// justifiedStore: the value stored into current is, within the same critical section, (a) the top(-available)
// endpoint computed by a range over the table, or (b) compared by priority with the current endpoint, or
// (c) stored only when the current endpoint is missing or unavailable. For a function that receives the
// target as a parameter the justification is looked up at its call sites.
func justifiedStore(m *mectx, fn *ssa.Function, st *ssa.Store) (bool, string) {
	fld, base, ok := loadedField(st.Val)
	if !ok || fld != "endpoint.id" {
		// the key of a successful lookup in this critical section stands for that lookup's element
		ensureEquiv(fn)
		var via *ssa.Lookup
		eachInstr(fn, func(in ssa.Instruction) {
			if lk, isL := in.(*ssa.Lookup); isL && lk.CommaOk && isLoadOf(lk.X, "multiEndpoint.endpoints") && kstr(lk.Index) == kstr(st.Val) && dominatesInstr(lk, st) {
				via = lk
			}
		})
		if via == nil {
			return false, "stored value is neither an endpoint id nor the key of a lookup made in this critical section"
		}
		for _, r := range *via.Referrers() {
			if e, isE := r.(*ssa.Extract); isE && e.Index == 0 {
				base = e
			}
		}
		if base == nil {
			return false, "lookup result unused"
		}
	}
	for _, o := range origins(base) {
		if isConstNilOrigin(o) {
			continue
		}
		if _, isP := o.Val.(*ssa.Parameter); isP {
			// switchFromTo(f, t): called only from maybeUpdateCurrent with t = top available endpoint of the same critical section
			for _, g := range m.p.Funcs {
				for _, call := range m.callsIn(g, fn) {
					for _, ao := range origins(call.Call.Args[2]) {
						if isConstNilOrigin(ao) {
							continue
						}
						if k, _, isT := tableElem(ao.Val); !isT || k != "range" {
							return false, "target passed by " + fname(g) + " is not computed by a scan of the table in that critical section"
						}
					}
				}
			}
			continue
		}
		kind, lk, isT := tableElem(o.Val)
		if !isT {
			return false, "stored endpoint does not come from the table: " + o.String()
		}
		if kind == "range" {
			continue // (a)
		}
		// lookup by a remembered name: needs (b) or (c) in this function
		keyIsFuture := isLoadOf(lk.Index, "multiEndpoint.future")
		if keyIsFuture && fn == m.delayed {
			continue // the delayed-switch timer: its exact condition is decided by delayedSwitchRule (both re-validation obligations)
		}
		// (b): a priority comparison between this endpoint and the current endpoint on the path
		cmp := false
		eachInstr(fn, func(in ssa.Instruction) {
			bo, isB := in.(*ssa.BinOp)
			if !isB {
				return
			}
			px := prioOf(func(v ssa.Value) bool { return isExtractOf(stripConv(v), lk, 0) })
			// (the exact condition under which the store may happen is decided by delayedSwitchRule; here: the comparison is made
			// in this critical section, on the way to the store)
			if (px(bo.X) || px(bo.Y)) && (dominatesInstr(bo, st) || mayPrecede(bo, st)) {
				cmp = true
			}
		})
		// (c): the current endpoint is looked up and found missing/unavailable on the path
		cur := false
		eachInstr(fn, func(in ssa.Instruction) {
			if l2, isL := in.(*ssa.Lookup); isL && isLoadOf(l2.X, "multiEndpoint.endpoints") && isLoadOf(l2.Index, "multiEndpoint.current") && dominatesInstr(l2, st) {
				cur = true
			}
		})
		if !cmp && !cur {
			if keyIsFuture {
				return false, "the delayed-switch timer moves current to the target remembered in 'future' after checking only that it still exists and is available: it neither compares priorities with the current endpoint nor checks that the current endpoint is missing/unavailable in this critical section (a re-prioritising SetEndpoints in between makes it move from an available endpoint to a lower-priority one)"
			}
			return false, "current is set to an endpoint looked up by name without re-validating the decision in this critical section"
		}
	}
	return true, "value is justified inside the critical section that stores it (top-available scan, priority comparison, or current missing/unavailable)"
}

// statusRules: the endpoint status variable changes only through the specified transitions (shared by C13, whose
// decision clauses are stated over "available / recovering / known unavailable", and C14). R maps the rule names.
func statusRules(m *mectx, c *Ctx, R func(string) string) {
	p := m.p
	// ---- C14.status
	m.whoMayWrite(R("C14.status"), "endpoint.status", map[string][]string{fname(m.setState): {"store"}})
	m.whoMayWrite(R("C14.status"), "endpoint.lastChange", map[string][]string{fname(m.setState): {"store"}})
	m.whoMayWrite(R("C14.status"), "endpoint.futureChange", map[string][]string{fname(m.sched): {"store"}})
	e, s := m.setState.Params[0], m.setState.Params[1]
	var stStore, tsStore *ssa.Store
	var stopCall *ssa.Call
	for _, a := range m.ai.ByFn[m.setState] {
		if a.What == "store" && a.Base == ssa.Value(e) {
			st := a.Instr.(*ssa.Store)
			if a.Field == "endpoint.status" && st.Val == ssa.Value(s) {
				stStore = st
			}
			if a.Field == "endpoint.lastChange" && isTimeNowVar(st.Val) {
				tsStore = st
			}
		}
	}
	eachInstr(m.setState, func(in ssa.Instruction) {
		if call, ok := in.(*ssa.Call); ok && call.Call.IsInvoke() && call.Call.Method.Name() == "Stop" {
			if f, base, isL := loadedField(call.Call.Value); isL && f == "endpoint.futureChange" && base == ssa.Value(e) {
				stopCall = call
			}
		}
	})
	okSS := stStore != nil && tsStore != nil && stopCall != nil
	if okSS {
		for _, r := range returnsOf(m.setState) {
			if !dominatesInstr(stStore, r) || !dominatesInstr(tsStore, r) {
				okSS = false
			}
		}
		cs := newCondSpace(m.setState, recOf(eqAtom("noTimer", func(v ssa.Value) bool {
			f, b, ok := loadedField(v)
			return ok && f == "endpoint.futureChange" && b == ssa.Value(e)
		}, isNil)), "noTimer")
		// Stop is skipped only when there is no timer
		acs := newCondSpaceAvoid(m.setState, recOf(eqAtom("noTimer", func(v ssa.Value) bool {
			f, b, ok := loadedField(v)
			return ok && f == "endpoint.futureChange" && b == ssa.Value(e)
		}, isNil)), map[*ssa.BasicBlock]bool{stopCall.Block(): true}, "noTimer")
		_ = cs
		if imp, _ := acs.Implies(acs.Reach(stStore), acs.Atom("noTimer")); !imp {
			okSS = false
		}
		if !dominatesOrBefore(stopCall, stStore) {
			okSS = false
		}
	}
	c.check(okSS, R("C14.status"), "setState: stop, store, stamp", p.pos(m.setState.Pos()), "on every path a pending timer is stopped (skipped only when none exists), then the status is stored and lastChange stamped with timeNow()", "setState does not stop the pending timer, store the status and stamp the change time on every path")
	// status changes go through setState only: callers
	m.whoMayCall(R("C14.status"), m.setState, fname(m.seaInner), fname(m.recovery))

	// ---- C14.outdated
	for _, cl := range []*ssa.Function{m.delayed, m.recovery} {
		first := true
		var lockIns ssa.Instruction
		for _, in := range cl.Blocks[0].Instrs {
			if cc := callCommon(in); cc != nil {
				if op, ok := m.lf.lockOpOf(cc); ok && op.kind == "Lock" && op.lock == "multiEndpoint.RWMutex" {
					if _, isDefer := in.(*ssa.Defer); !isDefer {
						lockIns = in
						break
					}
				}
				first = false
			}
		}
		okAcc := lockIns != nil && first
		for _, a := range m.ai.ByFn[cl] {
			if a.Mode == "L" || a.Field == "multiEndpoint.RWMutex" {
				continue
			}
			if m.lf.HeldAt(a.Instr)["multiEndpoint.RWMutex"] != 2 {
				okAcc = false
			}
		}
		c.check(okAcc, R("C14.outdated"), fname(cl)+": locks first", p.pos(cl.Pos()), "the timer callback takes the write lock before touching any state", "timer callback accesses state before/without taking the write lock")
	}
	// the recovery closure acts only if lastChange still equals the stamp captured at scheduling time
	var capturedStamp *ssa.FreeVar
	for _, fv := range m.recovery.FreeVars {
		if b := freeVarBinding(fv); b != nil {
			if al, ok := b.(*ssa.Alloc); ok {
				sts := storesTo(al)
				if len(sts) == 1 {
					if f, base, isL := loadedField(sts[0].Val); isL && f == "endpoint.lastChange" && originsAll(base, func(o Origin) bool { return o.Val == ssa.Value(m.sched.Params[1]) }) {
						capturedStamp = fv
					}
				}
			}
		}
	}
	isCapturedE := func(v ssa.Value) bool {
		return originsAll(v, func(o Origin) bool { return o.Val == ssa.Value(m.sched.Params[1]) })
	}
	isStampNow := func(v ssa.Value) bool {
		f, base, ok := loadedField(v)
		return ok && f == "endpoint.lastChange" && isCapturedE(base)
	}
	isStampThen := func(v ssa.Value) bool {
		u, ok := stripConv(v).(*ssa.UnOp)
		return ok && capturedStamp != nil && u.X == ssa.Value(capturedStamp)
	}
	rcs := newCondSpace(m.recovery, recOf(eqAtom("stampUnchanged", isStampNow, isStampThen)), "stampUnchanged")
	nss := 0
	for _, call := range m.callsIn(m.recovery, m.setState) {
		nss++
		imp, wit := rcs.Implies(rcs.Reach(call), rcs.Atom("stampUnchanged"))
		stv, isC := constInt(call.Call.Args[1])
		c.check(imp && rcs.Seen("stampUnchanged") && isC && stv == m.unavailable && isCapturedE(call.Call.Args[0]), R("C14.outdated"), "recovery timer: re-validates its stamp", p.ipos(call),
			"the endpoint is marked unavailable only if its lastChange still equals the value captured when the timer was scheduled (any later state change outdates the timer)",
			"an outdated recovery timer can still mark the endpoint unavailable: "+wit)
	}
	c.floor(R("C14.outdated"), nss, 1)

	// ---- C14.no-extend
	sites := m.whoMayCall(R("C14.no-extend"), m.sched, fname(m.newEp), fname(m.seaInner))
	for _, s := range sites {
		switch s.Fn {
		case m.newEp:
			isNew := func(v ssa.Value) bool { al, ok := stripConv(v).(*ssa.Alloc); return ok && al.Parent() == m.newEp }
			cs := newCondSpace(m.newEp, recOf(eqAtom("recovering", statusOf(isNew), constIs(m.recovering))), "recovering")
			imp, wit := cs.Implies(cs.Reach(s.Instr), cs.Atom("recovering"))
			if !imp {
				// the same fact, stated on the value the status is initialised with (the test may be on a local holding it)
				var stored []ssa.Value
				var sts []*ssa.Store
				for _, a := range m.ai.ByFn[m.newEp] {
					if a.Field == "endpoint.status" && a.What == "store" && isNew(a.Base) {
						sts = append(sts, a.Instr.(*ssa.Store))
					}
				}
				for _, st := range sts {
					if !mayPrecede(st, s.Instr) {
						continue
					}
					// a store that another store always follows on the way to the call is dead there
					dead := false
					for _, later := range sts {
						if later != st && mayPrecede(st, later) && !mayPrecede(later, st) && dominatesInstr(later, s.Instr) {
							dead = true
						}
					}
					if !dead {
						stored = append(stored, cs.ResolveUnder(st.Val, cs.Reach(s.Instr))...)
					}
				}
				imp = len(stored) > 0
				for _, v := range stored {
					if k, isC := constInt(v); !isC || k != m.recovering {
						imp = false
					}
				}
			}
			c.check(imp, R("C14.no-extend"), "newEndpoint → scheduleUnavailable", p.ipos(s.Instr), "a new endpoint gets a recovery timer only when it starts as recovering", "timer scheduled for a new endpoint that is not recovering: "+wit)
		case m.seaInner:
			var lk *ssa.Lookup
			eachInstr(m.seaInner, func(in ssa.Instruction) {
				if l, ok := in.(*ssa.Lookup); ok && l.CommaOk && isLoadOf(l.X, "multiEndpoint.endpoints") && l.Index == ssa.Value(m.seaInner.Params[1]) {
					lk = l
				}
			})
			isEE := func(v ssa.Value) bool { return lk != nil && isExtractOf(stripConv(v), lk, 0) }
			atoms := []atomDef{
				boolAtom("known", func(v ssa.Value) bool { return lk != nil && isExtractOf(stripConv(v), lk, 1) }),
				boolAtom("avail", isVal(m.seaInner.Params[2])),
				eqAtom("wasAvailable", statusOf(isEE), constIs(m.available)),
				eqAtom("wasUnavailable", statusOf(isEE), constIs(m.unavailable)),
				eqAtom("wasRecovering", statusOf(isEE), constIs(m.recovering)),
				eqAtom("noRecovery", loadOf("multiEndpoint.recoveryTimeout"), constIs(0)),
			}
			cs := newCondSpace(m.seaInner, recOf(atoms...), atomNames(atoms...)...)
			cs.ExactlyOne("wasAvailable", "wasUnavailable", "wasRecovering") // closed domain: C14.status "endpoint.status domain"
			A := cs.Atom
			imp, wit := cs.Implies(cs.Reach(s.Instr), cs.And(A("known"), cs.Not(A("avail")), A("wasAvailable"), cs.Not(A("noRecovery"))))
			c.check(imp, R("C14.no-extend"), "setEndpointAvailability → scheduleUnavailable", p.ipos(s.Instr), "a recovery timer is scheduled only on the available→recovering transition of a known endpoint with a recovery timeout: repeated unavailable reports schedule nothing", "an unavailable report for an endpoint that is already recovering/unavailable can (re)schedule the recovery timer, extending the window: "+wit)
			// the scheduling is preceded by setState(ee, recovering)
			okPrev := false
			for _, call := range m.callsIn(m.seaInner, m.setState) {
				if !isEE(call.Call.Args[0]) || !mayPrecede(call, s.Instr) {
					continue
				}
				// the state passed where the scheduling is reached (a merged `next` has one concrete value there), on every way to it
				through := dominatesInstr(call, s.Instr)
				if !through {
					through, _ = cs.Implies(cs.Reach(s.Instr), cs.Reach(call))
				}
				vals := cs.ResolveUnder(call.Call.Args[1], cs.Reach(s.Instr))
				if len(vals) != 1 {
					continue
				}
				if v, isC := constInt(vals[0]); through && isC && v == m.recovering {
					okPrev = true
				}
			}
			c.check(okPrev, R("C14.no-extend"), "recovering state set before scheduling", p.ipos(s.Instr), "setState(ee, recovering) dominates the scheduling (the timer captures the fresh stamp)", "timer scheduled without first entering the recovering state")
			// ---- C14.cancel: availability report always reaches setState(ee, available)
			nav := 0
			for _, call := range m.callsIn(m.seaInner, m.setState) {
				// (one setState call whose state argument is merged from several branches counts as one call per state)
				for _, rv := range cs.ResolveWithConds(call.Call.Args[1], cs.Reach(call)) {
					if v, isC := constInt(rv.V); isC && v == m.available {
						nav++
						eq, w2 := cs.EquivStrict(rv.C, cs.And(A("known"), A("avail")))
						c.check(eq && isEE(call.Call.Args[0]), R("C14.cancel"), "setEndpointAvailability: available report", p.ipos(call), "setState(ee, available) ⇔ known endpoint ∧ report says available (pending recovery timer stopped and outdated)", "an availability report does not always mark the endpoint available: "+w2)
					}
					if v, isC := constInt(rv.V); isC && v == m.unavailable {
						eq, w2 := cs.EquivStrict(rv.C, cs.And(A("known"), cs.Not(A("avail")), A("wasAvailable"), A("noRecovery")))
						c.check(eq, R("C14.cancel"), "setEndpointAvailability: immediate unavailable", p.ipos(call), "setState(ee, unavailable) ⇔ known ∧ unavailable report ∧ was available ∧ no recovery timeout", "immediate unavailability is applied under the wrong condition: "+w2)
					}
				}
			}
			c.floor(R("C14.cancel"), nav, 1)
		}
	}
	// the status domain is closed: every value ever stored is one of the three constants
	c.check(statusDomainClosed(m), R("C14.status"), "endpoint.status domain", p.pos(m.setState.Pos()), "every stored status is one of the constants unavailable/available/recovering (setState's argument at all call sites, newEndpoint's literal)", "a status outside {unavailable, available, recovering} can be stored")
	// scheduleUnavailable: timer duration is the recovery timeout, handle stored in futureChange
	okSched := false
	eachInstr(m.sched, func(in ssa.Instruction) {
		if call, ok := in.(*ssa.Call); ok && isTimeAfterFunc(&call.Call) {
			if isLoadOf(call.Call.Args[0], "multiEndpoint.recoveryTimeout") && storedInto(call, "endpoint.futureChange") {
				okSched = true
			}
		}
	})
	c.check(okSched, R("C14.no-extend"), "scheduleUnavailable: timer", p.pos(m.sched.Pos()), "timer of recoveryTimeout whose handle is kept in futureChange (so setState can stop it)", "recovery timer is not armed with the recovery timeout or its handle is dropped")

}

var _ = strings.HasPrefix
