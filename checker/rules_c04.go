package main

import (
	"fmt"
	"go/constant"
	"go/token"
	"go/types"
	"math"
	"strings"

	"golang.org/x/tools/go/ssa"
)

func init() { register("C04", checkC04) }

// uscsAtoms: the rule-level vocabulary for conditions tested in UpdateSubConnState.
func (pl *pool) uscsAtoms() ([]atomDef, *ssa.Store) {
	fn := pl.uscs
	sc, scs := param(fn, 1), param(fn, 2)
	isS := func(v ssa.Value) bool { return scs != nil && paramFieldLoad(v, scs, "SubConnState.ConnectivityState") }
	isOld := func(v ssa.Value) bool {
		e, ok := stripConv(v).(*ssa.Extract)
		if !ok || e.Index != 0 {
			return false
		}
		l, ok := e.Tuple.(*ssa.Lookup)
		return ok && l.CommaOk && isLoadOf(l.X, "gcpBalancer.scStates") && l.Index == sc
	}
	// the store gb.state = recordTransition(...)
	var stateStore *ssa.Store
	eachInstr(fn, func(in ssa.Instruction) {
		if st, ok := in.(*ssa.Store); ok {
			if fa, ok := st.Addr.(*ssa.FieldAddr); ok && fieldRefOfAddr(fa) == "gcpBalancer.state" {
				stateStore = st
			}
		}
	})
	newState := func(v ssa.Value) bool {
		ld, ok := stripConv(v).(*ssa.UnOp)
		return ok && isLoadOf(ld, "gcpBalancer.state") && stateStore != nil && dominatesInstr(stateStore, ld)
	}
	oldState := func(v ssa.Value) bool {
		ld, ok := stripConv(v).(*ssa.UnOp)
		return ok && isLoadOf(ld, "gcpBalancer.state") && stateStore != nil && dominatesInstr(ld, stateStore)
	}
	defs := []atomDef{
		boolAtom("found", lookupOK("gcpBalancer.refreshingScRefs")),
		boolAtom("known", func(v ssa.Value) bool {
			e, ok := stripConv(v).(*ssa.Extract)
			if !ok || e.Index != 1 {
				return false
			}
			l, ok := e.Tuple.(*ssa.Lookup)
			return ok && l.CommaOk && isLoadOf(l.X, "gcpBalancer.scStates") && l.Index == sc
		}),
		eqAtom("sReady", isS, constIs(pl.Ready)),
		eqAtom("sIdle", isS, constIs(pl.Idle)),
		eqAtom("sShutdown", isS, constIs(pl.Shutdown)),
		eqAtom("sConnecting", isS, constIs(pl.Connecting)),
		eqAtom("sTF", isS, constIs(pl.TF)),
		eqAtom("oldReady", isOld, constIs(pl.Ready)),
		eqAtom("sEqOld", isS, isOld),
		eqAtom("newTF", newState, constIs(pl.TF)),
		eqAtom("oldTF", oldState, constIs(pl.TF)),
	}
	return defs, stateStore
}

func (pl *pool) uscsSpace() *CondSpace {
	defs, _ := pl.uscsAtoms()
	cs := newCondSpace(pl.uscs, recOf(defs...), atomNames(defs...)...)
	if cs.err != "" {
		pl.c.undecided("engine.cond", fname(pl.uscs), pl.p.pos(pl.uscs.Pos()), cs.err)
		return nil
	}
	cs.ExclusiveAtoms("sReady", "sIdle", "sShutdown", "sConnecting", "sTF")
	// s == old ∧ oldReady ⇒ sReady ; s == old ∧ sReady ⇒ oldReady
	cs.Univ = and(cs.Univ, cs.Or(cs.Not(cs.And(cs.Atom("sEqOld"), cs.Atom("oldReady"))), cs.Atom("sReady")))
	cs.Univ = and(cs.Univ, cs.Or(cs.Not(cs.And(cs.Atom("sEqOld"), cs.Atom("sReady"))), cs.Atom("oldReady")))
	// s ≠ old ⇒ not both Ready
	cs.Univ = and(cs.Univ, cs.Or(cs.Atom("sEqOld"), cs.Not(cs.And(cs.Atom("sReady"), cs.Atom("oldReady")))))
	return cs
}

// C04 — Channel state: published state and picker always match the pool.
func checkC04(c *Ctx, w *World) {
	c.Explanation = "Structural analysis of the aggregate-state bookkeeping: who writes the per-connection state map and the three counters, " +
		"pairing of every state-map effect with exactly one evaluator call on the same path with the matching old/new arguments, " +
		"the evaluator's decision list (READY > CONNECTING > TRANSIENT_FAILURE) and counter/state agreement, the error-picker condition, " +
		"the 4-atom publish condition as an exact truth table, and that the published pair is the freshly computed one. " +
		"Reaching conditions are exact boolean functions over the conditions tested by the function (truth-table bitsets)."
	c.RuleText = "one obligation per writer/call site/return/store examined; non-trivial = needed a reaching-condition entailment, a must-pass-through or a provenance argument"
	c.Assumptions = []string{
		"gRPC reports only states of the five-value connectivity enum and serialises UpdateSubConnState calls",
		"counter arithmetic (no wrap-around) follows from pairing by induction; the induction itself is not machine-checked",
	}
	c.Trusted = []string{"go/types", "golang.org/x/tools/go/ssa v0.29.0"}
	pl := newPool(c, w)
	if pl == nil || pl.uscs == nil {
		return
	}
	p := pl.p
	fn := pl.uscs
	cs := pl.uscsSpace()
	if cs == nil {
		return
	}
	sc, scs := param(fn, 1), param(fn, 2)
	isS := func(v ssa.Value) bool { return paramFieldLoad(v, scs, "SubConnState.ConnectivityState") }
	A := cs.Atom

	// ---- C04.writers
	n := pl.whoMayWrite("C04.writers", "gcpBalancer.scStates", map[string][]string{
		"(*gcpBalancer).addSubConn":         {"map-insert"},
		"(*gcpBalancer).UpdateSubConnState": {"map-insert", "map-delete"},
	})
	c.floor("C04.writers", n, 3)
	for _, f := range []string{"numReady", "numConnecting", "numTransientFailure"} {
		pl.whoMayWrite("C04.writers", "connectivityStateEvaluator."+f, map[string][]string{"(*connectivityStateEvaluator).recordTransition": {"store"}})
	}
	pl.whoMayWrite("C04.writers", "gcpBalancer.state", map[string][]string{"(*gcpBalancer).UpdateSubConnState": {"store"}})
	pl.whoMayWrite("C04.writers", "gcpBalancer.picker", map[string][]string{"(*gcpBalancer).regeneratePicker": {"store"}})
	rt := pl.f("(*connectivityStateEvaluator).recordTransition")
	rtSites := pl.whoMayCall("C04.writers", rt, "(*gcpBalancer).UpdateSubConnState")
	c.floor("C04.evaluator-call", len(rtSites), 1)

	// ---- C04.pair: classify every scStates effect in UpdateSubConnState
	var rtCall *ssa.Call
	if len(rtSites) == 1 {
		rtCall, _ = rtSites[0].Instr.(*ssa.Call)
	} else {
		c.fail("C04.pair", "evaluator call sites", p.pos(fn.Pos()), fmt.Sprintf("expected exactly one recordTransition call, found %d", len(rtSites)))
	}
	var oldLookup *ssa.Lookup
	if rtCall != nil {
		// arguments: (cse, old, new): old must be the value of the comma-ok lookup scStates[sc], new must be s
		args := rtCall.Call.Args
		okOld := false
		if e, ok := stripConv(args[1]).(*ssa.Extract); ok && e.Index == 0 {
			if l, ok := e.Tuple.(*ssa.Lookup); ok && l.CommaOk && isLoadOf(l.X, "gcpBalancer.scStates") && l.Index == sc {
				okOld, oldLookup = true, l
			}
		}
		c.check(okOld, "C04.pair", "recordTransition: old-state argument", p.ipos(rtCall), "old state is the comma-ok lookup of scStates[sc] taken in this call", "old-state argument is not the recorded state of this connection: "+vstr(args[1]))
		c.check(isS(args[2]), "C04.pair", "recordTransition: new-state argument", p.ipos(rtCall), "new state is the reported state", "new-state argument is not the reported state: "+vstr(args[2]))
		// reached only for known connections, and never for a non-READY report of a replacement
		imp, wit := cs.Implies(cs.Reach(rtCall), A("known"))
		c.check(imp, "C04.pair", "recordTransition: only for known connections", p.ipos(rtCall), "reach ⇒ scStates[sc] present (unknown/removed connections return before any counter change)", "evaluator reachable for a connection that is not in the state map: "+wit)
		if oldLookup != nil && rtCall != nil {
			// the lookup must read the map as it is when the evaluator's "old" is meaningful: after the swap block, before the store
			c.check(dominatesInstr(oldLookup, rtCall), "C04.pair", "recordTransition: old state read before", p.ipos(oldLookup), "lookup dominates the evaluator call", "old-state lookup does not dominate the evaluator call")
		}
	}
	nEffects := 0
	for _, a := range pl.ai.ByFn[fn] {
		if a.Field != "gcpBalancer.scStates" || !a.isWrite() {
			continue
		}
		nEffects++
		switch x := a.Instr.(type) {
		case *ssa.MapUpdate:
			if lk, ok := stripConv(x.Value).(*ssa.Lookup); ok && isLoadOf(lk.X, "gcpBalancer.scStates") {
				// transfer old→new: must be paired with a delete of the source key on every path, and lie in the swap region
				construct := "scStates transfer insert"
				del := false
				for _, b := range pl.ai.ByFn[fn] {
					if b.Field == "gcpBalancer.scStates" && b.What == "map-delete" {
						if call, ok := b.Instr.(*ssa.Call); ok && call.Call.Args[1] == lk.Index && dominatesInstr(x, call) && everyPathHits(x, map[ssa.Instruction]bool{call: true}) {
							del = true
						}
					}
				}
				imp, wit := cs.Implies(cs.Reach(x), cs.And(A("found"), A("sReady")))
				switch {
				case x.Key != sc:
					c.fail("C04.pair", construct, p.ipos(x), "transfer does not target the reported (replacement) connection")
				case !del:
					c.fail("C04.pair", construct, p.ipos(x), "state entry copied to the replacement but the old connection's entry is not deleted on every path: the old connection would be counted twice")
				case !imp:
					c.fail("C04.pair", construct, p.ipos(x), "transfer reachable outside a READY report of a replacement: "+wit)
				default:
					c.ok("C04.pair", construct, p.ipos(x), "scStates[new] = scStates[old] followed on every path by delete(scStates, old), only for a READY report of a replacement: aggregate counters untouched")
				}
				continue
			}
			construct := "scStates record insert"
			okKey := x.Key == sc
			okVal := isS(x.Value)
			paired := rtCall != nil && (everyPathHits(x, map[ssa.Instruction]bool{rtCall: true}) || everyWayHits(cs, x, rtCall)) && !inLoop(rtCall)
			imp, wit := cs.Implies(cs.Reach(x), A("known"))
			before := oldLookup != nil && dominatesInstr(oldLookup, x)
			switch {
			case !okKey || !okVal:
				c.fail("C04.pair", construct, p.ipos(x), fmt.Sprintf("unexpected state-map store %s[%s] = %s", "scStates", vstr(x.Key), vstr(x.Value)))
			case !imp:
				c.fail("C04.pair", construct, p.ipos(x), "state recorded for a connection that is not in the pool: "+wit)
			case !before:
				c.fail("C04.pair", construct, p.ipos(x), "the old state is not read before the new one is stored")
			case !paired:
				c.fail("C04.pair", construct, p.ipos(x), "a path from this store reaches a return without calling the evaluator (or calls it in a loop): counters and map disagree")
			default:
				c.ok("C04.pair", construct, p.ipos(x), "scStates[sc] = s for a known connection, old state read before, followed on every path by exactly one recordTransition(old, s)")
			}
		case *ssa.Call: // delete
			key := x.Call.Args[1]
			if key == sc {
				construct := "scStates delete(sc)"
				imp, wit := cs.Implies(cs.Reach(x), cs.And(A("known"), A("sShutdown")))
				paired := rtCall != nil && (everyPathHits(x, map[ssa.Instruction]bool{rtCall: true}) || everyWayHits(cs, x, rtCall))
				c.check(imp && paired, "C04.pair", construct, p.ipos(x), "entry removed only on a Shutdown report of a known connection, and the transition is still recorded on every path",
					"entry of the reported connection deleted outside a recorded Shutdown transition: "+wit)
				// removal is final: nothing re-creates the entry later in the same call ("removed connections do not count")
				var again []string
				for _, b := range pl.ai.ByFn[fn] {
					if mu, isMU := b.Instr.(*ssa.MapUpdate); isMU && b.Field == "gcpBalancer.scStates" && mu.Key == sc && mayPrecede(x, mu) {
						again = append(again, p.ipos(mu))
					}
				}
				c.check(len(again) == 0, "C04.pair", "scStates delete(sc) is final", p.ipos(x), "no store to scStates[sc] can follow the removal in the same call: a removed connection stays unknown and its late reports are ignored", "the entry of a removed connection is re-created after its removal (store at "+strings.Join(again, ", ")+"): the connection stays known and its late reports are counted")
			} else {
				construct := "scStates delete(old of refresh)"
				imp, wit := cs.Implies(cs.Reach(x), cs.And(A("found"), A("sReady")))
				isOldSc := false
				if f, _, ok := loadedField(key); ok && f == "subConnRef.subConn" {
					isOldSc = true
				}
				c.check(imp && isOldSc, "C04.pair", construct, p.ipos(x), "old connection's entry removed as part of the transfer", "state entry deleted for "+vstr(key)+" outside the refresh swap: "+wit)
			}
		}
	}
	c.floor("C04.pair", nEffects, 2)
	// no report of a pool connection is dropped: once the connection was found in the state map, every way to a return
	// has stored the reported state (or removed the entry) and called the evaluator — a report that is acted upon
	// (Connect on IDLE) but not recorded leaves the map, the counters and the picker on the previous state
	if oldLookup != nil && rtCall != nil {
		var recs []ssa.Instruction
		for _, a := range pl.ai.ByFn[fn] {
			if a.Field != "gcpBalancer.scStates" || !a.isWrite() {
				continue
			}
			switch x := a.Instr.(type) {
			case *ssa.MapUpdate:
				if x.Key == sc && isS(x.Value) {
					recs = append(recs, x)
				}
			case *ssa.Call:
				if x.Call.Args[1] == sc {
					recs = append(recs, x)
				}
			}
		}
		okAll, wit := true, ""
		for _, r := range returnsOf(fn) {
			if !mayPrecede(oldLookup, r) {
				continue
			}
			rec := cs.False()
			for _, x := range recs {
				rec = cs.Or(rec, cs.Reach(x))
			}
			bad := cs.And(cs.Reach(oldLookup), cs.Reach(r), A("known"), cs.Not(cs.And(rec, cs.Reach(rtCall))))
			if cs.Satisfiable(bad) {
				okAll, wit = false, p.ipos(r)+": "+cs.assignment(bad)
			}
		}
		c.check(okAll, "C04.pair", "every report of a pool connection is recorded", p.ipos(oldLookup), "known ⇒ every way to a return passes a store of the reported state (or the removal of the entry) and the evaluator call",
			"a report of a pool connection can return without being recorded and counted (return at "+wit+")")
	}

	// ---- premise: "completing a refresh does not perturb it" — the take-over rules of C07 (the replacement is unregistered,
	// so its later reports are handled as reports of a pool connection and it cannot be swapped in twice)
	importPremises(c, w, "C07", checkC07, []string{"C07.swap"}, "C04.refresh-complete")

	// ---- C04.replacement: a non-READY report of a replacement has no effect at all
	quiet := cs.And(A("found"), cs.Not(A("sReady")))
	nq := 0
	eachInstr(fn, func(in ssa.Instruction) {
		eff := ""
		switch x := in.(type) {
		case *ssa.Store:
			if fa, ok := x.Addr.(*ssa.FieldAddr); ok {
				if _, own := ownStructField(p, Access{Addr: fa}); own && !freshAt(fa.X, in) {
					eff = "store " + fieldRefOfAddr(fa)
				}
			}
		case *ssa.MapUpdate:
			eff = "map insert " + vstr(x.Map)
		case *ssa.Call:
			c2 := calleeOf(&x.Call)
			if c2.Builtin == "delete" || c2.Builtin == "close" {
				eff = c2.Builtin
			} else if c2.Iface != nil && strings.Contains(c2.Name(), "grpclog.LoggerV2") {
				// logging is not an effect on the pool
			} else if c2.Iface != nil {
				eff = "call " + c2.Name()
			} else if len(p.calleesOf(&x.Call)) > 0 {
				eff = "call " + c2.Name()
			}
		}
		if eff == "" {
			return
		}
		nq++
		if cs.Satisfiable(and(cs.Reach(in), quiet)) {
			c.fail("C04.replacement", fmt.Sprintf("effect#%d: %s", nq, eff), p.ipos(in), "effect reachable for a non-READY report of a replacement connection (must be ignored until it is READY)")
		}
	})
	c.ok("C04.replacement", "UpdateSubConnState: found ∧ ¬sReady", p.pos(fn.Pos()), fmt.Sprintf("none of the %d effects of the function is reachable under found ∧ s≠READY", nq))

	// ---- C04.eval: the evaluator
	if rt != nil {
		checkEvaluator(pl, rt)
	}

	// ---- C04.picker
	rp := pl.f("(*gcpBalancer).regeneratePicker")
	if rp != nil {
		stTF := eqAtom("stateTF", loadOf("gcpBalancer.state"), constIs(pl.TF))
		rcs := newCondSpace(rp, recOf(stTF), "stateTF")
		nerr, ngcp := 0, 0
		eachInstr(rp, func(in ssa.Instruction) {
			call, ok := in.(*ssa.Call)
			if !ok {
				return
			}
			switch {
			case strings.HasSuffix(calleeOf(&call.Call).Name(), ".newErrPicker"):
				nerr++
				glob := false
				for _, o := range origins(call.Call.Args[0]) {
					if g, ok := o.Val.(*ssa.UnOp); ok {
						if gg, ok := g.X.(*ssa.Global); ok && gg.Name() == "ErrTransientFailure" && gg.Pkg.Pkg.Name() == "balancer" {
							glob = true
						}
					}
				}
				eq, wit := rcs.Equiv(rcs.ForgetLoopVars(rcs.Reach(call)), rcs.Atom("stateTF"))
				c.check(glob && eq, "C04.picker", "regeneratePicker: error picker", p.ipos(call), "newErrPicker(ErrTransientFailure) ⇔ gb.state == TRANSIENT_FAILURE", "error picker not keyed exactly on TRANSIENT_FAILURE: "+wit)
				c.check(storedInto(call, "gcpBalancer.picker"), "C04.picker", "regeneratePicker: error picker stored", p.ipos(call), "result stored into gb.picker", "error picker is built but not installed as gb.picker")
			case strings.HasSuffix(calleeOf(&call.Call).Name(), ".newGCPPicker"):
				ngcp++
				eq, wit := rcs.Equiv(rcs.ForgetLoopVars(rcs.Reach(call)), rcs.Not(rcs.Atom("stateTF")))
				c.check(eq, "C04.picker", "regeneratePicker: pool picker", p.ipos(call), "newGCPPicker ⇔ gb.state ≠ TRANSIENT_FAILURE", "pool picker not built exactly when the aggregate is not TRANSIENT_FAILURE: "+wit)
				c.check(storedInto(call, "gcpBalancer.picker"), "C04.picker", "regeneratePicker: pool picker stored", p.ipos(call), "result stored into gb.picker", "pool picker is built but not installed as gb.picker")
			}
		})
		c.floor("C04.picker", nerr+ngcp, 2)
	}
	// errPicker.Pick returns its stored error on every path; gcpPicker.Pick never mentions ErrTransientFailure
	if ep := pl.f("(*errPicker).Pick"); ep != nil {
		okAll, nret := true, 0
		eachInstr(ep, func(in ssa.Instruction) {
			if r, ok := in.(*ssa.Return); ok {
				nret++
				if !isLoadOf(r.Results[1], "errPicker.err") {
					okAll = false
				}
			}
		})
		c.check(okAll && nret > 0, "C04.picker", "errPicker.Pick", p.pos(ep.Pos()), "every return yields the stored error", "errPicker.Pick has a return that does not yield the stored error")
	}
	if pl.pick != nil {
		bad := ""
		for f := range p.reachable(pl.pick) {
			eachInstr(f, func(in ssa.Instruction) {
				var ops []*ssa.Value
				for _, o := range in.Operands(ops) {
					if o != nil && *o != nil {
						if g, ok := (*o).(*ssa.Global); ok && g.Name() == "ErrTransientFailure" {
							bad = fname(f) + " at " + p.ipos(in)
						}
					}
				}
			})
		}
		c.check(bad == "", "C04.picker", "gcpPicker.Pick never fails fast", p.pos(pl.pick.Pos()), "no function reachable from gcpPicker.Pick refers to ErrTransientFailure", "a pool picker (published with a non-TRANSIENT_FAILURE state) can return the transient-failure error: "+bad)
	}

	// ---- C04.atomic: the decision to publish compares the aggregate before and after this report; both are read, like
	// every counter and the state map, inside the critical section of the report (C10's lock-set obligations for exactly
	// these fields) — a previous value read before the lock is taken can be another report's, and a flip goes unpublished
	importPremisesIf(c, w, "C10", checkC10, []string{"C10.lockset"}, "C04.atomic", func(construct string) bool {
		for _, f := range []string{"gcpBalancer.state@", "gcpBalancer.scStates@", "gcpBalancer.csEvltr@", "connectivityStateEvaluator.", "gcpBalancer.picker@"} {
			if strings.HasPrefix(construct, f) {
				return true
			}
		}
		return false
	})

	// ---- C04.publish
	us := pl.ifaceCallSites("balancer.ClientConn.UpdateState")
	c.floor("C04.publish", len(us), 1)
	for i, s := range us {
		construct := fmt.Sprintf("UpdateState#%d in %s", i+1, fname(s.Fn))
		if s.Fn != fn || rtCall == nil {
			c.fail("C04.publish", construct, p.ipos(s.Instr), "state is published outside UpdateSubConnState")
			continue
		}
		want := and(cs.Reach(rtCall), cs.Or(
			cs.Or(cs.And(A("sReady"), cs.Not(A("oldReady"))), cs.And(cs.Not(A("sReady")), A("oldReady"))),
			cs.Or(cs.And(A("newTF"), cs.Not(A("oldTF"))), cs.And(cs.Not(A("newTF")), A("oldTF")))))
		eq, wit := cs.Equiv(cs.Reach(s.Instr), want)
		c.check(eq, "C04.publish", construct+": condition", p.ipos(s.Instr),
			"published ⇔ (s==READY)≠(old==READY) ∨ (aggregate==TF)≠(previous aggregate==TF), for every recorded transition",
			"publish condition differs from the rule: "+wit)
		// the published pair is the fresh one
		rp := pl.f("(*gcpBalancer).regeneratePicker")
		var regen ssa.Instruction
		eachInstr(fn, func(in ssa.Instruction) {
			if call, ok := in.(*ssa.Call); ok && rp != nil {
				for _, g := range p.calleesOf(&call.Call) {
					if g == rp && dominatesInstr(call, s.Instr) {
						regen = call
					}
				}
			}
		})
		arg := s.Call.Args[0]
		stOK, pkOK := false, false
		if ld, ok := arg.(*ssa.UnOp); ok {
			if al, ok := ld.X.(*ssa.Alloc); ok {
				for _, r := range *al.Referrers() {
					fa, ok := r.(*ssa.FieldAddr)
					if !ok {
						continue
					}
					for _, st := range storesTo(fa) {
						ldv, _ := stripConv(st.Val).(*ssa.UnOp)
						switch fieldRefOfAddr(fa) {
						case "State.ConnectivityState":
							stOK = ldv != nil && isLoadOf(ldv, "gcpBalancer.state") && dominatesInstr(rtCall, ldv)
						case "State.Picker":
							pkOK = ldv != nil && isLoadOf(ldv, "gcpBalancer.picker") && regen != nil && dominatesInstr(regen, ldv)
						}
					}
				}
			}
		}
		// … and computed from the final tables: the picker's snapshot reads scStates and scRefs, so no write of either
		// can follow the regeneration in this report (a connection forgotten after the snapshot stays in the published
		// picker until some other connection changes readiness)
		if regen != nil {
			var late []string
			for _, a := range pl.ai.ByFn[fn] {
				if (a.Field == "gcpBalancer.scStates" || a.Field == "gcpBalancer.scRefs") && a.isWrite() && mayPrecede(regen, a.Instr) {
					late = append(late, a.Field+" at "+p.ipos(a.Instr))
				}
			}
			c.check(len(late) == 0, "C04.pair", "picker regenerated after the last table write", p.ipos(regen), "no write of scStates or scRefs can follow regeneratePicker() in UpdateSubConnState", "the picker snapshot is taken before the tables are final: "+strings.Join(late, ", "))
		}
		c.check(regen != nil && stOK && pkOK, "C04.publish", construct+": fresh pair", p.ipos(s.Instr),
			"publishes gb.state (read after the evaluator) and gb.picker (read after regeneratePicker)",
			fmt.Sprintf("published pair is not the freshly computed one (regenerate before=%v state-after-evaluator=%v picker-after-regenerate=%v)", regen != nil, stOK, pkOK))
	}
}

// storedInto: the call's result is stored into the given field.
func storedInto(call *ssa.Call, field string) bool {
	ok := false
	var walk func(v ssa.Value, d int)
	walk = func(v ssa.Value, d int) {
		if d > 4 || v.Referrers() == nil {
			return
		}
		for _, r := range *v.Referrers() {
			switch x := r.(type) {
			case *ssa.Store:
				if fa, isFA := x.Addr.(*ssa.FieldAddr); isFA && fieldRefOfAddr(fa) == field && x.Val == v {
					ok = true
				}
			case *ssa.MakeInterface:
				walk(x, d+1)
			case *ssa.ChangeInterface:
				walk(x, d+1)
			case *ssa.ChangeType:
				walk(x, d+1)
			case *ssa.Phi:
				walk(x, d+1)
			}
		}
	}
	walk(call, 0)
	return ok
}

// checkEvaluator verifies the decision list and the counter/state agreement of recordTransition.
func checkEvaluator(pl *pool, rt *ssa.Function) {
	c, p := pl.c, pl.p
	gt0 := func(field string) atomDef {
		return atomDef{field + ">0", func(v ssa.Value) (bool, bool) {
			bo, ok := v.(*ssa.BinOp)
			if !ok {
				return false, false
			}
			z := func(x ssa.Value) bool { i, ok := constInt(x); return ok && i == 0 }
			switch {
			case bo.Op == token.GTR && isLoadOf(bo.X, field) && z(bo.Y):
				return true, false
			case bo.Op == token.LSS && z(bo.X) && isLoadOf(bo.Y, field):
				return true, false
			case bo.Op == token.NEQ && ((isLoadOf(bo.X, field) && z(bo.Y)) || (isLoadOf(bo.Y, field) && z(bo.X))):
				return true, false // unsigned: != 0 ⇔ > 0
			case bo.Op == token.EQL && ((isLoadOf(bo.X, field) && z(bo.Y)) || (isLoadOf(bo.Y, field) && z(bo.X))):
				return true, true
			case bo.Op == token.LEQ && isLoadOf(bo.X, field) && z(bo.Y):
				return true, true
			}
			return false, false
		}}
	}
	// the state tested by the update switch: the range element of [old,new]
	isElem := func(v ssa.Value) bool {
		for _, o := range origins(v) {
			if o.Kind != "index" {
				return false
			}
		}
		return len(origins(v)) > 0
	}
	defs := []atomDef{
		gt0("connectivityStateEvaluator.numReady"), gt0("connectivityStateEvaluator.numConnecting"), gt0("connectivityStateEvaluator.numTransientFailure"),
		eqAtom("el==Ready", isElem, constIs(pl.Ready)), eqAtom("el==Connecting", isElem, constIs(pl.Connecting)), eqAtom("el==TF", isElem, constIs(pl.TF)),
	}
	cs := newCondSpace(rt, recOf(defs...), atomNames(defs...)...)
	if cs.err != "" {
		c.undecided("C04.eval", fname(rt), p.pos(rt.Pos()), cs.err)
		return
	}
	cs.ExclusiveAtoms("el==Ready", "el==Connecting", "el==TF")
	R, C := cs.Atom("connectivityStateEvaluator.numReady>0"), cs.Atom("connectivityStateEvaluator.numConnecting>0")
	// all counter loads in the decision list must come after the update loop: the returns are outside every loop
	want := map[int64]Bits{pl.Ready: R, pl.Connecting: cs.And(cs.Not(R), C), pl.TF: cs.And(cs.Not(R), cs.Not(C))}
	names := map[int64]string{pl.Ready: "READY", pl.Connecting: "CONNECTING", pl.TF: "TRANSIENT_FAILURE"}
	seen := map[int64]bool{}
	nret := 0
	for _, vr := range cs.VirtualReturns() {
		// (a merged `return aggregated` is split per way of arriving)
		r := vr.Ret
		nret++
		v, isC := constInt(vr.Vals[0])
		if !isC {
			c.fail("C04.eval", fmt.Sprintf("recordTransition return#%d", nret), p.ipos(r), "evaluator returns a non-constant state: "+vstr(vr.Vals[0]))
			continue
		}
		w, known := want[v]
		if !known {
			c.fail("C04.eval", fmt.Sprintf("recordTransition return#%d", nret), p.ipos(r), fmt.Sprintf("evaluator returns state %d which is not one of READY/CONNECTING/TRANSIENT_FAILURE", v))
			continue
		}
		seen[v] = true
		eq, wit := cs.Equiv(cs.OnlyNamed(vr.Cond), cs.OnlyNamed(w))
		c.check(eq, "C04.eval", "recordTransition returns "+names[v], p.ipos(r), "decision list position matches READY > CONNECTING > TRANSIENT_FAILURE", "aggregate "+names[v]+" is returned under the wrong condition: "+wit)
	}
	c.check(len(seen) == 3, "C04.eval", "recordTransition: three outcomes", p.pos(rt.Pos()), "all three aggregate states are produced", "evaluator does not produce all three aggregate states")
	// counter/state agreement and ±1. Two accepted shapes:
	//  A) one store per counter inside a range over [old,new]: counter += 2·idx−1 for the element's state;
	//  B) two stores per counter: counter −= 1 ⇔ old == its state, counter += 1 ⇔ new == its state.
	pairs := map[string]string{"connectivityStateEvaluator.numReady": "Ready", "connectivityStateEvaluator.numConnecting": "Connecting", "connectivityStateEvaluator.numTransientFailure": "TF"}
	stateConst := map[string]int64{"Ready": pl.Ready, "Connecting": pl.Connecting, "TF": pl.TF}
	var batoms []atomDef
	for _, sname := range []string{"Ready", "Connecting", "TF"} {
		batoms = append(batoms, eqAtom("old=="+sname, isVal(rt.Params[1]), constIs(stateConst[sname])), eqAtom("new=="+sname, isVal(rt.Params[2]), constIs(stateConst[sname])))
	}
	// a transition that does not change the state may be skipped as a whole (−1 and +1 on the same counter cancel)
	batoms = append(batoms, eqAtom("old==new", isVal(rt.Params[1]), isVal(rt.Params[2])))
	bcs := newCondSpace(rt, recOf(batoms...), atomNames(batoms...)...)
	bcs.ExclusiveAtoms("old==Ready", "old==Connecting", "old==TF")
	bcs.ExclusiveAtoms("new==Ready", "new==Connecting", "new==TF")
	for _, sname := range []string{"Ready", "Connecting", "TF"} {
		o, n2, same := bcs.Atom("old=="+sname), bcs.Atom("new=="+sname), bcs.Atom("old==new")
		bcs.Univ = and(bcs.Univ, bcs.Not(bcs.And(same, o, bcs.Not(n2))))
		bcs.Univ = and(bcs.Univ, bcs.Not(bcs.And(same, n2, bcs.Not(o))))
		bcs.Univ = and(bcs.Univ, bcs.Not(bcs.And(bcs.Not(same), o, n2)))
	}
	nst, usedA, nSkipSame, nStepB := 0, false, 0, 0
	perCounter := map[string][2]int{}
	for _, a := range pl.ai.ByFn[rt] {
		sname, ok := pairs[a.Field]
		if !ok || a.What != "store" {
			continue
		}
		nst++
		st := a.Instr.(*ssa.Store)
		construct := "recordTransition updates " + lastDot(a.Field)
		bo, isB := st.Val.(*ssa.BinOp)
		ownValue := isB && isLoadOf(bo.X, a.Field)
		// through a local pointer merged from the counters' addresses (`c := cse.counterOf(state); *c += d`): the store is one
		// to this counter on the ways on which the pointer is this counter's address, and `*c` is then its own value
		reachSt := bcs.Reach(st)
		if a.Via != nil {
			ownValue = false
			if isB {
				if ld, isLd := bo.X.(*ssa.UnOp); isLd && ld.Op == token.MUL && ld.X == ssa.Value(a.Via) {
					ownValue = true
				}
			}
			reachSt = bcs.False()
			for _, rv := range bcs.ResolveWithConds(a.Via, bcs.Reach(st)) {
				if rv.V == ssa.Value(a.Addr) {
					reachSt = or(reachSt, rv.C)
				}
			}
		}
		if !isB || !ownValue || (bo.Op != token.ADD && bo.Op != token.SUB) {
			c.fail("C04.eval", construct, p.ipos(st), "counter is not updated by adding/subtracting to its own value: "+vstr(st.Val))
			continue
		}
		d, isC := constInt(bo.Y)
		if !isC {
			// a delta computed from constants (`2*uint64(idx) − 1` with idx a constant after unrolling), in 64 unsigned bits
			if u, okF := foldUint64(bo.Y, 0); okF {
				switch u {
				case 1:
					d, isC = 1, true
				case math.MaxUint64:
					if b, isBasic := bo.Type().Underlying().(*types.Basic); isBasic && b.Kind() == types.Uint64 {
						d, isC = -1, true
					}
				}
			}
		}
		if !isC {
			// the counters are unsigned 64-bit: adding 2^64−1 (written ^uint64(0)) is subtracting one
			if k, isK := stripConv(bo.Y).(*ssa.Const); isK && k.Value != nil && k.Value.Kind() == constant.Int {
				if u, exact := constant.Uint64Val(k.Value); exact && u == math.MaxUint64 {
					if b, isBasic := bo.Type().Underlying().(*types.Basic); isBasic && b.Kind() == types.Uint64 {
						d, isC = -1, true
					}
				}
			}
		}
		if isC && (d == 1 || d == -1) {
			// shape B
			delta := d
			if bo.Op == token.SUB {
				delta = -d
			}
			atom := "new==" + sname
			if delta < 0 {
				atom = "old==" + sname
			}
			eq, wit := bcs.EquivStrict(reachSt, bcs.Atom(atom))
			nStepB++
			if !eq && bcs.Seen("old==new") {
				if eq2, _ := bcs.EquivStrict(reachSt, bcs.And(bcs.Atom(atom), bcs.Not(bcs.Atom("old==new")))); eq2 {
					eq = true
					nSkipSame++
				}
			}
			pc := perCounter[a.Field]
			if delta < 0 {
				pc[0]++
			} else {
				pc[1]++
			}
			perCounter[a.Field] = pc
			c.check(eq && !inLoop(st), "C04.eval", fmt.Sprintf("%s by %+d", construct, delta), p.ipos(st), fmt.Sprintf("counter %+d ⇔ %s", delta, atom), "counter is stepped under the wrong condition: "+wit)
			continue
		}
		// shape A
		usedA = true
		imp, wit := cs.Implies(cs.Reach(st), cs.Atom("el=="+sname))
		okVal := false
		if bo.Op == token.ADD {
			if sub, ok := bo.Y.(*ssa.BinOp); ok && sub.Op == token.SUB {
				if one, ok := constInt(sub.Y); ok && one == 1 {
					if mul, ok := sub.X.(*ssa.BinOp); ok && mul.Op == token.MUL {
						two, isTwo := constInt(mul.X)
						idx := mul.Y
						if !isTwo {
							two, isTwo = constInt(mul.Y)
							idx = mul.X
						}
						if cv, ok := idx.(*ssa.Convert); ok {
							idx = cv.X
						}
						_, isPhi := idx.(*ssa.Phi)
						_, isBin := idx.(*ssa.BinOp)
						okVal = isTwo && two == 2 && (isPhi || isBin)
					}
				}
			}
		}
		perCounter[a.Field] = [2]int{1, 1}
		c.check(imp && okVal, "C04.eval", construct, p.ipos(st),
			"counter updated exactly for its own state, by 2·idx−1 (−1 for the old state at index 0, +1 for the new state at index 1)",
			fmt.Sprintf("counter %s updated for the wrong state or by the wrong amount (%s) %s", a.Field, vstr(st.Val), wit))
	}
	c.floor("C04.eval-updates", nst, 3)
	if nSkipSame > 0 {
		c.check(nSkipSame == nStepB, "C04.eval", "recordTransition: unchanged state skipped consistently", p.pos(rt.Pos()), "when old == new every step is skipped (the −1 and +1 would cancel)", "only some of the counter steps are skipped when the state does not change")
	}
	for f := range pairs {
		pc := perCounter[f]
		c.check(pc[0] == 1 && pc[1] == 1, "C04.eval", "recordTransition: "+lastDot(f)+" stepped once down, once up", p.pos(rt.Pos()), "one decrement (old state) and one increment (new state) per transition", fmt.Sprintf("counter has %d decrement(s) and %d increment(s)", pc[0], pc[1]))
	}
	if usedA {
		// the ranged slice is [old, new] in this order
		okOrder := 0
		eachInstr(rt, func(in ssa.Instruction) {
			st, ok := in.(*ssa.Store)
			if !ok {
				return
			}
			ia, ok := st.Addr.(*ssa.IndexAddr)
			if !ok {
				return
			}
			i, isC := constInt(ia.Index)
			if !isC {
				return
			}
			if (i == 0 && st.Val == rt.Params[1]) || (i == 1 && st.Val == rt.Params[2]) {
				okOrder++
			}
		})
		c.check(okOrder == 2, "C04.eval", "recordTransition: [old,new] order", p.pos(rt.Pos()), "index 0 is the old state, index 1 the new state", "the slice ranged over is not [oldState, newState]")
	}
}

// foldUint64 evaluates an expression built from integer constants with +, −, × and conversions, in 64 unsigned bits.
func foldUint64(v ssa.Value, d int) (uint64, bool) {
	if d > 6 {
		return 0, false
	}
	switch x := v.(type) {
	case *ssa.Const:
		if x.Value == nil || x.Value.Kind() != constant.Int {
			return 0, false
		}
		if u, exact := constant.Uint64Val(x.Value); exact {
			return u, true
		}
		if i, exact := constant.Int64Val(x.Value); exact {
			return uint64(i), true
		}
		return 0, false
	case *ssa.Convert:
		if b, ok := x.Type().Underlying().(*types.Basic); !ok || (b.Kind() != types.Uint64 && b.Kind() != types.Int64 && b.Kind() != types.Int && b.Kind() != types.Uint) {
			return 0, false
		}
		return foldUint64(x.X, d+1)
	case *ssa.BinOp:
		a, okA := foldUint64(x.X, d+1)
		b, okB := foldUint64(x.Y, d+1)
		if !okA || !okB {
			return 0, false
		}
		switch x.Op {
		case token.ADD:
			return a + b, true
		case token.SUB:
			return a - b, true
		case token.MUL:
			return a * b, true
		}
	}
	return 0, false
}

// everyWayHits: every way from `from` to a return passes `target`, judged on conditions: no return that `from` may precede is
// reachable together with `from` and without `target` (a structural path through `if !known { return }` is not a way when
// known is true wherever `from` was executed).
func everyWayHits(cs *CondSpace, from, target ssa.Instruction) bool {
	if cs == nil || cs.err != "" || !mayPrecede(from, target) || inLoop(from) {
		return false
	}
	for _, r := range returnsOf(from.Parent()) {
		if !mayPrecede(from, r) {
			continue
		}
		if cs.Satisfiable(cs.And(cs.Reach(from), cs.Reach(r), cs.Not(cs.Reach(target)))) {
			return false
		}
	}
	return true
}
