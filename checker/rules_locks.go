package main

import (
	"fmt"
	"go/token"
	"sort"
	"strings"

	"golang.org/x/tools/go/ssa"
)

// blockingKind classifies an instruction that may block the calling goroutine indefinitely.
func blockingKind(in ssa.Instruction) string {
	switch x := in.(type) {
	case *ssa.Select:
		if x.Blocking {
			return "select"
		}
	case *ssa.Send:
		return "chan-send"
	case *ssa.UnOp:
		if x.Op == token.ARROW {
			return "chan-recv"
		}
	case *ssa.Call:
		c := calleeOf(&x.Call)
		if c.Static != nil {
			switch funcFullName(c.Static) {
			case "time.Sleep":
				return "time.Sleep"
			case "sync.(*WaitGroup).Wait":
				return "WaitGroup.Wait"
			case "sync.(*Cond).Wait":
				return "Cond.Wait"
			case "grpc.(*ClientConn).WaitForStateChange":
				return "WaitForStateChange"
			}
		}
	}
	return ""
}

// lockRules evaluates the lock-discipline rule forms on the functions in scope.
//
//	<pfx>.reacquire  no acquisition of a lock that may already be held (Go mutexes are not reentrant)
//	<pfx>.balanced   every exit leaves the locks as on entry; joins have equal lock states
//	<pfx>.order      the lock-order graph is acyclic
//	<pfx>.noblock    nothing that can block indefinitely runs while a lock is held
func lockRules(c *Ctx, p *Prog, lf *LockFacts, scope map[*ssa.Function]bool, pfx string) (acquires int) {
	issuesAt := map[ssa.Instruction][]LockIssue{}
	issuesFn := map[*ssa.Function][]LockIssue{}
	for _, is := range lf.Issues {
		issuesAt[is.Instr] = append(issuesAt[is.Instr], is)
		issuesFn[is.Fn] = append(issuesFn[is.Fn], is)
	}
	for _, f := range sortedFuncs(scope) {
		c.FuncsSeen[qname(f)] = true
		ord := map[string]int{}
		hasOps := false
		eachInstr(f, func(in ssa.Instruction) {
			cc := callCommon(in)
			if cc == nil {
				return
			}
			c.CallSites++
			op, ok := lf.lockOpOf(cc)
			if !ok {
				return
			}
			hasOps = true
			if op.kind != "Lock" && op.kind != "RLock" {
				return
			}
			if _, isDefer := in.(*ssa.Defer); isDefer {
				return
			}
			acquires++
			ord[op.lock+op.kind]++
			construct := fmt.Sprintf("%s: %s.%s()#%d", qname(f), op.lock, op.kind, ord[op.lock+op.kind])
			var bad *LockIssue
			for i, is := range issuesAt[in] {
				if is.Kind == "reacquire" {
					bad = &issuesAt[in][i]
				}
			}
			if bad != nil {
				c.fail(pfx+".reacquire", construct, p.ipos(in), bad.Detail+" — self-deadlock", bad.Chain...)
			} else {
				c.ok(pfx+".reacquire", construct, p.ipos(in), fmt.Sprintf("entry contexts of %s may hold %s, local state %s: lock not held on any call path", fname(f), lf.MayHeld[f], lf.Before[in]))
			}
		})
		if hasOps || len(issuesFn[f]) > 0 {
			var bad []string
			for _, is := range issuesFn[f] {
				if is.Kind == "unbalanced" || is.Kind == "inconsistent" || is.Kind == "release-unheld" {
					bad = append(bad, fmt.Sprintf("%s at %s: %s", is.Kind, p.ipos(is.Instr), is.Detail))
				}
			}
			sort.Strings(bad)
			if len(bad) > 0 {
				c.fail(pfx+".balanced", qname(f), p.pos(f.Pos()), "lock state is not restored on every exit", bad...)
			} else {
				c.ok(pfx+".balanced", qname(f), p.pos(f.Pos()), fmt.Sprintf("%d exit(s), each way of arriving with the entry lock state (paths that join with different states are followed separately)", len(lf.ExitHeld[f])))
			}
		}
		// blocking operations
		bord := map[string]int{}
		eachInstr(f, func(in ssa.Instruction) {
			k := blockingKind(in)
			if k == "" {
				return
			}
			// a receive that is a select state is part of the Select instruction, not an UnOp; plain <-ch counts
			bord[k]++
			construct := fmt.Sprintf("%s: %s#%d", qname(f), k, bord[k])
			held := lf.MayHeldAt(in)
			if k == "Cond.Wait" {
				// Wait atomically releases its own lock; any *other* lock held would block others
				if cc := callCommon(in); cc != nil && len(cc.Args) > 0 {
					if fld, _, ok := loadedField(cc.Args[0]); ok {
						held = held.clone()
						delete(held, lf.CondLock[fld])
					}
				}
			}
			if len(held) > 0 {
				c.fail(pfx+".noblock", construct, p.ipos(in), fmt.Sprintf("%s may execute while %s is held: every other caller needing the lock is delayed for as long as this blocks", k, held))
			} else {
				c.ok(pfx+".noblock", construct, p.ipos(in), "no lock is held on any call path when this blocks")
			}
		})
	}
	// order: restricted to edges witnessed in scope is unnecessary — the graph is module wide
	var edges []string
	for e, w := range lf.Order {
		edges = append(edges, fmt.Sprintf("%s → %s (%s)", e[0], e[1], w[0]))
	}
	sort.Strings(edges)
	if cyc := lf.orderCycle(); cyc != nil {
		c.fail(pfx+".order", "lock-order graph", "-", "lock acquisition order has a cycle: "+strings.Join(cyc, " → "), edges...)
	} else {
		c.ok(pfx+".order", "lock-order graph", "-", fmt.Sprintf("acyclic; %d edge(s): %s", len(edges), strings.Join(edges, "; ")))
	}
	return acquires
}
