package main

import (
	"fmt"
	"strings"

	"golang.org/x/tools/go/ssa"
)

func init() { register("C03", checkC03) }

func lenOfField(field string) vpred {
	return func(v ssa.Value) bool {
		v = stripConv(v)
		if cv, ok := v.(*ssa.Convert); ok {
			v = cv.X
		}
		call, ok := v.(*ssa.Call)
		return ok && calleeOf(&call.Call).Builtin == "len" && len(call.Call.Args) == 1 && isLoadOf(call.Call.Args[0], field)
	}
}

func convOf(x vpred) vpred {
	return func(v ssa.Value) bool {
		v = stripConv(v)
		if cv, ok := v.(*ssa.Convert); ok {
			return x(cv.X)
		}
		return x(v)
	}
}

// C03 — Pool size: minSize at start, grows only when saturated, never above maxSize.
func checkC03(c *Ctx, w *World) {
	c.Explanation = "Structural analysis of pool growth and shrinkage: which functions may create or remove connections and the exact guards on every " +
		"call chain leading to a creation (emptied pool / saturated below maxSize / empty round-robin list), creation is refused while any connection is idle " +
		"or connecting, a pick that triggers growth is told to wait, removal only of the old connection of a completed refresh (once), minimum size enforced " +
		"by the first configuration, and the check-then-act rule for the maxSize bound (size compared and connection created in one critical section)."
	c.RuleText = "one obligation per creation/removal call site, guard, return after growth and check-then-act pair; non-trivial = needed a reaching-condition entailment, effect summary or provenance argument"
	c.Assumptions = []string{"the numeric invariant |pool| ≤ maxSize over all interleavings is not decided beyond the check-then-act rule (recorded finding)"}
	c.Trusted = []string{"go/types", "golang.org/x/tools/go/ssa v0.29.0"}
	pl := newPool(c, w)
	if pl == nil || pl.uscs == nil {
		return
	}
	p := pl.p
	add, nsl, ns := pl.f("(*gcpBalancer).addSubConn"), pl.f("(*gcpBalancer).newSubConnLocked"), pl.f("(*gcpBalancer).newSubConn")
	ems, ic := pl.f("(*gcpBalancer).enforceMinSize"), pl.f("(*gcpBalancer).initializeConfig")
	uccs, lb, rr := pl.f("(*gcpBalancer).UpdateClientConnState"), pl.f("(*gcpPicker).getLeastBusySubConnRef"), pl.f("(*gcpBalancer).getSubConnRoundRobin")
	refresh := pl.f("(*gcpBalancer).refresh")
	if add == nil || nsl == nil || ns == nil || ems == nil || ic == nil || uccs == nil || lb == nil || rr == nil || refresh == nil {
		return
	}

	// ---- C03.create: who may create
	nsc := pl.ifaceCallSites("balancer.ClientConn.NewSubConn")
	for i, s := range nsc {
		good := s.Fn == add || s.Fn == refresh
		c.check(good, "C03.create", fmt.Sprintf("NewSubConn#%d in %s", i+1, fname(s.Fn)), p.ipos(s.Instr), "connections are created only by addSubConn (pool member) and refresh (replacement)", "a connection is created outside addSubConn/refresh")
	}
	c.floor("C03.create", len(nsc), 2)
	pl.whoMayCall("C03.create", add, fname(ems), fname(nsl))
	pl.whoMayCall("C03.create", nsl, fname(ns), fname(uccs))
	pl.whoMayCall("C03.create", ns, fname(lb), fname(rr))
	pl.whoMayCall("C03.create", ems, fname(ic))

	// guards
	// UpdateClientConnState → newSubConnLocked: only for an emptied pool
	for _, call := range pl.callsIn(uccs, nsl) {
		cs := newCondSpace(uccs, recOf(lenZeroAtom("poolEmpty", lenOfField("gcpBalancer.scRefs"))), "poolEmpty")
		imp, wit := cs.Implies(cs.Reach(call), cs.Atom("poolEmpty"))
		c.check(imp, "C03.create", "UpdateClientConnState → newSubConnLocked: guard", p.ipos(call), "resolver update creates a connection only when the pool is empty", "resolver update can add a connection to a non-empty pool: "+wit)
	}
	// getSubConnRoundRobin → newSubConn: only for an empty list
	for _, call := range pl.callsIn(rr, ns) {
		cs := newCondSpace(rr, recOf(lenZeroAtom("listEmpty", lenOfField("gcpBalancer.scRefList"))), "listEmpty")
		imp, wit := cs.Implies(cs.Reach(call), cs.Atom("listEmpty"))
		c.check(imp, "C03.create", "getSubConnRoundRobin → newSubConn: guard", p.ipos(call), "round-robin pick creates a connection only when no channel was ever created", "round-robin pick can grow a non-empty pool: "+wit)
	}
	// getLeastBusySubConnRef → newSubConn: saturated ∧ below max
	ms := pl.f("(*gcpPicker).minStreamsSubConnRef")
	var msCall *ssa.Call
	if ms != nil {
		if cs := pl.callsIn(lb, ms); len(cs) == 1 {
			msCall = cs[0]
		}
	}
	isMinCnt := func(v ssa.Value) bool { return msCall != nil && isExtractOf(stripConv(v), msCall, 1) }
	sizeCall := func(v ssa.Value) bool {
		return callTo(".getConnectionPoolSize")(v) || lenOfField("gcpBalancer.scRefs")(v)
	}
	lAtoms := []atomDef{
		ltAtom("belowWatermark", isMinCnt, convOf(callTo(".GetMaxConcurrentStreamsLowWatermark"))),
		eqAtom("unlimited", callTo(".GetMaxSize"), constIs(0)),
		ltAtom("belowMax", sizeCall, convOf(callTo(".GetMaxSize"))),
		eqAtom("noSlot", func(v ssa.Value) bool { return msCall != nil && isExtractOf(stripConv(v), msCall, 0) }, isNil),
	}
	lcs := newCondSpace(lb, recOf(lAtoms...), atomNames(lAtoms...)...)
	L := lcs.Atom
	growCalls := pl.callsIn(lb, ns)
	c.floor("C03.grow", len(growCalls), 1)
	// exits, with merged single-exit returns split per incoming path
	vrets := lcs.VirtualReturns()
	for _, call := range growCalls {
		imp, wit := lcs.Implies(lcs.Reach(call), lcs.And(lcs.Not(L("belowWatermark")), lcs.Or(L("unlimited"), L("belowMax"))))
		c.check(imp && lcs.Seen("belowWatermark") && lcs.Seen("belowMax"), "C03.grow", "getLeastBusySubConnRef → newSubConn: guard", p.ipos(call),
			"growth only when the least busy READY channel is at/above the watermark and the pool is below maxSize (or unlimited)", "pool can grow while a READY channel has capacity, or at/above maxSize: "+wit)
		// C03.wait: every return after the growth request yields no slot and ErrNoSubConnAvailable
		for i, vr := range vrets {
			if !mayPrecede(call, vr.Ret) || !lcs.Satisfiable(and(vr.Cond, lcs.Reach(call))) {
				continue
			}
			_, onlyNil, ok := slotOrigin(vr.Vals[0])
			errOK := originsAll(vr.Vals[1], func(o Origin) bool {
				u, isU := o.Val.(*ssa.UnOp)
				if !isU {
					return false
				}
				g, isG := u.X.(*ssa.Global)
				return isG && g.Name() == "ErrNoSubConnAvailable"
			})
			c.check(ok && onlyNil && errOK, "C03.wait", fmt.Sprintf("getLeastBusySubConnRef return#%d after growth", i+1), p.ipos(vr.Ret), "the pick that triggered growth is told to wait (no slot, ErrNoSubConnAvailable)", "a pick that triggers growth is also placed, or fails with another error")
		}
	}
	// at capacity: the minimum slot is returned (placed even above the watermark)
	for i, vr := range vrets {
		if v, onlyNil, ok := slotOrigin(vr.Vals[0]); ok && !onlyNil && msCall != nil && isExtractOf(v, msCall, 0) {
			imp, wit := lcs.Implies(vr.Cond, lcs.Or(L("belowWatermark"), lcs.And(lcs.Not(L("unlimited")), lcs.Not(L("belowMax")))))
			c.check(imp, "C03.grow", fmt.Sprintf("getLeastBusySubConnRef return#%d: placement", i+1), p.ipos(vr.Ret), "a slot is handed out only below the watermark or when the pool is at maxSize", "a call is placed although the pool should grow first: "+wit)
		}
	}
	// completeness: saturated ∧ at max ⇒ placed (not refused)
	refused := lcs.False()
	for _, vr := range vrets {
		if _, onlyNil, ok := slotOrigin(vr.Vals[0]); ok && onlyNil {
			refused = or(refused, vr.Cond)
		}
	}
	imp, wit := lcs.Implies(and(refused, lcs.And(lcs.Not(L("noSlot")), lcs.Not(L("unlimited")), lcs.Not(L("belowMax")))), lcs.False())
	c.check(imp, "C03.grow", "getLeastBusySubConnRef: at maxSize calls are placed", p.pos(lb.Pos()), "with a non-empty snapshot and the pool at maxSize no call is refused", "at maxSize a call can be refused instead of placed on the least-loaded channel: "+wit)

	// ---- C03.quiet: newSubConnLocked refuses while any connection is Idle/Connecting
	addCalls := pl.callsIn(nsl, add)
	c.floor("C03.quiet", len(addCalls), 1)
	for _, call := range addCalls {
		good, why := false, "no scan of scStates returning on Idle/Connecting dominates the creation"
		for _, l := range loopsOf(nsl) {
			var nx *ssa.Next
			for _, in := range l.Header.Instrs {
				if n, ok := in.(*ssa.Next); ok {
					nx = n
				}
			}
			if nx == nil {
				continue
			}
			rng, _ := nx.Iter.(*ssa.Range)
			if rng == nil || !isLoadOf(rng.X, "gcpBalancer.scStates") || l.Blocks[call.Block()] {
				continue
			}
			if !l.Header.Dominates(call.Block()) {
				// or: no way to the creation goes around the scan (an earlier refusal that skips the scan also skips the creation)
				acs := newCondSpaceAvoid(nsl, nil, map[*ssa.BasicBlock]bool{l.Header: true})
				if acs.Satisfiable(acs.Reach(call)) {
					continue
				}
			}
			// the entry's state: the scan's value, or the table read under the scan's key
			isV := (&rangeLoop{Loop: l, Next: nx, Range: rng}).val
			cs := newCondSpace(nsl, recOf(eqAtom("elIdle", isV, constIs(pl.Idle)), eqAtom("elConnecting", isV, constIs(pl.Connecting))), "elIdle", "elConnecting")
			cs.ExclusiveAtoms("elIdle", "elConnecting")
			// an iteration that sees an Idle or Connecting entry neither goes on to the next entry nor reaches the creation
			// (it returns at once, or reports through a flag that makes the function return)
			body := nx.Block().Succs[0]
			pending := and(cs.ReachBlock(body), cs.Or(cs.Atom("elIdle"), cs.Atom("elConnecting")))
			wit := ""
			if !cs.Seen("elIdle") || !cs.Seen("elConnecting") {
				wit = "the scan does not test for both Idle and Connecting"
			}
			if cs.Satisfiable(and(pending, cs.Reach(call))) {
				_, wit = cs.Implies(and(pending, cs.Reach(call)), cs.False())
			}
			for _, lt := range l.Latch {
				for bi, sb := range lt.Succs {
					if sb == l.Header && cs.Satisfiable(and(pending, cs.EdgeCond(lt, bi))) {
						_, wit = cs.Implies(and(pending, cs.EdgeCond(lt, bi)), cs.False())
					}
				}
			}
			if wit == "" {
				good = true
			} else {
				why = "an Idle or Connecting entry does not stop the creation: " + wit
			}
		}
		c.check(good, "C03.quiet", "newSubConnLocked: creation", p.ipos(call), "every scStates entry is scanned first and an Idle or Connecting one makes the function return without creating", why)
	}

	// ---- premises checked by sibling properties, re-evaluated here because C03's clauses depend on them:
	//  * "exactly max(1, minSize) channels after the first update" needs the effective minSize to be the supplied one
	//    (only a zero becomes 1): the defaulting rules of C17;
	//  * "never removes a connection other than the old connection of a completed refresh" needs the swap to run once per
	//    replacement: the take-over rules of C07 (the replacement is unregistered, the slot points at it, the flag is cleared).
	importPremises(c, w, "C17", checkC17, []string{"C17.defaults"}, "C03.min-config")
	importPremises(c, w, "C07", checkC07, []string{"C07.swap"}, "C03.swap-once")
	//  * "a new channel is added only when every READY channel is at or above the watermark" compares the watermark with the
	//    stream counts: they must be exact (one increment per placement, one decrement per completion, surviving a swap)
	importPremises(c, w, "C02", checkC02, []string{"C02.complete", "C02.pick", "C02.place", "C02.survive", "C02.callers"}, "C03.counts")

	// ---- C03.remove
	rm := pl.ifaceCallSites("balancer.ClientConn.RemoveSubConn")
	c.floor("C03.remove", len(rm), 1)
	ucs := pl.uscsSpace()
	for i, s := range rm {
		construct := fmt.Sprintf("RemoveSubConn#%d in %s", i+1, fname(s.Fn))
		if s.Fn != pl.uscs || ucs == nil {
			c.fail("C03.remove", construct, p.ipos(s.Instr), "the balancer removes a connection outside the refresh swap")
			continue
		}
		imp, wit := ucs.Implies(ucs.Reach(s.Instr), ucs.And(ucs.Atom("found"), ucs.Atom("sReady")))
		arg := s.Call.Args[0]
		var subStore *ssa.Store
		for _, a := range pl.ai.ByFn[pl.uscs] {
			if a.Field == "subConnRef.subConn" && a.What == "store" {
				subStore = a.Instr.(*ssa.Store)
			}
		}
		ld, _ := stripConv(arg).(*ssa.UnOp)
		oldOK := ld != nil && isLoadOf(ld, "subConnRef.subConn") && subStore != nil && dominatesInstr(ld, subStore)
		// the slot whose old connection is removed is the one registered for this replacement
		if oldOK {
			_, base, _ := loadedField(ld)
			e, isE := stripConv(base).(*ssa.Extract)
			oldOK = isE && e.Index == 0
			if oldOK {
				l, isL := e.Tuple.(*ssa.Lookup)
				oldOK = isL && isLoadOf(l.X, "gcpBalancer.refreshingScRefs") && l.Index == ssa.Value(param(pl.uscs, 1))
			}
		}
		c.check(imp && oldOK && !inLoop(s.Instr), "C03.remove", construct, p.ipos(s.Instr), "removes exactly the old connection of the slot whose replacement just became READY, once", "RemoveSubConn is not (only) the old connection of a completed refresh: "+wit+" arg="+vstr(arg))
	}

	// ---- C03.one-extra: at most one outstanding replacement per channel
	pl.flagClearedOnlyAtSwap("C03.one-extra")

	// ---- C03.min
	emsCalls := pl.callsIn(ic, ems)
	c.floor("C03.min", len(emsCalls), 1)
	for _, call := range emsCalls {
		// after every default store
		okOrder := true
		for _, a := range pl.ai.ByFn[ic] {
			if strings.HasPrefix(a.Field, "ChannelPoolConfig.") && a.What == "store" && !dominatesOrBefore(a.Instr, call) {
				okOrder = false
			}
		}
		c.check(okOrder && everyReturnAfter(ic, call), "C03.min", "initializeConfig → enforceMinSize", p.ipos(call), "the minimum size is enforced on every path of the first configuration, after the defaults were applied", "minimum size not enforced after the defaults on every path")
	}
	for i, l := range loopsOf(ems) {
		// the loop goes round exactly while the pool is below the minimum and the last creation succeeded: every back edge
		// implies len(scRefs) < GetMinSize(); below the minimum the loop is left only after a failed creation
		below := ltAtom("below", lenOfField("gcpBalancer.scRefs"), convOf(callTo(".GetMinSize")))
		added := boolAtom("added", func(v ssa.Value) bool {
			call, isC := stripConv(v).(*ssa.Call)
			return isC && isCallTo(call, add, p)
		})
		mcs := newCondSpace(ems, recOf(below, added), "below", "added")
		back := mcs.False()
		for _, lt := range l.Latch {
			for bi, sb := range lt.Succs {
				if sb == l.Header {
					back = or(back, mcs.EdgeCond(lt, bi))
				}
			}
		}
		good := mcs.Seen("below") && mcs.Satisfiable(back)
		if imp, _ := mcs.Implies(back, mcs.Atom("below")); !imp {
			good = false
		}
		if imp, _ := mcs.Implies(and(and(mcs.ReachBlock(l.Header), mcs.Atom("below")), mcs.Not(back)), mcs.Not(mcs.Atom("added"))); !imp {
			good = false
		}
		c.check(good, "C03.min", fmt.Sprintf("enforceMinSize loop#%d", i+1), p.ipos(l.Header.Instrs[0]), "iterates while len(scRefs) < GetMinSize()", "the minimum-size loop does not compare the pool size with minSize")
		n := len(pl.callsIn(ems, add))
		c.check(n == 1, "C03.min", "enforceMinSize adds one connection per iteration", p.pos(ems.Pos()), "one addSubConn call in the loop", fmt.Sprintf("%d addSubConn calls", n))
	}
	if uccs != nil {
		for _, call := range pl.callsIn(uccs, ic) {
			cs := newCondSpace(uccs, recOf(eqAtom("cfgNil", loadOf("gcpBalancer.cfg"), isNil)), "cfgNil")
			imp, wit := cs.Implies(cs.Reach(call), cs.Atom("cfgNil"))
			c.check(imp, "C03.min", "UpdateClientConnState → initializeConfig: first update only", p.ipos(call), "configuration (and the minimum-size fill) happens only while gb.cfg == nil", "the pool can be re-initialised by later updates: "+wit)
		}
	}

	// ---- C03.atomic (check-then-act): on every chain from a pick to a creation, the comparison with maxSize
	// that permits the creation reads the pool size in the critical section that performs the creation.
	for _, call := range addCalls {
		construct := "newSubConnLocked: maxSize re-checked in the creating critical section"
		locked := pl.lf.HeldAt(call)["gcpBalancer.mu"] == 2
		acs := newCondSpace(nsl, recOf(
			ltAtom("belowMax", lenOfField("gcpBalancer.scRefs"), convOf(callTo(".GetMaxSize"))),
			eqAtom("unlimited", convOf(callTo(".GetMaxSize")), constIs(0)),
			ltAtom("maxPositive", constIs(0), convOf(callTo(".GetMaxSize"))),
		), "belowMax", "unlimited", "maxPositive")
		// maxSize is unsigned: ¬(0 < max) ⇔ max == 0
		acs.Univ = and(acs.Univ, acs.Or(acs.Atom("maxPositive"), acs.Atom("unlimited")))
		acs.Univ = and(acs.Univ, acs.Not(acs.And(acs.Atom("maxPositive"), acs.Atom("unlimited"))))
		imp, wit := acs.Implies(acs.Reach(call), acs.Or(acs.Atom("unlimited"), acs.Atom("belowMax")))
		sizeLocked := true
		for i, val := range acs.VarVal {
			if val != nil && acs.Vars[i] == "@belowMax" {
				if in, ok := val.(ssa.Instruction); ok && pl.lf.HeldAt(in)["gcpBalancer.mu"] == 0 {
					sizeLocked = false
				}
			}
		}
		if imp && locked && sizeLocked && acs.Seen("belowMax") {
			c.ok("C03.atomic", construct, p.ipos(call), "creation is reachable only when maxSize is unlimited or len(scRefs) < maxSize, both read while holding gb.mu in the same critical section as the creation")
		} else {
			var split []string
			for _, gc := range growCalls {
				split = append(split, "picker-side check at "+p.ipos(gc)+" reads the size via getConnectionPoolSize() (lock, read, unlock) before newSubConn() re-acquires the lock")
			}
			c.fail("C03.atomic", construct, p.ipos(call), "the comparison with maxSize that permits a creation is not made in the critical section that creates: two saturated picks (e.g. on a current and a stale picker) can both pass the picker-side check and exceed maxSize: "+wit, split...)
		}
	}
}

// reachableWithin: b2 reachable from b1 without leaving through the loop header again.
func reachableWithin(b1, b2 *ssa.BasicBlock, l *Loop) bool {
	seen := map[*ssa.BasicBlock]bool{}
	stack := []*ssa.BasicBlock{b1}
	for len(stack) > 0 {
		x := stack[len(stack)-1]
		stack = stack[:len(stack)-1]
		if x == b2 {
			return true
		}
		if seen[x] || x == l.Header {
			continue
		}
		seen[x] = true
		stack = append(stack, x.Succs...)
	}
	return false
}

func dominatesOrBefore(a, b ssa.Instruction) bool {
	// a executes before b on every path on which both execute: a may not follow b
	return !mayPrecede(b, a)
}

// everyReturnAfter: every return of fn is preceded by the call.
func everyReturnAfter(fn *ssa.Function, call ssa.Instruction) bool {
	for _, r := range returnsOf(fn) {
		if !dominatesInstr(call, r) {
			return false
		}
	}
	return true
}

// importPremises runs a sibling property's rule set in a private context and re-reports, under this property's rule
// name, every obligation of the named families (ok ones as ok, failing ones as failing).
func importPremises(c *Ctx, w *World, prop string, fn func(*Ctx, *World), families []string, as string) {
	importPremisesIf(c, w, prop, fn, families, as, nil)
}

// importPremisesIf: as importPremises, restricted to the obligations whose construct satisfies keep (nil = all).
func importPremisesIf(c *Ctx, w *World, prop string, fn func(*Ctx, *World), families []string, as string, keep func(construct string) bool) {
	// a premise of a premise that leads back to a property already being evaluated adds nothing (C07 takes C04.pair,
	// C04 takes C07.swap): it is skipped, the outer evaluation of that property covers it
	if prop == c.Property {
		return
	}
	for _, q := range c.importing {
		if q == prop {
			return
		}
	}
	sub := newCtx(prop, c.Tier, c.Repo, c.Verif)
	sub.importing = append(append([]string{}, c.importing...), c.Property)
	func() {
		defer func() {
			if r := recover(); r != nil {
				sub.fatalf("panic: %v", r)
			}
		}()
		fn(sub, w)
	}()
	n := 0
	for _, o := range sub.Obs {
		for _, fam := range families {
			if o.Rule != fam || (keep != nil && !keep(o.Construct)) {
				continue
			}
			n++
			c.add(as, o.Rule+" @ "+o.Construct, o.Status, o.Pos, o.Detail, o.Nontrivial)
		}
	}
	for _, f := range sub.fatal {
		c.fail(as, "premise "+prop, "-", f)
	}
	// a premise run that lost an anchor (or could not decide something at engine level) proves nothing
	for _, o := range sub.Obs {
		if strings.HasPrefix(o.Rule, "engine.") && o.Status != "ok" {
			c.add(as, "premise "+prop+": "+o.Rule+" @ "+o.Construct, o.Status, o.Pos, o.Detail, true)
		}
	}
	c.floor(as, n, 1)
}
