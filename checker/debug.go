package main

import (
	"fmt"
	"os"
	"path/filepath"
	"sort"
	"strings"
)

func debugDump(what, repo string) int {
	if what == "knownfuncs" {
		dumpKnownFuncs(repo)
		return 0
	}
	if what == "inlined" {
		ir := inlineNewHelpers(repo)
		fmt.Println("inlined:", ir.Inlined, "reason:", ir.Reason)
		for path, b := range ir.Overlay {
			fmt.Println("=====", path)
			os.Stdout.Write(b)
		}
		return 0
	}
	mod, pats := "grpcgcp", []string{".", "./multiendpoint", "./grpc_gcp"}
	if i := strings.Index(what, "@"); i > 0 && strings.HasPrefix(what, "mod:") {
		// mod:<dir>:<pat,pat>@ssa:<fn>
		spec := strings.Split(what[4:i], ":")
		mod = spec[0]
		pats = strings.Split(spec[1], ",")
		what = what[i+1:]
	}
	p, err := loadProg(filepath.Join(repo, mod), pats, false, nil, "")
	if err != nil {
		fmt.Println(err)
		return 1
	}
	if strings.HasPrefix(what, "ssa:") {
		for _, f := range p.Funcs {
			if fname(f) == strings.TrimPrefix(what, "ssa:") {
				f.WriteTo(os.Stdout)
			}
		}
		return 0
	}
	switch what {
	case "funcs":
		for _, f := range p.Funcs {
			fmt.Printf("%-20s %s  blocks=%d\n", f.Pkg.Pkg.Name(), fname(f), len(f.Blocks))
		}
	case "locks":
		lf := buildLockFacts(p)
		fmt.Println("cond locks:", lf.CondLock)
		for _, f := range p.Funcs {
			if f.Pkg.Pkg.Name() == "grpc_gcp" {
				continue
			}
			fmt.Printf("%-45s ext=%-5v may=%s must=%s\n", fname(f), lf.External[f], lf.MayHeld[f], lf.MustHeld[f])
		}
		for _, is := range lf.Issues {
			fmt.Printf("ISSUE %s %s %s lock=%s: %s %v\n", is.Kind, fname(is.Fn), p.ipos(is.Instr), is.Lock, is.Detail, is.Chain)
		}
		var es []string
		for e, w := range lf.Order {
			es = append(es, fmt.Sprintf("%s -> %s  %v", e[0], e[1], w))
		}
		sort.Strings(es)
		for _, e := range es {
			fmt.Println("ORDER", e)
		}
		fmt.Println("cycle:", lf.orderCycle())
	}
	return 0
}
