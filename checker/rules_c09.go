package main

import (
	"fmt"
	"go/token"
	"strings"

	"golang.org/x/tools/go/ssa"
)

func init() { register("C09", checkC09) }

// C09 — Round-robin BIND.
func checkC09(c *Ctx, w *World) {
	c.Explanation = "Structural analysis of the round-robin strategy: dispatch to the round-robin selection exactly for BIND under the ROUND_ROBIN strategy, " +
		"one atomic cursor bump per selection with index = cursor mod len(list) on the creation-ordered list, the list is append-only (self-append of the slot just " +
		"created, never pruned or reordered, untouched by the refresh swap), the non-empty-list lemma that makes the modulo safe, every return of the waiter is " +
		"dominated by a READY observation under the read lock or is the context-done case, the state signal is read under the lock before it is released, and every " +
		"state report of a pool member closes and re-makes the slot's signal."
	c.RuleText = "one obligation per dispatch site / cursor use / list writer / waiter return / wake-up; non-trivial = needed a truth-table equivalence, must-pass-through or provenance argument"
	c.Assumptions = []string{"the n×k fairness count follows arithmetically from cursor+modulo+append-only while the composition is unchanged and fewer than 2^32 BINDs were issued; the arithmetic is not machine-checked"}
	c.Trusted = []string{"go/types", "golang.org/x/tools/go/ssa v0.29.0", "sync/atomic semantics"}
	pl := newPool(c, w)
	if pl == nil || pl.uscs == nil {
		return
	}
	p := pl.p
	rr, gai, add := pl.f("(*gcpBalancer).getSubConnRoundRobin"), pl.f("(*gcpPicker).getAndIncrementSubConnRef"), pl.f("(*gcpBalancer).addSubConn")
	if rr == nil || gai == nil || add == nil || pl.pick == nil {
		return
	}

	// ---- C09.dispatch
	sites := pl.whoMayCall("C09.dispatch", rr, fname(gai))
	c.floor("C09.dispatch", len(sites), 1)
	cmd := gai.Params[3]
	dAtoms := []atomDef{
		eqAtom("cmdBIND", isVal(cmd), constIs(pl.BIND)),
		eqAtom("strategyRR", callTo(".GetBindPickStrategy"), constIs(pl.RoundRobin)),
	}
	dcs := newCondSpace(gai, recOf(dAtoms...), atomNames(dAtoms...)...)
	for _, s := range sites {
		if s.Fn != gai {
			continue
		}
		eq, wit := dcs.EquivStrict(dcs.Reach(s.Instr), dcs.And(dcs.Atom("cmdBIND"), dcs.Atom("strategyRR")))
		c.check(eq, "C09.dispatch", "round-robin selection: condition", p.ipos(s.Instr), "used ⇔ command is BIND ∧ bind_pick_strategy is ROUND_ROBIN (other calls are unaffected)", "round-robin selection is not applied exactly to BIND calls under the ROUND_ROBIN strategy: "+wit)
		c.check(s.Call.Args[1] == ssa.Value(gai.Params[1]), "C09.dispatch", "round-robin selection: context", p.ipos(s.Instr), "waits on the call's own context", "waiter is not given the call's context")
	}
	// the slot selected by the round-robin is the one handed back on that path
	for _, s := range sites {
		if s.Fn != gai {
			continue
		}
		call, _ := s.Instr.(*ssa.Call)
		n := 0
		for i, r := range returnsOf(gai) {
			if !mayPrecede(s.Instr, r) {
				continue
			}
			n++
			v, onlyNil, ok := slotOrigin(r.Results[0])
			c.check(ok && !onlyNil && call != nil && stripConv(v) == ssa.Value(call), "C09.dispatch", fmt.Sprintf("round-robin selection: result returned (return#%d)", i+1), p.ipos(r), "the BIND call is placed on the slot chosen by the round-robin cursor", "a round-robin BIND is placed on a slot other than the one the cursor selected: "+originStrings(origins(r.Results[0])))
		}
		c.floor("C09.dispatch:returns", n, 1)
	}
	// the command handed down by Pick is the method's command (C01.extract checks the provenance); here: Pick passes info.Ctx
	for _, call := range pl.callsIn(pl.pick, gai) {
		okCtx := originsAll(call.Call.Args[1], func(o Origin) bool { return paramFieldLoad(o.Val, pl.pick.Params[1], "PickInfo.Ctx") })
		c.check(okCtx, "C09.dispatch", "Pick passes the call's context", p.ipos(call), "context is PickInfo.Ctx", "Pick does not hand the call's context to the placement")
	}

	// ---- C09.cursor
	var bumps []*ssa.Call
	for _, a := range pl.ai.ByFn[rr] {
		if a.Field == "gcpBalancer.rrRefId" && a.Mode == "A" {
			bumps = append(bumps, a.Instr.(*ssa.Call))
		}
	}
	good := len(bumps) == 1
	why := fmt.Sprintf("%d cursor operations", len(bumps))
	var idxAddr *ssa.IndexAddr
	if good {
		b := bumps[0]
		d, isC := constInt(b.Call.Args[1])
		if !strings.HasSuffix(calleeOf(&b.Call).Name(), "atomic.AddUint32") || !isC || d != 1 || inLoop(b) {
			good, why = false, "cursor is not bumped by one atomic add of 1 outside any loop"
		}
		// index expression: b % uint32(len(scRefList)) used to index scRefList
		eachInstr(rr, func(in ssa.Instruction) {
			if ia, ok := in.(*ssa.IndexAddr); ok && isLoadOf(ia.X, "gcpBalancer.scRefList") {
				idxAddr = ia
			}
		})
		if idxAddr == nil {
			good, why = false, "scRefList is not indexed"
		} else {
			bo, ok := idxAddr.Index.(*ssa.BinOp)
			if !ok || bo.Op != token.REM || bo.X != ssa.Value(b) || !convOf(lenOfField("gcpBalancer.scRefList"))(bo.Y) {
				good, why = false, "index is not (cursor value) mod len(scRefList): "+vstr(idxAddr.Index)
			} else if pl.lf.HeldAt(idxAddr)["gcpBalancer.mu"] == 0 || !sameCritical(pl.lf, bo.Y, idxAddr) {
				good, why = false, "length and indexing are not in one critical section"
			}
		}
	}
	c.check(good, "C09.cursor", "getSubConnRoundRobin: cursor and index", p.pos(rr.Pos()), "exactly one atomic bump of the shared cursor per selection; the slot is scRefList[cursor mod len(scRefList)], length and element read in one critical section", why)
	pl.whoMayWrite("C09.cursor", "gcpBalancer.rrRefId", map[string][]string{fname(rr): {"atomic"}})
	// every waiter return yields that indexed slot
	if idxAddr != nil {
		for i, r := range returnsOf(rr) {
			v, onlyNil, ok := slotOrigin(r.Results[0])
			okv := false
			if ok && !onlyNil {
				if u, isU := v.(*ssa.UnOp); isU && u.X == ssa.Value(idxAddr) {
					okv = true
				}
			}
			c.check(okv, "C09.cursor", fmt.Sprintf("getSubConnRoundRobin return#%d: slot", i+1), p.ipos(r), "returns the slot selected by the cursor", "returns a slot other than the one the cursor selected")
		}
	}

	// ---- C09.list
	nw := 0
	for _, a := range pl.ai.ByField["gcpBalancer.scRefList"] {
		if a.isWrite() && freshAt(a.Base, a.Instr) {
			// the constructor's initial list: its storage must belong to this balancer alone ("the pool's channels in creation
			// order": a backing array shared with other balancers would let their appends overwrite these slots)
			if st, isSt := a.Instr.(*ssa.Store); isSt {
				shared := sharedSliceRoots(st.Val, map[ssa.Value]bool{})
				c.check(len(shared) == 0, "C09.list", "initial scRefList in "+fname(a.Fn), p.ipos(st), "the list starts as storage allocated for this balancer (empty literal / make / nil)", "the round-robin list starts on storage shared with other balancers: "+strings.Join(shared, "; "))
			}
			continue
		}
		if !a.isWrite() {
			continue
		}
		nw++
		construct := fmt.Sprintf("scRefList write in %s", fname(a.Fn))
		st, isSt := a.Instr.(*ssa.Store)
		okw := a.Fn == add && isSt
		if okw {
			app, isApp := st.Val.(*ssa.Call)
			okw = isApp && calleeOf(&app.Call).Builtin == "append" && isLoadOf(app.Call.Args[0], "gcpBalancer.scRefList")
			if okw {
				// appended element: the slot just stored under scRefs[sc] (the fresh literal)
				okw = false
				if sl, ok := app.Call.Args[1].(*ssa.Slice); ok {
					if al, ok := sl.X.(*ssa.Alloc); ok {
						for _, r := range *al.Referrers() {
							if ia, ok := r.(*ssa.IndexAddr); ok {
								for _, s2 := range storesTo(ia) {
									if isNewSlot(s2.Val, add) {
										okw = true
									}
								}
							}
						}
					}
				}
			}
		}
		c.check(okw, "C09.list", construct, p.ipos(a.Instr), "scRefList = append(scRefList, <the slot just created>): append-only, creation order", "the round-robin list is written other than by appending the newly created slot (pruned, reordered or foreign element)")
	}
	c.floor("C09.list", nw, 1)

	// ---- C09.lemma: len(scRefList) > 0 at the index
	// (a) slots are allocated only in addSubConn, which appends on the same path
	allocOK, napp := true, 0
	for _, f := range p.Funcs {
		eachInstr(f, func(in ssa.Instruction) {
			if al, ok := in.(*ssa.Alloc); ok && shortType(al.Type()) == "*grpcgcp.subConnRef" && al.Heap {
				if f != add {
					allocOK = false
				}
			}
		})
	}
	for _, a := range pl.ai.ByFn[add] {
		if a.Field == "gcpBalancer.scRefList" && a.What == "store" {
			napp++
			// the append is on every path that inserted into scRefs
			for _, b := range pl.ai.ByFn[add] {
				if b.Field == "gcpBalancer.scRefs" && b.What == "map-insert" {
					if !everyPathHits(b.Instr, map[ssa.Instruction]bool{a.Instr: true}) {
						allocOK = false
					}
				}
			}
		}
	}
	// (c) the waiter is reachable only from Pick after the non-empty snapshot guard
	pcs := newCondSpace(pl.pick, recOf(lenZeroAtom("snapshotEmpty", lenOfField("gcpPicker.scRefs"))), "snapshotEmpty")
	guardOK := true
	for _, call := range pl.callsIn(pl.pick, gai) {
		if imp, _ := pcs.Implies(pcs.Reach(call), pcs.Not(pcs.Atom("snapshotEmpty"))); !imp {
			guardOK = false
		}
	}
	gaiCallers := pl.whoMayCall("C09.lemma", gai, fname(pl.pick))
	c.check(allocOK && napp == 1 && guardOK && len(gaiCallers) == 1, "C09.lemma", "len(scRefList) > 0 at the modulo", p.pos(rr.Pos()),
		"slots are allocated only by addSubConn, which appends each to scRefList on the same path; the list never shrinks (C09.list); the waiter runs only after Pick saw a non-empty READY snapshot, whose elements are pool slots (C02.snapshot): the list is non-empty",
		fmt.Sprintf("premises of the non-empty-list lemma do not hold (alloc/append pairing=%v appends=%d snapshot guard=%v)", allocOK, napp, guardOK))

	// ---- C09.wait
	isState := func(v ssa.Value) bool {
		l, ok := stripConv(v).(*ssa.Lookup)
		if !ok || !isLoadOf(l.X, "gcpBalancer.scStates") {
			return false
		}
		f, base, isL := loadedField(l.Index)
		if !isL || f != "subConnRef.subConn" {
			return false
		}
		u, isU := base.(*ssa.UnOp)
		if !isU || idxAddr == nil || u.X != ssa.Value(idxAddr) {
			return false
		}
		return pl.lf.HeldAt(l)["gcpBalancer.mu"] >= 1
	}
	wcs := newCondSpace(rr, recOf(eqAtom("ready", isState, constIs(pl.Ready))), "ready")
	var sel *ssa.Select
	eachInstr(rr, func(in ssa.Instruction) {
		if s, ok := in.(*ssa.Select); ok {
			sel = s
		}
	})
	for i, r := range returnsOf(rr) {
		construct := fmt.Sprintf("getSubConnRoundRobin return#%d: readiness", i+1)
		imp, wit := wcs.Implies(wcs.Reach(r), wcs.Atom("ready"))
		if imp {
			c.ok("C09.wait", construct, p.ipos(r), "returns only after observing the slot READY under the read lock")
			continue
		}
		// otherwise it must be the ctx.Done() case of the select
		isDone := false
		if sel != nil {
			for si, st := range sel.States {
				if ctx, ok := isCtxDone(st.Chan); ok && ctxOrigin(ctx) != "" {
					if caseBlock := selectCaseBlock(sel, si); caseBlock != nil && (caseBlock == r.Block() || caseBlock.Dominates(r.Block())) {
						isDone = true
					}
					// … or, on conditions: this exit, when the slot was not seen READY, implies that the context-done case was
					// the one chosen (the case may only have set a flag that is tested afterwards)
					var selIdx ssa.Value
					for _, rf := range *sel.Referrers() {
						if ex, isE := rf.(*ssa.Extract); isE && ex.Index == 0 {
							selIdx = ex
						}
					}
					if !isDone && selIdx != nil {
						dcs := newCondSpace(rr, recOf(eqAtom("ready", isState, constIs(pl.Ready)), eqAtom("ctxCase", isVal(selIdx), constIs(int64(si)))), "ready", "ctxCase")
						if imp2, _ := dcs.Implies(dcs.And(dcs.Reach(r), dcs.Not(dcs.Atom("ready"))), dcs.Atom("ctxCase")); imp2 && dcs.Seen("ctxCase") {
							isDone = true
						}
					}
				}
			}
		}
		c.check(isDone, "C09.wait", construct, p.ipos(r), "returns without READY only in the context-done case", "the waiter can hand out a channel that is not READY although the context has not ended: "+wit)
	}
	if sel != nil {
		held := pl.lf.MayHeldAt(sel)
		c.check(len(held) == 0 && sel.Blocking, "C09.wait", "waiter blocks lock-free", p.ipos(sel), "the select runs with no lock held", fmt.Sprintf("the waiter blocks while holding %s", held))
		// signal channel read under the read lock, before the lock is released, in the same iteration
		okSig := false
		for _, st := range sel.States {
			if ld, ok := stripConv(st.Chan).(*ssa.UnOp); ok && isLoadOf(ld, "subConnRef.stateSignal") {
				if pl.lf.HeldAt(ld)["gcpBalancer.mu"] >= 1 && ld.Block() == sel.Block() {
					okSig = true
				}
			}
		}
		c.check(okSig, "C09.wait", "state signal read under the lock", p.ipos(sel), "the channel to wait on is read while the read lock is held, so a close between the readiness test and the wait is not lost", "the signal channel is read after the lock was released: a state change in between is a lost wake-up")
	} else {
		c.fail("C09.wait", "waiter select", p.pos(rr.Pos()), "no select found in the round-robin waiter")
	}
	// wake-up: every recorded state report closes and re-makes the slot's signal
	sc := param(pl.uscs, 1)
	var record *ssa.MapUpdate
	for _, a := range pl.ai.ByFn[pl.uscs] {
		if mu, ok := a.Instr.(*ssa.MapUpdate); ok && a.Field == "gcpBalancer.scStates" && mu.Key == ssa.Value(sc) {
			if _, isLk := stripConv(mu.Value).(*ssa.Lookup); !isLk {
				record = mu
			}
		}
	}
	var closeCall *ssa.Call
	var remake *ssa.Store
	eachInstr(pl.uscs, func(in ssa.Instruction) {
		if call, ok := in.(*ssa.Call); ok && calleeOf(&call.Call).Builtin == "close" && isLoadOf(call.Call.Args[0], "subConnRef.stateSignal") {
			closeCall = call
		}
		if st, ok := in.(*ssa.Store); ok {
			if fa, ok := st.Addr.(*ssa.FieldAddr); ok && fieldRefOfAddr(fa) == "subConnRef.stateSignal" {
				if _, isMk := st.Val.(*ssa.MakeChan); isMk {
					remake = st
				}
			}
		}
	})
	if record == nil || closeCall == nil || remake == nil {
		c.fail("C09.wake", "UpdateSubConnState: signal", p.pos(pl.uscs.Pos()), "state record, close(stateSignal) or its re-creation not found")
	} else {
		// the slot signalled is scRefs[sc]; the close is skipped only when the connection left the pool (lookup nil)
		_, base, _ := loadedField(closeCall.Call.Args[0])
		lk, isLk := stripConv(base).(*ssa.Lookup)
		slotOK := isLk && isLoadOf(lk.X, "gcpBalancer.scRefs") && lk.Index == ssa.Value(sc)
		ncs := newCondSpace(pl.uscs, recOf(eqAtom("slotNil", isVal(base), isNil)), "slotNil")
		// every path from the record to a return passes the lookup, and the close happens unless the slot is nil
		passes := isLk && (everyPathHits(record, map[ssa.Instruction]bool{lk: true}) || everyWayHits(ncs, record, lk))
		avoid := map[*ssa.BasicBlock]bool{closeCall.Block(): true}
		acs := newCondSpaceAvoid(pl.uscs, recOf(eqAtom("slotNil", isVal(base), isNil)), avoid, "slotNil")
		skipOnlyNil := true
		for _, r := range returnsOf(pl.uscs) {
			if isLk && mayPrecede(lk, r) {
				if imp, _ := acs.Implies(and(acs.Reach(r), acs.Reach(lk)), acs.Atom("slotNil")); !imp {
					skipOnlyNil = false
				}
			}
		}
		_ = ncs
		sameBlk := closeCall.Block() == remake.Block() && instrIndex(closeCall) < instrIndex(remake)
		c.check(slotOK && passes && skipOnlyNil && sameBlk, "C09.wake", "UpdateSubConnState: close-and-remake", p.ipos(closeCall),
			"every recorded state report reaches close(scRefs[sc].stateSignal) followed by its re-creation, skipped only when the connection has left the pool",
			fmt.Sprintf("a state change of a pool member can go unsignalled (slot=%v every path=%v skipped only if nil=%v remade=%v)", slotOK, passes, skipOnlyNil, sameBlk))
	}
	// ---- premise checked by a sibling property, re-evaluated here: "every slot becomes READY ⇒ the waiting BIND call is
	// handed its slot" is stated over the recorded state of the slot's connection — the record must follow the reports and
	// survive the refresh swap (C04.pair), or a READY channel keeps its round-robin callers waiting
	importPremises(c, w, "C04", checkC04, []string{"C04.pair", "C04.refresh-complete"}, "C09.states")
	// "dispatch ⇔ the method's command is BIND" is stated over the method table: every configured method must be in it
	importPremises(c, w, "C17", checkC17, []string{"C17.methods"}, "C09.config")

}

// sameCritical: both instructions execute with the lock held and no release of it can occur between them.
func sameCritical(lf *LockFacts, a ssa.Value, b ssa.Instruction) bool {
	ai, ok := a.(ssa.Instruction)
	if !ok {
		if cv, isC := a.(*ssa.Convert); isC {
			ai, ok = cv.X.(ssa.Instruction)
		}
	}
	if !ok || ai.Block() != b.Block() {
		return false
	}
	lo, hi := instrIndex(ai), instrIndex(b)
	if lo > hi {
		lo, hi = hi, lo
	}
	for i := lo; i <= hi; i++ {
		if cc := callCommon(b.Block().Instrs[i]); cc != nil {
			if op, isOp := lf.lockOpOf(cc); isOp && (op.kind == "Unlock" || op.kind == "RUnlock") {
				return false
			}
		}
	}
	return lf.HeldAt(ai)["gcpBalancer.mu"] >= 1
}

// isNewSlot: v is the slot created by addSubConn (the fresh literal, or its read-back from scRefs[sc]).
func isNewSlot(v ssa.Value, add *ssa.Function) bool {
	v = stripConv(v)
	if al, ok := v.(*ssa.Alloc); ok && al.Parent() == add && shortType(al.Type()) == "*grpcgcp.subConnRef" {
		return true
	}
	if l, ok := v.(*ssa.Lookup); ok && isLoadOf(l.X, "gcpBalancer.scRefs") {
		// read-back of the entry just inserted under the same key
		found := false
		eachInstr(add, func(in ssa.Instruction) {
			if mu, ok := in.(*ssa.MapUpdate); ok && isLoadOf(mu.Map, "gcpBalancer.scRefs") && mu.Key == l.Index && dominatesInstr(mu, l) {
				if al, ok := stripConv(mu.Value).(*ssa.Alloc); ok && al.Parent() == add {
					found = true
				}
			}
		})
		return found
	}
	return false
}

// selectCaseBlock: the block executed when the select chose state si.
func selectCaseBlock(sel *ssa.Select, si int) *ssa.BasicBlock {
	var idx ssa.Value
	for _, r := range *sel.Referrers() {
		if ex, ok := r.(*ssa.Extract); ok && ex.Index == 0 {
			idx = ex
		}
	}
	if idx == nil {
		return nil
	}
	for _, r := range *idx.Referrers() {
		bo, ok := r.(*ssa.BinOp)
		if !ok {
			continue
		}
		if cv, isC := constInt(bo.Y); !isC || int(cv) != si {
			continue
		}
		for _, rr := range *bo.Referrers() {
			if iff, ok := rr.(*ssa.If); ok {
				return iff.Block().Succs[0]
			}
		}
	}
	return nil
}
