package main

import (
	"bufio"
	"encoding/json"
	"fmt"
	"os"
	"path/filepath"
	"sort"
	"strings"
	"time"
)

// An Obligation is one rule instance evaluated on one construct of the code.
// Its identity is rule+construct (never a line number) so that known findings
// and evidence survive unrelated edits.
type Obligation struct {
	Rule       string   `json:"rule"`
	Construct  string   `json:"construct"`
	Status     string   `json:"status"` // ok | fail | known | undecided
	Pos        string   `json:"pos,omitempty"`
	Detail     string   `json:"detail,omitempty"`  // what was shown / what fails
	Witness    []string `json:"witness,omitempty"` // path, call chain, falsifying assignment
	Nontrivial bool     `json:"nontrivial"`        // verdict needed a guard / path / provenance argument
}

type knownEntry struct {
	Property, Rule, Construct, What string
	used                            bool
}

// Ctx collects the results of one property run.
type Ctx struct {
	Property string
	Tier     string
	Repo     string
	Verif    string
	Seed     int64
	Start    time.Time

	Obs         []*Obligation
	obIndex     map[string]*Obligation
	Known       []*knownEntry
	Fixed       []string
	Explanation string
	RuleText    string
	Assumptions []string
	Trusted     []string
	Extra       map[string]interface{}
	Packages    []string
	FuncsSeen   map[string]bool
	CallSites   int
	Floors      map[string][2]int // rule -> {found, floor}
	fatal       []string
	importing   []string // properties whose rule sets are being evaluated as premises (outermost first)
}

func newCtx(property, tier, repo, verif string) *Ctx {
	return &Ctx{Property: property, Tier: tier, Repo: repo, Verif: verif, Start: time.Now(),
		obIndex: map[string]*Obligation{}, Extra: map[string]interface{}{}, FuncsSeen: map[string]bool{},
		Floors: map[string][2]int{}}
}

func (c *Ctx) add(rule, construct, status, pos, detail string, nontrivial bool, witness ...string) *Obligation {
	key := rule + "\x00" + construct
	if o, ok := c.obIndex[key]; ok {
		// same rule instance reported twice (e.g. from two call paths): keep the worst status
		if rank(status) > rank(o.Status) {
			o.Status, o.Detail, o.Pos, o.Witness = status, detail, pos, witness
		}
		o.Nontrivial = o.Nontrivial || nontrivial
		return o
	}
	o := &Obligation{Rule: rule, Construct: construct, Status: status, Pos: pos, Detail: detail, Witness: witness, Nontrivial: nontrivial}
	c.Obs = append(c.Obs, o)
	c.obIndex[key] = o
	return o
}

func rank(s string) int {
	switch s {
	case "ok":
		return 0
	case "known":
		return 1
	case "undecided":
		return 2
	case "fail":
		return 3
	}
	return 4
}

func (c *Ctx) ok(rule, construct, pos, detail string, witness ...string) {
	c.add(rule, construct, "ok", pos, detail, true, witness...)
}
func (c *Ctx) okTrivial(rule, construct, pos, detail string) {
	c.add(rule, construct, "ok", pos, detail, false)
}
func (c *Ctx) fail(rule, construct, pos, detail string, witness ...string) {
	c.add(rule, construct, "fail", pos, detail, true, witness...)
}
func (c *Ctx) undecided(rule, construct, pos, detail string, witness ...string) {
	c.add(rule, construct, "undecided", pos, detail, true, witness...)
}

// check records ok or fail.
func (c *Ctx) check(cond bool, rule, construct, pos, okDetail, failDetail string, witness ...string) bool {
	if cond {
		c.add(rule, construct, "ok", pos, okDetail, true)
	} else {
		c.add(rule, construct, "fail", pos, failDetail, true, witness...)
	}
	return cond
}

// floor asserts that a rule found at least n instances (a rule that lost its anchor must not pass vacuously).
func (c *Ctx) floor(rule string, found, min int) {
	c.Floors[rule] = [2]int{found, min}
	if found < min {
		c.fail(rule+".floor", fmt.Sprintf("instances<%d", min), "-", fmt.Sprintf("rule matched %d instance(s), hand-confirmed floor is %d: the rule lost its anchor", found, min))
	}
}

func (c *Ctx) fatalf(format string, a ...interface{}) {
	c.fatal = append(c.fatal, fmt.Sprintf(format, a...))
}

func (c *Ctx) loadKnown(path string) error {
	f, err := os.Open(path)
	if err != nil {
		if os.IsNotExist(err) {
			return nil
		}
		return err
	}
	defer f.Close()
	sc := bufio.NewScanner(f)
	sc.Buffer(make([]byte, 1<<20), 1<<20)
	for sc.Scan() {
		line := strings.TrimSpace(sc.Text())
		if line == "" || strings.HasPrefix(line, "#") {
			continue
		}
		if strings.HasPrefix(line, "fixed:") {
			if strings.Contains(line, "property="+c.Property+" ") {
				c.Fixed = append(c.Fixed, strings.TrimSpace(strings.TrimPrefix(line, "fixed:")))
			}
			continue
		}
		if !strings.HasPrefix(line, "known:") {
			return fmt.Errorf("known findings: unparsable line %q", line)
		}
		body := strings.TrimSpace(strings.TrimPrefix(line, "known:"))
		what := ""
		if i := strings.Index(body, " :: "); i >= 0 {
			what = body[i+4:]
			body = body[:i]
		}
		e := &knownEntry{What: what}
		// construct may contain spaces: fields are "property=.. rule=.. construct=<rest>"
		if i := strings.Index(body, " construct="); i >= 0 {
			e.Construct = body[i+len(" construct="):]
			body = body[:i]
		}
		for _, f := range strings.Fields(body) {
			if strings.HasPrefix(f, "property=") {
				e.Property = strings.TrimPrefix(f, "property=")
			} else if strings.HasPrefix(f, "rule=") {
				e.Rule = strings.TrimPrefix(f, "rule=")
			}
		}
		if e.Property == "" || e.Rule == "" || e.Construct == "" {
			return fmt.Errorf("known findings: incomplete entry %q", line)
		}
		if e.Property == c.Property {
			c.Known = append(c.Known, e)
		}
	}
	return sc.Err()
}

// finish triages, prints, writes the evidence and returns the exit status.
// hasAlarms: some obligation failed (or is undecided) and is not a listed known finding, or the run was fatal.
func (c *Ctx) hasAlarms() bool {
	if len(c.fatal) > 0 {
		return true
	}
	for _, o := range c.Obs {
		if o.Status != "fail" && o.Status != "undecided" {
			continue
		}
		known := false
		if o.Status == "fail" {
			for _, k := range c.Known {
				if k.Rule == o.Rule && k.Construct == o.Construct {
					known = true
				}
			}
		}
		if !known {
			return true
		}
	}
	return false
}

// countAlarms: number of failing/undecided obligations that are not listed known findings.
func (c *Ctx) countAlarms() int {
	n := len(c.fatal)
	for _, o := range c.Obs {
		if o.Status != "fail" && o.Status != "undecided" {
			continue
		}
		known := false
		if o.Status == "fail" {
			for _, k := range c.Known {
				if k.Rule == o.Rule && k.Construct == o.Construct {
					known = true
				}
			}
		}
		if !known {
			n++
		}
	}
	return n
}

func (c *Ctx) finish() int {
	sort.SliceStable(c.Obs, func(i, j int) bool {
		if c.Obs[i].Rule != c.Obs[j].Rule {
			return c.Obs[i].Rule < c.Obs[j].Rule
		}
		return c.Obs[i].Construct < c.Obs[j].Construct
	})
	for _, msg := range c.fatal {
		c.add("engine.fatal", msg, "fail", "-", msg, false)
	}
	// triage against the committed known-findings file (read-only)
	for _, o := range c.Obs {
		if o.Status != "fail" {
			continue
		}
		for _, k := range c.Known {
			if k.Rule == o.Rule && k.Construct == o.Construct {
				o.Status = "known"
				k.used = true
			}
		}
	}
	replayDir := filepath.Join(c.Verif, "evidence", "replay")
	var violations, known, discharged, nontrivial int
	distinct := map[string]bool{}
	for _, o := range c.Obs {
		switch o.Status {
		case "ok":
			discharged++
		case "known":
			known++
			fmt.Printf("KNOWN-FINDING: property=%s rule=%s construct=%s — %s [%s]\n", c.Property, o.Rule, o.Construct, o.Detail, o.Pos)
		default:
			violations++
		}
		if o.Nontrivial {
			k := o.Rule + "\x00" + o.Construct
			if !distinct[k] {
				distinct[k] = true
				nontrivial++
			}
		}
	}
	// a known entry that no longer matches anything is reported (not fatal: the defect may have been repaired)
	var stale []string
	for _, k := range c.Known {
		if !k.used {
			stale = append(stale, k.Rule+" "+k.Construct)
			fmt.Printf("NOTE: known finding no longer observed: property=%s rule=%s construct=%s\n", c.Property, k.Rule, k.Construct)
		}
	}
	if violations > 0 {
		os.MkdirAll(replayDir, 0o755)
	}
	n := 0
	for _, o := range c.Obs {
		if o.Status == "ok" || o.Status == "known" {
			continue
		}
		n++
		rp := filepath.Join(replayDir, fmt.Sprintf("%s-%d.json", c.Property, n))
		b, _ := json.MarshalIndent(map[string]interface{}{"property": c.Property, "tier": c.Tier, "obligation": o,
			"how_to_replay": fmt.Sprintf("./check.sh %s %s   # re-derives this obligation from /repo's current sources", c.Property, c.Tier)}, "", " ")
		os.WriteFile(rp, b, 0o644)
		fmt.Printf("VIOLATION property=%s replay=%s\n", c.Property, rp)
		fmt.Printf("  rule=%s construct=%s status=%s at %s\n  %s\n", o.Rule, o.Construct, o.Status, o.Pos, o.Detail)
		for _, w := range o.Witness {
			fmt.Printf("    | %s\n", w)
		}
	}
	// evidence
	samples := []interface{}{}
	perRule := map[string]int{}
	for _, o := range c.Obs {
		if perRule[o.Rule] < 3 || o.Status != "ok" {
			samples = append(samples, o)
		}
		perRule[o.Rule]++
	}
	if len(samples) > 120 {
		samples = samples[:120]
	}
	ruleCounts := map[string]int{}
	for _, o := range c.Obs {
		ruleCounts[o.Rule]++
	}
	var funcs []string
	for f := range c.FuncsSeen {
		funcs = append(funcs, f)
	}
	sort.Strings(funcs)
	cov := map[string]interface{}{
		"explanation":         c.Explanation,
		"obligations":         len(c.Obs),
		"discharged":          discharged,
		"known_findings":      known,
		"evaluations":         len(c.Obs),
		"distinct_nontrivial": nontrivial,
		"rule":                c.RuleText,
		"samples":             samples,
		"checker_cmd":         fmt.Sprintf("./check.sh %s %s", c.Property, c.Tier),
		"trusted_base":        c.Trusted,
		"packages":            c.Packages,
		"functions_analysed":  funcs,
		"call_sites":          c.CallSites,
		"rule_instances":      ruleCounts,
		"floors":              c.Floors,
		"stale_known_entries": stale,
		"fixed_entries":       c.Fixed,
		"exhaustive":          true,
	}
	for k, v := range c.Extra {
		cov[k] = v
	}
	ev := map[string]interface{}{
		"property_id": c.Property,
		"tier":        c.Tier,
		"seed":        c.Seed,
		"level":       "other",
		"coverage":    cov,
		"assumptions": c.Assumptions,
		"wall_s":      time.Since(c.Start).Seconds(),
		"violations":  violations,
	}
	b, _ := json.MarshalIndent(ev, "", " ")
	os.MkdirAll(filepath.Join(c.Verif, "evidence"), 0o755)
	if err := os.WriteFile(filepath.Join(c.Verif, "evidence", c.Property+".json"), b, 0o644); err != nil {
		fmt.Printf("cannot write evidence: %v\n", err)
		return 1
	}
	fmt.Printf("%s %s: %d obligations, %d discharged, %d known finding(s), %d violation(s), %.1fs\n",
		c.Property, c.Tier, len(c.Obs), discharged, known, violations, time.Since(c.Start).Seconds())
	if violations > 0 {
		return 1
	}
	return 0
}
