package main

import (
	"fmt"
	"go/types"
	"sort"
	"strings"

	"golang.org/x/tools/go/packages"
	"golang.org/x/tools/go/ssa"
)

// importedType finds a named type of an imported package (e.g. google.golang.org/grpc/balancer.Balancer).
func (p *Prog) importedType(pkgPath, name string) types.Type {
	var found types.Type
	packages.Visit(p.Pkgs, nil, func(pk *packages.Package) {
		if found != nil || pk.Types == nil || pk.PkgPath != pkgPath {
			return
		}
		if o := pk.Types.Scope().Lookup(name); o != nil {
			found = o.Type()
		}
	})
	if found != nil {
		return found
	}
	// with LoadSyntax (no NeedDeps) imported packages are still reachable through types.Package imports
	for _, pk := range p.Pkgs {
		if pk.Types == nil {
			continue
		}
		var walk func(tp *types.Package, depth int)
		seen := map[*types.Package]bool{}
		walk = func(tp *types.Package, depth int) {
			if found != nil || seen[tp] || depth > 3 {
				return
			}
			seen[tp] = true
			if tp.Path() == pkgPath {
				if o := tp.Scope().Lookup(name); o != nil {
					found = o.Type()
				}
				return
			}
			for _, imp := range tp.Imports() {
				walk(imp, depth+1)
			}
		}
		walk(pk.Types, 0)
	}
	return found
}

// methodsImplementing returns, for every named type of package pkgName that implements the given
// interface, its methods that belong to the interface's method set.
func (p *Prog) methodsImplementing(pkgName string, ifaceT types.Type) []*ssa.Function {
	if ifaceT == nil {
		return nil
	}
	iface, ok := ifaceT.Underlying().(*types.Interface)
	if !ok {
		return nil
	}
	sp := p.pkgByName(pkgName)
	if sp == nil {
		return nil
	}
	var out []*ssa.Function
	for _, mem := range sp.Members {
		tn, ok := mem.(*ssa.Type)
		if !ok || types.IsInterface(tn.Type()) {
			continue
		}
		for _, t := range []types.Type{types.NewPointer(tn.Type())} {
			if !types.Implements(t, iface) {
				continue
			}
			ms := p.SSA.MethodSets.MethodSet(t)
			for i := 0; i < iface.NumMethods(); i++ {
				m := iface.Method(i)
				sel := ms.Lookup(m.Pkg(), m.Name())
				if sel == nil {
					continue
				}
				if obj, ok := sel.Obj().(*types.Func); ok {
					if f := p.SSA.FuncValue(obj); f != nil && f.Blocks != nil && p.byName[fname(f)] == f {
						out = append(out, f)
					}
				}
			}
		}
	}
	sort.Slice(out, func(i, j int) bool { return fname(out[i]) < fname(out[j]) })
	return out
}

// closuresOf returns the anonymous functions created (directly) inside fn.
func closuresOf(fn *ssa.Function) []*ssa.Function {
	return fn.AnonFuncs
}

// need fetches a function by package and name and records a failing obligation when the anchor is lost.
func (c *Ctx) need(p *Prog, pkg, name string) *ssa.Function {
	f := p.fn(pkg, name)
	if f == nil {
		c.fail("engine.anchor", pkg+"."+name, "-", fmt.Sprintf("anchor function %s.%s not found in the current sources: the rule cannot be evaluated (fail closed)", pkg, name))
		return nil
	}
	c.FuncsSeen[qname(f)] = true
	return f
}

// poolEntryPoints: everything gRPC or the application can call on the channel pool.
func poolEntryPoints(c *Ctx, p *Prog) []*ssa.Function {
	const bal = "google.golang.org/grpc/balancer"
	var out []*ssa.Function
	for _, in := range []string{"Balancer", "Picker", "Builder", "ConfigParser"} {
		t := p.importedType(bal, in)
		if t == nil {
			c.fail("engine.anchor", "balancer."+in, "-", "cannot resolve interface "+bal+"."+in)
			continue
		}
		ms := p.methodsImplementing("grpcgcp", t)
		if len(ms) == 0 {
			c.fail("engine.anchor", "impl:balancer."+in, "-", "no type of package grpcgcp implements balancer."+in)
		}
		out = append(out, ms...)
	}
	// completion callbacks: closures created by Picker.Pick implementations
	var extra []*ssa.Function
	for _, f := range out {
		if f.Name() == "Pick" {
			extra = append(extra, closuresOf(f)...)
		}
	}
	out = append(out, extra...)
	seen := map[*ssa.Function]bool{}
	var res []*ssa.Function
	for _, f := range out {
		if !seen[f] {
			seen[f] = true
			res = append(res, f)
		}
	}
	return res
}

func names(fs []*ssa.Function) string {
	var s []string
	for _, f := range fs {
		s = append(s, fname(f))
	}
	return strings.Join(s, ", ")
}
