package main

import (
	"fmt"
	"go/constant"
	"go/token"
	"go/types"
	"strings"
	"sync"

	"golang.org/x/tools/go/ssa"
)

// ---------- callee resolution (resolved objects, never names of expressions) ----------

// Callee describes the target of a call instruction.
type Callee struct {
	Static  *ssa.Function // statically resolved function (with or without body)
	Iface   *types.Func   // interface method for invoke-mode calls
	Builtin string        // name of a builtin
	Dynamic ssa.Value     // called function value (closure variable, field of func type, ...)
}

func calleeOf(cc *ssa.CallCommon) Callee {
	if cc.IsInvoke() {
		return Callee{Iface: cc.Method}
	}
	switch v := cc.Value.(type) {
	case *ssa.Builtin:
		return Callee{Builtin: v.Name()}
	case *ssa.Function:
		return Callee{Static: v}
	case *ssa.MakeClosure:
		if f, ok := v.Fn.(*ssa.Function); ok {
			return Callee{Static: f}
		}
	}
	return Callee{Dynamic: cc.Value}
}

// Name is a stable printable identity: "sync.(*RWMutex).Lock", "grpcgcp.(*gcpBalancer).refresh",
// "iface:balancer.ClientConn.NewSubConn", "builtin:delete", "dyn:<expr>".
func (c Callee) Name() string {
	switch {
	case c.Static != nil:
		return funcFullName(c.Static)
	case c.Iface != nil:
		return "iface:" + ifaceMethodName(c.Iface)
	case c.Builtin != "":
		return "builtin:" + c.Builtin
	case c.Dynamic != nil:
		return "dyn:" + vstr(c.Dynamic)
	}
	return "?"
}

func funcFullName(f *ssa.Function) string {
	if f == nil {
		return "<nil>"
	}
	if f.Pkg != nil {
		return f.Pkg.Pkg.Name() + "." + f.RelString(f.Pkg.Pkg)
	}
	// functions of packages without SSA package (export data) or synthetic wrappers
	if o := f.Object(); o != nil {
		if fn, ok := o.(*types.Func); ok {
			return shortFuncName(fn)
		}
	}
	if f.Signature != nil && f.Signature.Recv() != nil {
		return shortType(f.Signature.Recv().Type()) + "." + f.Name()
	}
	return f.String()
}

func shortFuncName(fn *types.Func) string {
	sig, _ := fn.Type().(*types.Signature)
	pkg := ""
	if fn.Pkg() != nil {
		pkg = fn.Pkg().Name()
	}
	if sig != nil && sig.Recv() != nil {
		t := sig.Recv().Type()
		ptr := ""
		if p, ok := t.(*types.Pointer); ok {
			t = p.Elem()
			ptr = "*"
		}
		tn := t.String()
		if n, ok := t.(*types.Named); ok {
			tn = n.Obj().Name()
		}
		if ptr != "" {
			return fmt.Sprintf("%s.(*%s).%s", pkg, tn, fn.Name())
		}
		return fmt.Sprintf("%s.(%s).%s", pkg, tn, fn.Name())
	}
	return pkg + "." + fn.Name()
}

func ifaceMethodName(m *types.Func) string {
	sig, _ := m.Type().(*types.Signature)
	if sig != nil && sig.Recv() != nil {
		return shortType(sig.Recv().Type()) + "." + m.Name()
	}
	if m.Pkg() != nil {
		return m.Pkg().Name() + ".?." + m.Name()
	}
	return m.Name()
}

func shortType(t types.Type) string {
	return types.TypeString(t, func(p *types.Package) string { return p.Name() })
}

// callInstr returns the CallCommon of call/go/defer instructions.
func callCommon(in ssa.Instruction) *ssa.CallCommon {
	switch x := in.(type) {
	case *ssa.Call:
		return &x.Call
	case *ssa.Go:
		return &x.Call
	case *ssa.Defer:
		return &x.Call
	}
	return nil
}

// recvAndArgs returns the receiver (or nil) and the ordinary arguments of a call.
func recvAndArgs(cc *ssa.CallCommon) (ssa.Value, []ssa.Value) {
	if cc.IsInvoke() {
		return cc.Value, cc.Args
	}
	if f, ok := cc.Value.(*ssa.Function); ok && f.Signature.Recv() != nil && len(cc.Args) > 0 {
		return cc.Args[0], cc.Args[1:]
	}
	return nil, cc.Args
}

// ---------- fields ----------

// FieldRef names a struct field as "Struct.field".
func fieldRefOfAddr(fa *ssa.FieldAddr) string {
	t := fa.X.Type()
	if p, ok := t.Underlying().(*types.Pointer); ok {
		t = p.Elem()
	}
	return fieldName(t, fa.Field)
}

func fieldRefOfField(f *ssa.Field) string {
	return fieldName(f.X.Type(), f.Field)
}

func fieldName(t types.Type, idx int) string {
	tn := "?"
	if n, ok := t.(*types.Named); ok {
		tn = n.Obj().Name()
	} else {
		tn = shortType(t)
	}
	st, ok := t.Underlying().(*types.Struct)
	if !ok || idx >= st.NumFields() {
		return tn + ".?"
	}
	return tn + "." + st.Field(idx).Name()
}

// stripConv removes value-preserving wrappers.
func stripConv(v ssa.Value) ssa.Value {
	for {
		switch x := v.(type) {
		case *ssa.ChangeType:
			v = x.X
		case *ssa.MakeInterface:
			v = x.X
		case *ssa.ChangeInterface:
			v = x.X
		case *ssa.Phi:
			// a phi all of whose edges carry the same value (a value returned by every exit of an inlined helper) is that value
			if len(x.Edges) < 2 {
				return v
			}
			if c := nilCarriedPhi(x); c != nil {
				return c
			}
			for _, e := range x.Edges[1:] {
				if e != x.Edges[0] {
					return v
				}
			}
			if x.Edges[0] == ssa.Value(x) {
				return v
			}
			v = x.Edges[0]
		default:
			return v
		}
	}
}

var nilCarried sync.Map // *ssa.Phi → ssa.Value (nil Const) or false

// nilCarriedPhi: a loop variable that is nil on entry and on every way round the loop — `var ctxErr error; for … { if ctxErr =
// f(); ctxErr != nil { break }; … }`: each value carried by a back edge is either the variable itself, the constant nil, or a
// value that was compared with nil on the way with the non-nil side unable to come back to the loop header. Such a phi
// IS nil wherever it is read (the value after the loop is a different phi, which merges it with the break's value).
func nilCarriedPhi(ph *ssa.Phi) ssa.Value {
	if r, ok := nilCarried.Load(ph); ok {
		v, _ := r.(ssa.Value)
		return v
	}
	nilCarried.Store(ph, false) // while being decided (phis referring to each other)
	rawNil := func(v ssa.Value) bool {
		c, ok := v.(*ssa.Const)
		return ok && c.Value == nil
	}
	res := func() ssa.Value {
		switch ph.Type().Underlying().(type) {
		case *types.Pointer, *types.Interface, *types.Slice, *types.Map, *types.Chan, *types.Signature:
		default:
			return nil
		}
		hdr := ph.Block()
		nback := 0
		for i, pred := range hdr.Preds {
			e := ph.Edges[i]
			for {
				switch w := e.(type) {
				case *ssa.ChangeType:
					e = w.X
					continue
				case *ssa.ChangeInterface:
					e = w.X
					continue
				}
				break
			}
			if !hdr.Dominates(pred) {
				if !rawNil(e) {
					return nil
				}
				continue
			}
			nback++
			if e == ssa.Value(ph) || rawNil(e) {
				continue
			}
			// compared with nil on every way to this back edge, the non-nil side never returns to the header
			tested := false
			refs := e.Referrers()
			if refs == nil {
				return nil
			}
			for _, r := range *refs {
				cmp, ok := r.(*ssa.BinOp)
				if !ok || (cmp.Op != token.EQL && cmp.Op != token.NEQ) || !(rawNil(cmp.X) || rawNil(cmp.Y)) {
					continue
				}
				for _, rr := range *cmp.Referrers() {
					iff, ok := rr.(*ssa.If)
					if !ok || !iff.Block().Dominates(pred) {
						continue
					}
					nonNil := iff.Block().Succs[0]
					if cmp.Op == token.EQL {
						nonNil = iff.Block().Succs[1]
					}
					if !blockReachesAvoiding(nonNil, hdr, nil) {
						tested = true
					}
				}
			}
			if !tested {
				return nil
			}
		}
		if nback == 0 {
			return nil
		}
		return ssa.NewConst(nil, ph.Type())
	}()
	if res == nil {
		nilCarried.Store(ph, false)
	} else {
		nilCarried.Store(ph, res)
	}
	return res
}

// blockReachesAvoiding: some path leads from block a to block b (a == b counts) without entering a block of avoid.
func blockReachesAvoiding(a, b *ssa.BasicBlock, avoid map[*ssa.BasicBlock]bool) bool {
	seen := map[*ssa.BasicBlock]bool{}
	var walk func(x *ssa.BasicBlock) bool
	walk = func(x *ssa.BasicBlock) bool {
		if x == b {
			return true
		}
		if seen[x] || avoid[x] {
			return false
		}
		seen[x] = true
		for _, s := range x.Succs {
			if walk(s) {
				return true
			}
		}
		return false
	}
	return walk(a)
}

// loadedField: if v is a load (*FieldAddr) returns the field name and the base object value.
func loadedField(v ssa.Value) (field string, base ssa.Value, ok bool) {
	v = stripConv(v)
	if u, isU := v.(*ssa.UnOp); isU && u.Op == token.MUL {
		if fa, isFA := u.X.(*ssa.FieldAddr); isFA {
			return fieldRefOfAddr(fa), fa.X, true
		}
	}
	if f, isF := v.(*ssa.Field); isF {
		return fieldRefOfField(f), f.X, true
	}
	// a call of a trivial locked getter — func (r *T) get() F { r.mu.RLock(); defer r.mu.RUnlock(); return r.f } — reads r.f
	if call, isC := v.(*ssa.Call); isC {
		if fn := calleeOf(&call.Call).Static; fn != nil && len(call.Call.Args) == 1 {
			if f, isG := trivialGetter(fn); isG {
				return f, call.Call.Args[0], true
			}
		}
	}
	return "", nil, false
}

var getterCache = map[*ssa.Function]string{}

// trivialGetter: fn's body only takes/releases sync locks of its receiver and returns one field of the receiver.
func trivialGetter(fn *ssa.Function) (string, bool) {
	if f, ok := getterCache[fn]; ok {
		return f, f != ""
	}
	getterCache[fn] = ""
	if len(fn.Blocks) == 0 || len(fn.Params) != 1 || fn.Signature.Results().Len() != 1 {
		return "", false
	}
	recv := fn.Params[0]
	var field *ssa.FieldAddr
	isSyncType := func(t types.Type) bool {
		if p, ok := t.(*types.Pointer); ok {
			t = p.Elem()
		}
		n, ok := t.(*types.Named)
		return ok && n.Obj().Pkg() != nil && n.Obj().Pkg().Path() == "sync"
	}
	for _, b := range fn.Blocks {
		for _, in := range b.Instrs {
			switch x := in.(type) {
			case *ssa.FieldAddr:
				if x.X != ssa.Value(recv) {
					return "", false
				}
				if isSyncType(x.Type()) {
					continue
				}
				if field != nil && fieldRefOfAddr(field) != fieldRefOfAddr(x) {
					return "", false
				}
				field = x
			case *ssa.Alloc, *ssa.RunDefers, *ssa.Jump, *ssa.Return, *ssa.DebugRef:
			case *ssa.UnOp:
				if x.Op != token.MUL {
					return "", false
				}
			case *ssa.Store:
				if _, isAl := x.Addr.(*ssa.Alloc); !isAl {
					return "", false
				}
			case *ssa.Call:
				if c := calleeOf(&x.Call).Static; c == nil || c.Pkg == nil || c.Pkg.Pkg.Path() != "sync" {
					return "", false
				}
			case *ssa.Defer:
				if c := calleeOf(&x.Call).Static; c == nil || c.Pkg == nil || c.Pkg.Pkg.Path() != "sync" {
					return "", false
				}
			default:
				return "", false
			}
		}
	}
	if field == nil {
		return "", false
	}
	// the (non-recover) return value originates from the load of that field only
	for _, in := range fn.Blocks[0].Instrs {
		if r, ok := in.(*ssa.Return); ok {
			for _, o := range origins(r.Results[0]) {
				u, isU := o.Val.(*ssa.UnOp)
				if !isU {
					return "", false
				}
				if fa, isFA := u.X.(*ssa.FieldAddr); !isFA || fieldRefOfAddr(fa) != fieldRefOfAddr(field) {
					return "", false
				}
			}
			getterCache[fn] = fieldRefOfAddr(field)
			return getterCache[fn], true
		}
	}
	return "", false
}

func isLoadOf(v ssa.Value, field string) bool {
	f, _, ok := loadedField(v)
	return ok && f == field
}

// constInt returns the integer value of a constant.
func constInt(v ssa.Value) (int64, bool) {
	v = stripConv(v)
	if cv, ok := v.(*ssa.Convert); ok {
		v = cv.X
	}
	c, ok := v.(*ssa.Const)
	if !ok || c.Value == nil {
		return 0, false
	}
	if c.Value.Kind() != constant.Int {
		return 0, false
	}
	i, exact := constant.Int64Val(c.Value)
	return i, exact
}

func isNilConst(v ssa.Value) bool {
	c, ok := stripConv(v).(*ssa.Const)
	return ok && c.Value == nil
}

func constString(v ssa.Value) (string, bool) {
	c, ok := stripConv(v).(*ssa.Const)
	if !ok || c.Value == nil || c.Value.Kind() != constant.String {
		return "", false
	}
	return constant.StringVal(c.Value), true
}

// ---------- canonical value strings ----------

func vstr(v ssa.Value) string { return vstrD(v, 0) }

// kstr is vstr with every impure node (load, call, lookup, phi, ...) annotated with its
// SSA register, so that equal strings denote the same run-time value within one activation.
func kstr(v ssa.Value) string { return vstrD(v, 100) }

func vstrD(v ssa.Value, d int) string {
	if v == nil {
		return "<nil>"
	}
	if d >= 100 {
		s := vstrD1(v, d)
		if rep, ok := loadRep[v]; ok {
			return s + "@" + rep
		}
		switch x := v.(type) {
		case *ssa.UnOp:
			if x.Op == token.MUL || x.Op == token.ARROW {
				return s + "@" + v.Name()
			}
		case *ssa.Call, *ssa.Lookup, *ssa.Index, *ssa.Next, *ssa.TypeAssert, *ssa.Field:
			return s + "@" + v.Name()
		}
		return s
	}
	return vstrD1(v, d)
}

func vstrD1(v ssa.Value, d int) string {
	if d%100 > 12 {
		return v.Name()
	}
	switch x := v.(type) {
	case *ssa.Const:
		if x.Value == nil {
			return "nil"
		}
		if n, ok := x.Type().(*types.Named); ok {
			return fmt.Sprintf("%s(%s)", n.Obj().Name(), x.Value.ExactString())
		}
		return x.Value.ExactString()
	case *ssa.Parameter:
		return x.Name()
	case *ssa.FreeVar:
		return "^" + x.Name()
	case *ssa.Global:
		return x.Pkg.Pkg.Name() + "." + x.Name()
	case *ssa.Function:
		return "func:" + funcFullName(x)
	case *ssa.Builtin:
		return "builtin:" + x.Name()
	case *ssa.FieldAddr:
		return "&" + vstrD(x.X, d+1) + "." + lastDot(fieldRefOfAddr(x))
	case *ssa.Field:
		return vstrD(x.X, d+1) + "." + lastDot(fieldRefOfField(x))
	case *ssa.UnOp:
		switch x.Op {
		case token.MUL:
			if fa, ok := x.X.(*ssa.FieldAddr); ok {
				return vstrD(fa.X, d+1) + "." + lastDot(fieldRefOfAddr(fa))
			}
			if al, ok := x.X.(*ssa.Alloc); ok {
				return "$" + allocName(al)
			}
			if fv, ok := x.X.(*ssa.FreeVar); ok {
				return "$^" + fv.Name()
			}
			return "*" + vstrD(x.X, d+1)
		case token.ARROW:
			return "<-" + vstrD(x.X, d+1)
		default:
			return x.Op.String() + vstrD(x.X, d+1)
		}
	case *ssa.BinOp:
		return "(" + vstrD(x.X, d+1) + " " + x.Op.String() + " " + vstrD(x.Y, d+1) + ")"
	case *ssa.Call:
		c := calleeOf(&x.Call)
		var args []string
		if x.Call.IsInvoke() {
			args = append(args, vstrD(x.Call.Value, d+1))
		}
		for _, a := range x.Call.Args {
			args = append(args, vstrD(a, d+1))
		}
		return c.Name() + "(" + strings.Join(args, ", ") + ")"
	case *ssa.Extract:
		return vstrD(x.Tuple, d+1) + "#" + fmt.Sprint(x.Index)
	case *ssa.Lookup:
		return vstrD(x.X, d+1) + "[" + vstrD(x.Index, d+1) + "]"
	case *ssa.Index:
		return vstrD(x.X, d+1) + "[" + vstrD(x.Index, d+1) + "]"
	case *ssa.IndexAddr:
		return "&" + vstrD(x.X, d+1) + "[" + vstrD(x.Index, d+1) + "]"
	case *ssa.Phi:
		return "phi:" + x.Name() + phiComment(x)
	case *ssa.Alloc:
		return "&$" + allocName(x)
	case *ssa.MakeInterface:
		return vstrD(x.X, d+1)
	case *ssa.ChangeType:
		return vstrD(x.X, d+1)
	case *ssa.ChangeInterface:
		return vstrD(x.X, d+1)
	case *ssa.Convert:
		return shortType(x.Type()) + "(" + vstrD(x.X, d+1) + ")"
	case *ssa.TypeAssert:
		ok := ""
		if x.CommaOk {
			ok = ",ok"
		}
		return vstrD(x.X, d+1) + ".(" + shortType(x.AssertedType) + ok + ")"
	case *ssa.MakeClosure:
		return "closure:" + funcFullName(x.Fn.(*ssa.Function))
	case *ssa.Next:
		return "next(" + vstrD(x.Iter, d+1) + ")"
	case *ssa.Range:
		return "range(" + vstrD(x.X, d+1) + ")"
	case *ssa.Slice:
		return vstrD(x.X, d+1) + "[:]"
	case *ssa.MakeMap:
		return "makemap:" + x.Name()
	case *ssa.MakeSlice:
		return "makeslice:" + x.Name()
	case *ssa.MakeChan:
		return "makechan:" + x.Name()
	}
	return v.Name()
}

func phiComment(p *ssa.Phi) string {
	if p.Comment != "" {
		return "(" + p.Comment + ")"
	}
	return ""
}

func allocName(a *ssa.Alloc) string {
	if a.Comment != "" {
		return a.Comment
	}
	return a.Name()
}

func lastDot(s string) string {
	if i := strings.LastIndex(s, "."); i >= 0 {
		return s[i+1:]
	}
	return s
}

// ---------- iteration helpers ----------

func eachInstr(fn *ssa.Function, f func(in ssa.Instruction)) {
	for _, b := range fn.Blocks {
		for _, in := range b.Instrs {
			f(in)
		}
	}
}

// instrIndex returns the index of in within its block.
func instrIndex(in ssa.Instruction) int {
	for i, x := range in.Block().Instrs {
		if x == in {
			return i
		}
	}
	return -1
}

// closureParent: for an anonymous function returns the MakeClosure instruction(s) creating it.
func makeClosureSites(fn *ssa.Function) []*ssa.MakeClosure {
	var out []*ssa.MakeClosure
	if fn.Parent() == nil {
		return nil
	}
	eachInstr(fn.Parent(), func(in ssa.Instruction) {
		if mc, ok := in.(*ssa.MakeClosure); ok && mc.Fn == fn {
			out = append(out, mc)
		}
	})
	return out
}

// freeVarBinding resolves a free variable of a closure to the value bound in the parent.
func freeVarBinding(fv *ssa.FreeVar) ssa.Value {
	fn := fv.Parent()
	idx := -1
	for i, x := range fn.FreeVars {
		if x == fv {
			idx = i
		}
	}
	if idx < 0 {
		return nil
	}
	sites := makeClosureSites(fn)
	if len(sites) != 1 {
		return nil
	}
	return sites[0].Bindings[idx]
}

// storesTo returns all Store instructions whose address is exactly addr (within the
// function owning addr and, for Allocs captured by closures, within those closures).
func storesTo(addr ssa.Value) []*ssa.Store {
	var out []*ssa.Store
	refs := addr.Referrers()
	if refs == nil {
		return nil
	}
	for _, r := range *refs {
		if st, ok := r.(*ssa.Store); ok && st.Addr == addr {
			out = append(out, st)
		}
		if mc, ok := r.(*ssa.MakeClosure); ok {
			// the alloc is captured: look for stores through the corresponding free variable
			for i, b := range mc.Bindings {
				if b == addr {
					fv := mc.Fn.(*ssa.Function).FreeVars[i]
					out = append(out, storesTo(fv)...)
				}
			}
		}
	}
	return out
}
