package main

import (
	"fmt"
	"go/types"
	"sort"
	"strings"

	"golang.org/x/tools/go/ssa"
)

func init() { register("C10", checkC10) }

// guard kinds of the frozen guarded-by table (DESIGN §4 C10). Statistics were used only to propose
// guards; each line was confirmed by reading the code.
type guardSpec struct {
	kind    string   // lock | lock-any | atomic | immutable | initonce | latch | input | self
	lock    string   // for lock / latch
	locks   []string // for lock-any: writers hold ALL of them exclusively, readers hold ANY of them
	writers []string // for initonce: functions allowed to write
	why     string
}

func lockG(l string) guardSpec { return guardSpec{kind: "lock", lock: l} }

var guardTable = map[string]guardSpec{}

func init() {
	gbmu, gmemu, memu := "gcpBalancer.mu", "GCPMultiEndpoint.mu", "multiEndpoint.RWMutex"
	for _, f := range []string{"affinityMap", "fallbackMap", "scStates", "scRefs", "refreshingScRefs", "addrs", "state", "picker", "scRefList"} {
		guardTable["gcpBalancer."+f] = lockG(gbmu)
	}
	guardTable["gcpBalancer.rrRefId"] = guardSpec{kind: "atomic"}
	for _, f := range []string{"cfg", "methodCfg", "unresponsiveDetection"} {
		guardTable["gcpBalancer."+f] = guardSpec{kind: "initonce", lock: gbmu, writers: []string{"(*gcpBalancerBuilder).Build", "(*gcpBalancer).initializeConfig"},
			why: "written by Build (object not yet published) and by initializeConfig (under gb.mu, only while gb.cfg == nil, see C17.once) before any picker that reads it is created and published through gRPC"}
	}
	for _, f := range []string{"cc", "csEvltr", "log"} {
		guardTable["gcpBalancer."+f] = guardSpec{kind: "immutable"}
	}
	guardTable["gcpBalancer.mu"] = guardSpec{kind: "self"}
	for _, f := range []string{"numReady", "numConnecting", "numTransientFailure"} {
		guardTable["connectivityStateEvaluator."+f] = lockG(gbmu)
	}
	for _, f := range []string{"affinityCnt", "streamsCnt", "deCalls"} {
		guardTable["subConnRef."+f] = guardSpec{kind: "atomic"}
	}
	for _, f := range []string{"stateSignal", "refreshing"} {
		guardTable["subConnRef."+f] = lockG(gbmu)
	}
	// subConn is read by the balancer under gb.mu and by picks/completions (which must not take gb.mu on the
	// hot path) under the slot's own lock; the refresh swap writes it holding both.
	guardTable["subConnRef.subConn"] = guardSpec{kind: "lock-any", locks: []string{gbmu, "subConnRef.mu"}}
	for _, f := range []string{"lastResp", "refreshCnt"} {
		guardTable["subConnRef."+f] = lockG("subConnRef.mu")
	}
	guardTable["subConnRef.mu"] = guardSpec{kind: "self"}
	for _, f := range []string{"gb", "scRefs", "log"} {
		guardTable["gcpPicker."+f] = guardSpec{kind: "immutable"}
	}
	guardTable["gcpPicker.mu"] = guardSpec{kind: "self"}
	guardTable["errPicker.err"] = guardSpec{kind: "immutable"}
	guardTable["gcpContext.reqMsg"] = guardSpec{kind: "immutable"}
	guardTable["gcpContext.replyMsg"] = guardSpec{kind: "immutable"}
	guardTable["gcpLogger.logger"] = guardSpec{kind: "immutable"}
	guardTable["gcpLogger.prefix"] = guardSpec{kind: "immutable"}
	guardTable["gcpBalancerBuilder.ConfigParser"] = guardSpec{kind: "immutable"}
	guardTable["GCPBalancerConfig.LoadBalancingConfig"] = guardSpec{kind: "immutable"}
	guardTable["GCPBalancerConfig.ApiConfig"] = guardSpec{kind: "immutable"}
	guardTable["gcpClientStream.ClientStream"] = guardSpec{kind: "latch", lock: "gcpClientStream.Mutex"}
	guardTable["gcpClientStream.initStreamErr"] = guardSpec{kind: "latch", lock: "gcpClientStream.Mutex"}
	guardTable["gcpClientStream.Mutex"] = guardSpec{kind: "self"}
	for _, f := range []string{"cond", "ctx", "desc", "cc", "method", "streamer", "opts"} {
		guardTable["gcpClientStream."+f] = guardSpec{kind: "immutable"}
	}
	for _, f := range []string{"mes", "pools", "defaultName"} {
		guardTable["GCPMultiEndpoint."+f] = lockG(gmemu)
	}
	for _, f := range []string{"opts", "gcpConfig", "dialFunc", "log", "ClientConnInterface"} {
		guardTable["GCPMultiEndpoint."+f] = guardSpec{kind: "immutable"}
	}
	guardTable["GCPMultiEndpoint.mu"] = guardSpec{kind: "self"}
	for _, f := range []string{"endpoint", "conn", "gme", "cancel"} {
		guardTable["monitoredConn."+f] = guardSpec{kind: "immutable"}
	}
	for _, f := range []string{"GRPCgcpConfig", "MultiEndpoints", "Default", "DialFunc"} {
		guardTable["GCPMultiEndpointOptions."+f] = guardSpec{kind: "input"}
	}
	for _, f := range []string{"Endpoints", "RecoveryTimeout", "SwitchingDelay"} {
		guardTable["MultiEndpointOptions."+f] = guardSpec{kind: "input"}
	}
	for _, f := range []string{"endpoints", "current", "future"} {
		guardTable["multiEndpoint."+f] = lockG(memu)
	}
	guardTable["multiEndpoint.recoveryTimeout"] = guardSpec{kind: "immutable"}
	guardTable["multiEndpoint.switchingDelay"] = guardSpec{kind: "immutable"}
	guardTable["multiEndpoint.RWMutex"] = guardSpec{kind: "self"}
	guardTable["endpoint.id"] = guardSpec{kind: "immutable"}
	for _, f := range []string{"priority", "status", "lastChange", "futureChange"} {
		guardTable["endpoint."+f] = lockG(memu)
	}
}

// ownStructField: the field belongs to a named struct declared in one of the module's packages.
func ownStructField(p *Prog, a Access) (pkg string, ok bool) {
	t := a.Addr.X.Type()
	if pt, isP := t.Underlying().(*types.Pointer); isP {
		t = pt.Elem()
	}
	n, isN := t.(*types.Named)
	if !isN || n.Obj().Pkg() == nil {
		return "", false
	}
	for _, sp := range p.SSAPkgs {
		if sp.Pkg == n.Obj().Pkg() {
			return sp.Pkg.Name(), true
		}
	}
	return "", false
}

func checkC10(c *Ctx, w *World) {
	c.Explanation = "Static lockset analysis: every load/store/map or slice operation on every field of every struct declared in packages grpcgcp and " +
		"multiendpoint is enumerated from the SSA form and checked against a frozen guarded-by table (lock held in the required mode on every call " +
		"path / sync/atomic only / written only while the object is still private to its constructor / write-once latch). Lock state at each access = " +
		"local dataflow state ∪ the intersection of the lock states of all call sites (must-held entry context). Fields that are not in the table fail as unclassified. " +
		"Generated protobuf messages (package grpc_gcp) are treated as configuration objects: written only by initializeConfig."
	c.RuleText = "one obligation per (field, function, access mode); non-trivial = the access is to a lock-guarded, atomic or latch field (needed the lock-state or freshness argument); trivial = read of an immutable field"
	c.Assumptions = []string{
		"gRPC serialises Balancer callbacks; picks and completion callbacks run concurrently with them and with each other",
		"must-held entry contexts are computed over static calls, module-interface calls and deferred calls; function values called dynamically start with no lock",
		"constructor-local (fresh) objects: allocated in the function, not yet stored, captured, sent or passed to a non-allow-listed call",
		"init-once fields (cfg, methodCfg, unresponsiveDetection) are published to pickers through gRPC's UpdateState (happens-before)",
	}
	c.Trusted = []string{"go/types", "golang.org/x/tools/go/ssa v0.29.0", "sync / sync/atomic semantics table"}
	p := w.GCP()
	if p == nil {
		return
	}
	lf := w.GCPLocks()

	type group struct {
		field, fn, mode string
		bad             []string
		good            int
		pos             string
		detail          string
		nontrivial      bool
	}
	groups := map[string]*group{}
	var order []string
	naccess := 0
	unclassified := map[string]string{}
	// single-assignment facts for latch fields: every store is dominated by an "is nil" test under the lock
	latchStores := map[string][]Access{}

	for _, f := range p.Funcs {
		if f.Pkg == nil || f.Pkg.Pkg.Name() == "grpc_gcp" {
			continue
		}
		c.FuncsSeen[qname(f)] = true
		for _, a := range accessesIn(f) {
			pkg, own := ownStructField(p, a)
			if !own {
				continue
			}
			if a.Mode == "L" {
				continue
			}
			naccess++
			spec, ok := guardTable[a.Field]
			if pkg == "grpc_gcp" {
				spec, ok = guardSpec{kind: "config"}, true
			}
			if !ok {
				unclassified[a.Field] = p.ipos(a.Instr)
				continue
			}
			mode := a.Mode
			if mode == "X" && strings.HasPrefix(a.What, "map ") {
				// a map read from the field and handed on (returned, stored, passed to a call): for a lock-guarded field the
				// reference would outlive the critical section; for the other kinds it is a read like any other
				if (spec.kind != "lock" && spec.kind != "lock-any") || freshAt(a.Base, a.Instr) {
					mode = "R"
				}
			}
			key := a.Field + "@" + qname(f) + ":" + mode
			g := groups[key]
			if g == nil {
				g = &group{field: a.Field, fn: qname(f), mode: mode, pos: p.ipos(a.Instr)}
				groups[key] = g
				order = append(order, key)
			}
			held := lf.HeldAt(a.Instr)
			fresh := freshAt(a.Base, a.Instr)
			fail := func(msg string) {
				g.bad = append(g.bad, fmt.Sprintf("%s at %s: %s", a.What, p.ipos(a.Instr), msg))
			}
			switch spec.kind {
			case "self":
				g.good++
			case "lock":
				g.nontrivial = true
				need := 1
				if mode == "W" {
					need = 2
				}
				switch {
				case mode == "A":
					fail("sync/atomic access to a field that is otherwise lock-guarded (mixed discipline)")
				case mode == "X":
					fail("a reference to lock-guarded data (the field's address, or the map it holds) leaves the function's hands: whoever receives it can use it without the lock")
				case fresh:
					g.good++
					g.detail = "object still private to its constructor"
				case held[spec.lock] >= need:
					g.good++
					g.detail = fmt.Sprintf("%s held (%s) on every call path", spec.lock, held)
				default:
					fail(fmt.Sprintf("guard %s not held in the required mode (certainly held: %s; entry contexts of %s: must=%s may=%s)", spec.lock, held, fname(f), lf.MustHeld[f], lf.MayHeld[f]))
				}
			case "lock-any":
				g.nontrivial = true
				all, any := true, false
				for _, l := range spec.locks {
					if held[l] < 2 {
						all = false
					}
					if held[l] >= 1 {
						any = true
					}
				}
				switch {
				case mode == "A":
					fail("sync/atomic access to a field that is otherwise lock-guarded (mixed discipline)")
				case mode == "X":
					fail("address of a lock-guarded field escapes")
				case fresh:
					g.good++
					g.detail = "object still private to its constructor"
				case mode == "W" && all:
					g.good++
					g.detail = fmt.Sprintf("written with all of %v held exclusively (%s)", spec.locks, held)
				case mode == "W":
					fail(fmt.Sprintf("write without holding all of %v exclusively (certainly held: %s): a reader holding only one of them races with it", spec.locks, held))
				case any:
					g.good++
					g.detail = fmt.Sprintf("read with one of %v held (%s); writers hold all of them", spec.locks, held)
				default:
					fail(fmt.Sprintf("read with none of %v held (certainly held: %s; entry contexts of %s: must=%s may=%s)", spec.locks, held, fname(f), lf.MustHeld[f], lf.MayHeld[f]))
				}
			case "atomic":
				g.nontrivial = true
				switch {
				case mode == "A":
					g.good++
					g.detail = "sync/atomic access"
				case fresh:
					g.good++
					g.detail = "plain access while the object is private to its constructor"
				default:
					fail("plain (non-atomic) access to a field that other goroutines access with sync/atomic")
				}
			case "immutable":
				switch {
				case mode == "R":
					g.good++
					g.detail = "read of a field that is never written after construction"
				case fresh:
					g.good++
					g.nontrivial = true
					g.detail = "initialised while the object is private to its constructor"
				default:
					g.nontrivial = true
					fail("write to a field declared immutable after construction, on an object that may already be shared")
				}
			case "initonce":
				switch {
				case mode == "R":
					g.good++
					g.detail = "read of an init-before-publish field: " + spec.why
				case fresh:
					g.good++
					g.nontrivial = true
				default:
					g.nontrivial = true
					allowed := false
					for _, wname := range spec.writers {
						if fname(f) == wname {
							allowed = true
						}
					}
					if allowed && held[spec.lock] == 2 {
						g.good++
						g.detail = "written by an allowed initialiser under " + spec.lock
					} else {
						fail(fmt.Sprintf("init-before-publish field written outside %v or without %s", spec.writers, spec.lock))
					}
				}
			case "latch":
				g.nontrivial = true
				switch {
				case fresh:
					g.good++
				case mode == "W" || a.What == "store":
					if held[spec.lock] == 2 {
						g.good++
						latchStores[a.Field] = append(latchStores[a.Field], a)
					} else {
						fail("latch field written without " + spec.lock)
					}
				case held[spec.lock] >= 1:
					g.good++
					g.detail = "read under " + spec.lock
				default:
					// unlocked read of a latch: allowed iff the field is write-once (stored only when observed nil,
					// under the lock) and every path to the read either stored it under the lock or observed it
					// non-nil under the lock (after which no store can happen any more).
					okRead, why := latchReadOK(p, lf, f, a, spec.lock)
					switch {
					case !singleAssignment(p, lf, a.Field, spec.lock):
						fail("unlocked read of a field that is not write-once: it can be stored (under the lock) while this read runs")
					case okRead:
						g.good++
						g.detail = "unlocked read of a write-once latch: " + why
					default:
						fail("unlocked read of a latch field: " + why)
					}
				}
			case "input":
				if mode == "R" {
					g.good++
					g.detail = "caller-owned option object: read only"
				} else {
					g.nontrivial = true
					fail("write to a caller-owned option object")
				}
			case "config":
				switch {
				case mode == "R":
					g.good++
					g.detail = "read of a configuration message"
				case fname(f) == "(*gcpBalancer).initializeConfig" && lf.HeldAt(a.Instr)["gcpBalancer.mu"] == 2:
					g.good++
					g.nontrivial = true
					g.detail = "configuration defaults applied by initializeConfig under gb.mu (to the balancer's private clone, see C17.clone)"
				case fresh:
					g.good++
				default:
					g.nontrivial = true
					fail("configuration message written outside initializeConfig")
				}
			}
		}
	}
	for f, pos := range unclassified {
		c.fail("C10.lockset", f+": unclassified", pos, "field of a shared struct has no entry in the guarded-by table: declare its guard (lock / atomic / immutable) before relying on race freedom")
	}
	sort.Strings(order)
	for _, k := range order {
		g := groups[k]
		construct := fmt.Sprintf("%s@%s:%s", g.field, g.fn, g.mode)
		if len(g.bad) > 0 {
			c.add("C10.lockset", construct, "fail", g.pos, strings.Join(g.bad, " | "), true, g.bad...)
		} else {
			c.add("C10.lockset", construct, "ok", g.pos, fmt.Sprintf("%d access(es): %s", g.good, g.detail), g.nontrivial)
		}
	}
	c.CallSites = naccess
	c.Extra["field_accesses"] = naccess
	c.Extra["guard_table_entries"] = len(guardTable)
	c.floor("C10.lockset", len(order), 150)

	// every table entry must still name an existing field (a renamed field would silently lose its guard)
	for name := range guardTable {
		parts := strings.SplitN(name, ".", 2)
		found := false
		for _, pkg := range []string{"grpcgcp", "multiendpoint"} {
			if _, st := p.namedStruct(pkg, parts[0]); st != nil {
				for i := 0; i < st.NumFields(); i++ {
					if st.Field(i).Name() == parts[1] {
						found = true
					}
				}
			}
		}
		if !found {
			c.fail("C10.table", name, "-", "guarded-by table names a field that no longer exists")
		}
	}
	// and every field of every module struct must be in the table
	for _, pkg := range []string{"grpcgcp", "multiendpoint"} {
		sp := p.pkgByName(pkg)
		if sp == nil {
			continue
		}
		for _, mem := range sp.Members {
			tn, ok := mem.(*ssa.Type)
			if !ok {
				continue
			}
			st, ok := tn.Type().Underlying().(*types.Struct)
			if !ok {
				continue
			}
			for i := 0; i < st.NumFields(); i++ {
				name := tn.Name() + "." + st.Field(i).Name()
				if _, ok := guardTable[name]; !ok {
					c.fail("C10.table", name, p.pos(st.Field(i).Pos()), "struct field has no declared guard in the guarded-by table")
				} else {
					c.okTrivial("C10.table", name, p.pos(st.Field(i).Pos()), "guard declared: "+guardTable[name].kind+" "+guardTable[name].lock+strings.Join(guardTable[name].locks, "|"))
				}
			}
		}
	}
}

// singleAssignment: every store to the latch field (outside constructors) happens under the lock and
// only on paths where a load of the same field, under the same lock hold, compared equal to nil.
func singleAssignment(p *Prog, lf *LockFacts, field, lock string) bool {
	ok := true
	n := 0
	for _, f := range p.Funcs {
		for _, a := range accessesIn(f) {
			if a.Field != field || a.What != "store" || freshAt(a.Base, a.Instr) {
				continue
			}
			n++
			if lf.HeldAt(a.Instr)[lock] != 2 {
				ok = false
				continue
			}
			rec := func(v ssa.Value) (string, bool) {
				bo, isB := v.(*ssa.BinOp)
				if !isB {
					return "", false
				}
				x, y := bo.X, bo.Y
				if isNilConst(x) {
					x, y = y, x
				}
				if !isNilConst(y) || !isLoadOf(x, field) {
					return "", false
				}
				switch bo.Op.String() {
				case "==":
					return "isnil", false
				case "!=":
					return "isnil", true
				}
				return "", false
			}
			cs := newCondSpace(f, rec, "isnil")
			if cs.err != "" {
				ok = false
				continue
			}
			if imp, _ := cs.Implies(cs.Reach(a.Instr), cs.Atom("isnil")); !imp {
				ok = false
			}
		}
	}
	return ok && n > 0
}

// latchReadOK: on every path to the unlocked read that avoids the blocks storing the field under the
// lock, a load of the field under the lock was observed non-nil.
func latchReadOK(p *Prog, lf *LockFacts, f *ssa.Function, a Access, lock string) (bool, string) {
	avoid := map[*ssa.BasicBlock]bool{}
	for _, b := range accessesIn(f) {
		if b.Field == a.Field && b.What == "store" && lf.HeldAt(b.Instr)[lock] == 2 {
			avoid[b.Instr.Block()] = true
		}
	}
	rec := func(v ssa.Value) (string, bool) {
		bo, isB := v.(*ssa.BinOp)
		if !isB {
			return "", false
		}
		x, y := bo.X, bo.Y
		if isNilConst(x) {
			x, y = y, x
		}
		if !isNilConst(y) || !isLoadOf(x, a.Field) {
			return "", false
		}
		ld, _ := stripConv(x).(ssa.Instruction)
		if ld == nil || lf.HeldAt(ld)[lock] < 1 {
			return "", false
		}
		switch bo.Op.String() {
		case "==":
			return "isnil", false
		case "!=":
			return "isnil", true
		}
		return "", false
	}
	cs := newCondSpaceAvoid(f, rec, avoid, "isnil")
	if cs.err != "" {
		return false, cs.err
	}
	if imp, wit := cs.Implies(cs.Reach(a.Instr), cs.Not(cs.Atom("isnil"))); !imp {
		return false, "a path reaches the read without having stored the field or observed it non-nil under " + lock + " (" + wit + ")"
	}
	return true, "every path to it stored the field or observed it non-nil while holding " + lock
}
