package main

import (
	"go/token"
	"go/types"
	"strings"

	"golang.org/x/tools/go/ssa"
)

// Access is one use of a struct field (or of the contents of the map/slice/chan stored in it).
type Access struct {
	Fn    *ssa.Function
	Instr ssa.Instruction // the instruction performing the access
	Field string          // "Struct.field"
	Mode  string          // R, W, A (sync/atomic), X (address escapes to an unknown user)
	What  string          // load, store, map-insert, map-delete, map-lookup, len, range, index, append, atomic:<fn>, lockop, ...
	Base  ssa.Value       // the struct (pointer) the field belongs to
	Addr  *ssa.FieldAddr
	Via   *ssa.Phi // the access goes through a local pointer merged from several addresses: it is one only on the ways on which the pointer is Addr
}

var atomicFuncs = map[string]string{
	"atomic.AddInt32": "W", "atomic.AddUint32": "W", "atomic.AddInt64": "W", "atomic.AddUint64": "W",
	"atomic.LoadInt32": "R", "atomic.LoadUint32": "R", "atomic.LoadInt64": "R", "atomic.LoadUint64": "R",
	"atomic.StoreInt32": "W", "atomic.StoreUint32": "W", "atomic.StoreInt64": "W", "atomic.StoreUint64": "W",
	"atomic.CompareAndSwapInt32": "W", "atomic.CompareAndSwapUint32": "W", "atomic.SwapInt32": "W", "atomic.SwapUint32": "W",
}

// accessesIn enumerates all field accesses performed by fn.
func accessesIn(fn *ssa.Function) []Access {
	var out []Access
	add := func(in ssa.Instruction, fa *ssa.FieldAddr, mode, what string) {
		out = append(out, Access{Fn: fn, Instr: in, Field: fieldRefOfAddr(fa), Mode: mode, What: what, Base: fa.X, Addr: fa})
	}
	eachInstr(fn, func(in ssa.Instruction) {
		fa, ok := in.(*ssa.FieldAddr)
		if !ok {
			return
		}
		refs := fa.Referrers()
		if refs == nil {
			return
		}
		for _, r := range *refs {
			switch x := r.(type) {
			case *ssa.UnOp:
				if x.Op != token.MUL {
					continue
				}
				add(x, fa, "R", "load")
				contentAccesses(x, func(in ssa.Instruction, mode, what string) { add(in, fa, mode, what) })
			case *ssa.Store:
				if x.Addr == fa {
					add(x, fa, "W", "store")
				} else {
					add(x, fa, "X", "address stored")
				}
			case *ssa.FieldAddr:
				// nested struct field: accounted for by the inner FieldAddr itself
			case *ssa.Phi:
				// the address is merged with other field addresses (and nil) into a local pointer that is only tested and
				// dereferenced here (`counter := &cse.numReady | &cse.numConnecting | nil; if counter != nil { *counter += d }`):
				// each dereference is an access of this field on the ways on which the pointer is this address
				if derefs, local := localPointerMerge(x); local {
					for _, d := range derefs {
						switch y := d.(type) {
						case *ssa.UnOp:
							out = append(out, Access{Fn: fn, Instr: y, Field: fieldRefOfAddr(fa), Mode: "R", What: "load", Base: fa.X, Addr: fa, Via: x})
						case *ssa.Store:
							out = append(out, Access{Fn: fn, Instr: y, Field: fieldRefOfAddr(fa), Mode: "W", What: "store", Base: fa.X, Addr: fa, Via: x})
						}
					}
				} else {
					add(r, fa, "X", "address used by "+r.String())
				}
			case *ssa.DebugRef:
			case *ssa.Call, *ssa.Go, *ssa.Defer:
				cc := callCommon(r)
				c := calleeOf(cc)
				name := ""
				if c.Static != nil {
					name = funcFullName(c.Static)
				}
				if m, ok := atomicFuncs[name]; ok {
					add(r, fa, "A", "atomic:"+strings.TrimPrefix(name, "atomic.")+":"+m)
				} else if _, ok := lockFuncs[name]; ok {
					add(r, fa, "L", "lockop")
				} else if c.Static != nil && c.Static.Signature.Recv() != nil && len(cc.Args) > 0 && cc.Args[0] == fa {
					// method call on an addressable field (e.g. embedded value struct): receiver use
					add(r, fa, "R", "method:"+name)
				} else {
					add(r, fa, "X", "address passed to "+c.Name())
				}
			default:
				add(r, fa, "X", "address used by "+r.String())
			}
		}
	})
	return out
}

// localPointerMerge: ph merges field addresses (and nil, and other such merges) into a pointer that is used for nothing but
// nil tests, loads and stores through it (and further merges of the same kind); returns the dereferencing instructions.
func localPointerMerge(ph *ssa.Phi) ([]ssa.Instruction, bool) {
	seen := map[*ssa.Phi]bool{}
	var derefs []ssa.Instruction
	var walk func(q *ssa.Phi) bool
	walk = func(q *ssa.Phi) bool {
		if seen[q] {
			return true
		}
		seen[q] = true
		for _, e := range q.Edges {
			switch y := e.(type) {
			case *ssa.FieldAddr:
			case *ssa.Const:
				if y.Value != nil {
					return false
				}
			case *ssa.Phi:
				if !walk(y) {
					return false
				}
			default:
				return false
			}
		}
		refs := q.Referrers()
		if refs == nil {
			return true
		}
		for _, r := range *refs {
			switch y := r.(type) {
			case *ssa.UnOp:
				if y.Op != token.MUL {
					return false
				}
				derefs = append(derefs, y)
			case *ssa.Store:
				if y.Addr != ssa.Value(q) {
					return false
				}
				derefs = append(derefs, y)
			case *ssa.BinOp:
				if y.Op != token.EQL && y.Op != token.NEQ {
					return false
				}
			case *ssa.DebugRef:
			case *ssa.Phi:
				if !walk(y) {
					return false
				}
			default:
				return false
			}
		}
		return true
	}
	ok := walk(ph)
	return derefs, ok
}

// contentAccesses reports operations on the map / slice / channel value v loaded from a field.
func contentAccesses(v ssa.Value, f func(in ssa.Instruction, mode, what string)) {
	refs := v.Referrers()
	if refs == nil {
		return
	}
	t := v.Type().Underlying()
	_, isMap := t.(*types.Map)
	_, isSlice := t.(*types.Slice)
	_, isChan := t.(*types.Chan)
	if !isMap && !isSlice && !isChan {
		return
	}
	for _, r := range *refs {
		switch x := r.(type) {
		case *ssa.MapUpdate:
			if x.Map == v {
				f(x, "W", "map-insert")
			}
		case *ssa.Lookup:
			if x.X == v {
				f(x, "R", "map-lookup")
			}
		case *ssa.Range:
			f(x, "R", "range")
		case *ssa.Index:
			f(x, "R", "index")
		case *ssa.IndexAddr:
			f(x, "R", "index")
		case *ssa.Slice:
			f(x, "R", "slice")
		case *ssa.Call:
			c := calleeOf(&x.Call)
			switch c.Builtin {
			case "delete":
				if len(x.Call.Args) > 0 && x.Call.Args[0] == v {
					f(x, "W", "map-delete")
				}
			case "len", "cap":
				f(x, "R", c.Builtin)
			case "append":
				f(x, "R", "append")
			case "close":
				f(x, "W", "close")
			default:
				if isMap && c.Builtin == "" {
					f(x, "X", "map handed to "+c.Name())
				}
			}
		case *ssa.Return:
			if isMap {
				f(x, "X", "map returned to the caller")
			}
		case *ssa.Store:
			if isMap && x.Val == v {
				f(x, "X", "map stored elsewhere")
			}
		case *ssa.Phi, *ssa.MakeInterface, *ssa.MakeClosure, *ssa.Send, *ssa.Go, *ssa.Defer:
			if isMap {
				f(x, "X", "map value flows on ("+r.String()+")")
			}
		}
	}
}

// ---------- freshness: accesses to an object allocated in the same function before it escapes ----------

// escapeAllow: callees that may receive a pointer without publishing it to another goroutine.
var escapeAllow = map[string]bool{
	"fmt.Sprintf": true, "fmt.Sprint": true, "fmt.Errorf": true, "sync.NewCond": true,
}

// escapePoints returns the instructions after which the object allocated by a may be reachable by
// another goroutine (stored to memory, captured, passed to a call/go/defer, sent, converted & leaked).
// Returning the value is not an escape within this function.
func escapePoints(a ssa.Value) []ssa.Instruction {
	var out []ssa.Instruction
	seen := map[ssa.Value]bool{}
	var walk func(v ssa.Value)
	walk = func(v ssa.Value) {
		if seen[v] {
			return
		}
		seen[v] = true
		refs := v.Referrers()
		if refs == nil {
			return
		}
		for _, r := range *refs {
			switch x := r.(type) {
			case *ssa.FieldAddr, *ssa.DebugRef, *ssa.Return, *ssa.If:
			case *ssa.UnOp:
				// *a : loading the struct value itself
			case *ssa.BinOp:
			case *ssa.MakeInterface:
				walk(x)
			case *ssa.ChangeType:
				walk(x)
			case *ssa.ChangeInterface:
				walk(x)
			case *ssa.Phi:
				walk(x)
			case *ssa.Store:
				if x.Val != v {
					continue
				}
				// storing into a slot of a local varargs array that only feeds an allow-listed call
				if ia, ok := x.Addr.(*ssa.IndexAddr); ok {
					if al, ok := ia.X.(*ssa.Alloc); ok && varargsOnlyTo(al) {
						continue
					}
				}
				out = append(out, x)
			case *ssa.Call, *ssa.Go, *ssa.Defer:
				cc := callCommon(r)
				c := calleeOf(cc)
				if _, isGo := r.(*ssa.Go); !isGo && c.Static != nil {
					n := funcFullName(c.Static)
					if escapeAllow[n] || atomicFuncs[n] != "" || lockFuncs[n] != "" {
						continue
					}
				}
				out = append(out, r)
			default:
				out = append(out, r)
			}
		}
	}
	walk(a)
	return out
}

// varargsOnlyTo: a local array used only as the backing store of a variadic argument list handed to allow-listed calls.
func varargsOnlyTo(al *ssa.Alloc) bool {
	for _, r := range *al.Referrers() {
		switch x := r.(type) {
		case *ssa.IndexAddr:
		case *ssa.Slice:
			for _, rr := range *x.Referrers() {
				cc := callCommon(rr)
				if cc == nil {
					return false
				}
				c := calleeOf(cc)
				if c.Static == nil || !escapeAllow[funcFullName(c.Static)] {
					// a module logger / external logger formatting its arguments does not publish them either
					if c.Iface != nil && strings.Contains(ifaceMethodName(c.Iface), "grpclog.LoggerV2.") {
						continue
					}
					return false
				}
			}
		case *ssa.DebugRef:
		default:
			return false
		}
	}
	return true
}

// freshAt: base is an object allocated by this function and no escape point may execute before in.
func freshAt(base ssa.Value, in ssa.Instruction) bool {
	al, ok := base.(*ssa.Alloc)
	if !ok || al.Parent() != in.Parent() {
		return false
	}
	for _, e := range escapePoints(al) {
		if e == in {
			continue
		}
		if mayPrecede(e, in) {
			return false
		}
	}
	return true
}
