package main

func runThorough(c *Ctx, w *World) {}
