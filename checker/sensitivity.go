package main

import (
	"fmt"
	"os"
	"path/filepath"
	"sort"
	"strings"

	"golang.org/x/tools/go/callgraph"
	"golang.org/x/tools/go/callgraph/cha"
	"golang.org/x/tools/go/callgraph/vta"
	"golang.org/x/tools/go/ssa"
	"golang.org/x/tools/go/ssa/ssautil"
)

// runThorough: the extra work of the thorough tier. None of it can turn a failing verdict into a
// passing one; the cross-checks add obligations (which can fail), the sensitivity mutants only add evidence.
func runThorough(c *Ctx, w *World) {
	id := c.Property
	// ---- 1. whole-program VTA call graph: every call edge into a module function that the rules'
	// resolution (static callees + module-interface dispatch) does not know is a soundness hole.
	for _, p := range []*Prog{w.gcp, w.prober, w.csum} {
		if p == nil || !p.AllSSA {
			continue
		}
		vtaCrossCheck(c, p)
	}
	// ---- 2. the same property on a 32-bit configuration must yield the same obligations
	if os.Getenv("VERIF_SKIP_386") == "" {
		c2 := newCtx(id, "quick", c.Repo, c.Verif)
		w2 := &World{c: c2, repo: w.repo, all: false, goarch: "386"}
		resetGlobals()
		func() {
			defer func() {
				if r := recover(); r != nil {
					c2.fatalf("panic on GOARCH=386: %v", r)
				}
			}()
			props[id](c2, w2)
			reportCondErrors(c2)
		}()
		resetGlobals()
		if w.gcp != nil {
			equivCtx.p, equivCtx.sums, equivCtx.lf, equivCtx.done = w.gcp, w.gcpSums, w.gcpLF, map[*ssa.Function]bool{}
		}
		a, b := statusMap(c), statusMap(c2)
		var diff []string
		for k, v := range a {
			if strings.HasPrefix(k, "thorough.") {
				continue
			}
			if b[k] != v {
				diff = append(diff, fmt.Sprintf("%s: amd64=%s 386=%s", k, v, b[k]))
			}
		}
		for k, v := range b {
			if _, ok := a[k]; !ok {
				diff = append(diff, fmt.Sprintf("%s: amd64=absent 386=%s", k, v))
			}
		}
		sort.Strings(diff)
		if len(diff) > 0 || len(c2.fatal) > 0 {
			c.fail("thorough.goarch386", "same obligations on GOARCH=386", "-", fmt.Sprintf("the property's obligations differ between GOARCH=amd64 and GOARCH=386 (%d differences, %d load errors): build-constrained or width-dependent code escapes the default analysis", len(diff), len(c2.fatal)), append(diff, c2.fatal...)...)
		} else {
			c.ok("thorough.goarch386", "same obligations on GOARCH=386", "-", fmt.Sprintf("re-ran the whole rule set with GOARCH=386: identical %d obligations and statuses", len(b)))
		}
	}
	// ---- 3. sensitivity mutants (evidence only)
	runMutants(c, w)
}

func resetGlobals() {
	loadRep = map[ssa.Value]string{}
	equivCtx.p, equivCtx.sums, equivCtx.lf, equivCtx.done = nil, nil, nil, nil
}

func statusMap(c *Ctx) map[string]string {
	m := map[string]string{}
	for _, o := range c.Obs {
		m[o.Rule+" | "+o.Construct] = o.Status
	}
	return m
}

// vtaCrossCheck compares, for every module function, the callers found by the rules' resolution with
// the callers in the VTA call graph of the whole program.
func vtaCrossCheck(c *Ctx, p *Prog) {
	all := ssautil.AllFunctions(p.SSA)
	g := vta.CallGraph(all, cha.CallGraph(p.SSA))
	own := map[*ssa.Function]bool{}
	for _, f := range p.Funcs {
		own[f] = true
	}
	mine := map[[2]*ssa.Function]bool{}
	for _, f := range p.Funcs {
		eachInstr(f, func(in ssa.Instruction) {
			if cc := callCommon(in); cc != nil {
				for _, callee := range p.calleesOf(cc) {
					mine[[2]*ssa.Function{f, callee}] = true
				}
			}
		})
	}
	var missing []string
	edges := 0
	callgraph.GraphVisitEdges(g, func(e *callgraph.Edge) error {
		caller, callee := e.Caller.Func, e.Callee.Func
		if !own[callee] {
			return nil
		}
		// unwrap synthetic wrappers on the caller side (bound-method closures, thunks): attribute to the wrapper's creator
		if !own[caller] {
			if caller != nil && caller.Synthetic != "" {
				return nil // wrapper → real method: the wrapper's own callers are what matters and are visited separately
			}
			// a call from outside the module (gRPC calling Pick, timers calling closures): entry point, expected
			return nil
		}
		edges++
		if !mine[[2]*ssa.Function{caller, callee}] {
			// calls through function values (closures invoked via variables, timers) are legitimate dynamic edges:
			// they are acceptable only if the callee is treated as an external entry by the lock analysis
			missing = append(missing, fmt.Sprintf("%s → %s at %s", fname(caller), fname(callee), p.ipos(e.Site)))
		}
		return nil
	})
	sort.Strings(missing)
	// dynamic edges into functions that the rules already treat as externally entered are fine
	lf := buildLockFacts(p)
	var bad []string
	for _, m := range missing {
		callee := strings.TrimSpace(strings.SplitN(strings.SplitN(m, " → ", 2)[1], " at ", 2)[0])
		ext := false
		for f := range lf.External {
			if fname(f) == callee && lf.External[f] {
				ext = true
			}
		}
		if !ext {
			bad = append(bad, m)
		}
	}
	construct := "module call edges (" + filepath.Base(p.Dir) + ")"
	if len(bad) > 0 {
		c.fail("thorough.callgraph", construct, "-", fmt.Sprintf("the whole-program VTA call graph has %d call edge(s) into module functions that the rules' callee resolution does not see and whose callee is not treated as an entry point", len(bad)), bad...)
	} else {
		c.ok("thorough.callgraph", construct, "-", fmt.Sprintf("all %d intra-module call edges of the VTA whole-program call graph are known to the rules' callee resolution (static callees + module-interface dispatch); %d dynamic edge(s) target functions already treated as entry points", edges, len(missing)))
	}
	c.Extra["vta_edges_into_module"] = edges
}

// ---- sensitivity mutants ----

type mutant struct {
	Prop   string
	File   string // relative to the repository root
	Old    string
	New    string
	Expect string // "detect": the property's rules must report; "silent": behaviour-preserving, rules must stay quiet
	Note   string
}

func runMutants(c *Ctx, w *World) {
	type res struct {
		Note, Expect, Outcome string
		Rules                 []string
	}
	var results []res
	applied, detected, skipped, mismatches := 0, 0, 0, 0
	for _, m := range mutantTable {
		if m.Prop != c.Property {
			continue
		}
		path := filepath.Join(w.repo, m.File)
		src, err := os.ReadFile(path)
		if err != nil || strings.Count(string(src), m.Old) != 1 {
			skipped++
			results = append(results, res{m.Note, m.Expect, "skipped: anchor text not found exactly once", nil})
			continue
		}
		mutated := strings.Replace(string(src), m.Old, m.New, 1)
		c2 := newCtx(c.Property, "quick", c.Repo, c.Verif)
		c2.Known = c.Known
		w2 := &World{c: c2, repo: w.repo, all: false, overlay: map[string][]byte{path: []byte(mutated)}}
		resetGlobals()
		func() {
			defer func() {
				if r := recover(); r != nil {
					c2.fatalf("panic: %v", r)
				}
			}()
			props[c.Property](c2, w2)
		}()
		resetGlobals()
		if len(c2.fatal) > 0 && strings.Contains(strings.Join(c2.fatal, " "), "load") {
			skipped++
			results = append(results, res{m.Note, m.Expect, "skipped: mutant does not type-check", nil})
			continue
		}
		applied++
		var rules []string
		for _, o := range c2.Obs {
			if o.Status == "fail" || o.Status == "undecided" {
				known := false
				for _, k := range c.Known {
					if k.Rule == o.Rule && k.Construct == o.Construct {
						known = true
					}
				}
				if !known {
					rules = append(rules, o.Rule+" @ "+o.Construct)
				}
			}
		}
		fired := len(rules) > 0 || len(c2.fatal) > 0
		outcome := "silent"
		if fired {
			outcome = "detected"
			detected++
		}
		if (m.Expect == "detect") != fired {
			mismatches++
			outcome += " (UNEXPECTED)"
			fmt.Printf("sensitivity: UNEXPECTED outcome for mutant %q (expected %s): %v\n", m.Note, m.Expect, rules)
		}
		if len(rules) > 4 {
			rules = rules[:4]
		}
		results = append(results, res{m.Note, m.Expect, outcome, rules})
	}
	if w.gcp != nil {
		equivCtx.p, equivCtx.sums, equivCtx.lf, equivCtx.done = w.gcp, w.gcpSums, w.gcpLF, map[*ssa.Function]bool{}
	}
	c.Extra["sensitivity"] = map[string]interface{}{
		"explanation": "seeded edits of the current sources applied in memory (packages.Config.Overlay), type-checked and analysed with the same rules; 'detect' mutants break the property and must be reported, 'silent' mutants preserve behaviour and must not be; results never change the exit status",
		"applied":     applied, "detected": detected, "skipped": skipped, "unexpected": mismatches, "results": results,
	}
	fmt.Printf("sensitivity: %d mutant(s) applied, %d detected, %d skipped, %d unexpected outcome(s)\n", applied, detected, skipped, mismatches)
}
