package main

import (
	"fmt"
	"go/types"
	"strings"

	"golang.org/x/tools/go/ssa"
)

// loopRules classifies every loop of the functions in scope (DESIGN §3.8):
//
//	bounded   range / counted loops
//	wait      loops containing a blocking operation: must block with no lock held and have a context-governed exit
//	state     loops whose condition reads state X: every continuing iteration must write X
//
// Anything else is undecided and fails.
func loopRules(c *Ctx, p *Prog, lf *LockFacts, scope map[*ssa.Function]bool, pfx string) (nloops int) {
	for _, f := range sortedFuncs(scope) {
		for i, l := range loopsOf(f) {
			nloops++
			construct := fmt.Sprintf("%s: loop#%d(%s)", qname(f), i+1, l.Header.Comment)
			pos := p.ipos(l.Header.Instrs[len(l.Header.Instrs)-1])
			if k, why := l.boundedKind(); k != "" {
				c.ok(pfx+".loops", construct, pos, "bounded ("+k+"): "+why)
				continue
			}
			// wait loop?
			var blockers []ssa.Instruction
			for b := range l.Blocks {
				for _, in := range b.Instrs {
					if blockingKind(in) != "" {
						blockers = append(blockers, in)
					}
				}
			}
			if len(blockers) > 0 {
				ok, detail := waitLoopOK(p, lf, f, l, blockers)
				if ok {
					c.ok(pfx+".loops", construct, pos, "wait loop: "+detail)
				} else {
					c.fail(pfx+".loops", construct, pos, "wait loop: "+detail)
				}
				continue
			}
			if ok, detail := stateLoopOK(p, f, l); ok {
				c.ok(pfx+".loops", construct, pos, "state loop: "+detail)
			} else {
				c.fail(pfx+".loops", construct, pos, "loop is neither bounded, nor a context-governed wait loop, nor a state loop with progress on every iteration: "+detail)
			}
		}
	}
	return
}

// isCtxDone recognises ctx.Done() on a context.Context value.
func isCtxDone(v ssa.Value) (ssa.Value, bool) {
	call, ok := v.(*ssa.Call)
	if !ok || !call.Call.IsInvoke() || call.Call.Method.Name() != "Done" {
		return nil, false
	}
	if shortType(call.Call.Value.Type()) != "context.Context" {
		return nil, false
	}
	return call.Call.Value, true
}

// ctxRooted: the context value is (derived from) a parameter or a field of the receiver — i.e. the call's context.
func ctxOrigin(v ssa.Value) string {
	switch x := v.(type) {
	case *ssa.Parameter:
		return "parameter " + x.Name()
	case *ssa.FreeVar:
		return "captured " + x.Name()
	case *ssa.UnOp:
		if f, _, ok := loadedField(x); ok {
			return "field " + f
		}
	}
	return ""
}

// waitLoopOK: every blocking operation in the loop runs with no lock held and the loop has an exit
// governed by the caller's context.
func waitLoopOK(p *Prog, lf *LockFacts, f *ssa.Function, l *Loop, blockers []ssa.Instruction) (bool, string) {
	ctxExit := ""
	for _, in := range blockers {
		held := lf.MayHeldAt(in)
		kind := blockingKind(in)
		if kind == "Cond.Wait" {
			if cc := callCommon(in); cc != nil && len(cc.Args) > 0 {
				if fld, _, ok := loadedField(cc.Args[0]); ok {
					held = held.clone()
					delete(held, lf.CondLock[fld])
				}
			}
		}
		if len(held) > 0 {
			return false, fmt.Sprintf("%s at %s blocks while holding %s", kind, p.ipos(in), held)
		}
		switch x := in.(type) {
		case *ssa.Select:
			for si, st := range x.States {
				if st.Dir != types.RecvOnly {
					continue
				}
				if ctx, ok := isCtxDone(st.Chan); ok && ctxOrigin(ctx) != "" {
					// the case's body must leave the loop: find the block taken when index == si
					if selectCaseLeavesLoop(x, si, l) {
						ctxExit = fmt.Sprintf("select case <-%s.Done() (%s) leaves the loop", vstr(ctx), ctxOrigin(ctx))
					}
				}
			}
		case *ssa.Call:
			if kind == "WaitForStateChange" && len(x.Call.Args) >= 2 {
				// (*ClientConn).WaitForStateChange(ctx, s) returns false when ctx ends; the loop must exit on false
				ctx := x.Call.Args[1]
				if ctxOrigin(ctx) != "" && resultFalseLeavesLoop(x, l) {
					ctxExit = fmt.Sprintf("WaitForStateChange(%s, …) == false leaves the loop (%s)", vstr(ctx), ctxOrigin(ctx))
				}
			}
		}
	}
	if ctxExit == "" {
		// a condition-variable wait cannot select on the context: accepted when each iteration tests ctx.Err() of the call's
		// context before waiting (leaving the loop when it is non-nil) AND a waker goroutine, started before any wait,
		// broadcasts on the same condition variable (holding its lock) when that context is done
		for _, in := range blockers {
			if blockingKind(in) == "Cond.Wait" {
				if ok, why := condWaitCtxOK(p, lf, f, l, in.(*ssa.Call)); ok {
					ctxExit = why
				} else if why != "" {
					return false, why
				}
			}
		}
	}
	if ctxExit == "" {
		return false, "no exit of the loop is governed by the call's context (a cancelled or expired context leaves the goroutine blocked)"
	}
	return true, "blocks with no lock held; " + ctxExit
}

// selectCaseLeavesLoop: the branch taken for select index si reaches no loop block before returning.
func selectCaseLeavesLoop(sel *ssa.Select, si int, l *Loop) bool {
	// pattern: t = select...; idx = extract t #0; if idx == 0 goto A else B ...
	var idx ssa.Value
	for _, r := range *sel.Referrers() {
		if ex, ok := r.(*ssa.Extract); ok && ex.Index == 0 {
			idx = ex
		}
	}
	if idx == nil {
		return false
	}
	for _, r := range *idx.Referrers() {
		bo, ok := r.(*ssa.BinOp)
		if !ok {
			continue
		}
		cv, isC := constInt(bo.Y)
		if !isC || int(cv) != si {
			continue
		}
		for _, rr := range *bo.Referrers() {
			iff, ok := rr.(*ssa.If)
			if !ok {
				continue
			}
			target := iff.Block().Succs[0]
			if !reachesLoop(target, l) {
				return true
			}
		}
	}
	// the same on conditions (the case may only set a flag that is tested afterwards — `ctxDone = true` … `if ctxDone { return }`):
	// no way round the loop is compatible with this case having been chosen
	cs := newCondSpace(sel.Parent(), recOf(eqAtom("thisCase", isVal(idx), constIs(int64(si)))), "thisCase")
	if cs.err != "" || !cs.Seen("thisCase") {
		return false
	}
	for _, lt := range l.Latch {
		for bi, sb := range lt.Succs {
			if sb == l.Header && cs.Satisfiable(and(cs.EdgeCond(lt, bi), cs.Atom("thisCase"))) {
				return false
			}
		}
	}
	return len(l.Latch) > 0
}

func resultFalseLeavesLoop(call *ssa.Call, l *Loop) bool {
	// every way round the loop from the call back to the call passes a test that found the result true: either the back
	// edge itself implies it (`if !conn.Wait…(ctx, s) { break }`), or the result is carried to the loop's own test through a
	// loop variable (`for changed := true; changed; { …; changed = conn.Wait…(ctx, s) }`) and the call is reached only
	// when that variable is true
	cs := newCondSpace(call.Parent(), nil)
	if cs.err != "" {
		return false
	}
	back := cs.False()
	for _, lt := range l.Latch {
		for bi, sb := range lt.Succs {
			if sb == l.Header {
				back = or(back, cs.EdgeCond(lt, bi))
			}
		}
	}
	if res, ok := cs.EvalValue(call); ok {
		if imp, _ := cs.Implies(and(back, cs.Reach(call)), res); imp && cs.Satisfiable(and(back, cs.Reach(call))) {
			return true
		}
	}
	for _, in := range l.Header.Instrs {
		ph, ok := in.(*ssa.Phi)
		if !ok {
			continue
		}
		n, carried := 0, true
		for i, e := range ph.Edges {
			if !l.Blocks[l.Header.Preds[i]] {
				continue // the value the loop is entered with
			}
			if e != ssa.Value(call) {
				carried = false
			}
			n++
		}
		if !carried || n == 0 {
			continue
		}
		if pv, ok := cs.EvalValue(ph); ok {
			if imp, _ := cs.Implies(cs.Reach(call), pv); imp {
				return true
			}
		}
	}
	return false
}

// reachesLoop: some path from b re-enters the loop.
func reachesLoop(b *ssa.BasicBlock, l *Loop) bool {
	if l.Blocks[b] {
		return true
	}
	seen := map[*ssa.BasicBlock]bool{}
	stack := []*ssa.BasicBlock{b}
	for len(stack) > 0 {
		x := stack[len(stack)-1]
		stack = stack[:len(stack)-1]
		if seen[x] {
			continue
		}
		seen[x] = true
		if l.Blocks[x] {
			return true
		}
		stack = append(stack, x.Succs...)
	}
	return false
}

// stateLoopOK: the header tests len(<map field F>) against something, and every iteration that
// continues executes a map insertion into F — directly, or through a module callee whose result
// the continuing path requires to be true and which returns true only after inserting into F.
func stateLoopOK(p *Prog, f *ssa.Function, l *Loop) (bool, string) {
	h := l.Header
	iff, ok := h.Instrs[len(h.Instrs)-1].(*ssa.If)
	if !ok {
		return false, "header has no test"
	}
	bo, ok := iff.Cond.(*ssa.BinOp)
	if !ok {
		return false, "header test is not a comparison"
	}
	field := ""
	for _, side := range []ssa.Value{bo.X, bo.Y} {
		if call, ok := side.(*ssa.Call); ok {
			if c := calleeOf(&call.Call); c.Builtin == "len" && len(call.Call.Args) == 1 {
				if fl, _, ok := loadedField(call.Call.Args[0]); ok {
					field = fl
				}
			}
		}
	}
	if field == "" {
		return false, "header does not test len(<field>)"
	}
	cs := newCondSpace(f, nil)
	if cs.err != "" {
		return false, cs.err
	}
	var allProgress []string
	for _, latch := range l.Latch {
		progress := ""
		for b := range l.Blocks {
			if !b.Dominates(latch) {
				continue
			}
			for _, in := range b.Instrs {
				if mu, ok := in.(*ssa.MapUpdate); ok && isLoadOf(mu.Map, field) {
					progress = "inserts into " + field + " at " + p.ipos(in)
				}
				call, ok := in.(*ssa.Call)
				if !ok {
					continue
				}
				callees := p.calleesOf(&call.Call)
				if len(callees) != 1 {
					continue
				}
				g := callees[0]
				// continuing requires the call's result to be true
				res, okv := cs.EvalValue(call)
				if !okv {
					continue
				}
				back := cs.False()
				for si, s := range latch.Succs {
					if s == h {
						back = or(back, cs.EdgeCond(latch, si))
					}
				}
				if imp, _ := cs.Implies(back, res); !imp {
					continue
				}
				if ok, why := returnsTrueOnlyAfterInsert(g, field); ok {
					progress = fmt.Sprintf("continuing requires %s() == true, and %s", fname(g), why)
				}
			}
		}
		if progress == "" {
			return false, fmt.Sprintf("an iteration can reach the back edge at block %d without inserting into %s: the loop can spin forever", latch.Index, field)
		}
		allProgress = append(allProgress, progress)
	}
	if len(allProgress) == 0 {
		return false, "no back edge"
	}
	// (every back edge was examined: one that needs no insertion fails above)
	return true, fmt.Sprintf("condition reads len(%s); every continuing iteration %s", field, allProgress[0])
}

// returnsTrueOnlyAfterInsert: every return of g whose (single, bool) result may be true is dominated
// by a MapUpdate on the given map field.
func returnsTrueOnlyAfterInsert(g *ssa.Function, field string) (bool, string) {
	var inserts []*ssa.MapUpdate
	eachInstr(g, func(in ssa.Instruction) {
		if mu, ok := in.(*ssa.MapUpdate); ok && isLoadOf(mu.Map, field) {
			inserts = append(inserts, mu)
		}
	})
	if len(inserts) == 0 {
		return false, ""
	}
	nTrue := 0
	okAll := true
	gcs := newCondSpace(g, nil)
	for _, vr := range gcs.VirtualReturns() {
		// (a merged `return added` is split per way of arriving)
		if len(vr.Vals) != 1 {
			continue
		}
		if cst, ok := stripConv(vr.Vals[0]).(*ssa.Const); ok && cst.Value != nil && cst.Value.String() == "false" {
			continue
		}
		// a computed flag (`created = nil == err … return created`) that is false on every way to this exit
		if bits, known := gcs.EvalValue(cellValue(vr.Vals[0])); known && !gcs.Satisfiable(and(vr.Cond, bits)) {
			continue
		}
		nTrue++
		dominated := false
		for _, mu := range inserts {
			if dominatesInstr(mu, vr.Ret) {
				dominated = true
			} else if imp, _ := gcs.Implies(vr.Cond, gcs.Reach(mu)); imp && mayPrecede(mu, vr.Ret) {
				dominated = true
			}
		}
		if !dominated {
			okAll = false
		}
	}
	if !okAll || nTrue == 0 {
		return false, ""
	}
	return true, fmt.Sprintf("%s returns true only after inserting into %s", fname(g), field)
}

// recursionRules: every recursive cycle in scope must have a structural termination argument.
// Recognised: self-recursion where an int parameter strictly increases by a constant in every
// recursive call and the function returns without recursing when len(<slice param>) == that parameter,
// the slice parameter being passed unchanged.
func recursionRules(c *Ctx, p *Prog, scope map[*ssa.Function]bool, pfx string) {
	for _, f := range sortedFuncs(scope) {
		var selfCalls []*ssa.Call
		eachInstr(f, func(in ssa.Instruction) {
			if call, ok := in.(*ssa.Call); ok {
				for _, g := range p.calleesOfModule(&call.Call) {
					if g == f {
						selfCalls = append(selfCalls, call)
					}
				}
			}
		})
		// mutual recursion: f reaches f through other functions
		if len(selfCalls) == 0 {
			reach := map[*ssa.Function]bool{}
			eachInstr(f, func(in ssa.Instruction) {
				if cc := callCommon(in); cc != nil {
					for _, g := range p.calleesOfModule(cc) {
						for h := range p.reachableModule(g) {
							reach[h] = true
						}
					}
				}
			})
			if reach[f] {
				c.fail(pfx+".recursion", qname(f), p.pos(f.Pos()), "function takes part in a mutual recursion for which no termination argument is recognised")
			}
			continue
		}
		ok, detail := selfRecursionBounded(f, selfCalls)
		if ok {
			c.ok(pfx+".recursion", qname(f), p.pos(f.Pos()), detail)
		} else {
			c.fail(pfx+".recursion", qname(f), p.pos(f.Pos()), "self-recursion without a recognised termination argument: "+detail)
		}
	}
}

func selfRecursionBounded(f *ssa.Function, calls []*ssa.Call) (bool, string) {
	for pi, prm := range f.Params {
		if b, ok := prm.Type().Underlying().(*types.Basic); !ok || b.Info()&types.IsInteger == 0 {
			continue
		}
		allInc := true
		for _, call := range calls {
			a := call.Call.Args[pi]
			bo, ok := a.(*ssa.BinOp)
			if !ok || bo.Op.String() != "+" || bo.X != prm {
				allInc = false
				break
			}
			if cv, isC := constInt(bo.Y); !isC || cv <= 0 {
				allInc = false
				break
			}
		}
		if !allInc {
			continue
		}
		// base case: if len(q) == prm → return, dominating no recursive call; q passed unchanged
		for qi, q := range f.Params {
			if _, ok := q.Type().Underlying().(*types.Slice); !ok {
				continue
			}
			unchanged := true
			for _, call := range calls {
				if call.Call.Args[qi] != q {
					unchanged = false
				}
			}
			if !unchanged {
				continue
			}
			rec := func(v ssa.Value) (string, bool) {
				bo, ok := v.(*ssa.BinOp)
				if !ok {
					return "", false
				}
				x, y := bo.X, bo.Y
				if y != prm {
					x, y = y, x
				}
				if y != prm {
					return "", false
				}
				lc, ok := x.(*ssa.Call)
				if !ok || calleeOf(&lc.Call).Builtin != "len" || lc.Call.Args[0] != q {
					return "", false
				}
				switch bo.Op.String() {
				case "==":
					return "base", false
				case "!=":
					return "base", true
				}
				return "", false
			}
			cs := newCondSpace(f, rec, "base")
			if cs.err != "" || !cs.Seen("base") {
				continue
			}
			good := true
			for _, call := range calls {
				if imp, _ := cs.Implies(cs.Reach(call), cs.Not(cs.Atom("base"))); !imp {
					good = false
				}
			}
			if good {
				return true, fmt.Sprintf("parameter %s grows by a positive constant in each of the %d recursive call(s), %s is passed unchanged, and no recursive call is reachable when len(%s) == %s (depth ≤ len(%s) - %s + 1, assuming %s ≤ len(%s) at the outermost call)",
					prm.Name(), len(calls), q.Name(), q.Name(), prm.Name(), q.Name(), prm.Name(), prm.Name(), q.Name())
			}
		}
	}
	var ss []string
	for _, call := range calls {
		ss = append(ss, vstr(call))
	}
	return false, strings.Join(ss, "; ")
}

// isCtxErr recognises ctx.Err() on a context.Context value.
func isCtxErr(v ssa.Value) (ssa.Value, bool) {
	call, ok := stripConv(v).(*ssa.Call)
	if !ok || !call.Call.IsInvoke() || call.Call.Method.Name() != "Err" || shortType(call.Call.Value.Type()) != "context.Context" {
		return nil, false
	}
	return call.Call.Value, true
}

// ctxFieldOf: the struct field a context value is loaded from ("" if it is not a field load).
func ctxFieldOf(v ssa.Value) string {
	if f, _, ok := loadedField(v); ok {
		return f
	}
	return ""
}

// condWaitCtxOK: see the call site. Returns ("", "") when the pattern is simply absent.
func condWaitCtxOK(p *Prog, lf *LockFacts, f *ssa.Function, l *Loop, wait *ssa.Call) (bool, string) {
	condField, _, ok := loadedField(wait.Call.Args[0])
	if !ok {
		return false, ""
	}
	// (a)+(b): if ctx.Err() != nil { leave } in the loop, evaluated before the wait on every iteration
	var errCall *ssa.Call
	ctxField := ""
	for b := range l.Blocks {
		for _, in := range b.Instrs {
			ec, isC := in.(*ssa.Call)
			if !isC {
				continue
			}
			ctx, isE := isCtxErr(ec)
			if !isE || ctxOrigin(ctx) == "" || !ec.Block().Dominates(wait.Block()) {
				continue
			}
			// on the ways on which this ctx.Err() was non-nil, neither the wait nor another iteration is reached (the test may
			// be spelled `if err := ctx.Err(); err != nil { return }` or go through a (value, done) pair of a helper)
			cs := newCondSpace(f, recOf(eqAtom("ctxLive", isVal(ec), isNil)), "ctxLive")
			if !cs.Seen("ctxLive") {
				continue
			}
			dead := cs.Not(cs.Atom("ctxLive"))
			stays := cs.Satisfiable(and(dead, cs.Reach(wait)))
			for _, lt := range l.Latch {
				for bi, sb := range lt.Succs {
					if sb == l.Header && cs.Satisfiable(and(dead, and(cs.EdgeCond(lt, bi), cs.Reach(ec)))) {
						stays = true
					}
				}
			}
			if stays {
				continue
			}
			errCall, ctxField = ec, ctxFieldOf(ctx)
		}
	}
	if errCall == nil {
		return false, ""
	}
	if ctxField == "" {
		return false, "the context tested before the wait is not a field of the waiting object (the waker cannot be matched to it)"
	}
	// (c): a waker goroutine: select { case <-ctx.Done(): lock; cond.Broadcast(); unlock … }
	var goIns *ssa.Go
	eachInstr(f, func(in ssa.Instruction) {
		g, isGo := in.(*ssa.Go)
		if !isGo {
			return
		}
		cl := calleeOf(&g.Call).Static
		if cl == nil {
			return
		}
		wakes := false
		eachInstr(cl, func(x ssa.Instruction) {
			sel, isSel := x.(*ssa.Select)
			if !isSel {
				return
			}
			for si, st := range sel.States {
				if st.Dir != types.RecvOnly {
					continue
				}
				ctx, isD := isCtxDone(st.Chan)
				if !isD || ctxFieldOf(ctx) != ctxField {
					continue
				}
				// in the branch of this case: Broadcast on the same cond with its lock held
				eachInstr(cl, func(y ssa.Instruction) {
					call, isC := y.(*ssa.Call)
					if !isC || !strings.HasSuffix(calleeOf(&call.Call).Name(), "sync.(*Cond).Broadcast") {
						return
					}
					if cf, _, isL := loadedField(call.Call.Args[0]); !isL || cf != condField {
						return
					}
					if lf.HeldAt(call)[lf.CondLock[condField]] != 2 {
						return
					}
					// (on every path of that case, not just on some)
					if selectCaseReaches(sel, si, call.Block()) && selectCaseAlways(sel, si, call) {
						wakes = true
					}
				})
			}
		})
		if wakes {
			goIns = g
		}
	})
	if goIns == nil {
		return false, "the loop tests ctx.Err() before waiting, but nothing wakes the waiter when the context ends (no goroutine that broadcasts on " + condField + " after <-ctx.Done())"
	}
	// (d): the waker is started before any wait
	if goIns.Block().Dominates(wait.Block()) {
		return true, fmt.Sprintf("each iteration leaves on %s.Err() != nil before waiting, and a waker started at %s broadcasts on %s (lock held) when that context is done", ctxField, p.ipos(goIns), condField)
	}
	// started once, guarded by a local that is nil exactly until the waker exists: the local (a variable cell or a loop
	// variable) holds nil or the channel made in the block that starts the waker, and nothing else
	var mk *ssa.MakeChan
	for _, in := range goIns.Block().Instrs {
		if m, isMk := in.(*ssa.MakeChan); isMk {
			mk = m
		}
	}
	if mk == nil {
		return false, "the waker goroutine is not started on every path to the wait, and no guard variable ties the two"
	}
	isGuardLoad := func(v ssa.Value) bool {
		v = stripConv(v)
		if _, isK := v.(*ssa.Const); isK {
			return false
		}
		n := 0
		for _, o := range origins(v) {
			switch {
			case isConstNilOrigin(o) || o.Kind == "zero":
			case o.Val == ssa.Value(mk):
				n++
			default:
				return false
			}
		}
		return n > 0
	}
	acs := newCondSpaceAvoid(f, recOf(eqAtom("noWaker", isGuardLoad, isNil)), map[*ssa.BasicBlock]bool{goIns.Block(): true}, "noWaker")
	if imp, wit := acs.Implies(acs.Reach(wait), acs.Not(acs.Atom("noWaker"))); !imp || !acs.Seen("noWaker") {
		return false, "a path reaches the wait without having started the waker goroutine: " + wit
	}
	return true, fmt.Sprintf("each iteration leaves on %s.Err() != nil before waiting; the waker (started once at %s, guarded by a local that is non-nil only after the start) broadcasts on %s with the lock held when that context is done", ctxField, p.ipos(goIns), condField)
}

// selectCaseAlways: every path of the branch taken for select index si executes the instruction before the function returns.
func selectCaseAlways(sel *ssa.Select, si int, target ssa.Instruction) bool {
	var idx ssa.Value
	for _, r := range *sel.Referrers() {
		if ex, ok := r.(*ssa.Extract); ok && ex.Index == 0 {
			idx = ex
		}
	}
	if idx == nil {
		return false
	}
	for _, r := range *idx.Referrers() {
		bo, ok := r.(*ssa.BinOp)
		if !ok {
			continue
		}
		cv, isC := constInt(bo.Y)
		if !isC || int(cv) != si {
			continue
		}
		for _, rr := range *bo.Referrers() {
			if iff, ok := rr.(*ssa.If); ok {
				return everyPathFromHits(iff.Block().Succs[0], 0, map[ssa.Instruction]bool{target: true})
			}
		}
	}
	return false
}

// selectCaseReaches: the branch taken for select index si can reach block b.
func selectCaseReaches(sel *ssa.Select, si int, b *ssa.BasicBlock) bool {
	var idx ssa.Value
	for _, r := range *sel.Referrers() {
		if ex, ok := r.(*ssa.Extract); ok && ex.Index == 0 {
			idx = ex
		}
	}
	if idx == nil {
		return false
	}
	for _, r := range *idx.Referrers() {
		bo, ok := r.(*ssa.BinOp)
		if !ok {
			continue
		}
		cv, isC := constInt(bo.Y)
		if !isC || int(cv) != si {
			continue
		}
		for _, rr := range *bo.Referrers() {
			if iff, ok := rr.(*ssa.If); ok {
				t := iff.Block().Succs[0]
				return t == b || canReach(t, b, false)
			}
		}
	}
	return false
}
