package main

import (
	"fmt"
	"go/token"
	"go/types"
	"os"
	"strings"

	"golang.org/x/tools/go/ssa"
)

// C16 — GCPMultiEndpoint rejects bad updates atomically and releases everything.
func checkC16(c *Ctx, w *World) {
	c.Explanation = "Structural analysis of rejection and release: on every path of UpdateMultiEndpoints to a return that may carry an error, no routing-relevant " +
		"effect (MultiEndpoint map / default name / SetEndpoints / pool deletion / Close / stopMonitoring) has happened — or the error is proved infeasible by an " +
		"interprocedural precondition argument (the callee fails only for an empty list, and a validation loop over the same option map has already rejected empty " +
		"lists before the first effect); pool additions are guarded by 'no pool yet' and therefore routing-neutral; no error returned by the MultiEndpoint package " +
		"is dropped; a failed construction releases what was built; Close stops every monitor and closes every pool under the lock; goroutines are started only by " +
		"newMonitoredConn, with a cancel function that is stored and is what stopMonitoring calls, and their loop leaves when the context ends."
	c.RuleText = "one obligation per error return / multiendpoint call / release step / goroutine; non-trivial = needed an effect-before-return path argument, a callee precondition lemma or provenance"
	c.Assumptions = []string{
		"grpc.ClientConn.Close and the dial function behave as documented; goroutine counts at run time are not measured",
		"a dial failure leaves the pools dialed so far registered (they are closed by the next successful update or by Close): routing is unaffected because only new keys are added",
	}
	c.Trusted = []string{"go/types", "golang.org/x/tools/go/ssa v0.29.0"}
	g := newGME(c, w)
	if g == nil {
		return
	}
	p := g.p
	upd := g.upd

	// ---- routing-relevant effects of UpdateMultiEndpoints
	type eff struct {
		in   ssa.Instruction
		what string
	}
	var effects []eff
	for _, a := range g.ai.ByFn[upd] {
		if !a.isWrite() {
			continue
		}
		switch {
		case a.Field == "GCPMultiEndpoint.mes", a.Field == "GCPMultiEndpoint.defaultName":
			effects = append(effects, eff{a.Instr, a.What + " " + a.Field})
		case a.Field == "GCPMultiEndpoint.pools" && a.What == "map-delete":
			effects = append(effects, eff{a.Instr, "delete pool"})
		}
	}
	eachInstr(upd, func(in ssa.Instruction) {
		call, ok := in.(*ssa.Call)
		if !ok {
			return
		}
		n := calleeOf(&call.Call).Name()
		switch {
		case strings.HasSuffix(n, "grpc.(*ClientConn).Close"):
			effects = append(effects, eff{in, "close pool"})
		case isCallTo(call, g.stop, p):
			effects = append(effects, eff{in, "stop monitor"})
		case call.Call.IsInvoke() && call.Call.Method.Name() == "SetEndpoints":
			effects = append(effects, eff{in, "SetEndpoints"})
		}
	})
	// the same effects reached through a helper called (or deferred: it then runs at every later return) from the update
	eachInstr(upd, func(in ssa.Instruction) {
		cc := callCommon(in)
		if cc == nil {
			return
		}
		if _, isGo := in.(*ssa.Go); isGo {
			return
		}
		for _, callee := range p.calleesOf(cc) {
			if callee == g.stop || callee == g.newMC || callee.Pkg == nil || callee.Pkg.Pkg.Name() != "grpcgcp" {
				continue
			}
			var what []string
			for fn := range p.reachableModule(callee) {
				for _, a := range g.ai.ByFn[fn] {
					if !a.isWrite() || freshAt(a.Base, a.Instr) {
						continue
					}
					if a.Field == "GCPMultiEndpoint.mes" || a.Field == "GCPMultiEndpoint.defaultName" || (a.Field == "GCPMultiEndpoint.pools" && a.What == "map-delete") {
						what = append(what, a.What+" "+a.Field)
					}
				}
				eachInstr(fn, func(x ssa.Instruction) {
					if call, ok := x.(*ssa.Call); ok {
						n := calleeOf(&call.Call).Name()
						if strings.HasSuffix(n, "grpc.(*ClientConn).Close") || isCallTo(call, g.stop, p) || (call.Call.IsInvoke() && call.Call.Method.Name() == "SetEndpoints") {
							what = append(what, "call "+n)
						}
					}
				})
			}
			if len(what) > 0 {
				kind := "call"
				if _, isD := in.(*ssa.Defer); isD {
					kind = "deferred call (runs at every later return, including error returns)"
				}
				effects = append(effects, eff{in, kind + " of " + fname(callee) + ": " + strings.Join(what, ", ")})
			}
		}
	})
	c.floor("C16.effects", len(effects), 5)
	// pool additions are routing-neutral only if guarded by "no pool yet" — checked by C15.dial; re-check cheaply here
	for _, a := range g.ai.ByFn[upd] {
		if a.Field == "GCPMultiEndpoint.pools" && a.What == "map-insert" {
			mu := a.Instr.(*ssa.MapUpdate)
			isPoolOK := func(v ssa.Value) bool {
				e, ok := stripConv(v).(*ssa.Extract)
				if !ok || e.Index != 1 {
					return false
				}
				l, ok := e.Tuple.(*ssa.Lookup)
				return ok && l.CommaOk && isLoadOf(l.X, "GCPMultiEndpoint.pools") && l.Index == mu.Key
			}
			cs := newCondSpace(upd, recOf(boolAtom("hasPool", isPoolOK)), "hasPool")
			imp, wit := cs.Implies(cs.Reach(mu), cs.Not(cs.Atom("hasPool")))
			c.check(imp, "C16.validate-first", "pool addition is routing-neutral", p.ipos(mu), "a pool is inserted only under a name that has no pool: existing routes are unaffected even if the update fails later", "an existing pool can be overwritten by an update that may still fail: "+wit)
		}
	}

	// ---- C16.validate-first
	nerr := 0
	for i, r := range returnsOf(upd) {
		if nilErr, _ := allOrigins(r.Results[0], isConstNilOrigin); nilErr {
			continue
		}
		nerr++
		construct := fmt.Sprintf("UpdateMultiEndpoints error return#%d", i+1)
		var before []string
		for _, e := range effects {
			if mayPrecede(e.in, r) {
				before = append(before, e.what+" at "+p.ipos(e.in))
			}
		}
		if len(before) == 0 {
			c.ok("C16.validate-first", construct, p.ipos(r), "no routing-relevant effect can precede this error return: every RPC is routed as before")
			continue
		}
		// the error must come from a callee whose failure is excluded by the up-front validation
		ok, why := g.errorInfeasible(r, effects[0].in, func(in ssa.Instruction) bool {
			for _, e := range effects {
				if e.in == in {
					return true
				}
			}
			return false
		})
		if ok {
			c.ok("C16.validate-first", construct, p.ipos(r), "error return after effects is infeasible: "+why)
		} else {
			c.fail("C16.validate-first", construct, p.ipos(r), "an update can be rejected after routing-relevant effects already happened ("+strings.Join(before, "; ")+"): "+why)
		}
	}
	// (counted per way out: a single `return err` merged from several failing ways is as many error exits)
	nerrWays := 0
	for _, vr := range newCondSpace(upd, nil).VirtualReturns() {
		if !isNilConst(stripConv(vr.Vals[0])) {
			nerrWays++
		}
	}
	if nerrWays > nerr {
		nerr = nerrWays
	}
	c.floor("C16.validate-first", nerr, 3)

	// ---- C16.errors
	nme := 0
	for _, fn := range p.Funcs {
		if fn.Pkg == nil || fn.Pkg.Pkg.Name() != "grpcgcp" {
			continue
		}
		eachInstr(fn, func(in ssa.Instruction) {
			cc := callCommon(in)
			if cc == nil {
				return
			}
			var sig *types.Signature
			declPkg := ""
			if cc.IsInvoke() {
				sig, _ = cc.Method.Type().(*types.Signature)
				if cc.Method.Pkg() != nil {
					declPkg = cc.Method.Pkg().Name()
				}
			} else if f, ok := cc.Value.(*ssa.Function); ok {
				sig = f.Signature
				if f.Pkg != nil {
					declPkg = f.Pkg.Pkg.Name()
				} else if f.Object() != nil && f.Object().Pkg() != nil {
					declPkg = f.Object().Pkg().Name()
				}
			}
			if sig == nil || declPkg != "multiendpoint" {
				return
			}
			res := sig.Results()
			if res.Len() == 0 || res.At(res.Len()-1).Type().String() != "error" {
				return
			}
			nme++
			used := false
			if v, ok := in.(ssa.Value); ok && v.Referrers() != nil {
				for _, r := range *v.Referrers() {
					switch x := r.(type) {
					case *ssa.DebugRef:
					case *ssa.Extract:
						if x.Index == res.Len()-1 && x.Referrers() != nil && len(*x.Referrers()) > 0 {
							used = true
						}
					default:
						if res.Len() == 1 {
							used = true
						}
					}
				}
			}
			c.check(used, "C16.errors", fmt.Sprintf("%s result in %s", calleeOf(cc).Name(), fname(fn)), p.ipos(in), "the error result is examined", "an error returned by the MultiEndpoint state machine is dropped: the update 'succeeds' while the MultiEndpoint refused it")
		})
	}
	c.floor("C16.errors", nme, 2)

	// ---- C16.ctor
	updCalls := g.callsIn(g.ctor, upd)
	closeCalls := g.callsIn(g.ctor, g.closeFn)
	nr := 0
	if len(updCalls) > 0 {
		ccs := newCondSpace(g.ctor, recOf(eqAtom("updOK", isVal(updCalls[0]), isNil)), "updOK")
		for i, vr := range ccs.VirtualReturns() {
			r := vr.Ret
			if nilErr, _ := allOrigins(vr.Vals[1], isConstNilOrigin); nilErr {
				continue
			}
			after := false
			for _, u := range updCalls {
				// (on this way out: a merged exit is also reached on ways that never came to the update)
				if mayPrecede(u, r) && ccs.Satisfiable(and(vr.Cond, ccs.Reach(u))) {
					after = true
				}
			}
			if !after {
				continue
			}
			// the ways of arriving on which the construction failed: all of them when the returned error is made here,
			// those with a failed update when the update's own error is handed on
			failed := vr.Cond
			if isVal(updCalls[0])(vr.Vals[1]) {
				failed = and(vr.Cond, ccs.Not(ccs.Atom("updOK")))
				if !ccs.Satisfiable(failed) {
					continue
				}
			}
			nr++
			released := false
			for _, cl := range closeCalls {
				if cl.Call.Args[0] != updCalls[0].Call.Args[0] || !mayPrecede(cl, r) {
					continue
				}
				if imp, _ := ccs.Implies(failed, ccs.Reach(cl)); imp || dominatesInstr(cl, r) {
					released = true
				}
			}
			c.check(released, "C16.ctor", fmt.Sprintf("NewGCPMultiEndpoint error return#%d", i+1), p.ipos(r), "a construction that fails after pools may have been dialed closes the partially built object first", "a failed construction returns without releasing the pools and monitors it already created")
		}
	}
	c.floor("C16.ctor", nr, 1)

	// ---- C16.live: "no accepted or rejected update can make a later RPC panic or use a closed pool".
	// pickConn dereferences mes[defaultName] (or mes[name]) and pools[me.Current()] without further checks; both are
	// safe by invariants that are compositions of rules checked elsewhere. The premises are re-evaluated here.
	{
		c15 := newCtx("C15", c.Tier, c.Repo, c.Verif)
		c15.importing = append(append([]string{}, c.importing...), c.Property) // C15 takes a premise of C16 in turn
		func() {
			defer func() {
				if r := recover(); r != nil {
					c15.fatalf("panic: %v", r)
				}
			}()
			checkC15(c15, w)
		}()
		var broken []string
		for _, o := range c15.Obs {
			if o.Status == "ok" {
				continue
			}
			for _, fam := range []string{"C15.mes", "C15.dial", "C15.close", "C15.pick"} {
				if o.Rule == fam {
					broken = append(broken, o.Rule+" @ "+o.Construct)
				}
			}
		}
		broken = append(broken, c15.fatal...)
		for _, o := range c15.Obs {
			if strings.HasPrefix(o.Rule, "engine.") && o.Status != "ok" {
				broken = append(broken, "C15 premises: "+o.Rule+" @ "+o.Construct)
			}
		}
		// pools[me.Current()]: Current() must name an endpoint of the MultiEndpoint's latest accepted list
		// (which all have pools): the membership rules of C13 are premises too
		c13 := newCtx("C13", c.Tier, c.Repo, c.Verif)
		func() {
			defer func() {
				if r := recover(); r != nil {
					c13.fatalf("panic: %v", r)
				}
			}()
			checkC13(c13, w)
		}()
		for _, o := range c13.Obs {
			if o.Status == "ok" {
				continue
			}
			for _, fam := range []string{"C13.member", "C13.writers", "C13.nonempty", "C13.reject", "C13.fallback-first"} {
				if o.Rule == fam {
					broken = append(broken, o.Rule+" @ "+o.Construct)
				}
			}
		}
		broken = append(broken, c13.fatal...)
		for _, o := range c13.Obs {
			// a premise run that lost an anchor proves nothing
			if strings.HasPrefix(o.Rule, "engine.") && o.Status != "ok" {
				broken = append(broken, "C13 premises: "+o.Rule+" @ "+o.Construct)
			}
		}
		// defaultName is assigned only when the options contain it
		hasDefault := func(v ssa.Value) bool {
			e, ok := stripConv(v).(*ssa.Extract)
			if !ok || e.Index != 1 {
				return false
			}
			l, ok := e.Tuple.(*ssa.Lookup)
			return ok && l.CommaOk && isLoadOf(l.X, "GCPMultiEndpointOptions.MultiEndpoints") && isLoadOf(l.Index, "GCPMultiEndpointOptions.Default")
		}
		dcs := newCondSpace(upd, recOf(boolAtom("defaultConfigured", hasDefault)), "defaultConfigured")
		for _, a := range g.ai.ByFn[upd] {
			if a.Field == "GCPMultiEndpoint.defaultName" && a.What == "store" {
				if imp, _ := dcs.Implies(dcs.Reach(a.Instr), dcs.Atom("defaultConfigured")); !imp || !dcs.Seen("defaultConfigured") {
					broken = append(broken, "defaultName can be set to a name that has no options")
				}
			}
		}
		// the constructor hands the object out only after a successful first update
		if len(g.callsIn(g.ctor, upd)) == 0 {
			broken = append(broken, "NewGCPMultiEndpoint does not perform a first update")
		}
		for _, u := range g.callsIn(g.ctor, upd) {
			ucs := newCondSpace(g.ctor, recOf(eqAtom("updOK", isVal(u), isNil)), "updOK")
			okAfter := ucs.Seen("updOK")
			for _, vr := range ucs.VirtualReturns() {
				// (a merged `return gme, err` is split per way of arriving)
				if nilObj, _ := allOrigins(vr.Vals[0], isConstNilOrigin); nilObj {
					continue
				}
				if imp, _ := ucs.Implies(vr.Cond, ucs.Atom("updOK")); !imp {
					okAfter = false
				}
			}
			if !okAfter {
				broken = append(broken, "NewGCPMultiEndpoint can return an object whose first update did not succeed")
			}
		}
		c.check(len(broken) == 0, "C16.live", "pickConn: mes[default] and pools[Current()] are present", p.pos(g.pickConn.Pos()),
			"every returned object completed a successful update; a successful update leaves mes keys = option keys ∋ defaultName, every endpoint of every MultiEndpoint has a pool, pools are deleted only when unmentioned, failed updates change none of this (validate-first), and Current() is a member of its MultiEndpoint's list (C13): the two unchecked lookups in pickConn cannot yield nil",
			"an invariant that pickConn's unchecked map lookups rely on is broken: "+strings.Join(broken, "; "))
	}

	// ---- C16.close
	okClose := false
	for _, rl := range rangeLoops(g.closeFn, func(v ssa.Value) bool { return isLoadOf(v, "GCPMultiEndpoint.pools") }) {
		var st, cl ssa.Instruction
		eachInstr(g.closeFn, func(in ssa.Instruction) {
			call, ok := in.(*ssa.Call)
			if !ok {
				return
			}
			if isCallTo(call, g.stop, p) && rl.val(call.Call.Args[0]) && rl.onEveryIteration(call) {
				st = call
			}
			if strings.HasSuffix(calleeOf(&call.Call).Name(), "grpc.(*ClientConn).Close") {
				if f, base, isL := loadedField(call.Call.Args[0]); isL && f == "monitoredConn.conn" && rl.val(base) && rl.onEveryIteration(call) {
					cl = call
				}
			}
		})
		if st != nil && cl != nil && g.lf.HeldAt(st)["GCPMultiEndpoint.mu"] == 2 {
			okClose = true
			for _, r := range returnsOf(g.closeFn) {
				if !dominatesInstr(rl.Range, r) {
					okClose = false
				}
			}
		}
	}
	// UpdateMultiEndpoints (and Close) are single critical sections: gme.mu is not released between the first and the last
	// access to the routing tables (a gap lets Close, or a second update, interleave with a half-applied update)
	for _, fn := range []*ssa.Function{g.upd, g.closeFn} {
		var acc []ssa.Instruction
		for _, a := range g.ai.ByFn[fn] {
			if a.Field == "GCPMultiEndpoint.pools" || a.Field == "GCPMultiEndpoint.mes" || a.Field == "GCPMultiEndpoint.defaultName" {
				acc = append(acc, a.Instr)
			}
		}
		gap := ""
		for _, a := range acc {
			for _, b := range acc {
				if a != b && mayPrecede(a, b) && !sameHoldOf(g.lf, "GCPMultiEndpoint.mu", a, b) {
					gap = p.ipos(a) + " … " + p.ipos(b)
				}
			}
		}
		c.check(len(acc) > 0 && gap == "", "C16.atomic", fname(fn)+" is one critical section", p.pos(fn.Pos()), "gme.mu is never released between two accesses to pools / mes / defaultName", "gme.mu is released in the middle of the operation (between "+gap+"): Close or another update can run against a half-applied update — pools registered after Close returned, pools removed that the other update keeps")
	}
	c.check(okClose, "C16.close", "Close releases every pool", p.pos(g.closeFn.Pos()), "under gme.mu, every pool's monitor is stopped and its connection closed on every iteration path, on every path of Close", "Close can return without stopping every monitor and closing every pool")
	// ownership: a successfully dialed connection is handed to the pool table (which Close and the failed-construction
	// cleanup range over) before anything else can fail; a monitored connection is created nowhere else
	ndial := 0
	ocs := newCondSpace(g.upd, nil)
	eachInstr(g.upd, func(in ssa.Instruction) {
		d, ok := in.(*ssa.Call)
		if !ok || !isLoadOf(d.Call.Value, "GCPMultiEndpoint.dialFunc") {
			return
		}
		ndial++
		targets := map[ssa.Instruction]bool{}
		eachInstr(g.upd, func(x ssa.Instruction) {
			mu, isMU := x.(*ssa.MapUpdate)
			if !isMU || !isLoadOf(mu.Map, "GCPMultiEndpoint.pools") {
				return
			}
			val := stripConv(mu.Value)
			if rs := ocs.ResolveUnder(mu.Value, ocs.Reach(mu)); len(rs) == 1 {
				val = stripConv(rs[0]) // a merged (mc, created) pair has one concrete origin where the insertion is reached
			}
			if mc, isC := val.(*ssa.Call); isC && isCallTo(mc, g.newMC, p) && isExtractOf(mc.Call.Args[1], d, 0) {
				targets[x] = true
			}
		})
		// the success successor of the dial's error test
		var succ *ssa.BasicBlock
		if iff, isIf := d.Block().Instrs[len(d.Block().Instrs)-1].(*ssa.If); isIf {
			if bo, isB := iff.Cond.(*ssa.BinOp); isB && isExtractOf(bo.X, d, 1) && isNilConst(bo.Y) {
				switch bo.Op {
				case token.NEQ:
					succ = d.Block().Succs[1]
				case token.EQL:
					succ = d.Block().Succs[0]
				}
			}
		}
		good := succ != nil && len(targets) > 0 && everyPathFromHits(succ, 0, targets)
		if !good && succ != nil && len(targets) > 0 {
			// path-sensitive form (the success is reported through a flag that is tested later): with the insertions removed
			// from the graph, no return and no further iteration can be reached on the ways that pass the successful dial
			avoid := map[*ssa.BasicBlock]bool{}
			for t := range targets {
				avoid[t.Block()] = true
			}
			acs := newCondSpaceAvoid(g.upd, nil, avoid)
			si := 0
			if d.Block().Succs[1] == succ {
				si = 1
			}
			okDial := acs.EdgeCond(d.Block(), si)
			escapes := false
			for _, r := range returnsOf(g.upd) {
				if acs.Satisfiable(and(okDial, acs.Reach(r))) {
					escapes = true
				}
			}
			for _, l := range loopsOf(g.upd) {
				if !l.Blocks[d.Block()] {
					continue
				}
				for _, lt := range l.Latch {
					for bi, sb := range lt.Succs {
						if sb == l.Header && acs.Satisfiable(and(okDial, acs.EdgeCond(lt, bi))) {
							escapes = true
						}
					}
				}
			}
			good = !escapes
		}
		c.check(good, "C16.close", "dialed connection is owned by the pool table at once", p.ipos(d), "on every path after a successful dial the connection is wrapped and stored in gme.pools (reachable by Close and by the failed-construction cleanup) before the update can return or dial again", "a successfully dialed connection can be left outside gme.pools when the update returns (e.g. on a later dial failure): neither Close nor the constructor's cleanup can release it or stop its monitor")
	})
	c.floor("C16.close:dial", ndial, 1)
	g.whoMayCall("C16.close", g.newMC, fname(g.newMC), fname(g.upd))
	// goroutines
	ngo := 0
	for _, fn := range p.Funcs {
		if fn.Pkg == nil || fn.Pkg.Pkg.Name() != "grpcgcp" {
			continue
		}
		eachInstr(fn, func(in ssa.Instruction) {
			gi, ok := in.(*ssa.Go)
			if !ok {
				return
			}
			ngo++
			// the started function, its receiver and its arguments — also when it is started through a bound method value
			// (`monitor := mc.monitor; go monitor(ctx)`)
			var target *ssa.Function
			var recvArg ssa.Value
			var restArgs []ssa.Value
			if cs := p.calleesOf(&gi.Call); len(cs) == 1 && len(gi.Call.Args) >= 1 && !gi.Call.IsInvoke() {
				target, recvArg, restArgs = cs[0], gi.Call.Args[0], gi.Call.Args[1:]
			}
			if mk, isMk := cellValue(gi.Call.Value).(*ssa.MakeClosure); isMk && len(mk.Bindings) == 1 {
				if bf, isF := mk.Fn.(*ssa.Function); isF && strings.HasPrefix(bf.Synthetic, "bound method wrapper") {
					if mobj, isM := bf.Object().(*types.Func); isM {
						target, recvArg, restArgs = p.SSA.FuncValue(mobj), mk.Bindings[0], gi.Call.Args
					}
				}
			}
			good := fn == g.newMC && target != nil && target == g.monitor && len(restArgs) >= 1
			if good {
				// ctx argument from context.WithCancel, whose cancel is stored in monitoredConn.cancel of the same object
				ctxArg := restArgs[0]
				e, isE := ctxArg.(*ssa.Extract)
				good = isE && e.Index == 0
				if good {
					wc, isC := e.Tuple.(*ssa.Call)
					good = isC && strings.HasSuffix(calleeOf(&wc.Call).Name(), "context.WithCancel")
					stored := false
					for _, a := range g.ai.ByFn[fn] {
						if a.Field == "monitoredConn.cancel" && a.What == "store" {
							if ce, ok := a.Instr.(*ssa.Store).Val.(*ssa.Extract); ok && ce.Tuple == e.Tuple && ce.Index == 1 && cellValue(a.Base) == cellValue(recvArg) {
								stored = true
							}
						}
					}
					good = good && stored
				}
			}
			if !good {
				// a helper goroutine bounded by the call that started it: its body is one select, one case of which receives from
				// a channel made in the spawning function and closed there by a deferred close (so it ends no later than that call)
				if ok, why := callBoundedGoroutine(gi, fn); ok {
					c.ok("C16.close", fmt.Sprintf("goroutine started in %s", fname(fn)), p.ipos(in), why)
					return
				}
			}
			c.check(good, "C16.close", fmt.Sprintf("goroutine started in %s", fname(fn)), p.ipos(in), "the monitor goroutine is started with a cancellable context whose cancel function is kept in the monitored connection", "a goroutine is started that Close cannot stop")
		})
	}
	c.floor("C16.close:go", ngo, 1)
	// stopMonitoring calls the stored cancel
	okStop := false
	eachInstr(g.stop, func(in ssa.Instruction) {
		if call, ok := in.(*ssa.Call); ok {
			if f, base, isL := loadedField(call.Call.Value); isL && f == "monitoredConn.cancel" && base == ssa.Value(g.stop.Params[0]) {
				okStop = true
			}
		}
	})
	c.check(okStop, "C16.close", "stopMonitoring cancels", p.pos(g.stop.Pos()), "calls the stored cancel function", "stopMonitoring does not call the stored cancel function")
	// the monitor loop leaves when the context ends
	loopRules(c, p, g.lf, map[*ssa.Function]bool{g.monitor: true}, "C16.close")
}

// errorInfeasible: the error returned at r originates from a call to a MultiEndpoint constructor/mutator
// that fails only for an empty endpoint list, and a validation loop over the same option map, completed
// before the first effect, has already returned for every entry with a nil/empty list.
func (g *gmectx) errorInfeasible(r *ssa.Return, firstEffect ssa.Instruction, isEffect func(ssa.Instruction) bool) (bool, string) {
	p := g.p
	upd := g.upd
	var srcCall *ssa.Call
	for _, o := range origins(r.Results[0]) {
		switch x := o.Val.(type) {
		case *ssa.Call:
			srcCall = x
		case *ssa.Extract:
			srcCall, _ = x.Tuple.(*ssa.Call)
		}
	}
	if srcCall == nil {
		return false, "the returned error does not come from a single call"
	}
	callees := p.calleesOf(&srcCall.Call)
	if len(callees) == 0 {
		return false, "error comes from " + calleeOf(&srcCall.Call).Name() + ", whose failure conditions are unknown (a dial failure after effects would be a partial update)"
	}
	// which argument is the list / options object
	for _, callee := range callees {
		if callee.Pkg == nil || callee.Pkg.Pkg.Name() != "multiendpoint" {
			return false, "error comes from " + fname(callee)
		}
		// (i) callee fails only when its list is empty
		var list vpred
		if callee.Signature.Recv() != nil {
			list = isVal(callee.Params[1])
		} else {
			b := callee.Params[0]
			list = func(v ssa.Value) bool {
				f, base, ok := loadedField(v)
				return ok && f == "MultiEndpointOptions.Endpoints" && base == ssa.Value(b)
			}
		}
		cs := newCondSpace(callee, recOf(lenZeroAtom("empty", func(v ssa.Value) bool {
			call, ok := stripConv(v).(*ssa.Call)
			return ok && calleeOf(&call.Call).Builtin == "len" && list(call.Call.Args[0])
		})), "empty")
		if !cs.Seen("empty") {
			return false, fname(callee) + " does not test its list for emptiness"
		}
		for _, cr := range cs.VirtualReturns() {
			if nilErr, _ := allOrigins(cr.Vals[len(cr.Vals)-1], isConstNilOrigin); nilErr {
				continue
			}
			if imp, _ := cs.Implies(cr.Cond, cs.Atom("empty")); !imp {
				return false, fname(callee) + " can fail for a non-empty list"
			}
		}
	}
	// (ii) the argument is <v>.Endpoints / v for the value v of an iteration over the option map
	var optVal ssa.Value
	arg := srcCall.Call.Args[0]
	if f, base, ok := loadedField(arg); ok && f == "MultiEndpointOptions.Endpoints" {
		optVal = base
	} else {
		optVal = arg
	}
	// (the entry as the scan's value, or looked up by the scan's key in the same unchanged map)
	var src *rangeLoop
	for _, rl := range rangeLoops(upd, func(v ssa.Value) bool { return isLoadOf(v, "GCPMultiEndpointOptions.MultiEndpoints") }) {
		if rl.val(optVal) {
			src = rl
		}
	}
	if src == nil {
		return false, "argument is not an entry of the option map"
	}
	nx, rng := src.Next, src.Range
	// validation loop over the same map, before the first effect
	for _, vl := range rangeLoops(upd, func(v ssa.Value) bool { return isLoadOf(v, "GCPMultiEndpointOptions.MultiEndpoints") }) {
		if vl.Next == nx {
			continue
		}
		// same base object
		_, b1, _ := loadedField(vl.Range.X)
		_, b2, _ := loadedField(rng.X)
		if b1 != b2 {
			continue
		}
		// completed before any effect: the loop's range instruction dominates the first effect and no effect lies inside it
		if !dominatesInstr(vl.Range, firstEffect) {
			// or: no way to the first effect avoids the loop (e.g. an earlier rejection that skips it also skips the effects)
			acs := newCondSpaceAvoid(upd, nil, map[*ssa.BasicBlock]bool{vl.Range.Block(): true})
			if acs.err != "" || acs.Satisfiable(acs.Reach(firstEffect)) {
				continue
			}
		}
		inside := false
		for b := range vl.Blocks {
			for _, in := range b.Instrs {
				if isEffect(in) {
					inside = true
				}
			}
		}
		if inside {
			continue
		}
		isV := vl.val
		atoms := []atomDef{
			eqAtom("nilEntry", isV, isNil),
			lenZeroAtom("emptyList", func(v ssa.Value) bool {
				call, ok := stripConv(v).(*ssa.Call)
				if !ok || calleeOf(&call.Call).Builtin != "len" {
					return false
				}
				f, base, isL := loadedField(call.Call.Args[0])
				return isL && f == "MultiEndpointOptions.Endpoints" && isV(base)
			}),
		}
		vcs := newCondSpace(upd, recOf(atoms...), atomNames(atoms...)...)
		if !vcs.Seen("emptyList") {
			continue
		}
		// in the body: nil ∨ empty ⇒ an error return is reached without going round the loop
		bad := vcs.False()
		for _, vr := range returnsOf(upd) {
			if nilErr, _ := allOrigins(vr.Results[0], isConstNilOrigin); nilErr {
				continue
			}
			if reachableWithin(vl.body(), vr.Block(), vl.Loop) {
				bad = or(bad, vcs.Reach(vr))
			}
		}
		imp, dbgWit := vcs.Implies(and(vcs.ReachBlock(vl.body()), vcs.Or(vcs.Atom("nilEntry"), vcs.Atom("emptyList"))), bad)
		if os.Getenv("VERIF_DEBUG") != "" {
			fmt.Println("DEBUG validation loop candidate at", p.ipos(vl.Range), "imp", imp, dbgWit)
		}
		if imp {
			return true, fmt.Sprintf("%s fails only for an empty endpoint list, and the loop at %s has already rejected every nil/empty entry of the same option map before the first effect", calleeOf(&srcCall.Call).Name(), p.ipos(vl.Range))
		}
	}
	return false, "no up-front validation loop over the option map rejects empty endpoint lists before the first effect"
}

// callBoundedGoroutine: go func(){ select { …; case <-done: } }() where done is a local channel of the spawning
// function that is closed by a deferred close in that function; the goroutine's body does nothing before the select and
// every select case falls through to the end of the function (no loop).
func callBoundedGoroutine(gi *ssa.Go, parent *ssa.Function) (bool, string) {
	cl := calleeOf(&gi.Call).Static
	if cl == nil || len(cl.Blocks) == 0 {
		return false, ""
	}
	isClosure := cl.Parent() == parent
	if !isClosure && (cl.Parent() != nil || cl.Pkg != parent.Pkg) {
		return false, ""
	}
	if len(loopsOf(cl)) > 0 {
		return false, ""
	}
	var sel *ssa.Select
	nsel := 0
	eachInstr(cl, func(in ssa.Instruction) {
		if x, ok := in.(*ssa.Select); ok {
			sel = x
			nsel++
		}
	})
	if sel == nil || nsel != 1 || sel.Block() != cl.Blocks[0] || !sel.Blocking {
		return false, ""
	}
	for _, st := range sel.States {
		if st.Dir != types.RecvOnly {
			continue
		}
		// the channel, as the spawning function sees it: a captured local (closure) or the argument bound to the
		// parameter the goroutine's function selects on (a named function started with `go f(stop)`)
		var inParent ssa.Value
		if u, ok := stripConv(st.Chan).(*ssa.UnOp); ok && isClosure {
			if fv, isFV := u.X.(*ssa.FreeVar); isFV {
				if b := freeVarBinding(fv); b != nil {
					if cell, isAl := b.(*ssa.Alloc); isAl && cell.Parent() == parent {
						inParent = cell
					}
				}
			}
		}
		if prm, ok := stripConv(st.Chan).(*ssa.Parameter); ok && !isClosure {
			for i, q := range cl.Params {
				if q == prm && i < len(gi.Call.Args) {
					inParent = gi.Call.Args[i]
				}
			}
		}
		if inParent == nil {
			continue
		}
		// … it is a channel made by the parent …
		var made []ssa.Value
		okMade := true
		if cell, isCell := inParent.(*ssa.Alloc); isCell {
			for _, s := range storesTo(cell) {
				if _, isMk := s.Val.(*ssa.MakeChan); isMk {
					made = append(made, s.Val)
				} else {
					okMade = false
				}
			}
		} else {
			for _, o := range origins(inParent) {
				if _, isMk := o.Val.(*ssa.MakeChan); isMk {
					made = append(made, o.Val)
				} else {
					okMade = false
				}
			}
		}
		if !okMade || len(made) == 0 {
			continue
		}
		isMine := func(v ssa.Value) bool {
			if cell, isCell := inParent.(*ssa.Alloc); isCell {
				u, ok := stripConv(v).(*ssa.UnOp)
				return ok && u.X == ssa.Value(cell)
			}
			os := origins(v)
			if len(os) == 0 {
				return false
			}
			for _, o := range os {
				hit := false
				for _, m := range made {
					if o.Val == m {
						hit = true
					}
				}
				if !hit {
					return false
				}
			}
			return true
		}
		// … closed by a deferred close in the parent, registered no later than the go statement
		closed := false
		eachInstr(parent, func(in ssa.Instruction) {
			d, isD := in.(*ssa.Defer)
			if !isD || calleeOf(&d.Call).Builtin != "close" {
				return
			}
			if isMine(d.Call.Args[0]) && (dominatesInstr(d, gi) || registeredRightAfter(gi, d)) {
				closed = true
			}
		})
		if closed {
			return true, "helper goroutine bounded by the call that started it: it only waits in one select, one case of which is a channel closed by a deferred close of the spawning function"
		}
		if len(made) == 1 {
			if ok, why := onceFlagClose(gi, parent, made[0], isMine); ok {
				return true, why
			}
		}
	}
	return false, ""
}

// onceFlagClose: the goroutine is started inside a loop, at most once, guarded by a loop variable G that is nil until the
// start and holds the goroutine's stop channel ever after; every way out of the function after the loop closes (defers the
// close of) G's final value when it is not nil. In detail:
//
//	(a) the go statement is reached only with G == nil;
//	(b) on the ways from the go statement to the loop's back edge G's next value is the channel made for this goroutine;
//	(c) no other way round the loop resets G (it keeps its value or receives that channel);
//	(d) the loop cannot be left between the go statement and the back edge;
//	(e) a deferred close of X outside the loop, where X is G as it was when the loop was left, is reached on every way to
//	    a return on which X != nil.
func onceFlagClose(gi *ssa.Go, parent *ssa.Function, mk ssa.Value, isMine func(ssa.Value) bool) (bool, string) {
	var loop *Loop
	for _, l := range loopsOf(parent) {
		if l.Blocks[gi.Block()] && (loop == nil || len(l.Blocks) < len(loop.Blocks)) {
			loop = l
		}
	}
	if loop == nil {
		return false, ""
	}
	mine := func(v ssa.Value) bool {
		os := origins(v)
		for _, o := range os {
			if o.Val != mk {
				return false
			}
		}
		return len(os) > 0
	}
	for _, in := range loop.Header.Instrs {
		g, ok := in.(*ssa.Phi)
		if !ok {
			continue
		}
		if _, isChan := g.Type().Underlying().(*types.Chan); !isChan {
			continue
		}
		// entered with nil
		okEntry := true
		for i, e := range g.Edges {
			if !loop.Blocks[loop.Header.Preds[i]] && !isNilConst(stripConv(e)) {
				okEntry = false
			}
		}
		if !okEntry {
			continue
		}
		isG := func(v ssa.Value) bool { return trivialPhi(stripConv(v)) == ssa.Value(g) }
		cs := newCondSpace(parent, recOf(eqAtom("unset", isG, isNil)), "unset")
		// (a)
		if imp, _ := cs.Implies(cs.Reach(gi), cs.Atom("unset")); !imp || !cs.Seen("unset") {
			continue
		}
		// (b) + (c)
		var keepsOrMine func(v ssa.Value, depth int) bool
		keepsOrMine = func(v ssa.Value, depth int) bool {
			v = stripConv(v)
			if v == ssa.Value(g) || mine(v) {
				return true
			}
			ph, isPhi := v.(*ssa.Phi)
			if !isPhi || ph.Block() == loop.Header || depth > 6 {
				return false
			}
			for _, e := range ph.Edges {
				if !keepsOrMine(e, depth+1) {
					return false
				}
			}
			return true
		}
		okLoop := true
		for i, e := range g.Edges {
			if !loop.Blocks[loop.Header.Preds[i]] {
				continue
			}
			if !keepsOrMine(e, 0) {
				okLoop = false
			}
			for _, rv := range cs.ResolveUnder(e, cs.Reach(gi)) {
				if !mine(rv) {
					okLoop = false
				}
			}
		}
		if !okLoop {
			continue
		}
		// (d)
		escapes := false
		for _, ex := range loop.exits() {
			if reachableWithin(gi.Block(), ex[0], loop) && ex[0] != loop.Header {
				escapes = true
			}
		}
		if escapes || gi.Block() == loop.Header {
			continue
		}
		// (e)
		leavesAsG := func(v ssa.Value) bool { // X is G as the loop was left: a merge of G over the exits
			var walk func(v ssa.Value, depth int) bool
			walk = func(v ssa.Value, depth int) bool {
				v = stripConv(v)
				if v == ssa.Value(g) {
					return true
				}
				ph, isPhi := v.(*ssa.Phi)
				if !isPhi || loop.Blocks[ph.Block()] || depth > 4 {
					return false
				}
				for _, e := range ph.Edges {
					if !walk(e, depth+1) {
						return false
					}
				}
				return true
			}
			return walk(v, 0)
		}
		var found *ssa.Defer
		eachInstr(parent, func(x ssa.Instruction) {
			d, isD := x.(*ssa.Defer)
			if !isD || calleeOf(&d.Call).Builtin != "close" || loop.Blocks[d.Block()] || !leavesAsG(d.Call.Args[0]) {
				return
			}
			xv := trivialPhi(stripConv(d.Call.Args[0]))
			xcs := newCondSpace(parent, recOf(eqAtom("xNil", func(v ssa.Value) bool { return trivialPhi(stripConv(v)) == xv }, isNil)), "xNil")
			if !xcs.Seen("xNil") {
				return
			}
			all := true
			for _, r := range returnsOf(parent) {
				if loop.Blocks[r.Block()] || !canReachFromLoop(loop, r.Block()) {
					continue
				}
				if imp, _ := xcs.Implies(and(xcs.Reach(r), xcs.Not(xcs.Atom("xNil"))), xcs.Reach(d)); !imp || !mayPrecede(d, r) {
					all = false
				}
			}
			if all {
				found = d
			}
		})
		// returns inside the loop after the start are excluded by (d); returns inside the loop before it happen with G
		// unchanged and are covered only if they cannot occur once G is set: require none
		for _, r := range returnsOf(parent) {
			if loop.Blocks[r.Block()] {
				found = nil
			}
		}
		if found != nil {
			return true, "helper goroutine started at most once under a loop variable that is nil until then and holds the goroutine's stop channel afterwards; every return after the loop is preceded by a deferred close of that variable when it is not nil"
		}
	}
	_ = isMine
	return false, ""
}

// canReachFromLoop: b is reachable from some exit of the loop.
func canReachFromLoop(l *Loop, b *ssa.BasicBlock) bool {
	for _, ex := range l.exits() {
		if ex[1] == b || canReach(ex[1], b, false) {
			return true
		}
	}
	return false
}

// registeredRightAfter: the defer follows the go statement in the same block with nothing in between that could return,
// panic or block (only reads of local variable cells): the close is registered before anything can go wrong.
func registeredRightAfter(gi *ssa.Go, d *ssa.Defer) bool {
	if gi.Block() != d.Block() {
		return false
	}
	after := false
	for _, in := range gi.Block().Instrs {
		if in == ssa.Instruction(gi) {
			after = true
			continue
		}
		if !after {
			continue
		}
		if in == ssa.Instruction(d) {
			return true
		}
		u, ok := in.(*ssa.UnOp)
		if !ok || u.Op != token.MUL {
			return false
		}
		if _, isCell := u.X.(*ssa.Alloc); !isCell {
			return false
		}
	}
	return false
}
