package main

import (
	"fmt"
	"go/ast"
	"go/types"
	"sort"
	"strings"

	"golang.org/x/tools/go/ssa"
)

// ---------------------------------------------------------------------------
// Lock facts (DESIGN §3.2). Lock identity is type based: "gcpBalancer.mu",
// "multiEndpoint.RWMutex", ... Modes: 0 none, 1 read, 2 write.
// ---------------------------------------------------------------------------

type LockState map[string]int

func (s LockState) clone() LockState {
	r := LockState{}
	for k, v := range s {
		if v != 0 {
			r[k] = v
		}
	}
	return r
}

func (s LockState) String() string {
	var ks []string
	for k, v := range s {
		if v == 0 {
			continue
		}
		m := "W"
		if v == 1 {
			m = "R"
		}
		ks = append(ks, k+":"+m)
	}
	sort.Strings(ks)
	return "{" + strings.Join(ks, ",") + "}"
}

func unionLS(a, b LockState) LockState {
	r := a.clone()
	for k, v := range b {
		if v > r[k] {
			r[k] = v
		}
	}
	return r
}

func interLS(a, b LockState) LockState {
	r := LockState{}
	for k, v := range a {
		if w := b[k]; w != 0 && v != 0 {
			if w < v {
				r[k] = w
			} else {
				r[k] = v
			}
		}
	}
	return r
}

// flow state: held locks plus pending deferred lock operations.
type flowState struct {
	held     LockState
	deferred []lockOp // in registration order
}

type lockOp struct {
	lock string
	kind string // Lock RLock Unlock RUnlock
}

func (f flowState) key() string {
	var d []string
	for _, o := range f.deferred {
		d = append(d, o.kind+"("+o.lock+")")
	}
	return f.held.String() + "|" + strings.Join(d, ";")
}

func (f flowState) clone() flowState {
	return flowState{held: f.held.clone(), deferred: append([]lockOp{}, f.deferred...)}
}

type LockIssue struct {
	Kind   string // reacquire | unbalanced | inconsistent | release-unheld | blocking
	Fn     *ssa.Function
	Instr  ssa.Instruction
	Lock   string
	Detail string
	Chain  []string
}

type callSite struct {
	caller *ssa.Function
	callee *ssa.Function
	instr  ssa.Instruction
	local  LockState
	isGo   bool
}

type LockFacts struct {
	P         *Prog
	CondLock  map[string]string                   // cond field -> lock id
	Before    map[ssa.Instruction]LockState       // local lock state before each instruction (held on every way of arriving)
	BeforeMay map[ssa.Instruction]LockState       // … held on some way of arriving
	ExitHeld  map[*ssa.Function][]LockState       // local state at each return
	MayHeld   map[*ssa.Function]LockState         // union of entry contexts
	MustHeld  map[*ssa.Function]LockState         // intersection of entry contexts
	MayWhy    map[*ssa.Function]map[string]string // lock -> "caller @pos" explaining why it may be held
	Sites     []callSite
	External  map[*ssa.Function]bool // may be entered from outside the module with no lock held
	Issues    []LockIssue
	Order     map[[2]string][]string // lock-order edges a->b with witnesses
	LockOps   int
}

var lockFuncs = map[string]string{
	"sync.(*RWMutex).Lock":    "Lock",
	"sync.(*RWMutex).Unlock":  "Unlock",
	"sync.(*RWMutex).RLock":   "RLock",
	"sync.(*RWMutex).RUnlock": "RUnlock",
	"sync.(*Mutex).Lock":      "Lock",
	"sync.(*Mutex).Unlock":    "Unlock",
}

// lockOpOf recognises a call as a lock operation on an identified lock.
func (lf *LockFacts) lockOpOf(cc *ssa.CallCommon) (lockOp, bool) {
	c := calleeOf(cc)
	if c.Static == nil {
		// Locker interface call (sync.Locker.Lock) — identify through the receiver's static type
		if c.Iface != nil && (c.Iface.Name() == "Lock" || c.Iface.Name() == "Unlock") && strings.HasSuffix(ifaceMethodName(c.Iface), "Locker."+c.Iface.Name()) {
			return lockOp{lock: "iface:" + vstr(cc.Value), kind: c.Iface.Name()}, true
		}
		return lockOp{}, false
	}
	kind, ok := lockFuncs[funcFullName(c.Static)]
	if !ok || len(cc.Args) == 0 {
		return lockOp{}, false
	}
	return lockOp{lock: lockIDOfAddr(cc.Args[0]), kind: kind}, true
}

// lockIDOfAddr names the mutex whose address is v.
func lockIDOfAddr(v ssa.Value) string {
	switch x := v.(type) {
	case *ssa.FieldAddr:
		return fieldRefOfAddr(x)
	case *ssa.Global:
		return "global:" + x.Pkg.Pkg.Name() + "." + x.Name()
	case *ssa.Alloc:
		return "local:" + x.Parent().Name() + "." + allocName(x)
	}
	return "unknown:" + vstr(v)
}

func applyLockOp(st *flowState, op lockOp) (issue string) {
	cur := st.held[op.lock]
	switch op.kind {
	case "Lock":
		if cur != 0 {
			issue = "reacquire"
		}
		st.held[op.lock] = 2
	case "RLock":
		if cur != 0 {
			issue = "reacquire"
		}
		if cur < 1 {
			st.held[op.lock] = 1
		}
	case "Unlock":
		if cur != 2 {
			issue = "release-unheld"
		}
		delete(st.held, op.lock)
	case "RUnlock":
		if cur != 1 {
			issue = "release-unheld"
		}
		delete(st.held, op.lock)
	}
	return
}

func buildLockFacts(p *Prog) *LockFacts {
	lf := &LockFacts{P: p, CondLock: map[string]string{}, Before: map[ssa.Instruction]LockState{}, BeforeMay: map[ssa.Instruction]LockState{},
		ExitHeld: map[*ssa.Function][]LockState{}, MayHeld: map[*ssa.Function]LockState{}, MustHeld: map[*ssa.Function]LockState{},
		MayWhy: map[*ssa.Function]map[string]string{}, External: map[*ssa.Function]bool{}, Order: map[[2]string][]string{}}
	own := map[*ssa.Function]bool{}
	for _, f := range p.Funcs {
		own[f] = true
	}
	// cond -> lock table, derived from sync.NewCond(l) stored into a field
	for _, f := range p.Funcs {
		eachInstr(f, func(in ssa.Instruction) {
			st, ok := in.(*ssa.Store)
			if !ok {
				return
			}
			fa, ok := st.Addr.(*ssa.FieldAddr)
			if !ok {
				return
			}
			call, ok := st.Val.(*ssa.Call)
			if !ok {
				return
			}
			c := calleeOf(&call.Call)
			if c.Static == nil || funcFullName(c.Static) != "sync.NewCond" || len(call.Call.Args) != 1 {
				return
			}
			arg := stripConv(call.Call.Args[0])
			lock := ""
			if a, ok := arg.(*ssa.FieldAddr); ok {
				lock = fieldRefOfAddr(a)
			} else if pt, ok := arg.Type().(*types.Pointer); ok {
				if n, ok := pt.Elem().(*types.Named); ok {
					if stt, ok := n.Underlying().(*types.Struct); ok {
						for i := 0; i < stt.NumFields(); i++ {
							fl := stt.Field(i)
							if fl.Embedded() && (shortType(fl.Type()) == "sync.Mutex" || shortType(fl.Type()) == "sync.RWMutex") {
								lock = n.Obj().Name() + "." + fl.Name()
							}
						}
					}
				}
			}
			if lock != "" {
				lf.CondLock[fieldRefOfAddr(fa)] = lock
			}
		})
	}
	// intra-procedural flow
	for _, f := range p.Funcs {
		lf.flow(f, own)
	}
	// external entry points: exported, no static caller, or escaping as a value
	called := map[*ssa.Function]bool{}
	for _, s := range lf.Sites {
		if !s.isGo {
			called[s.callee] = true
		}
	}
	escaping := map[*ssa.Function]bool{}
	for _, f := range p.Funcs {
		eachInstr(f, func(in ssa.Instruction) {
			var ops []*ssa.Value
			ops = in.Operands(ops)
			cc := callCommon(in)
			for _, o := range ops {
				if o == nil || *o == nil {
					continue
				}
				if fn, ok := (*o).(*ssa.Function); ok && own[fn] {
					if cc != nil && cc.Value == fn {
						if _, isGo := in.(*ssa.Go); !isGo {
							continue
						}
					}
					escaping[fn] = true
				}
				if mc, ok := (*o).(*ssa.MakeClosure); ok {
					_ = mc
				}
			}
			if mc, ok := in.(*ssa.MakeClosure); ok {
				if fn, ok := mc.Fn.(*ssa.Function); ok {
					// a closure is entered with no lock unless it is only ever called in place
					calledInPlace := true
					for _, r := range *mc.Referrers() {
						if rc := callCommon(r); rc == nil || rc.Value != mc {
							calledInPlace = false
						} else if _, isCall := r.(*ssa.Call); !isCall {
							calledInPlace = false // go / defer of a closure: deferred runs at exit, go runs elsewhere
						}
					}
					if !calledInPlace {
						escaping[fn] = true
					}
				}
			}
		})
	}
	for _, f := range p.Funcs {
		if escaping[f] || !called[f] || ast.IsExported(f.Name()) || f.Name() == "init" {
			lf.External[f] = true
		}
	}
	// entry contexts: fixpoint
	for _, f := range p.Funcs {
		lf.MayHeld[f] = LockState{}
		lf.MayWhy[f] = map[string]string{}
	}
	for changed := true; changed; {
		changed = false
		for _, s := range lf.Sites {
			if s.isGo {
				continue
			}
			ctx := unionLS(lf.MayHeld[s.caller], s.local)
			for k, v := range ctx {
				if lf.MayHeld[s.callee][k] < v {
					lf.MayHeld[s.callee][k] = v
					why := fmt.Sprintf("%s calls %s at %s", fname(s.caller), fname(s.callee), p.ipos(s.instr))
					if s.local[k] == 0 {
						why = lf.MayWhy[s.caller][k] + " → " + why
					} else {
						why = fmt.Sprintf("%s (holding %s)", why, k)
					}
					lf.MayWhy[s.callee][k] = why
					changed = true
				}
			}
		}
	}
	// must-held: greatest fixpoint
	top := LockState{}
	for _, f := range p.Funcs {
		for k, v := range lf.MayHeld[f] {
			if top[k] < v {
				top[k] = v
			}
		}
	}
	for _, f := range p.Funcs {
		if lf.External[f] {
			lf.MustHeld[f] = LockState{}
		} else {
			lf.MustHeld[f] = top.clone()
		}
	}
	for changed := true; changed; {
		changed = false
		for _, s := range lf.Sites {
			if s.isGo || lf.External[s.callee] {
				continue
			}
			ctx := unionLS(lf.MustHeld[s.caller], s.local)
			n := interLS(lf.MustHeld[s.callee], ctx)
			if n.String() != lf.MustHeld[s.callee].String() {
				lf.MustHeld[s.callee] = n
				changed = true
			}
		}
	}
	// interprocedural re-acquisition + lock order
	for _, f := range p.Funcs {
		may := lf.MayHeld[f]
		eachInstr(f, func(in ssa.Instruction) {
			cc := callCommon(in)
			if cc == nil {
				return
			}
			if _, isDefer := in.(*ssa.Defer); isDefer {
				return
			}
			op, ok := lf.lockOpOf(cc)
			if !ok || (op.kind != "Lock" && op.kind != "RLock") {
				return
			}
			local := lf.Before[in]
			if may[op.lock] != 0 && local[op.lock] == 0 {
				lf.Issues = append(lf.Issues, LockIssue{Kind: "reacquire", Fn: f, Instr: in, Lock: op.lock,
					Detail: fmt.Sprintf("%s.%s() while %s may already be held on entry to %s", op.lock, op.kind, op.lock, fname(f)),
					Chain:  strings.Split(lf.MayWhy[f][op.lock], " → ")})
			}
			for held := range unionLS(may, local) {
				if held != op.lock {
					e := [2]string{held, op.lock}
					lf.Order[e] = append(lf.Order[e], fmt.Sprintf("%s at %s", fname(f), p.ipos(in)))
				}
			}
		})
	}
	return lf
}

// flow runs the forward lock-state dataflow over one function. The state of a block is a small SET of flow states
// (held locks + pending deferred lock operations), one per distinct way of arriving: paths that arrive with different
// states — `if bad { err = … } else { mu.Lock(); defer mu.Unlock(); … }; return` — are followed separately, each having to be
// balanced at the exits by itself. Before[ins] is what every arriving state holds, BeforeMay[ins] what some state holds.
func (lf *LockFacts) flow(f *ssa.Function, own map[*ssa.Function]bool) {
	if len(f.Blocks) == 0 {
		return
	}
	const maxStates = 4
	in := map[*ssa.BasicBlock][]flowState{}
	in[f.Blocks[0]] = []flowState{{held: LockState{}}}
	if f.Recover != nil {
		in[f.Recover] = []flowState{{held: LockState{}}}
	}
	work := []*ssa.BasicBlock{f.Blocks[0]}
	if f.Recover != nil {
		work = append(work, f.Recover)
	}
	reported := map[string]bool{}
	visits := map[*ssa.BasicBlock]int{}
	sites := map[string]bool{}
	addSite := func(cs callSite) {
		k := fmt.Sprintf("%p|%p|%s|%v", cs.instr, cs.callee, cs.local, cs.isGo)
		if !sites[k] {
			sites[k] = true
			lf.Sites = append(lf.Sites, cs)
		}
	}
	exits := map[string]bool{}
	opSeen := map[ssa.Instruction]bool{}
	for len(work) > 0 {
		b := work[0]
		work = work[1:]
		visits[b]++
		if visits[b] > 50 {
			lf.Issues = append(lf.Issues, LockIssue{Kind: "inconsistent", Fn: f, Instr: b.Instrs[0], Detail: "lock-state dataflow does not stabilise"})
			return
		}
		var sts []flowState
		for _, s0 := range in[b] {
			sts = append(sts, s0.clone())
		}
		for _, ins := range b.Instrs {
			// what all / some arriving states hold
			must, may := sts[0].held.clone(), sts[0].held.clone()
			for _, st := range sts[1:] {
				must, may = interLS(must, st.held), unionLS(may, st.held)
			}
			lf.Before[ins], lf.BeforeMay[ins] = must, may
			for si := range sts {
				st := &sts[si]
				before := st.held.clone()
				switch x := ins.(type) {
				case *ssa.Defer:
					if op, ok := lf.lockOpOf(&x.Call); ok {
						st.deferred = append(st.deferred, op)
					} else {
						for _, g := range lf.P.calleesOf(&x.Call) {
							// a deferred module call runs at function exit; its lock context is the state at exit,
							// approximated by the state at registration minus nothing (conservative: may-held).
							addSite(callSite{caller: f, callee: g, instr: ins, local: st.held.clone()})
						}
					}
				case *ssa.RunDefers:
					for i := len(st.deferred) - 1; i >= 0; i-- {
						op := st.deferred[i]
						if iss := applyLockOp(st, op); iss != "" {
							lf.report(reported, LockIssue{Kind: iss, Fn: f, Instr: ins, Lock: op.lock, Detail: fmt.Sprintf("deferred %s.%s() with state %s", op.lock, op.kind, before)})
						}
					}
					st.deferred = nil
				case *ssa.Return:
					if k := fmt.Sprintf("%p|%s", ins, st.held); !exits[k] {
						exits[k] = true
						lf.ExitHeld[f] = append(lf.ExitHeld[f], st.held.clone())
					}
					if len(st.held) != 0 {
						lf.report(reported, LockIssue{Kind: "unbalanced", Fn: f, Instr: ins, Detail: fmt.Sprintf("returns with %s still held", st.held)})
					}
				case *ssa.Panic:
					// explicit panic: defers run; not an ordinary exit
				case *ssa.Call, *ssa.Go:
					cc := callCommon(ins)
					_, isGo := ins.(*ssa.Go)
					if op, ok := lf.lockOpOf(cc); ok && !isGo {
						if !opSeen[ins] {
							opSeen[ins] = true
							lf.LockOps++
						}
						if iss := applyLockOp(st, op); iss != "" {
							lf.report(reported, LockIssue{Kind: iss, Fn: f, Instr: ins, Lock: op.lock, Detail: fmt.Sprintf("%s.%s() with local state %s", op.lock, op.kind, before)})
						}
						continue
					}
					c := calleeOf(cc)
					for _, g := range lf.P.calleesOf(cc) {
						addSite(callSite{caller: f, callee: g, instr: ins, local: st.held.clone(), isGo: isGo})
					}
					if c.Static != nil && funcFullName(c.Static) == "sync.(*Cond).Wait" && len(cc.Args) > 0 {
						// Wait releases and re-acquires cond.L: net effect none, but it must be held
						if fld, _, ok := loadedField(cc.Args[0]); ok {
							if l := lf.CondLock[fld]; l != "" && st.held[l] != 2 {
								lf.report(reported, LockIssue{Kind: "release-unheld", Fn: f, Instr: ins, Lock: l, Detail: "Cond.Wait without holding its lock " + l})
							}
						}
					}
				}
			}
		}
		for _, s := range b.Succs {
			prev, seen := in[s]
			grew := !seen
			for _, st := range sts {
				dup := false
				for _, q := range prev {
					if q.key() == st.key() {
						dup = true
					}
				}
				if dup {
					continue
				}
				if len(prev) >= maxStates {
					lf.report(reported, LockIssue{Kind: "inconsistent", Fn: f, Instr: s.Instrs[0],
						Detail: fmt.Sprintf("paths join with more than %d different lock states (%s vs %s)", maxStates, prev[0].key(), st.key())})
					continue
				}
				prev = append(prev, st.clone())
				grew = true
			}
			if grew {
				in[s] = prev
				work = append(work, s)
			}
		}
	}
}

func (lf *LockFacts) report(seen map[string]bool, is LockIssue) {
	k := is.Kind + "|" + is.Lock + "|" + lf.P.ipos(is.Instr) + "|" + is.Detail
	if seen[k] {
		return
	}
	seen[k] = true
	lf.Issues = append(lf.Issues, is)
}

// HeldAt is the set of locks certainly held before an instruction: local state ∪ must-held entry context.
func (lf *LockFacts) HeldAt(in ssa.Instruction) LockState {
	return unionLS(lf.MustHeld[in.Parent()], lf.Before[in])
}

// MayHeldAt is the set of locks possibly held before an instruction.
func (lf *LockFacts) MayHeldAt(in ssa.Instruction) LockState {
	return unionLS(lf.MayHeld[in.Parent()], lf.BeforeMay[in])
}

// orderCycle finds a cycle in the lock-order graph.
func (lf *LockFacts) orderCycle() []string {
	adj := map[string][]string{}
	for e := range lf.Order {
		adj[e[0]] = append(adj[e[0]], e[1])
	}
	color := map[string]int{}
	var stack []string
	var cyc []string
	var dfs func(n string) bool
	dfs = func(n string) bool {
		color[n] = 1
		stack = append(stack, n)
		for _, m := range adj[n] {
			if color[m] == 1 {
				for i, s := range stack {
					if s == m {
						cyc = append(append([]string{}, stack[i:]...), m)
					}
				}
				return true
			}
			if color[m] == 0 && dfs(m) {
				return true
			}
		}
		stack = stack[:len(stack)-1]
		color[n] = 2
		return false
	}
	var nodes []string
	for n := range adj {
		nodes = append(nodes, n)
	}
	sort.Strings(nodes)
	for _, n := range nodes {
		if color[n] == 0 && dfs(n) {
			return cyc
		}
	}
	return nil
}

// HeldThroughout: the lock is held in write mode at `from`, at `to`, and before every instruction that can lie between
// them — `from` and `to` are in one critical section (a release in between, on any way, is a gap in which another
// goroutine can invalidate what `from` read).
func (lf *LockFacts) HeldThroughout(from, to ssa.Instruction, lock string) bool {
	if from == nil || to == nil || from.Parent() != to.Parent() || from.Parent() == nil {
		return false
	}
	if lf.HeldAt(from)[lock] != 2 || lf.HeldAt(to)[lock] != 2 || !mayPrecede(from, to) {
		return false
	}
	for _, b := range from.Parent().Blocks {
		for _, x := range b.Instrs {
			if x == from || x == to {
				continue
			}
			if mayPrecede(from, x) && mayPrecede(x, to) && lf.HeldAt(x)[lock] != 2 {
				return false
			}
		}
	}
	return true
}
