package main

import (
	"go/constant"
	"go/token"
	"go/types"
	"sort"
	"strings"

	"golang.org/x/tools/go/ssa"
)

// ---------- atom recogniser combinators ----------

type vpred func(v ssa.Value) bool

type atomDef struct {
	name  string
	match func(v ssa.Value) (ok bool, neg bool)
}

func recOf(defs ...atomDef) AtomRecogniser {
	return func(v ssa.Value) (string, bool) {
		for _, d := range defs {
			if ok, neg := d.match(v); ok {
				return d.name, neg
			}
		}
		return "", false
	}
}

func atomNames(defs ...atomDef) []string {
	var out []string
	for _, d := range defs {
		out = append(out, d.name)
	}
	return out
}

// eqAtom: v is  X == Y  or  X != Y  with X, Y satisfying the predicates (either order).
func eqAtom(name string, x, y vpred) atomDef {
	x, y = viaCell(x), viaCell(y)
	return atomDef{name, func(v ssa.Value) (bool, bool) {
		bo, ok := v.(*ssa.BinOp)
		if !ok || (bo.Op != token.EQL && bo.Op != token.NEQ) {
			return false, false
		}
		if (x(bo.X) && y(bo.Y)) || (x(bo.Y) && y(bo.X)) {
			return true, bo.Op == token.NEQ
		}
		return false, false
	}}
}

// ltAtom: v is X < Y (or an equivalent form); name denotes "X < Y".
func ltAtom(name string, x, y vpred) atomDef {
	x, y = viaCell(x), viaCell(y)
	return atomDef{name, func(v ssa.Value) (bool, bool) {
		bo, ok := v.(*ssa.BinOp)
		if !ok {
			return false, false
		}
		switch bo.Op {
		case token.LSS:
			if x(bo.X) && y(bo.Y) {
				return true, false
			}
		case token.GEQ:
			if x(bo.X) && y(bo.Y) {
				return true, true
			}
		case token.GTR:
			if x(bo.Y) && y(bo.X) {
				return true, false
			}
		case token.LEQ:
			if x(bo.Y) && y(bo.X) {
				return true, true
			}
		case token.NEQ, token.EQL:
			// a length is never negative: 0 != len(s) is 0 < len(s), in either operand order
			for _, pr := range [][2]ssa.Value{{bo.X, bo.Y}, {bo.Y, bo.X}} {
				if z, isC := constInt(pr[0]); isC && z == 0 && x(pr[0]) && y(pr[1]) && isLenOrCap(pr[1]) {
					return true, bo.Op == token.EQL
				}
			}
		}
		return false, false
	}}
}

// isLenOrCap: v is len(…) or cap(…) (possibly converted, possibly read back from a single-store local).
func isLenOrCap(v ssa.Value) bool {
	call, ok := cellValue(v).(*ssa.Call)
	if !ok {
		return false
	}
	b := calleeOf(&call.Call).Builtin
	return b == "len" || b == "cap"
}

// boolAtom: v itself (a bool-typed value) satisfies the predicate.
func boolAtom(name string, x vpred) atomDef {
	x = viaCell(x)
	return atomDef{name, func(v ssa.Value) (bool, bool) { return x(v), false }}
}

// viaCell: the predicate holds for v, or v is a read of a local variable cell that holds exactly one value there (a named
// result or address-taken local with a single reaching store) and the predicate holds for that value.
func viaCell(p vpred) vpred {
	return func(v ssa.Value) bool {
		if p(v) {
			return true
		}
		cv := cellValue(v)
		return cv != stripConv(v) && p(cv)
	}
}

func anyV(ssa.Value) bool { return true }

func isNil(v ssa.Value) bool { return isNilConst(v) }

func isVal(target ssa.Value) vpred {
	return func(v ssa.Value) bool { return cellValue(v) == cellValue(target) }
}

// cellValue looks through conversions and through loads of a local variable cell that is written only by its own
// function and has exactly one reaching store at the load (named results with a defer, address-taken locals): such a
// load IS the stored value.
func cellValue(v ssa.Value) ssa.Value {
	for i := 0; i < 8; i++ {
		v = stripConv(v)
		u, ok := v.(*ssa.UnOp)
		if !ok || u.Op != token.MUL {
			return v
		}
		a, ok := u.X.(*ssa.Alloc)
		if !ok || !cellLocalOnly(a, u.Parent()) {
			return v
		}
		sts, zero := reachingStores(a, u)
		if zero && len(sts) == 0 {
			// no store reaches this read: the variable still holds its zero value (a named error result read at the final
			// `return err` of a function whose only assignment to it is followed by its own return)
			switch a.Type().(*types.Pointer).Elem().Underlying().(type) {
			case *types.Pointer, *types.Interface, *types.Slice, *types.Map, *types.Chan, *types.Signature:
				return ssa.NewConst(nil, a.Type().(*types.Pointer).Elem())
			}
			return v
		}
		if zero || len(sts) != 1 {
			return v
		}
		v = sts[0].Val
	}
	return v
}

func loadOf(field string) vpred { return func(v ssa.Value) bool { return isLoadOf(v, field) } }

// constIs: the value is the integer constant c.
func constIs(c int64) vpred {
	return func(v ssa.Value) bool {
		x, ok := constInt(v)
		return ok && x == c
	}
}

// callTo: v is a call whose callee name (Callee.Name()) has the given suffix.
func callTo(suffix string) vpred {
	return func(v ssa.Value) bool {
		call, ok := stripConv(v).(*ssa.Call)
		return ok && strings.HasSuffix(calleeOf(&call.Call).Name(), suffix)
	}
}

// extractOf: v is Extract #i of a value satisfying x.
func extractOf(i int, x vpred) vpred {
	return func(v ssa.Value) bool {
		e, ok := stripConv(v).(*ssa.Extract)
		return ok && e.Index == i && x(e.Tuple)
	}
}

// lookupIn: v is (the value part of) a lookup in the map stored in the given field.
func lookupIn(field string) vpred {
	return func(v ssa.Value) bool {
		v = stripConv(v)
		if e, ok := v.(*ssa.Extract); ok {
			v = e.Tuple
		}
		l, ok := v.(*ssa.Lookup)
		return ok && isLoadOf(l.X, field)
	}
}

// lookupOK: v is the comma-ok flag of a lookup in the map stored in the given field.
func lookupOK(field string) vpred {
	return func(v ssa.Value) bool {
		e, ok := stripConv(v).(*ssa.Extract)
		if !ok || e.Index != 1 {
			return false
		}
		l, ok := e.Tuple.(*ssa.Lookup)
		return ok && l.CommaOk && isLoadOf(l.X, field)
	}
}

// ---------- package-level constants ----------

func (p *Prog) constValue(pkgPath, name string) (int64, bool) {
	var obj types.Object
	var walk func(tp *types.Package, depth int)
	seen := map[*types.Package]bool{}
	walk = func(tp *types.Package, depth int) {
		if obj != nil || seen[tp] || depth > 4 {
			return
		}
		seen[tp] = true
		if tp.Path() == pkgPath {
			obj = tp.Scope().Lookup(name)
			return
		}
		for _, imp := range tp.Imports() {
			walk(imp, depth+1)
		}
	}
	for _, pk := range p.Pkgs {
		if pk.Types != nil {
			walk(pk.Types, 0)
		}
	}
	c, ok := obj.(*types.Const)
	if !ok {
		return 0, false
	}
	if c.Val().Kind() != constant.Int {
		return 0, false
	}
	return constant.Int64Val(c.Val())
}

// ---------- value provenance (DESIGN §3.4) ----------

type Origin struct {
	Kind string // const param call extract fieldload lookup index alloc global next closure other
	Val  ssa.Value
}

func (o Origin) String() string { return o.Kind + ":" + vstr(o.Val) }

// origins follows a value backwards through phis, conversions, local cells and closure captures to
// the set of values it may originate from.
func origins(v ssa.Value) []Origin {
	var out []Origin
	seen := map[ssa.Value]bool{}
	var walk func(v ssa.Value)
	walk = func(v ssa.Value) {
		if v == nil || seen[v] {
			return
		}
		seen[v] = true
		switch x := v.(type) {
		case *ssa.Phi:
			for _, e := range x.Edges {
				walk(e)
			}
		case *ssa.ChangeType:
			walk(x.X)
		case *ssa.MakeInterface:
			walk(x.X)
		case *ssa.ChangeInterface:
			walk(x.X)
		case *ssa.Convert:
			walk(x.X)
		case *ssa.UnOp:
			if x.Op == token.MUL {
				switch a := x.X.(type) {
				case *ssa.Alloc:
					sts, zero := reachingStores(a, x)
					if zero {
						out = append(out, Origin{"zero", x})
					}
					for _, st := range sts {
						walk(st.Val)
					}
					return
				case *ssa.FreeVar:
					if b := freeVarBinding(a); b != nil {
						if al, ok := b.(*ssa.Alloc); ok {
							for _, st := range storesTo(al) {
								walk(st.Val)
							}
							return
						}
					}
					out = append(out, Origin{"other", x})
					return
				case *ssa.FieldAddr:
					// a field of a LOCAL struct variable that only groups locals (`var aff struct{cmd …; key string}`): the
					// values stored into that field anywhere (flow-insensitively), or its zero value
					if sts, ok := localStructFieldStores(a); ok {
						out = append(out, Origin{"zero", x})
						for _, st := range sts {
							walk(st.Val)
						}
						return
					}
					out = append(out, Origin{"fieldload", x})
					return
				case *ssa.IndexAddr:
					out = append(out, Origin{"index", x})
					return
				case *ssa.Global:
					out = append(out, Origin{"global", x})
					return
				}
			}
			out = append(out, Origin{"other", x})
		case *ssa.Const:
			out = append(out, Origin{"const", x})
		case *ssa.Parameter:
			out = append(out, Origin{"param", x})
		case *ssa.FreeVar:
			if b := freeVarBinding(x); b != nil {
				walk(b)
			} else {
				out = append(out, Origin{"other", x})
			}
		case *ssa.Call:
			out = append(out, Origin{"call", x})
		case *ssa.Extract:
			switch x.Tuple.(type) {
			case *ssa.Next:
				out = append(out, Origin{"next", x})
			case *ssa.Lookup:
				out = append(out, Origin{"lookup", x})
			case *ssa.TypeAssert:
				out = append(out, Origin{"typeassert", x})
			default:
				out = append(out, Origin{"extract", x})
			}
		case *ssa.Lookup:
			out = append(out, Origin{"lookup", x})
		case *ssa.Index:
			out = append(out, Origin{"index", x})
		case *ssa.Field:
			out = append(out, Origin{"field", x})
		case *ssa.Alloc:
			out = append(out, Origin{"alloc", x})
		case *ssa.Global:
			out = append(out, Origin{"global", x})
		case *ssa.MakeClosure:
			out = append(out, Origin{"closure", x})
		case *ssa.Function:
			out = append(out, Origin{"func", x})
		case *ssa.TypeAssert:
			out = append(out, Origin{"typeassert", x})
		case *ssa.MakeMap, *ssa.MakeSlice, *ssa.MakeChan:
			out = append(out, Origin{"make", x})
		case *ssa.Slice:
			out = append(out, Origin{"slice", x})
		case *ssa.BinOp:
			out = append(out, Origin{"binop", x})
		default:
			out = append(out, Origin{"other", x})
		}
	}
	walk(v)
	return out
}

func originStrings(os []Origin) string {
	var s []string
	for _, o := range os {
		s = append(s, o.String())
	}
	sort.Strings(s)
	return strings.Join(s, " | ")
}

// allOrigins: every origin satisfies one of the predicates.
func allOrigins(v ssa.Value, preds ...func(o Origin) bool) (bool, string) {
	os := origins(v)
	if len(os) == 0 {
		return false, "no origin"
	}
	for _, o := range os {
		ok := false
		for _, p := range preds {
			if p(o) {
				ok = true
			}
		}
		if !ok {
			return false, o.String()
		}
	}
	return true, originStrings(os)
}

func isConstNilOrigin(o Origin) bool { return o.Kind == "const" && isNilConst(o.Val) }

// ---------- call-site and writer queries ----------

type Site struct {
	Fn    *ssa.Function
	Instr ssa.Instruction
	Call  *ssa.CallCommon
}

// callSites finds every call (call/go/defer) in the module whose callee name satisfies pred.
func (p *Prog) callSites(pred func(name string) bool) []Site {
	var out []Site
	for _, f := range p.Funcs {
		eachInstr(f, func(in ssa.Instruction) {
			if cc := callCommon(in); cc != nil && pred(calleeOf(cc).Name()) {
				out = append(out, Site{f, in, cc})
			}
		})
	}
	return out
}

// funcValueRefs finds uses of a module function as a value (method value, stored, passed) — "escaping references".
func (p *Prog) funcValueRefs(target *ssa.Function) []Site {
	var out []Site
	for _, f := range p.Funcs {
		eachInstr(f, func(in ssa.Instruction) {
			var ops []*ssa.Value
			cc := callCommon(in)
			for _, o := range in.Operands(ops) {
				if o == nil || *o == nil {
					continue
				}
				if g, ok := (*o).(*ssa.Function); ok && g == target {
					if cc != nil && cc.Value == g {
						continue
					}
					out = append(out, Site{f, in, cc})
				}
			}
		})
	}
	return out
}

// AccessIndex: all field accesses of the module grouped by field.
type AccessIndex struct {
	ByField map[string][]Access
	ByFn    map[*ssa.Function][]Access
}

func buildAccessIndex(p *Prog) *AccessIndex {
	ai := &AccessIndex{ByField: map[string][]Access{}, ByFn: map[*ssa.Function][]Access{}}
	for _, f := range p.Funcs {
		as := accessesIn(f)
		ai.ByFn[f] = as
		for _, a := range as {
			ai.ByField[a.Field] = append(ai.ByField[a.Field], a)
		}
	}
	return ai
}

func (a Access) isWrite() bool {
	return a.Mode == "W" || (a.Mode == "A" && strings.HasSuffix(a.What, ":W")) || a.Mode == "X"
}

// reachingStores: the stores to a local cell that may be the last one executed before the load `at`
// (reaching definitions); zero reports that the function entry may reach the load with no store.
// Stores made through a closure that captured the cell are always included (they may run at any time).
func reachingStores(cell *ssa.Alloc, at ssa.Instruction) (out []*ssa.Store, zero bool) {
	seenSt := map[*ssa.Store]bool{}
	add := func(st *ssa.Store) {
		if !seenSt[st] {
			seenSt[st] = true
			out = append(out, st)
		}
	}
	for _, st := range storesTo(cell) {
		if st.Parent() != at.Parent() {
			add(st)
		}
	}
	if cell.Parent() != at.Parent() {
		// load in a closure of a cell owned by the parent: every parent store may reach
		for _, st := range storesTo(cell) {
			add(st)
		}
		return out, len(out) == 0
	}
	visited := map[*ssa.BasicBlock]bool{}
	var back func(b *ssa.BasicBlock, from int)
	back = func(b *ssa.BasicBlock, from int) {
		for i := from; i >= 0; i-- {
			if st, ok := b.Instrs[i].(*ssa.Store); ok && st.Addr == cell {
				add(st)
				return
			}
			if b.Instrs[i] == ssa.Instruction(cell) {
				zero = true
				return
			}
		}
		if len(b.Preds) == 0 {
			zero = true
			return
		}
		for _, pr := range b.Preds {
			if visited[pr] {
				continue
			}
			visited[pr] = true
			back(pr, len(pr.Instrs)-1)
		}
	}
	back(at.Block(), instrIndex(at)-1)
	return out, zero
}

// lenZeroAtom: name denotes "len(x) == 0" for a length expression satisfying lenPred; every comparison of
// that length with a constant that is equivalent to emptiness (== 0, <= 0, < 1, 0 >= len, 1 > len) or to its
// negation (!= 0, > 0, >= 1, 0 < len, 1 <= len) is recognised (lengths are non-negative).
func lenZeroAtom(name string, lenPred vpred) atomDef {
	lenPred = viaCell(lenPred)
	return atomDef{name, func(v ssa.Value) (bool, bool) {
		bo, ok := v.(*ssa.BinOp)
		if !ok {
			return false, false
		}
		x, y, op := bo.X, bo.Y, bo.Op
		if !lenPred(x) {
			if !lenPred(y) {
				return false, false
			}
			// normalise to  len OP const
			x, y = y, x
			switch op {
			case token.LSS:
				op = token.GTR
			case token.LEQ:
				op = token.GEQ
			case token.GTR:
				op = token.LSS
			case token.GEQ:
				op = token.LEQ
			}
		}
		k, isC := constInt(y)
		if !isC {
			return false, false
		}
		switch {
		case op == token.EQL && k == 0, op == token.LEQ && k == 0, op == token.LSS && k == 1:
			return true, false
		case op == token.NEQ && k == 0, op == token.GTR && k == 0, op == token.GEQ && k == 1:
			return true, true
		}
		return false, false
	}}
}

// localStructFieldStores: fa addresses a field of a struct variable allocated by this function (or captured from the
// enclosing one) whose address is used for nothing but field accesses and closure captures; returns every store to
// that field, in the function and the closures that capture the variable.
func localStructFieldStores(fa *ssa.FieldAddr) ([]*ssa.Store, bool) {
	var root *ssa.Alloc
	switch x := fa.X.(type) {
	case *ssa.Alloc:
		root = x
	case *ssa.FreeVar:
		if b := freeVarBinding(x); b != nil {
			root, _ = b.(*ssa.Alloc)
		}
	}
	if root == nil {
		return nil, false
	}
	if _, isStruct := root.Type().(*types.Pointer).Elem().Underlying().(*types.Struct); !isStruct {
		return nil, false
	}
	var out []*ssa.Store
	ok := true
	var visit func(base ssa.Value, depth int)
	visit = func(base ssa.Value, depth int) {
		refs := base.Referrers()
		if refs == nil || depth > 3 {
			ok = false
			return
		}
		for _, r := range *refs {
			switch y := r.(type) {
			case *ssa.FieldAddr:
				if y.X != base {
					ok = false
					continue
				}
				frefs := y.Referrers()
				if frefs == nil {
					continue
				}
				for _, fr := range *frefs {
					switch z := fr.(type) {
					case *ssa.Store:
						if z.Addr != ssa.Value(y) {
							ok = false // the field's address is stored somewhere
						} else if y.Field == fa.Field {
							out = append(out, z)
						}
					case *ssa.UnOp:
					case *ssa.DebugRef:
					default:
						ok = false // the field's address escapes (call argument, …)
					}
				}
			case *ssa.MakeClosure:
				for i, b := range y.Bindings {
					if b == base {
						visit(y.Fn.(*ssa.Function).FreeVars[i], depth+1)
					}
				}
			case *ssa.DebugRef:
			default:
				ok = false // the struct itself is copied, passed on or overwritten as a whole
			}
		}
	}
	visit(root, 0)
	return out, ok
}
