package main

import (
	"fmt"
	"go/token"
	"strings"

	"golang.org/x/tools/go/ssa"
)

func init() { register("C11", checkC11) }

// reflect kind preconditions (frozen table): method -> kinds for which the call does not panic.
var reflectKindPre = map[string][]string{
	"reflect.(Value).Elem":        {"Pointer", "Interface"},
	"reflect.(Value).FieldByName": {"Struct"},
	"reflect.(Value).Field":       {"Struct"},
	"reflect.(Value).NumField":    {"Struct"},
	"reflect.(Value).Len":         {"Slice", "Array", "String", "Map", "Chan"},
	"reflect.(Value).Index":       {"Slice", "Array", "String"},
	"reflect.(Value).MapIndex":    {"Map"},
	"reflect.(Value).MapKeys":     {"Map"},
	"reflect.(Value).IsNil":       {"Pointer", "Interface", "Slice", "Map", "Chan", "Func", "UnsafePointer"},
	"reflect.(Value).Int":         {"Int", "Int8", "Int16", "Int32", "Int64"},
	"reflect.(Value).Bool":        {"Bool"},
}

// total reflect.Value methods used by the traversal (no precondition).
var reflectTotal = map[string]bool{"reflect.(Value).Kind": true, "reflect.(Value).String": true, "reflect.(Value).IsValid": true, "reflect.ValueOf": true}

// hasRecoverBarrier: fn defers a closure (or, directly, a named function given the address of fn's error result) that calls
// recover() itself and, when it recovered, assigns a non-nil error to fn's error result.
func hasRecoverBarrier(fn *ssa.Function) (bool, string) {
	ok := false
	eachInstr(fn, func(in ssa.Instruction) {
		d, isD := in.(*ssa.Defer)
		if !isD || in.Block() != fn.Blocks[0] {
			return
		}
		var cl *ssa.Function
		// the cell the deferred function writes the error through: a captured variable (closure) or a *error parameter
		// bound, at the defer, to fn's own error result (a named function deferred directly)
		isErrCell := func(v ssa.Value) bool {
			fv, isFV := v.(*ssa.FreeVar)
			return isFV && fv.Type().String() == "*error"
		}
		if mc, isMC := d.Call.Value.(*ssa.MakeClosure); isMC {
			cl = mc.Fn.(*ssa.Function)
		} else if g := d.Call.StaticCallee(); g != nil && len(g.Blocks) > 0 && g.Pkg == fn.Pkg && len(g.FreeVars) == 0 {
			cl = g
			errParam := -1
			for i, a := range d.Call.Args {
				al, isAl := a.(*ssa.Alloc)
				if !isAl || al.Type().String() != "*error" {
					continue
				}
				// the cell is fn's error result: every return yields its content as the last result
				isResult := true
				for _, b := range fn.Blocks {
					for _, ri := range b.Instrs {
						if r, isR := ri.(*ssa.Return); isR {
							last := len(r.Results) - 1
							u, isU := r.Results[last].(*ssa.UnOp)
							if last < 0 || !isU || u.Op != token.MUL || u.X != ssa.Value(al) {
								isResult = false
							}
						}
					}
				}
				if isResult {
					errParam = i
				}
			}
			if errParam < 0 {
				return
			}
			prm := g.Params[errParam]
			isErrCell = func(v ssa.Value) bool { return v == ssa.Value(prm) }
		} else {
			return
		}
		var rec *ssa.Call
		eachInstr(cl, func(ci ssa.Instruction) {
			if call, isC := ci.(*ssa.Call); isC && calleeOf(&call.Call).Builtin == "recover" {
				rec = call
			}
		})
		if rec == nil {
			return
		}
		// the error result cell of fn is assigned a non-nil value under recovered != nil
		cs := newCondSpace(cl, recOf(eqAtom("noPanic", isVal(rec), isNil)), "noPanic")
		eachInstr(cl, func(ci ssa.Instruction) {
			st, isS := ci.(*ssa.Store)
			if !isS {
				return
			}
			if !isErrCell(st.Addr) {
				return
			}
			if nilErr, _ := allOrigins(st.Val, isConstNilOrigin); nilErr {
				return
			}
			if imp, _ := cs.Implies(cs.Reach(st), cs.Not(cs.Atom("noPanic"))); imp {
				// every path with a recovered panic reaches this store
				if full, _ := cs.Implies(cs.Not(cs.Atom("noPanic")), or(cs.Reach(st), cs.Not(cs.Reach(rec)))); full {
					ok = true
				}
			}
		})
	})
	if ok {
		return true, "deferred at entry: recover() != nil ⇒ the error result is set to a non-nil error"
	}
	return false, ""
}

// C11 — Affinity-key extraction is total and follows the dotted field path.
func checkC11(c *Ctx, w *World) {
	c.Explanation = "Typestate analysis of the reflective traversal: every kind-sensitive reflect.Value method is dominated by a Kind() test of the same value that " +
		"admits only kinds for which the method is defined (frozen precondition table), preconditions that no Kind test can give (promotion through nil embedded " +
		"pointers) are covered by a recover barrier at the entry function that turns a reflection panic into an error; successful results come only from String() of " +
		"a String-kind value at the end of the path or from the ordered accumulation of the recursive results; wrong kinds yield non-nil errors; the slice fan-out " +
		"visits indices 0..Len-1 in order, recursing with start+1, appending in order and leaving early only with the recursive error; the path is the locator split on '.', " +
		"the traversal starts at reflect.ValueOf(message) with index 0; recursion depth is bounded by the path length."
	c.RuleText = "one obligation per reflect call / return / loop / recursive call; non-trivial = needed a kind-typestate reaching condition or a provenance argument"
	c.Assumptions = []string{
		"equality with an independent reference traversal for every value needs execution and is not decided; strings.Title semantics are trusted",
		"reflect's documented kind preconditions (table) are complete for the methods used",
	}
	c.Trusted = []string{"go/types", "golang.org/x/tools/go/ssa v0.29.0", "reflect kind-precondition table"}
	pl := newPoolLite(c, w)
	if pl == nil {
		return
	}
	p := pl.p
	kfm, entry := c.need(p, "grpcgcp", "keysFromMessage"), c.need(p, "grpcgcp", "getAffinityKeysFromMessage")
	if kfm == nil || entry == nil {
		return
	}
	kinds := map[string]int64{}
	for _, k := range []string{"Pointer", "Interface", "Struct", "Slice", "Array", "String", "Map", "Chan", "Func", "UnsafePointer", "Int", "Int8", "Int16", "Int32", "Int64", "Bool"} {
		if v, ok := p.constValue("reflect", k); ok {
			kinds[k] = v
		}
	}
	if len(kinds) < 10 {
		c.fail("engine.anchor", "reflect kinds", "-", "reflect.Kind constants not resolved")
		return
	}
	kindName := map[int64]string{}
	for k, v := range kinds {
		kindName[v] = k
	}
	// dynamic atoms: "kind(<value>)==<Kind>"
	rec := func(v ssa.Value) (string, bool) {
		bo, ok := v.(*ssa.BinOp)
		if !ok || (bo.Op != token.EQL && bo.Op != token.NEQ) {
			return "", false
		}
		x, y := bo.X, bo.Y
		if _, isC := x.(*ssa.Const); isC {
			x, y = y, x
		}
		call, isCall := staticCallNamed(x, "reflect.(Value).Kind")
		k, isK := constInt(y)
		if !isCall || !isK {
			return "", false
		}
		return fmt.Sprintf("kind(%s)==%s", call.Call.Args[0].Name(), kindName[k]), bo.Op == token.NEQ
	}
	atEnd := atomDef{"atEnd", func(v ssa.Value) (bool, bool) {
		bo, ok := v.(*ssa.BinOp)
		if !ok || (bo.Op != token.EQL && bo.Op != token.NEQ) {
			return false, false
		}
		isLen := func(x ssa.Value) bool {
			call, ok := x.(*ssa.Call)
			return ok && calleeOf(&call.Call).Builtin == "len" && call.Call.Args[0] == ssa.Value(kfm.Params[1])
		}
		if (isLen(bo.X) && bo.Y == ssa.Value(kfm.Params[2])) || (isLen(bo.Y) && bo.X == ssa.Value(kfm.Params[2])) {
			return true, bo.Op == token.NEQ
		}
		return false, false
	}}
	full := func(v ssa.Value) (string, bool) {
		if ok, neg := atEnd.match(v); ok {
			return "atEnd", neg
		}
		return rec(v)
	}
	cs := newCondSpace(kfm, full, "atEnd")
	if cs.err != "" {
		c.undecided("C11.kinds", fname(kfm), p.pos(kfm.Pos()), cs.err)
		return
	}
	// kinds of one value are mutually exclusive
	byVal := map[string][]string{}
	for _, k := range cs.Vars {
		if strings.HasPrefix(k, "@kind(") {
			n := strings.TrimPrefix(k, "@")
			v := n[len("kind("):strings.Index(n, ")")]
			byVal[v] = append(byVal[v], n)
		}
	}
	for _, ns := range byVal {
		cs.ExclusiveAtoms(ns...)
	}
	kindIn := func(v ssa.Value, allowed []string) Bits {
		r := cs.False()
		for _, k := range allowed {
			if i, ok := cs.idx["@"+fmt.Sprintf("kind(%s)==%s", v.Name(), k)]; ok {
				r = or(r, cs.varBits(i))
			}
		}
		return r
	}
	barrier, barrierWhy := hasRecoverBarrier(entry)

	// ---- C11.kinds
	nk := 0
	for _, fn := range []*ssa.Function{kfm, entry} {
		ord := map[string]int{}
		eachInstr(fn, func(in ssa.Instruction) {
			call, ok := in.(*ssa.Call)
			if !ok {
				return
			}
			name := calleeOf(&call.Call).Name()
			if !strings.HasPrefix(name, "reflect.") {
				return
			}
			ord[name]++
			construct := fmt.Sprintf("%s: %s#%d", fname(fn), strings.TrimPrefix(name, "reflect."), ord[name])
			if reflectTotal[name] {
				c.okTrivial("C11.kinds", construct, p.ipos(call), "total reflect operation")
				return
			}
			nk++
			allowed, known := reflectKindPre[name]
			if !known {
				c.undecided("C11.kinds", construct, p.ipos(call), "reflect method without an entry in the kind-precondition table")
				return
			}
			recv := call.Call.Args[0]
			imp, wit := cs.Implies(cs.Reach(call), kindIn(recv, allowed))
			if fn != kfm {
				imp = false
			}
			extra := ""
			if name == "reflect.(Value).Index" {
				// index bounded by Len() of the same value: i is a counted-up loop variable tested against Len(recv)
				bounded := false
				for _, l := range loopsOf(kfm) {
					if !l.Blocks[call.Block()] {
						continue
					}
					if iff, ok := l.Header.Instrs[len(l.Header.Instrs)-1].(*ssa.If); ok {
						if bo, ok := iff.Cond.(*ssa.BinOp); ok && bo.Op == token.LSS && bo.X == call.Call.Args[1] {
							if lc, ok := staticCallNamed(bo.Y, "reflect.(Value).Len"); ok && lc.Call.Args[0] == recv {
								if ph, step := l.counterStep(bo.X); ph != nil && step > 0 {
									lo := false
									for ei, e := range ph.Edges {
										if !l.Blocks[l.Header.Preds[ei]] {
											if v, isC := constInt(e); isC && v >= 0 {
												lo = true
											}
										}
									}
									bounded = lo
								}
							}
						}
					}
				}
				if !bounded {
					imp = false
					extra = "; index is not a loop counter in [0, Len())"
				}
			}
			switch {
			case imp && name == "reflect.(Value).FieldByName" && !barrier:
				c.fail("C11.kinds", construct, p.ipos(call), "kind is Struct, but FieldByName also panics when the field is promoted through a nil embedded pointer — no Kind test excludes that and no recover barrier converts it into an error")
			case imp:
				d := "dominated by a Kind() test of the same value admitting only {" + strings.Join(allowed, ",") + "}"
				if name == "reflect.(Value).FieldByName" {
					d += "; promotion through a nil embedded pointer is caught by the recover barrier of " + fname(entry) + " (" + barrierWhy + ")"
				}
				c.ok("C11.kinds", construct, p.ipos(call), d)
			default:
				c.fail("C11.kinds", construct, p.ipos(call), "reflect method reachable for a value whose kind is not known to be in {"+strings.Join(allowed, ",")+"}"+extra+": "+wit)
			}
		})
	}
	c.floor("C11.kinds", nk, 4)
	c.check(barrier, "C11.kinds", "recover barrier in "+fname(entry), p.pos(entry.Pos()), barrierWhy, "no deferred recover converts reflection panics of the traversal into an extraction error")

	// ---- C11.errors
	strKind := func(v ssa.Value) Bits { return kindIn(v, []string{"String"}) }
	structKind := func(v ssa.Value) Bits { return kindIn(v, []string{"Struct"}) }
	var selfCalls []*ssa.Call
	eachInstr(kfm, func(in ssa.Instruction) {
		if call, ok := in.(*ssa.Call); ok && isCallTo(call, kfm, p) {
			selfCalls = append(selfCalls, call)
		}
	})
	// the traversal's current value: the parameter after the pointer/interface indirection (a merge of val and val.Elem())
	// whose kind the function tests
	var curVals []ssa.Value
	eachInstr(kfm, func(in ssa.Instruction) {
		call, ok := staticCallNamed(valueOf(in), "reflect.(Value).Kind")
		if !ok {
			return
		}
		v := call.Call.Args[0]
		for _, have := range curVals {
			if have == v {
				return
			}
		}
		sawParam, sawElem := false, false
		for _, o := range origins(v) {
			if o.Val == ssa.Value(kfm.Params[0]) {
				sawParam = true
			} else if e, isE := staticCallNamed(o.Val, "reflect.(Value).Elem"); isE && e.Call.Args[0] == ssa.Value(kfm.Params[0]) {
				sawElem = true
			} else {
				return
			}
		}
		if sawParam && sawElem {
			curVals = append(curVals, v)
		}
	})
	for i, vr := range cs.VirtualReturns() {
		// (merged single-exit code is split per incoming edge: each virtual return has concrete result values)
		r := struct {
			Results []ssa.Value
			*ssa.Return
		}{vr.Vals, vr.Ret}
		vrCond := vr.Cond
		construct := fmt.Sprintf("keysFromMessage return#%d", i+1)
		errNil, _ := allOrigins(r.Results[1], isConstNilOrigin)
		resNil, _ := allOrigins(r.Results[0], isConstNilOrigin)
		switch {
		case errNil:
			// success: a one-element literal holding String() of a String-kind value at the end of the path, or the accumulator
			if sl, ok := r.Results[0].(*ssa.Slice); ok {
				good := false
				if al, ok := sl.X.(*ssa.Alloc); ok {
					for _, ref := range *al.Referrers() {
						if ia, ok := ref.(*ssa.IndexAddr); ok {
							for _, st := range storesTo(ia) {
								if sc, ok := staticCallNamed(st.Val, "reflect.(Value).String"); ok {
									imp, _ := cs.Implies(vrCond, cs.And(cs.Atom("atEnd"), strKind(sc.Call.Args[0])))
									good = imp
								}
							}
						}
					}
				}
				c.check(good, "C11.errors", construct, p.ipos(r.Return), "a key is produced only as String() of a String-kind value reached at the end of the path", "a key can be produced from a non-string value or before the end of the path")
			} else {
				ok2, bad := allOrigins(r.Results[0], func(o Origin) bool {
					if o.Kind == "slice" {
						return true
					}
					if call, isC := o.Val.(*ssa.Call); isC && calleeOf(&call.Call).Builtin == "append" {
						return true
					}
					return false
				})
				c.check(ok2, "C11.errors", construct, p.ipos(r.Return), "success returns the ordered accumulation of the recursive results", "success returns something other than the accumulated keys: "+bad)
			}
		case resNil:
			// error return with no keys: must be a kind failure (end & not string, or middle & not struct)
			var subj ssa.Value
			for _, name := range cs.Vars {
				_ = name
			}
			eachInstr(kfm, func(in ssa.Instruction) {
				if call, ok := staticCallNamed(valueOf(in), "reflect.(Value).Kind"); ok && subj == nil && call.Block().Dominates(r.Return.Block()) {
					subj = call.Call.Args[0]
				}
			})
			endBad, _ := cs.Implies(vrCond, cs.Atom("atEnd"))
			good := false
			// the tested value is the (possibly dereferenced) current value: find which
			for v := range byVal {
				_ = v
			}
			for _, cur := range curVals {
				if endBad {
					imp, _ := cs.Implies(vrCond, cs.Not(strKind(cur)))
					good = good || imp
				} else {
					imp, _ := cs.Implies(vrCond, cs.And(cs.Not(cs.Atom("atEnd")), cs.Not(structKind(cur))))
					good = good || imp
				}
			}
			c.check(good, "C11.errors", construct, p.ipos(r.Return), "a non-nil error is returned exactly on a kind failure (end of path and not a string, or inside the path and not a struct)", "an error return is not tied to the kind failure it reports")
		default:
			// propagates a recursive result
			okP := false
			for _, sc := range selfCalls {
				if isExtractOf(r.Results[1], sc, 1) {
					okP = true
				}
			}
			c.check(okP, "C11.errors", construct, p.ipos(r.Return), "propagates the recursive call's error (with the keys gathered so far)", "returns an error that is not the recursive call's")
		}
	}

	// ---- C11.fanout
	start := kfm.Params[2]
	nfan := 0
	for _, sc := range selfCalls {
		nfan++
		construct := fmt.Sprintf("keysFromMessage recursive call#%d", nfan)
		bo, isB := sc.Call.Args[2].(*ssa.BinOp)
		one := false
		if isB && bo.Op == token.ADD && bo.X == ssa.Value(start) {
			if v, isC := constInt(bo.Y); isC && v == 1 {
				one = true
			}
		}
		pathOK := sc.Call.Args[1] == ssa.Value(kfm.Params[1])
		// receiver: FieldByName(cur, Title(path[start])) or Index(that, i)
		argOK, what := false, ""
		recvArg := sc.Call.Args[0]
		if rs := cs.ResolveUnder(recvArg, cs.Reach(sc)); len(rs) == 1 {
			// (a merged value — `v, err := helper(); if err != nil { return }` — has one concrete origin where the call is reached)
			recvArg = rs[0]
		}
		if fb, ok := staticCallNamed(recvArg, "reflect.(Value).FieldByName"); ok {
			argOK, what = fieldByPathSegment(fb, kfm), "the field named by the current path segment"
			imp, _ := cs.Implies(cs.Reach(sc), cs.Not(kindIn(fb, []string{"Slice"})))
			argOK = argOK && imp
		} else if ix, ok := staticCallNamed(recvArg, "reflect.(Value).Index"); ok {
			ixRecv := ix.Call.Args[0]
			if rs := cs.ResolveUnder(ixRecv, cs.Reach(sc)); len(rs) == 1 {
				ixRecv = rs[0]
			}
			if fb, ok := staticCallNamed(ixRecv, "reflect.(Value).FieldByName"); ok {
				argOK, what = fieldByPathSegment(fb, kfm), "each element of the repeated field named by the current path segment"
			}
		}
		c.check(one && pathOK && argOK, "C11.fanout", construct, p.ipos(sc), "recurses with start+1, the same path, on "+what, "recursive step does not advance by exactly one segment on the named field (or its elements)")
	}
	c.floor("C11.fanout", nfan, 2)
	for i, l := range loopsOf(kfm) {
		construct := fmt.Sprintf("keysFromMessage loop#%d", i+1)
		k, why := l.boundedKind()
		// the counter starts at 0, steps by +1
		okCnt := false
		for _, in := range l.Header.Instrs {
			if ph, ok := in.(*ssa.Phi); ok {
				if q, step := l.counterStep(ph); q == ph && step > 0 {
					for ei, e := range ph.Edges {
						pred := l.Header.Preds[ei]
						if !l.Blocks[pred] {
							if v, isC := constInt(e); isC && v == 0 {
								okCnt = true
							}
						} else if inc, isB := e.(*ssa.BinOp); isB {
							if v, isC := constInt(inc.Y); !isC || v != 1 {
								okCnt = false
							}
						}
					}
				}
			}
		}
		// appends in order: keys = append(keys, kk...) with kk the recursive result of this iteration; early exit only with the recursive error
		okApp := false
		eachInstr(kfm, func(in ssa.Instruction) {
			if call, ok := in.(*ssa.Call); ok && calleeOf(&call.Call).Builtin == "append" && l.Blocks[call.Block()] {
				_, isAcc := call.Call.Args[0].(*ssa.Phi)
				for _, sc := range selfCalls {
					if isAcc && isExtractOf(call.Call.Args[1], sc, 0) && l.Blocks[sc.Block()] {
						okApp = true
					}
				}
			}
		})
		okExit := true
		for _, ex := range l.exits() {
			if ex[0] == l.Header {
				continue
			}
			// leaving from inside the body: only under "recursive error != nil"
			iff, ok := ex[0].Instrs[len(ex[0].Instrs)-1].(*ssa.If)
			if !ok {
				okExit = false
				continue
			}
			bo, ok := iff.Cond.(*ssa.BinOp)
			good := false
			if ok && bo.Op == token.NEQ && isNilConst(bo.Y) {
				for _, sc := range selfCalls {
					if isExtractOf(bo.X, sc, 1) && ex[1] == ex[0].Succs[0] {
						good = true
					}
				}
			}
			if !good {
				// the same on conditions (the error may have gone through a helper's result variable first): the loop is left
				// from inside only on ways on which the recursive call of this iteration returned an error
				for _, sc := range selfCalls {
					if !l.Blocks[sc.Block()] {
						continue
					}
					xcs := newCondSpace(kfm, recOf(eqAtom("recErrNil", func(v ssa.Value) bool { return isExtractOf(stripConv(v), sc, 1) }, isNil)), "recErrNil")
					for si, sb := range ex[0].Succs {
						if sb == ex[1] {
							if imp, _ := xcs.Implies(xcs.EdgeCond(ex[0], si), xcs.Not(xcs.Atom("recErrNil"))); imp && xcs.Seen("recErrNil") {
								good = true
							}
						}
					}
				}
			}
			if !good {
				okExit = false
			}
		}
		// a recursive error inside the loop must leave the function with that error
		for _, sc := range selfCalls {
			if !l.Blocks[sc.Block()] {
				continue
			}
			ecs := newCondSpace(kfm, recOf(eqAtom("recErrNil", func(v ssa.Value) bool { return isExtractOf(stripConv(v), sc, 1) }, isNil)), "recErrNil")
			prop := ecs.False()
			for _, vr := range ecs.VirtualReturns() {
				if isExtractOf(vr.Vals[1], sc, 1) {
					prop = or(prop, vr.Cond)
				}
			}
			// the block following the call (same block) is reached; error ⇒ propagated
			if imp, _ := ecs.Implies(and(ecs.Reach(sc), ecs.Not(ecs.Atom("recErrNil"))), prop); !imp || !ecs.Seen("recErrNil") {
				okExit = false
			}
		}
		// no iteration path may skip the element: the recursion and the append lie on every path to the back edge
		okEvery := false
		for _, sc := range selfCalls {
			if !l.Blocks[sc.Block()] {
				continue
			}
			okEvery = true
			for _, la := range l.Latch {
				if !sc.Block().Dominates(la) {
					okEvery = false
				}
			}
			ycs := newCondSpace(kfm, nil)
			eachInstr(kfm, func(in ssa.Instruction) {
				if call, ok := in.(*ssa.Call); ok && calleeOf(&call.Call).Builtin == "append" && l.Blocks[call.Block()] && isExtractOf(call.Call.Args[1], sc, 0) {
					for _, la := range l.Latch {
						if call.Block().Dominates(la) {
							continue
						}
						// … or, on conditions: every way round the loop has passed the append
						for si, sb := range la.Succs {
							if sb == l.Header {
								if imp, _ := ycs.Implies(ycs.EdgeCond(la, si), ycs.Reach(call)); !imp {
									okEvery = false
								}
							}
						}
					}
				}
			})
		}
		c.check(okEvery, "C11.fanout", construct+": every element", p.ipos(l.Header.Instrs[0]), "the recursive call and the append dominate the back edge: no element is skipped", "an iteration path reaches the next index without recursing into the element (an element — e.g. a nil one — is skipped instead of traversed)")
		c.check(k == "counted-up" && okCnt && okApp && okExit, "C11.fanout", construct, p.ipos(l.Header.Instrs[0]), "visits indices 0,1,…,Len()-1 in order ("+why+"), appends each recursive result in order, leaves early only with the recursive error", "the repeated-field fan-out does not visit every element once, in order, accumulating in order")
	}

	// ---- C11.split
	okSplit := false
	for _, call := range pl.callsIn(entry, kfm) {
		a := call.Call.Args
		vo, ok1 := staticCallNamed(a[0], "reflect.ValueOf")
		sp, ok2 := staticCallNamed(a[1], "strings.Split")
		z, ok3 := constInt(a[2])
		if ok1 && ok2 && ok3 && z == 0 && originsAll(vo.Call.Args[0], func(o Origin) bool { return o.Val == ssa.Value(entry.Params[1]) }) && originsAll(sp.Call.Args[0], func(o Origin) bool { return o.Val == ssa.Value(entry.Params[0]) }) {
			if sep, isS := constString(sp.Call.Args[1]); isS && sep == "." {
				okSplit = true
			}
		}
		// results returned unchanged
		for _, r := range returnsOf(entry) {
			if mayPrecede(call, r) && !(isExtractOf(r.Results[0], call, 0) && isExtractOf(r.Results[1], call, 1)) {
				// named results with defer: values go through cells
				ok0 := originsAll(r.Results[0], func(o Origin) bool { return isExtractOf(o.Val, call, 0) || isConstNilOrigin(o) || o.Kind == "zero" })
				if !ok0 {
					okSplit = false
				}
			}
		}
	}
	c.check(okSplit, "C11.split", fname(entry), p.pos(entry.Pos()), "traversal starts at reflect.ValueOf(message) with the locator split on '.' and index 0; its result is returned unchanged", "the entry function does not start the traversal from the message with the dotted path at index 0")
	pl.whoMayCall("C11.split", kfm, fname(kfm), fname(entry))
	recursionRules(c, p, map[*ssa.Function]bool{kfm: true}, "C11")
}

// fieldByPathSegment: FieldByName(<current value>, strings.Title(path[start])).
func fieldByPathSegment(fb *ssa.Call, kfm *ssa.Function) bool {
	t, ok := staticCallNamed(fb.Call.Args[1], "strings.Title")
	if !ok {
		return false
	}
	u, ok := t.Call.Args[0].(*ssa.UnOp)
	if !ok {
		return false
	}
	ia, ok := u.X.(*ssa.IndexAddr)
	if !ok || ia.X != ssa.Value(kfm.Params[1]) || ia.Index != ssa.Value(kfm.Params[2]) {
		return false
	}
	// receiver is the current value (parameter or its Elem through the phi)
	for _, o := range origins(fb.Call.Args[0]) {
		if o.Val == ssa.Value(kfm.Params[0]) {
			continue
		}
		if e, isE := staticCallNamed(o.Val, "reflect.(Value).Elem"); isE && e.Call.Args[0] == ssa.Value(kfm.Params[0]) {
			continue
		}
		return false
	}
	return true
}
