package main

import (
	"fmt"
	"sort"
	"strings"

	"golang.org/x/tools/go/ssa"
)

// pool bundles the resolved anchors shared by the channel-pool properties (C01–C04, C07–C09, C20).
type pool struct {
	c    *Ctx
	p    *Prog
	lf   *LockFacts
	sums *Summaries
	ai   *AccessIndex

	Idle, Connecting, Ready, TF, Shutdown int64
	BOUND, BIND, UNBIND                   int64
	RoundRobin                            int64

	pick *ssa.Function // (*gcpPicker).Pick
	done *ssa.Function // the completion closure stored in PickResult.Done
	uscs *ssa.Function // (*gcpBalancer).UpdateSubConnState
}

const pkgConn = "google.golang.org/grpc/connectivity"
const pkgCfg = "github.com/GoogleCloudPlatform/grpc-gcp-go/grpcgcp/grpc_gcp"

func newPool(c *Ctx, w *World) *pool {
	p := w.GCP()
	if p == nil {
		return nil
	}
	pl := &pool{c: c, p: p, lf: w.GCPLocks(), sums: w.GCPSums()}
	pl.ai = buildAccessIndex(p)
	get := func(pkg, name string) int64 {
		v, ok := p.constValue(pkg, name)
		if !ok {
			c.fail("engine.anchor", "const "+pkg+"."+name, "-", "constant not found")
			return -999
		}
		return v
	}
	pl.Idle, pl.Connecting, pl.Ready, pl.TF, pl.Shutdown = get(pkgConn, "Idle"), get(pkgConn, "Connecting"), get(pkgConn, "Ready"), get(pkgConn, "TransientFailure"), get(pkgConn, "Shutdown")
	pl.BOUND, pl.BIND, pl.UNBIND = get(pkgCfg, "AffinityConfig_BOUND"), get(pkgCfg, "AffinityConfig_BIND"), get(pkgCfg, "AffinityConfig_UNBIND")
	pl.RoundRobin = get(pkgCfg, "ChannelPoolConfig_ROUND_ROBIN")
	pl.pick = c.need(p, "grpcgcp", "(*gcpPicker).Pick")
	pl.uscs = c.need(p, "grpcgcp", "(*gcpBalancer).UpdateSubConnState")
	if pl.pick != nil {
		// the completion closure is whatever Pick stores into PickResult.Done
		eachInstr(pl.pick, func(in ssa.Instruction) {
			st, ok := in.(*ssa.Store)
			if !ok {
				return
			}
			fa, ok := st.Addr.(*ssa.FieldAddr)
			if !ok || fieldRefOfAddr(fa) != "PickResult.Done" {
				return
			}
			for _, o := range origins(st.Val) {
				if isConstNilOrigin(o) {
					continue
				}
				mc, ok := o.Val.(*ssa.MakeClosure)
				if !ok {
					// (a callback produced by a call — a decorator wrapping the closure — may skip or repeat what the closure does)
					c.fail("engine.anchor", "completion closure", p.ipos(st), "PickResult.Done can be "+o.String()+", which is not a closure of Pick: the completion rules would be checked on the wrong function")
					continue
				}
				if fn := mc.Fn.(*ssa.Function); pl.done != nil && pl.done != fn {
					c.fail("engine.anchor", "completion closure", p.ipos(st), "PickResult.Done can be one of several closures ("+fname(pl.done)+", "+fname(fn)+")")
				} else {
					pl.done = fn
				}
			}
		})
		if pl.done == nil {
			c.fail("engine.anchor", "completion closure", p.pos(pl.pick.Pos()), "Pick does not store a closure into PickResult.Done")
		} else {
			c.FuncsSeen[qname(pl.done)] = true
		}
	}
	return pl
}

func (pl *pool) f(name string) *ssa.Function { return pl.c.need(pl.p, "grpcgcp", name) }

// ---------- generic who-may rules ----------

// whoMayWrite: every non-constructor write to field lies in an allowed function with an allowed kind.
// allowed: function name -> list of access kinds ("store", "map-insert", "map-delete", "atomic", "*").
func (pl *pool) whoMayWrite(rule, field string, allowed map[string][]string) int {
	n := 0
	seen := map[string]bool{}
	for _, a := range pl.ai.ByField[field] {
		if !a.isWrite() {
			continue
		}
		if freshAt(a.Base, a.Instr) {
			continue
		}
		n++
		kind := a.What
		if strings.HasPrefix(kind, "atomic:") {
			kind = "atomic"
		}
		construct := fmt.Sprintf("%s: %s in %s", field, kind, fname(a.Fn))
		if seen[construct] {
			continue
		}
		seen[construct] = true
		okKinds, ok := allowed[fname(a.Fn)]
		good := false
		for _, k := range okKinds {
			if k == "*" || k == kind {
				good = true
			}
		}
		if ok && good {
			pl.c.ok(rule, construct, pl.p.ipos(a.Instr), "writer is in the allowed set")
		} else {
			var al []string
			for f, ks := range allowed {
				al = append(al, f+":"+strings.Join(ks, "/"))
			}
			sort.Strings(al)
			pl.c.fail(rule, construct, pl.p.ipos(a.Instr), fmt.Sprintf("write to %s outside its allowed writers {%s}", field, strings.Join(al, ", ")))
		}
	}
	return n
}

// whoMayCall: every call of target lies in an allowed function; no escaping reference to target exists.
func (pl *pool) whoMayCall(rule string, target *ssa.Function, allowed ...string) []Site {
	if target == nil {
		return nil
	}
	var sites []Site
	for _, f := range pl.p.Funcs {
		eachInstr(f, func(in ssa.Instruction) {
			cc := callCommon(in)
			if cc == nil {
				return
			}
			for _, g := range pl.p.calleesOf(cc) {
				if g == target {
					sites = append(sites, Site{f, in, cc})
				}
			}
		})
	}
	ord := map[string]int{}
	for _, s := range sites {
		ord[fname(s.Fn)]++
		construct := fmt.Sprintf("%s called from %s#%d", fname(target), fname(s.Fn), ord[fname(s.Fn)])
		good := false
		for _, a := range allowed {
			if a == fname(s.Fn) {
				good = true
			}
		}
		if good {
			pl.c.ok(rule, construct, pl.p.ipos(s.Instr), "caller is in the allowed set")
		} else {
			pl.c.fail(rule, construct, pl.p.ipos(s.Instr), fmt.Sprintf("%s may only be called from {%s}", fname(target), strings.Join(allowed, ", ")))
		}
	}
	for _, r := range pl.p.funcValueRefs(target) {
		pl.c.fail(rule, fmt.Sprintf("%s escapes as a value in %s", fname(target), fname(r.Fn)), pl.p.ipos(r.Instr), "function is referenced as a value: its callers cannot be bounded statically")
	}
	return sites
}

// ifaceCallSites: call sites of an interface method, by "Type.Method" suffix.
func (pl *pool) ifaceCallSites(suffix string) []Site {
	return pl.p.callSites(func(n string) bool { return strings.HasPrefix(n, "iface:") && strings.HasSuffix(n, suffix) })
}

// ---------- path helpers ----------

// everyPathHits: every path from just after `from` to a function return executes one of the targets.
func everyPathHits(from ssa.Instruction, targets map[ssa.Instruction]bool) bool {
	return everyPathFromHits(from.Block(), instrIndex(from)+1, targets)
}

// everyPathFromHits: every path from instruction index idx of block b0 to a function return executes one of the targets.
func everyPathFromHits(b0 *ssa.BasicBlock, idx int, targets map[ssa.Instruction]bool) bool {
	type pt struct {
		b *ssa.BasicBlock
		i int
	}
	seen := map[*ssa.BasicBlock]bool{}
	var scan func(b *ssa.BasicBlock, start int) bool
	scan = func(b *ssa.BasicBlock, start int) bool {
		for i := start; i < len(b.Instrs); i++ {
			in := b.Instrs[i]
			if targets[in] {
				return true
			}
			if _, isRet := in.(*ssa.Return); isRet {
				return false
			}
		}
		if len(b.Succs) == 0 {
			return true // panic / no exit: not an ordinary return
		}
		for _, s := range b.Succs {
			if seen[s] {
				continue
			}
			seen[s] = true
			if !scan(s, 0) {
				return false
			}
		}
		return true
	}
	return scan(b0, idx)
}

// countMayFollow: how many of the instructions in set may execute after `from` on some path.
func mayFollow(from ssa.Instruction, x ssa.Instruction) bool { return mayPrecede(from, x) }

// inLoop: the instruction's block lies on a cycle.
func inLoop(in ssa.Instruction) bool { return canReach(in.Block(), in.Block(), true) }

// paramField: v is a load of the named field of (a local copy of) parameter prm.
func paramFieldLoad(v ssa.Value, prm *ssa.Parameter, field string) bool {
	v = stripConv(v)
	if f, ok := v.(*ssa.Field); ok {
		return f.X == prm && fieldRefOfField(f) == field
	}
	f, base, ok := loadedField(v)
	if !ok || f != field {
		return false
	}
	// base is the local spill of the parameter
	if al, ok := base.(*ssa.Alloc); ok {
		sts := storesTo(al)
		return len(sts) == 1 && sts[0].Val == prm
	}
	return false
}

func param(fn *ssa.Function, i int) *ssa.Parameter {
	if fn == nil || i >= len(fn.Params) {
		return nil
	}
	return fn.Params[i]
}
