package main

import (
	"fmt"
	"go/token"
	"go/types"
	"strings"

	"golang.org/x/tools/go/ssa"
)

func init() { register("C02", checkC02) }

// slotOrigin: the single non-nil SSA value a returned slot may originate from (nil constants ignored).
func slotOrigin(v ssa.Value) (val ssa.Value, onlyNil bool, ok bool) {
	var vals []ssa.Value
	for _, o := range origins(v) {
		if isConstNilOrigin(o) {
			continue
		}
		dup := false
		for _, x := range vals {
			if x == o.Val {
				dup = true
			}
		}
		if !dup {
			vals = append(vals, o.Val)
		}
	}
	switch len(vals) {
	case 0:
		return nil, true, true
	case 1:
		return vals[0], false, true
	}
	return nil, false, false
}

// returnsOf lists the ordinary returns of fn (the recover block's return is excluded: it is reached only after a recovered panic).
func returnsOf(fn *ssa.Function) []*ssa.Return {
	var out []*ssa.Return
	for _, b := range fn.Blocks {
		if b == fn.Recover {
			continue
		}
		for _, in := range b.Instrs {
			if r, ok := in.(*ssa.Return); ok {
				out = append(out, r)
			}
		}
	}
	return out
}

// callsOn returns the calls of target (a module function) in fn.
// callsInAll: every call of target in the module.
func (pl *pool) callsInAll(target *ssa.Function) []*ssa.Call {
	var out []*ssa.Call
	for _, fn := range pl.p.Funcs {
		out = append(out, pl.callsIn(fn, target)...)
	}
	return out
}

func (pl *pool) callsIn(fn, target *ssa.Function) []*ssa.Call {
	var out []*ssa.Call
	eachInstr(fn, func(in ssa.Instruction) {
		if call, ok := in.(*ssa.Call); ok {
			for _, g := range pl.p.calleesOf(&call.Call) {
				if g == target {
					out = append(out, call)
				}
			}
		}
	})
	return out
}

// C02 — Load spreading and stream accounting.
func checkC02(c *Ctx, w *World) {
	c.Explanation = "Pairing analysis of the active-stream counter: who may increment/decrement it, exactly one increment on the returned slot on every " +
		"placing path of getAndIncrementSubConnRef (none when no slot is returned), no return of Pick after a placement other than the one handing the " +
		"slot and its completion closure to gRPC, the closure's first effect is exactly one decrement of that same slot on every path, the refresh swap " +
		"keeps the slot object and touches no counter, pickers are built from READY slots only, and the least-busy scan selects by strictly smaller count among the picker's own slots."
	c.RuleText = "one obligation per call site / return / store examined; non-trivial = needed a path (avoid-set reaching condition), dominance or provenance argument"
	c.Assumptions = []string{
		"gRPC invokes PickResult.Done at most once per successful pick, and only for picks that returned no error",
		"numeric minimality under concurrent increments on different pickers is not decided (the scan is not atomic with the increment)",
	}
	c.Trusted = []string{"go/types", "golang.org/x/tools/go/ssa v0.29.0", "sync/atomic semantics"}
	pl := newPool(c, w)
	if pl == nil {
		return
	}
	p := pl.p
	incr, decr := pl.f("(*subConnRef).streamsIncr"), pl.f("(*subConnRef).streamsDecr")
	gai := pl.f("(*gcpPicker).getAndIncrementSubConnRef")
	if incr == nil || decr == nil || gai == nil || pl.pick == nil || pl.done == nil {
		return
	}

	// ---- C02.callers
	incSites := pl.whoMayCall("C02.callers", incr, fname(gai))
	decSites := pl.whoMayCall("C02.callers", decr, fname(pl.done))
	c.floor("C02.callers:incr", len(incSites), 2)
	c.floor("C02.callers:decr", len(decSites), 1)
	pl.whoMayWrite("C02.callers", "subConnRef.streamsCnt", map[string][]string{fname(incr): {"atomic"}, fname(decr): {"atomic"}})
	// the helpers add exactly +1 / -1
	for _, h := range []struct {
		f *ssa.Function
		d int64
	}{{incr, 1}, {decr, -1}} {
		n, good := 0, true
		for _, a := range pl.ai.ByFn[h.f] {
			if a.Field == "subConnRef.streamsCnt" && a.Mode == "A" {
				n++
				cc := callCommon(a.Instr)
				d, isC := constInt(cc.Args[1])
				if !strings.HasPrefix(a.What, "atomic:AddInt32") || !isC || d != h.d || a.Base != h.f.Params[0] {
					good = false
				}
			}
		}
		c.check(n == 1 && good, "C02.callers", fname(h.f)+": delta", p.pos(h.f.Pos()), fmt.Sprintf("one atomic add of %+d on the receiver's own counter", h.d), "helper does not add exactly the expected delta to its receiver's counter")
	}

	// ---- C02.atomic: "placed on a channel whose number of active streams is minimal": selection (the scan of the counts)
	// and the increment of the selected slot are one exclusive critical section of the picker — two picks through the same
	// picker must not both see the counts before either has added its own
	{
		gsr := pl.f("(*gcpPicker).getSubConnRef")
		var sel []*ssa.Call
		if gsr != nil {
			sel = pl.callsIn(gai, gsr)
		}
		nAt := 0
		for _, sc := range sel {
			for _, s := range incSites {
				ic, isC := s.Instr.(*ssa.Call)
				if !isC || s.Fn != gai || !mayPrecede(sc, ic) {
					continue
				}
				nAt++
				excl := pl.lf.HeldAt(sc)["gcpPicker.mu"] == 2 && pl.lf.HeldAt(ic)["gcpPicker.mu"] == 2 && sameHoldOf(pl.lf, "gcpPicker.mu", sc, ic)
				c.check(excl, "C02.atomic", "selection and increment in one exclusive picker critical section", p.ipos(ic), "getSubConnRef(…) and the increment of the slot it returned run under gcpPicker.mu held exclusively, with no release in between", "the least-loaded selection and the increment of the chosen slot are not one exclusive critical section of the picker (shared lock, or the lock is released in between): concurrent picks through one picker all see the same counts and pile onto one channel")
			}
		}
		c.floor("C02.atomic", nAt, 1)
	}

	// ---- C02.place
	var incCalls []*ssa.Call
	for _, s := range incSites {
		if call, ok := s.Instr.(*ssa.Call); ok && s.Fn == gai {
			incCalls = append(incCalls, call)
		}
	}
	// every way of leaving (merged single exits are split per way in): no slot ⇒ no increment on the way; a slot ⇒ nil
	// error, exactly one increment, of this slot, or the slot is nil on the ways that do not increment
	rets := returnsOf(gai)
	retNo := map[*ssa.Return]int{}
	for i, r := range rets {
		retNo[r] = i + 1
	}
	base := newCondSpace(gai, nil)
	baseVRs := base.VirtualReturns()
	type verdict struct {
		bad, undecided []string
		okText         []string
	}
	perRet := map[*ssa.Return]*verdict{}
	for i, bvr := range baseVRs {
		vd := perRet[bvr.Ret]
		if vd == nil {
			vd = &verdict{}
			perRet[bvr.Ret] = vd
		}
		slot, errV := cellValue(bvr.Vals[0]), cellValue(bvr.Vals[1])
		cs := newCondSpace(gai, recOf(eqAtom("slotnil", isVal(slot), isNil), eqAtom("errnil", isVal(errV), isNil)), "slotnil", "errnil")
		vrs := cs.VirtualReturns()
		if cs.err != "" || len(vrs) != len(baseVRs) || vrs[i].Ret != bvr.Ret {
			vd.undecided = append(vd.undecided, "exit conditions could not be evaluated: "+cs.err)
			continue
		}
		cond := vrs[i].Cond
		onWay := func(ic *ssa.Call) bool { return mayPrecede(ic, bvr.Ret) && cs.Satisfiable(and(cond, cs.Reach(ic))) }
		slotNil := isNilConst(slot)
		if !slotNil {
			slotNil, _ = cs.Implies(cond, cs.Atom("slotnil"))
			slotNil = slotNil && cs.Seen("slotnil")
		}
		if slotNil {
			for _, ic := range incCalls {
				if onWay(ic) {
					vd.bad = append(vd.bad, "a stream count is incremented (at "+p.ipos(ic)+") on a way out that returns no slot: the count leaks")
				}
			}
			vd.okText = append(vd.okText, "no slot, no increment on the way")
			continue
		}
		if _, isPhi := slot.(*ssa.Phi); isPhi {
			vd.undecided = append(vd.undecided, "returned slot has several distinct origins: "+originStrings(origins(slot)))
			continue
		}
		errNil := isNilConst(errV)
		if !errNil {
			errNil, _ = cs.Implies(cond, cs.Atom("errnil"))
			errNil = errNil && cs.Seen("errnil")
		}
		if !errNil {
			vd.bad = append(vd.bad, "a slot is returned together with a possibly non-nil error: the caller drops it without a completion callback")
			continue
		}
		incd := cs.False()
		var mine []*ssa.Call
		for _, ic := range incCalls {
			if !onWay(ic) {
				continue
			}
			if cellValue(ic.Call.Args[0]) != slot {
				vd.bad = append(vd.bad, "increments a different slot ("+vstr(ic.Call.Args[0])+") than the one returned")
				continue
			}
			if inLoop(ic) {
				vd.bad = append(vd.bad, "increment inside a loop")
			}
			mine = append(mine, ic)
			incd = or(incd, cs.Reach(ic))
		}
		for a := 0; a < len(mine); a++ {
			for b := a + 1; b < len(mine); b++ {
				if cs.Satisfiable(cs.And(cond, cs.Reach(mine[a]), cs.Reach(mine[b]))) {
					vd.bad = append(vd.bad, "two increments on one way out")
				}
			}
		}
		if imp, wit := cs.Implies(and(cond, cs.Not(incd)), cs.Atom("slotnil")); !imp {
			vd.bad = append(vd.bad, "a non-nil slot can be returned without its stream count having been incremented: "+wit)
		}
		vd.okText = append(vd.okText, "returns "+vstr(slot)+": incremented exactly once on the way, or nil")
	}
	for _, r := range rets {
		construct := fmt.Sprintf("%s return#%d", fname(gai), retNo[r])
		vd := perRet[r]
		switch {
		case vd == nil:
			c.ok("C02.place", construct, p.ipos(r), "unreachable exit")
		case len(vd.bad) > 0:
			c.fail("C02.place", construct, p.ipos(r), strings.Join(vd.bad, "; "))
		case len(vd.undecided) > 0:
			c.undecided("C02.place", construct, p.ipos(r), strings.Join(vd.undecided, "; "))
		default:
			c.ok("C02.place", construct, p.ipos(r), strings.Join(vd.okText, "; "))
		}
	}
	c.floor("C02.place", len(baseVRs), 3)

	// ---- C02.pick: no count leaks between placement and hand-over
	gcalls := pl.callsIn(pl.pick, gai)
	if len(gcalls) != 1 {
		c.fail("C02.pick", "Pick: placement call", p.pos(pl.pick.Pos()), fmt.Sprintf("expected exactly one call of %s in Pick, found %d", fname(gai), len(gcalls)))
	} else {
		g := gcalls[0]
		isSlot := func(v ssa.Value) bool {
			val, onlyNil, ok := slotOrigin(v)
			if !ok || onlyNil {
				return false
			}
			e, isE := val.(*ssa.Extract)
			return isE && e.Tuple == g && e.Index == 0
		}
		isErr := func(v ssa.Value) bool {
			e, isE := stripConv(v).(*ssa.Extract)
			return isE && e.Tuple == g && e.Index == 1
		}
		rec := recOf(eqAtom("slotnil", isSlot, isNil), eqAtom("errnil", isErr, isNil))
		cs := newCondSpace(pl.pick, rec, "slotnil", "errnil")
		nr := 0
		for i, r := range returnsOf(pl.pick) {
			if !mayPrecede(g, r) {
				continue
			}
			nr++
			construct := fmt.Sprintf("Pick return#%d after placement", i+1)
			noSlot, _ := cs.Implies(cs.Reach(r), cs.Or(cs.Atom("slotnil"), cs.Not(cs.Atom("errnil"))))
			if noSlot {
				c.ok("C02.pick", construct, p.ipos(r), "reached only when no slot was placed (slot nil or placement error)")
				continue
			}
			// must be the hand-over: PickResult{SubConn: slot.subConn, Done: closure}, nil
			okRes, why := pl.isHandOver(r, isSlot)
			c.check(okRes, "C02.pick", construct, p.ipos(r), "hands the placed slot's connection and the completion closure to gRPC with a nil error", "a placed call can leave Pick without its completion closure: "+why)
		}
		c.floor("C02.pick", nr, 3)
		// the closure's captured slot is this placement's slot
		okCap := false
		for _, fv := range pl.done.FreeVars {
			if b := freeVarBinding(fv); b != nil {
				if al, ok := b.(*ssa.Alloc); ok {
					sts := storesTo(al)
					if len(sts) == 1 && isSlot(sts[0].Val) {
						okCap = true
					}
				}
			}
		}
		c.check(okCap, "C02.pick", "closure captures the placed slot", p.pos(pl.done.Pos()), "the captured slot variable is assigned exactly once, from the placement call", "completion closure does not capture (only) the slot returned by the placement call")
	}
	// callee contract used above: an error return of the placement never carries an incremented slot — checked by C02.place (onlyNil ∧ no increment)

	// ---- C02.complete
	dcalls := pl.callsIn(pl.done, decr)
	switch {
	case len(dcalls) != 1:
		c.fail("C02.complete", "completion closure: decrement", p.pos(pl.done.Pos()), fmt.Sprintf("expected exactly one streamsDecr call in the completion closure, found %d", len(dcalls)))
	default:
		d := dcalls[0]
		first := d.Block() == pl.done.Blocks[0]
		for _, in := range d.Block().Instrs {
			if in == d {
				break
			}
			if cc := callCommon(in); cc != nil {
				first = false
			}
			if _, isIf := in.(*ssa.If); isIf {
				first = false
			}
		}
		recvOK := false
		if v, onlyNil, ok := slotOrigin(d.Call.Args[0]); ok && !onlyNil {
			if e, isE := v.(*ssa.Extract); isE && e.Index == 0 && len(gcalls) == 1 && e.Tuple == gcalls[0] {
				recvOK = true
			}
		}
		c.check(first && recvOK && !inLoop(d), "C02.complete", "completion closure: decrement", p.ipos(d),
			"streamsDecr on the captured (placed) slot is the first effect of the closure: exactly once on every path, whatever the outcome",
			fmt.Sprintf("decrement is not the unconditional first effect on the placed slot (in entry block before any call=%v, receiver is the placed slot=%v)", first, recvOK))
	}

	// ---- C02.survive
	if pl.uscs != nil {
		cs := pl.uscsSpace()
		if cs != nil {
			swap := cs.And(cs.Atom("found"), cs.Atom("sReady"))
			sc := param(pl.uscs, 1)
			nSwap, okSlot := 0, false
			eachInstr(pl.uscs, func(in ssa.Instruction) {
				inSwap, _ := cs.Implies(cs.Reach(in), swap)
				if !inSwap || !cs.Satisfiable(cs.Reach(in)) {
					return
				}
				nSwap++
				if mu, ok := in.(*ssa.MapUpdate); ok && isLoadOf(mu.Map, "gcpBalancer.scRefs") {
					val := stripConv(mu.Value)
					e, isE := val.(*ssa.Extract)
					if mu.Key == sc && isE && e.Index == 0 {
						if l, ok := e.Tuple.(*ssa.Lookup); ok && isLoadOf(l.X, "gcpBalancer.refreshingScRefs") && l.Index == sc {
							okSlot = true
						}
					}
				}
				if call, ok := in.(*ssa.Call); ok {
					for _, g := range p.calleesOf(&call.Call) {
						if t := pl.sums.Trans[g]; t != nil && (t.Writes["subConnRef.streamsCnt"] || t.Writes["subConnRef.affinityCnt"]) {
							c.fail("C02.survive", "swap: call "+fname(g), p.ipos(in), "the refresh swap calls a function that writes a slot counter")
						}
					}
				}
			})
			for _, a := range pl.ai.ByFn[pl.uscs] {
				if (a.Field == "subConnRef.streamsCnt" || a.Field == "subConnRef.affinityCnt") && a.isWrite() {
					c.fail("C02.survive", "UpdateSubConnState writes "+a.Field, p.ipos(a.Instr), "connection state handling must not touch the slot counters")
				}
			}
			alloc := false
			eachInstr(pl.uscs, func(in ssa.Instruction) {
				if al, ok := in.(*ssa.Alloc); ok && shortType(al.Type()) == "*grpcgcp.subConnRef" {
					alloc = true
				}
			})
			c.check(okSlot && !alloc && nSwap > 0, "C02.survive", "swap keeps the slot object", p.pos(pl.uscs.Pos()),
				fmt.Sprintf("scRefs[new] receives the very slot registered in refreshingScRefs[new]; no slot is allocated and no counter written (%d instructions in the swap region)", nSwap),
				"the refresh swap does not re-register the same slot object under the replacement connection (counts would be lost)")
		}
	}

	// ---- C02.snapshot
	rp, ngp := pl.f("(*gcpBalancer).regeneratePicker"), pl.f("newGCPPicker")
	if rp != nil && ngp != nil {
		pl.whoMayCall("C02.snapshot", ngp, fname(rp))
		pl.whoMayWrite("C02.snapshot", "gcpPicker.scRefs", map[string][]string{})
		apps := 0
		eachInstr(rp, func(in ssa.Instruction) {
			call, ok := in.(*ssa.Call)
			if !ok || calleeOf(&call.Call).Builtin != "append" {
				return
			}
			apps++
			// appended element(s): stores into the varargs array
			var elems []ssa.Value
			if sl, ok := call.Call.Args[1].(*ssa.Slice); ok {
				if al, ok := sl.X.(*ssa.Alloc); ok {
					for _, r := range *al.Referrers() {
						if ia, ok := r.(*ssa.IndexAddr); ok {
							for _, st := range storesTo(ia) {
								elems = append(elems, st.Val)
							}
						}
					}
				}
			}
			good := len(elems) > 0
			var nx *ssa.Next
			for _, e := range elems {
				l, ok := stripConv(e).(*ssa.Lookup)
				if !ok || !isLoadOf(l.X, "gcpBalancer.scRefs") {
					good = false
					continue
				}
				k, ok := l.Index.(*ssa.Extract)
				if !ok || k.Index != 1 {
					good = false
					continue
				}
				nx, _ = k.Tuple.(*ssa.Next)
				if nx == nil {
					good = false
				}
			}
			if good && nx != nil {
				rng, _ := nx.Iter.(*ssa.Range)
				if rng == nil || !isLoadOf(rng.X, "gcpBalancer.scStates") {
					good = false
				}
				// the entry's state: the scan's value, or the table read under the scan's key
				isVal := (&rangeLoop{Next: nx, Range: rng}).val
				cs := newCondSpace(rp, recOf(eqAtom("ready", isVal, constIs(pl.Ready))), "ready")
				imp, wit := cs.Implies(cs.Reach(call), cs.Atom("ready"))
				if !imp {
					c.fail("C02.snapshot", fmt.Sprintf("regeneratePicker append#%d", apps), p.ipos(call), "a slot whose recorded state is not READY can enter the picker's snapshot: "+wit)
					return
				}
			}
			c.check(good, "C02.snapshot", fmt.Sprintf("regeneratePicker append#%d", apps), p.ipos(call), "appends scRefs[k] for the key k of the scStates iteration, only when that entry's state is READY", "picker snapshot is fed with something other than the READY entries of the pool")
		})
		c.floor("C02.snapshot", apps, 1)
		// the slice handed to newGCPPicker consists of the empty literal and those appends only
		for _, call := range pl.callsIn(rp, ngp) {
			ok, bad := allOrigins(call.Call.Args[0], func(o Origin) bool {
				if o.Kind == "slice" {
					return true
				}
				if cl, isC := o.Val.(*ssa.Call); isC && calleeOf(&cl.Call).Builtin == "append" {
					return true
				}
				return false
			})
			c.check(ok, "C02.snapshot", "newGCPPicker argument", p.ipos(call), "snapshot is the empty literal extended only by the READY appends", "snapshot slice has another origin: "+bad)
			// … and its backing array belongs to this picker alone: built from storage allocated in this call, and kept nowhere
			// else (a published picker is read lock-free by gRPC while later regenerations run)
			shared := sharedSliceRoots(call.Call.Args[0], map[ssa.Value]bool{})
			for _, a := range pl.ai.ByFn[rp] {
				if st, isSt := a.Instr.(*ssa.Store); isSt && a.isWrite() && !freshAt(a.Base, a.Instr) {
					if _, isSlice := st.Val.Type().Underlying().(*types.Slice); isSlice && sameSliceFamily(st.Val, call.Call.Args[0]) {
						shared = append(shared, "the snapshot is also stored in "+a.Field+" at "+p.ipos(st))
					}
				}
			}
			c.check(len(shared) == 0, "C02.snapshot", "snapshot storage is private to its picker", p.ipos(call), "the slice is built from storage allocated in this regeneration and is stored nowhere else: a published picker's snapshot never changes", "the snapshot's backing array is shared with storage that later regenerations rewrite: a superseded picker (still used lock-free by gRPC) can see channels that were not READY when it was published: "+strings.Join(shared, "; "))
		}
	}

	// ---- C02.unknown-key: "a call with no key or an unknown key … is placed on a least-loaded READY channel": the bound
	// lookup must report 'known' only for keys of the key table, and everything else must reach the load-based selection
	if grs, gsr := pl.f("(*gcpBalancer).getReadySubConnRef"), pl.f("(*gcpPicker).getSubConnRef"); grs != nil && gsr != nil {
		lookupRules(pl, grs, gsr, func(string) string { return "C02.unknown-key" })
	}

	// ---- C02.argmin
	if ms := pl.f("(*gcpPicker).minStreamsSubConnRef"); ms != nil {
		checkArgmin(pl, ms)
		// the least-busy selection returns that minimum or nothing
		if lb := pl.f("(*gcpPicker).getLeastBusySubConnRef"); lb != nil {
			mcalls := pl.callsIn(lb, ms)
			for i, r := range returnsOf(lb) {
				v, onlyNil, ok := slotOrigin(r.Results[0])
				good := ok && (onlyNil || (len(mcalls) == 1 && isExtractOf(v, mcalls[0], 0)))
				c.check(good, "C02.argmin", fmt.Sprintf("getLeastBusySubConnRef return#%d", i+1), p.ipos(r), "returns the minimum-streams slot or no slot", "returns a slot that is not the scanned minimum: "+originStrings(origins(r.Results[0])))
			}
		}
	}
	// ---- premise checked by sibling properties, re-evaluated here: "the channel was READY when the picker was published"
	// is stated over the recorded state of each connection — the record must follow the connection's reports, also after a
	// refresh (C04.pair; the replacement registry is cleared at the swap, C04.refresh-complete ← C07.swap), or a channel
	// that left READY stays in every later snapshot
	importPremises(c, w, "C04", checkC04, []string{"C04.pair", "C04.refresh-complete", "C04.writers"}, "C02.states")

}

func isExtractOf(v ssa.Value, tuple ssa.Value, idx int) bool {
	e, ok := v.(*ssa.Extract)
	return ok && e.Tuple == tuple && e.Index == idx
}

// isHandOver: the return yields PickResult{SubConn: <slot>.subConn, Done: <completion closure>} and a nil error.
func (pl *pool) isHandOver(r *ssa.Return, isSlot func(ssa.Value) bool) (bool, string) {
	if ok, _ := allOrigins(r.Results[1], isConstNilOrigin); !ok {
		return false, "error result may be non-nil"
	}
	ld, ok := r.Results[0].(*ssa.UnOp)
	if !ok {
		return false, "result is not a PickResult literal"
	}
	al, ok := ld.X.(*ssa.Alloc)
	if !ok {
		return false, "result is not a PickResult literal"
	}
	scOK, doneOK := false, false
	for _, ref := range *al.Referrers() {
		fa, ok := ref.(*ssa.FieldAddr)
		if !ok {
			continue
		}
		for _, st := range storesTo(fa) {
			switch fieldRefOfAddr(fa) {
			case "PickResult.SubConn":
				if f, base, ok := loadedField(st.Val); ok && f == "subConnRef.subConn" && isSlot(base) {
					scOK = true
				}
			case "PickResult.Done":
				for _, o := range origins(st.Val) {
					if mc, ok := o.Val.(*ssa.MakeClosure); ok && mc.Fn == pl.done {
						doneOK = true
					}
				}
			}
		}
	}
	if !scOK {
		return false, "PickResult.SubConn is not the placed slot's connection"
	}
	if !doneOK {
		return false, "PickResult.Done is not the completion closure"
	}
	return true, ""
}

// checkArgmin: the scan starts from an element of p.scRefs, considers every element, and replaces the
// current minimum only when the candidate's count is strictly smaller.
func checkArgmin(pl *pool, ms *ssa.Function) {
	c, p := pl.c, pl.p
	isElem := func(v ssa.Value) bool {
		// element of the picker's own slice: *(&p.scRefs[i])
		u, ok := stripConv(v).(*ssa.UnOp)
		if !ok || u.Op != token.MUL {
			return false
		}
		ia, ok := u.X.(*ssa.IndexAddr)
		return ok && isLoadOf(ia.X, "gcpPicker.scRefs")
	}
	for i, r := range returnsOf(ms) {
		ok, bad := allOrigins(r.Results[0], func(o Origin) bool { return isConstNilOrigin(o) || isElem(o.Val) })
		c.check(ok, "C02.argmin", fmt.Sprintf("minStreamsSubConnRef return#%d", i+1), p.ipos(r), "returned slot is nil or an element of the picker's own READY snapshot", "returned slot has a foreign origin: "+bad)
	}
	// locate the minimum phi: a phi of slot type at a loop header with an incoming range element
	nphi := 0
	for _, l := range loopsOf(ms) {
		for _, in := range l.Header.Instrs {
			ph, ok := in.(*ssa.Phi)
			if !ok || !strings.HasSuffix(shortType(ph.Type()), "subConnRef") {
				continue
			}
			nphi++
			// the count phi paired with it
			var cntPhi *ssa.Phi
			for _, in2 := range l.Header.Instrs {
				if q, ok := in2.(*ssa.Phi); ok && q != ph && shortType(q.Type()) == "int32" {
					cntPhi = q
				}
			}
			// the in-loop ways of reaching the header, as leaves (slot value, count value, condition): merge phis inside the
			// loop body (continue-style code joins "keep" and "update" before the back edge) are expanded edge by edge
			type leaf struct {
				slot, cnt ssa.Value
				via       *ssa.BasicBlock
				edge      func(cs *CondSpace) Bits
			}
			var leaves []leaf
			var expand func(slot, cnt ssa.Value, pred, to *ssa.BasicBlock, outer []func(cs *CondSpace) Bits, depth int)
			expand = func(slot, cnt ssa.Value, pred, to *ssa.BasicBlock, outer []func(cs *CondSpace) Bits, depth int) {
				here := func(cs *CondSpace) Bits {
					e := cs.False()
					for si, sb := range pred.Succs {
						if sb == to {
							e = or(e, cs.EdgeCond(pred, si))
						}
					}
					return e
				}
				conds := append(append([]func(cs *CondSpace) Bits{}, outer...), here)
				if q, isPhi := stripConv(slot).(*ssa.Phi); isPhi && q != ph && l.Blocks[q.Block()] && depth < 4 {
					var qc *ssa.Phi
					if cq, ok := stripConv(cnt).(*ssa.Phi); ok && cq.Block() == q.Block() {
						qc = cq
					}
					for j, e := range q.Edges {
						cv := cnt
						if qc != nil {
							cv = qc.Edges[j]
						}
						expand(e, cv, q.Block().Preds[j], q.Block(), conds, depth+1)
					}
					return
				}
				leaves = append(leaves, leaf{slot, cnt, pred, func(cs *CondSpace) Bits {
					r := cs.True()
					for _, f := range conds {
						r = and(r, f(cs))
					}
					return r
				}})
			}
			for ei, e := range ph.Edges {
				pred := l.Header.Preds[ei]
				if !l.Blocks[pred] {
					continue
				}
				var cv ssa.Value
				if cntPhi != nil {
					cv = cntPhi.Edges[ei]
				}
				expand(e, cv, pred, l.Header, nil, 0)
			}
			var cand ssa.Value
			for _, lf := range leaves {
				if lf.slot != ssa.Value(ph) {
					cand = lf.slot
				}
			}
			if cand == nil || !isElem(cand) {
				c.fail("C02.argmin", "minStreamsSubConnRef: candidate", p.ipos(ph), "the minimum is never replaced by a scanned element of the snapshot")
				continue
			}
			cntOf := func(v ssa.Value) bool {
				call, ok := stripConv(v).(*ssa.Call)
				return ok && strings.HasSuffix(calleeOf(&call.Call).Name(), ".getStreamsCnt") && (stripConv(call.Call.Args[0]) == stripConv(cand) || sameSnapshotElem(call.Call.Args[0], cand))
			}
			isCur := func(v ssa.Value) bool { return cntPhi != nil && stripConv(v) == ssa.Value(cntPhi) }
			cs := newCondSpace(ms, recOf(ltAtom("less", cntOf, isCur), ltAtom("greater", isCur, cntOf)), "less", "greater")
			cs.ExclusiveAtoms("less", "greater")
			for _, lf := range leaves {
				edge := lf.edge(cs)
				if lf.slot == ssa.Value(ph) {
					construct := fmt.Sprintf("minStreamsSubConnRef: minimum kept via block %d", lf.via.Index)
					imp, wit := cs.Implies(edge, cs.Not(cs.Atom("less")))
					keptCnt := lf.cnt == nil || lf.cnt == ssa.Value(cntPhi)
					c.check(imp && keptCnt, "C02.argmin", construct, p.ipos(ph), "the current minimum is kept only when the candidate's count is not smaller", "a candidate with a strictly smaller stream count can be skipped: "+wit)
					continue
				}
				construct := fmt.Sprintf("minStreamsSubConnRef: new minimum via block %d", lf.via.Index)
				imp, wit := cs.Implies(edge, cs.Not(cs.Atom("greater")))
				cntOK := lf.cnt != nil && cntOf(lf.cnt) && (lf.slot == cand || sameSnapshotElem(lf.slot, cand))
				c.check(imp && cntOK, "C02.argmin", construct, p.ipos(ph), "candidate replaces the minimum only when its count is not larger than the current minimum count, and the minimum count is updated with it",
					"the scan can replace the minimum by a busier slot (or does not track the minimum count): "+wit)
			}
			// initial value: element of the slice with its own count
			for ei, e := range ph.Edges {
				pred := l.Header.Preds[ei]
				if l.Blocks[pred] {
					continue
				}
				c.check(isElem(e), "C02.argmin", "minStreamsSubConnRef: initial minimum", p.ipos(ph), "scan starts from an element of the snapshot", "scan starts from "+vstr(e))
			}
			// the loop ranges over the same slice
			k, _ := l.boundedKind()
			c.check(k != "", "C02.argmin", "minStreamsSubConnRef: full scan", p.ipos(ph), "counted loop over the whole snapshot ("+k+")", "scan loop is not a full counted loop over the snapshot")
		}
	}
	c.floor("C02.argmin", nphi, 1)
}

// sharedSliceRoots: roots of the slice value v (through append destinations, re-slicing and phis) that are not storage
// allocated in the current function (array literal, make, nil).
func sharedSliceRoots(v ssa.Value, seen map[ssa.Value]bool) []string {
	v = stripConv(v)
	if v == nil || seen[v] {
		return nil
	}
	seen[v] = true
	switch x := v.(type) {
	case *ssa.Phi:
		var out []string
		for _, e := range x.Edges {
			out = append(out, sharedSliceRoots(e, seen)...)
		}
		return out
	case *ssa.Slice:
		if al, ok := x.X.(*ssa.Alloc); ok {
			_ = al
			return nil // slice of an array allocated here (composite literal)
		}
		return sharedSliceRoots(x.X, seen)
	case *ssa.MakeSlice:
		return nil
	case *ssa.Const:
		return nil
	case *ssa.Call:
		if calleeOf(&x.Call).Builtin == "append" {
			return sharedSliceRoots(x.Call.Args[0], seen)
		}
		return []string{"result of " + calleeOf(&x.Call).Name()}
	case *ssa.UnOp:
		if al, ok := x.X.(*ssa.Alloc); ok {
			var out []string
			for _, st := range storesTo(al) {
				out = append(out, sharedSliceRoots(st.Val, seen)...)
			}
			return out
		}
		if f, _, ok := loadedField(x); ok {
			return []string{"built on top of field " + f + " (re-used storage)"}
		}
	}
	return []string{vstr(v)}
}

// sameSliceFamily: a and b are connected through append/re-slice/phi chains (may share a backing array).
func sameSliceFamily(a, b ssa.Value) bool {
	fam := func(v ssa.Value) map[ssa.Value]bool {
		m := map[ssa.Value]bool{}
		var walk func(v ssa.Value)
		walk = func(v ssa.Value) {
			v = stripConv(v)
			if v == nil || m[v] {
				return
			}
			m[v] = true
			switch x := v.(type) {
			case *ssa.Phi:
				for _, e := range x.Edges {
					walk(e)
				}
			case *ssa.Slice:
				walk(x.X)
			case *ssa.Call:
				if calleeOf(&x.Call).Builtin == "append" {
					walk(x.Call.Args[0])
				}
			case *ssa.UnOp:
				if al, ok := x.X.(*ssa.Alloc); ok {
					for _, st := range storesTo(al) {
						walk(st.Val)
					}
				}
			}
		}
		walk(v)
		return m
	}
	fa, fb := fam(a), fam(b)
	for v := range fa {
		if _, isC := v.(*ssa.Const); isC {
			continue
		}
		if fb[v] {
			return true
		}
	}
	return false
}

// sameSnapshotElem: a and b are two reads p.scRefs[i] of the same index value of the picker's (immutable) snapshot.
func sameSnapshotElem(a, b ssa.Value) bool {
	elem := func(v ssa.Value) *ssa.IndexAddr {
		u, ok := stripConv(v).(*ssa.UnOp)
		if !ok || u.Op != token.MUL {
			return nil
		}
		ia, ok := u.X.(*ssa.IndexAddr)
		if !ok || !isLoadOf(ia.X, "gcpPicker.scRefs") {
			return nil
		}
		return ia
	}
	ia, ib := elem(a), elem(b)
	if ia == nil || ib == nil || ia.Index != ib.Index {
		return false
	}
	_, ba, _ := loadedField(ia.X)
	_, bb, _ := loadedField(ib.X)
	return stripConv(ba) == stripConv(bb)
}
