#!/bin/bash
# confirm_w3.sh <prop> <pkgdir> [race] — confirms patch.diff/patch2.diff/patch3.diff(/patch4.diff) of /tmp/seed/<prop> with demoN_test.go.txt; compact output
prop=$1; pkg=$2; race=${3:-}
S=/tmp/seed/$prop
for n in 1 2 3 4; do
  pf=$S/patch$([ $n = 1 ] && echo "" || echo $n).diff
  [ -f $pf ] || continue
  df=$S/demo${n}_test.go.txt
  [ -f $df ] || continue
  echo "#### $prop w3-$n"
  /verif/devtools/try_seed.sh $prop $pf $df $pkg $race 2>&1 | grep -vE "^== (without|with|builds|checker)" | cut -c1-230
done
