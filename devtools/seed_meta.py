#!/usr/bin/env python3
"""Regenerates /verif/seeded/<id>/meta.json and /verif/seeded/INDEX.md.

For every kept seeded change: applies patch.diff to /repo's working tree, runs the property's quick check
(evidence goes to a scratch directory, never to /verif/evidence), records which rules/constructs reported,
and restores /repo (git checkout -- .).  The descriptive part (what the change is, what it needs to
manifest, how it was confirmed) is the hand-written table below.

  devtools/seed_meta.py            # all seeds
  devtools/seed_meta.py C11-1 ...  # selected seeds
Exit status 1 if a seeded change is not reported by its property's check.
"""
import json, os, subprocess, sys, tempfile, shutil, re

VERIF = '/verif'
REPO = '/repo'
GRPCGCP = ('grpcgcp', 'grpcgcp')                 # (package dir of the demo, module dir)
ME = ('grpcgcp/multiendpoint', 'grpcgcp')
PROBER = ('spanner_prober/prober', 'spanner_prober')
PMAIN = ('spanner_prober', 'spanner_prober')
CSUM = ('e2e-checksum', 'e2e-checksum')

# id: (property, where, change, needs-to-manifest)
T = {
 'C01-1': ('C01', GRPCGCP, 'Pick snapshots scRef.subConn into a local that the BIND Done callback uses',
           'a BIND in flight across a completed refresh of its channel (Pick, refresh swap, then Done); the key is bound to the removed SubConn and silently dropped'),
 'C01-2': ('C01', GRPCGCP, 're-key loops at the refresh swap test gb.scRefs[v] == scRef after oldSc was already deleted from scRefs',
           'a key bound to a channel, then a completed refresh of that channel; the loops never match so the key keeps pointing at the removed SubConn'),
 'C02-1': ('C02', GRPCGCP, 'refresh swap resets scRef.streamsCnt to 0',
           'calls in flight on a channel when its refresh completes; their Done callbacks drive the counter negative and the channel looks least busy forever'),
 'C02-2': ('C02', GRPCGCP, 'minStreamsSubConnRef skips channels with refreshing set',
           'a refresh in flight on the least busy READY channel; unbound calls go to a busier channel although the idle one is READY'),
 'C03-1': ('C03', GRPCGCP, 'newSubConnLocked re-check uses > maxSize instead of >=',
           'two saturated picks on different pickers interleaved at pool size maxSize-1 with the new SubConn READY before the second creation (check-then-create window)'),
 'C03-2': ('C03', GRPCGCP, 'a TRANSIENT_FAILURE report of the replacement clears scRef.refreshing',
           'a refresh whose replacement fails to connect, then a second unresponsive detection on the same channel: two replacements for one channel'),
 'C04-1': ('C04', GRPCGCP, 'state inheritance gb.scStates[sc] = gb.scStates[oldSc] moved after delete(gb.scStates, oldSc)',
           'refresh of a READY channel completes, later every channel leaves READY: numReady keeps a phantom and READY stays published'),
 'C04-2': ('C04', GRPCGCP, 'the Idle→Connect / Shutdown→delete switch moved before the aggregate-state bookkeeping',
           'a pool SubConn receives Shutdown while recorded READY/CONNECTING (not preceded by Idle/TF) and afterwards the remaining channels leave READY: the removed channel keeps counting and READY stays published'),
 'C05-1': ('C05', GRPCGCP, 'minStreamsSubConnRef loses its len(p.scRefs)==0 guard',
           'fallback_to_ready on, a bound key whose channel is not READY with no fallback entry, the current picker has zero READY SubConns, and the pick runs on a superseded picker that still has refs: index out of range in the fallback path'),
 'C05-2': ('C05', GRPCGCP, 'Pick tests a != nil instead of len(a) > 0 before a[0]',
           'a BOUND/UNBIND request whose key path crosses an empty repeated field: keys == []string{} non-nil, a[0] panics'),
 'C06-1': ('C06', GRPCGCP, 'getSubConnRoundRobin reads scStates through a helper that takes gb.mu.RLock while RLock is already held',
           'a writer (UpdateSubConnState) queued between the two read acquisitions: recursive RLock deadlock of every pick and every state update'),
 'C06-2': ('C06', GRPCGCP, 'getSubConnRoundRobin adds a skip loop over slots whose SubConn is unknown to scStates',
           'round-robin BIND pick on a picker obtained before the pool was emptied (all SubConns shut down): the skip loop spins forever holding the read lock'),
 'C07-1': ('C07', GRPCGCP, 'detectUnresponsive increments the deadline-exceeded counter before the "response arrived after the call started" early return',
           'deadline-exceeded calls that started before the last response: they are counted and can trigger a refresh of a responsive channel'),
 'C07-2': ('C07', GRPCGCP, 'the fallbackMap re-key loop at the swap writes gb.affinityMap[k] = sc',
           'a key that is in fallback to the refreshed channel at the moment the refresh completes: it becomes permanently bound there, fallback entry keeps the removed SubConn'),
 'C08-1': ('C08', GRPCGCP, 'the fallbackMap re-key loop at the swap writes gb.affinityMap[k] = sc (same edit as C07-2, found independently)',
           'fallback enabled, key K in temporary fallback to channel B, refresh of B completes: K is re-bound to B for good and never returns home'),
 'C08-2': ('C08', GRPCGCP, 'fallback target accepted only when its stream count is below the low watermark',
           'fallback enabled, home channel not READY, every READY channel at/above the watermark: the bound call gets ErrNoSubConnAvailable instead of the least busy READY channel'),
 'C09-1': ('C09', GRPCGCP, 'round-robin cursor advanced with gb.rrRefId++ under the read lock instead of atomic.AddUint32',
           'concurrent BIND picks (RLock is shared): lost increments, per-channel BIND counts no longer equal'),
 'C09-2': ('C09', GRPCGCP, 'early return on ctx.Err() != nil at the top of the wait loop, leaving gb.mu.RLock held',
           'a BIND pick with an already-ended context on a not-READY slot: the leaked read lock blocks every later state update'),
 'C10-1': ('C10', GRPCGCP, 'getReadySubConnRef takes gb.mu.RLock instead of Lock although it writes fallbackMap',
           'fallback enabled and two concurrent bound picks whose home channels are not READY: concurrent map writes under a shared lock'),
 'C10-2': ('C10', ME, 'recovery timer closure reads e.lastChange before taking me.Lock ("do not contend")',
           'a timer firing concurrently with setState on the same endpoint: unsynchronised read of lastChange (data race, needs -race to observe)'),
 'C11-1': ('C11', GRPCGCP, 'keysFromMessage skips nil pointer elements of a repeated field',
           'a path crossing a repeated field of message pointers with a nil element: keys of the other elements are returned and no error'),
 'C11-2': ('C11', GRPCGCP, 'the deferred recover re-panics anything that is not a *reflect.ValueError',
           'a locator naming a field promoted through a nil embedded pointer: reflect panics with a plain string, which now escapes'),
 'C12-1': ('C12', GRPCGCP, 'cond.Broadcast moved inside the successful-initialisation branch of SendMsg',
           'a RecvMsg already waiting when the first SendMsg fails to create the stream: it is never woken'),
 'C12-2': ('C12', GRPCGCP, 'creation guard becomes cs.ClientStream == nil || cs.initStreamErr != nil',
           'a second SendMsg after a failed initialisation: the underlying stream is created a second time'),
 'C13-1': ('C13', ME, 'unavailable-report guard ee.status != available → ee.status == recovering',
           'recovery timeout > 0, window run out, a repeated unavailable report on the current endpoint, then a lower-priority endpoint becomes available: Current() stays on the known-unavailable endpoint'),
 'C13-2': ('C13', ME, 'recovery timer closure looks the endpoint up by name when it fires instead of using the captured object',
           'endpoint removed and re-added under the same name while the old timer is pending (lastChange is zero for both): the stale timer ends the new endpoint\'s window early'),
 'C14-1': ('C14', ME, 'delayed-switch re-validation c.status != unavailable → c.status == available',
           'switching delay and recovery timeout > 0; B current, A available (switch delayed), SetEndpoints re-prioritises to [B, A], B reported unavailable (recovering), stale timer fires inside B\'s window and moves to the lower-priority A'),
 'C14-2': ('C14', ME, 'immediate-switch condition f.status == unavailable → f.status != available',
           'switching delay > 0, current endpoint recovering, a higher-priority endpoint reported available: Current() moves inside the very call instead of after the delay'),
 'C15-1': ('C15', GRPCGCP, 'final status-sync loop of UpdateMultiEndpoints covers only updated MultiEndpoints, not newly created ones',
           'an update adds/renames a MultiEndpoint over kept pools whose first endpoint is not READY while a later one is: the new MultiEndpoint routes to the dead endpoint until a state change'),
 'C15-2': ('C15', GRPCGCP, 'gme.defaultName assigned only when the default MultiEndpoint is newly added',
           'a reconfiguration that changes Default to an already existing MultiEndpoint (stale default; nil dereference once the old default is removed)'),
 'C16-1': ('C16', GRPCGCP, 'newly dialed pools collected in a local map and copied into gme.pools only after every dial succeeded',
           'the 2nd or later dial of one update fails: earlier pools of that update are registered nowhere, Close()/failed construction leak connections and monitor goroutines'),
 'C16-2': ('C16', GRPCGCP, 'gme.defaultName = meOpts.Default moved before validation and dialing',
           'an update that changes Default and is then rejected (empty endpoint list elsewhere or dial failure): default routing changed, or pickConn nil-dereferences a not-yet-existing default'),
 'C17-1': ('C17', GRPCGCP, 'initializeConfig clones only ChannelPool and keeps cfg.GetMethod() by reference',
           'a config with method entries passed as a Go object and mutated by the caller after the first resolver update: the balancer\'s method table changes'),
 'C17-2': ('C17', GRPCGCP, 'a cfgIsDefault flag lets a later update with a real config re-run initializeConfig',
           'first resolver update with a nil/empty config, second with a real one: configuration changes after the first update'),
 'C18-1': ('C18', PROBER, 'backoff() checks the cap before multiplying in a counted loop; the final clamp is gone',
           'retries == 8 with the production constants (200ms, 5s): 5.12578125s > max, and non-monotone at 9'),
 'C18-2': ('C18', PMAIN, 'validateFlags matches the database regex against *instance_name',
           'a valid instance with a database such as db/../../other/databases/victim: accepted, the URI has 11 segments'),
 'C18-3': ('C18', PROBER, 'server-timing prefix shortened to "gfet4t7;" and the value taken with strings.SplitN(entry, "dur=", 2)[1]',
           'a header entry starting with gfet4t7; but without dur=: index out of range panic'),
 'C19-1': ('C19', CSUM, 'Marshal returns early when len(bytes) == 0',
           'a message whose standard encoding is empty (Empty, zero-valued wrappers): returned without the checksum field'),
 'C19-2': ('C19', CSUM, 'error pass-through becomes err != nil && bytes == nil; err is later overwritten by the encode calls',
           'a wrapped codec that returns (non-nil bytes, err): the error is swallowed'),
 'C19-3': ('C19', CSUM, 'prefix proto.Buffer taken from a sync.Pool with capacity 64 and put back on return',
           'encodings of ≤ 58 bytes and a second Marshal before the first output is consumed: append writes in place, outputs alias the pooled buffer'),
 'C20-1': ('C20', GRPCGCP, 'the address push loop over gb.scRefs skips channels with refreshing set',
           'a refresh in flight plus a resolver update with a different address list before the replacement is READY: the old SubConn keeps the stale list'),
 'C20-2': ('C20', GRPCGCP, 'ResolverError publishes TRANSIENT_FAILURE and an error picker when no SubConn is READY',
           'a resolver error delivered while the whole pool is (re)connecting: calls fail instead of queueing'),
}

ENV = dict(os.environ, GOFLAGS='-mod=mod', GOPROXY='off', GOSUMDB='off', GOTOOLCHAIN='local')


def sh(cmd, **kw):
    return subprocess.run(cmd, shell=True, text=True, capture_output=True, env=ENV, **kw)


def run_check(prop, patch):
    if sh('git -C %s diff --quiet' % REPO).returncode != 0:
        sys.exit('/repo working tree is dirty; refusing to apply seeded changes')
    scratch = tempfile.mkdtemp(prefix='verif-seed-')
    shutil.copy(os.path.join(VERIF, 'KNOWN_FINDINGS.txt'), scratch)
    try:
        r = sh('git -C %s apply %s' % (REPO, patch))
        if r.returncode != 0:
            return None, 'patch does not apply: ' + r.stderr.strip()
        out = sh('%s/bin/verifcheck -property %s -verif %s' % (VERIF, prop, scratch)).stdout
    finally:
        sh('git -C %s checkout -- .' % REPO)
        shutil.rmtree(scratch, ignore_errors=True)
    caught = []
    for line in out.splitlines():
        m = re.match(r'\s+rule=(\S+) construct=(.*?) status=(fail|undecided) at (\S+)', line)
        if m:
            caught.append({'rule': m.group(1), 'construct': m.group(2), 'at': re.sub(r':\d+$', '', m.group(4))})
    summary = [l for l in out.splitlines() if re.match(r'^C\d+ quick:', l)]
    return caught, (summary[0] if summary else out[-300:])


def main():
    ids = sys.argv[1:] or sorted(T)
    sh('cd %s && ./check.sh --setup' % VERIF)
    missed = []
    for sid in ids:
        prop, (pkg, mod), change, needs = T[sid]
        d = os.path.join(VERIF, 'seeded', sid)
        caught, summary = run_check(prop, os.path.join(d, 'patch.diff'))
        if not caught:
            missed.append(sid)
        meta = {
            'id': sid,
            'breaks_property': prop,
            'change': change,
            'needs_to_manifest': needs,
            'files': {'patch': 'patch.diff', 'demonstration': 'demo_test.go.txt',
                      'author_report': '../reports/%s.md' % prop if os.path.exists(os.path.join(VERIF, 'seeded/reports/%s.md' % prop)) else None},
            'demonstration': {
                'how': 'copy demo_test.go.txt to %s/zz_seed_demo_test.go in a scratch worktree of /repo; go test -count=1 -vet=off -run TestZZSeedDemo .%s' % (pkg, ' (-race for C10-2)' if sid == 'C10-2' else ''),
                'without_change': 'passes',
                'with_change': 'fails',
            },
            'confirmed': {
                'what_i_ran': [
                    'devtools/try_seed%s.sh: fresh worktree of /repo HEAD under /tmp; demo passes without the patch, fails with it' % ('' if mod == 'grpcgcp' else '_mod'),
                    'with the patch: go build ./... and the existing tests of module %s (go test -run \'Test[^Z]\') give the same results as at HEAD' % mod,
                    'git -C /repo apply patch.diff; bin/verifcheck -property %s (scratch evidence dir); git -C /repo checkout -- .' % prop,
                ],
                'worktree_removed': True,
            },
            'check_result': {'caught': bool(caught), 'reported_by': caught, 'summary': summary},
        }
        json.dump(meta, open(os.path.join(d, 'meta.json'), 'w'), indent=1, ensure_ascii=False)
        print(sid, 'caught' if caught else 'MISSED', ', '.join(sorted({c['rule'] for c in caught or []})))
    # index
    rows = []
    for sid in sorted(T):
        p = os.path.join(VERIF, 'seeded', sid, 'meta.json')
        if not os.path.exists(p):
            continue
        m = json.load(open(p))
        rules = sorted({c['rule'] + ' @ ' + c['construct'] for c in m['check_result']['reported_by'] or []})
        rows.append('| %s | %s | %s | %s | %s |' % (sid, m['breaks_property'], m['change'].replace('|', '\\|'), m['needs_to_manifest'].replace('|', '\\|'),
                                                    '<br>'.join(r.replace('|', '\\|') for r in rules[:3]) + (' …' if len(rules) > 3 else '') if rules else '**missed**'))
    with open(os.path.join(VERIF, 'seeded', 'INDEX.md'), 'w') as f:
        f.write('# Seeded changes (independent, property-breaking, compile + pass the existing tests)\n\n'
                'Each was written by a fresh sub-agent that saw only the property text and a scratch worktree of /repo, then confirmed by\n'
                '`devtools/try_seed.sh` / `try_seed_mod.sh` (demo passes without, fails with; existing tests unchanged). None is committed to /repo.\n'
                'Regenerate this file and every meta.json with `devtools/seed_meta.py` (applies each patch to /repo, runs the quick check, restores /repo).\n\n'
                '| id | property | change | needs, to manifest | reported by (rule @ construct) |\n|---|---|---|---|---|\n' + '\n'.join(rows) + '\n')
    if missed:
        print('MISSED:', ' '.join(missed))
        sys.exit(1)


if __name__ == '__main__':
    main()
