#!/usr/bin/env python3
"""Regenerates /verif/seeded/<id>/meta.json and /verif/seeded/INDEX.md.

For every kept seeded change: applies patch.diff to /repo's working tree, runs the property's quick check
(evidence goes to a scratch directory, never to /verif/evidence), records which rules/constructs reported,
and restores /repo (git checkout -- .).  The descriptive part (what the change is, what it needs to
manifest, how it was confirmed) is the hand-written table below.

  devtools/seed_meta.py            # all seeds
  devtools/seed_meta.py C11-1 ...  # selected seeds
Exit status 1 if a seeded change is not reported by its property's check.
"""
import json, os, subprocess, sys, tempfile, shutil, re

VERIF = '/verif'
REPO = '/repo'
GRPCGCP = ('grpcgcp', 'grpcgcp')                 # (package dir of the demo, module dir)
ME = ('grpcgcp/multiendpoint', 'grpcgcp')
PROBER = ('spanner_prober/prober', 'spanner_prober')
PMAIN = ('spanner_prober', 'spanner_prober')
CSUM = ('e2e-checksum', 'e2e-checksum')

# id: (property, where, change, needs-to-manifest)
T = {
 'C01-1': ('C01', GRPCGCP, 'Pick snapshots scRef.subConn into a local that the BIND Done callback uses',
           'a BIND in flight across a completed refresh of its channel (Pick, refresh swap, then Done); the key is bound to the removed SubConn and silently dropped'),
 'C01-2': ('C01', GRPCGCP, 're-key loops at the refresh swap test gb.scRefs[v] == scRef after oldSc was already deleted from scRefs',
           'a key bound to a channel, then a completed refresh of that channel; the loops never match so the key keeps pointing at the removed SubConn'),
 'C02-1': ('C02', GRPCGCP, 'refresh swap resets scRef.streamsCnt to 0',
           'calls in flight on a channel when its refresh completes; their Done callbacks drive the counter negative and the channel looks least busy forever'),
 'C02-2': ('C02', GRPCGCP, 'minStreamsSubConnRef skips channels with refreshing set',
           'a refresh in flight on the least busy READY channel; unbound calls go to a busier channel although the idle one is READY'),
 'C03-1': ('C03', GRPCGCP, 'newSubConnLocked re-check uses > maxSize instead of >=',
           'two saturated picks on different pickers interleaved at pool size maxSize-1 with the new SubConn READY before the second creation (check-then-create window)'),
 'C03-2': ('C03', GRPCGCP, 'a TRANSIENT_FAILURE report of the replacement clears scRef.refreshing',
           'a refresh whose replacement fails to connect, then a second unresponsive detection on the same channel: two replacements for one channel'),
 'C04-1': ('C04', GRPCGCP, 'state inheritance gb.scStates[sc] = gb.scStates[oldSc] moved after delete(gb.scStates, oldSc)',
           'refresh of a READY channel completes, later every channel leaves READY: numReady keeps a phantom and READY stays published'),
 'C04-2': ('C04', GRPCGCP, 'the Idle→Connect / Shutdown→delete switch moved before the aggregate-state bookkeeping',
           'a pool SubConn receives Shutdown while recorded READY/CONNECTING (not preceded by Idle/TF) and afterwards the remaining channels leave READY: the removed channel keeps counting and READY stays published'),
 'C05-1': ('C05', GRPCGCP, 'minStreamsSubConnRef loses its len(p.scRefs)==0 guard',
           'fallback_to_ready on, a bound key whose channel is not READY with no fallback entry, the current picker has zero READY SubConns, and the pick runs on a superseded picker that still has refs: index out of range in the fallback path'),
 'C05-2': ('C05', GRPCGCP, 'Pick tests a != nil instead of len(a) > 0 before a[0]',
           'a BOUND/UNBIND request whose key path crosses an empty repeated field: keys == []string{} non-nil, a[0] panics'),
 'C06-1': ('C06', GRPCGCP, 'getSubConnRoundRobin reads scStates through a helper that takes gb.mu.RLock while RLock is already held',
           'a writer (UpdateSubConnState) queued between the two read acquisitions: recursive RLock deadlock of every pick and every state update'),
 'C06-2': ('C06', GRPCGCP, 'getSubConnRoundRobin adds a skip loop over slots whose SubConn is unknown to scStates',
           'round-robin BIND pick on a picker obtained before the pool was emptied (all SubConns shut down): the skip loop spins forever holding the read lock'),
 'C07-1': ('C07', GRPCGCP, 'detectUnresponsive increments the deadline-exceeded counter before the "response arrived after the call started" early return',
           'deadline-exceeded calls that started before the last response: they are counted and can trigger a refresh of a responsive channel'),
 'C07-2': ('C07', GRPCGCP, 'the fallbackMap re-key loop at the swap writes gb.affinityMap[k] = sc',
           'a key that is in fallback to the refreshed channel at the moment the refresh completes: it becomes permanently bound there, fallback entry keeps the removed SubConn'),
 'C08-1': ('C08', GRPCGCP, 'the fallbackMap re-key loop at the swap writes gb.affinityMap[k] = sc (same edit as C07-2, found independently)',
           'fallback enabled, key K in temporary fallback to channel B, refresh of B completes: K is re-bound to B for good and never returns home'),
 'C08-2': ('C08', GRPCGCP, 'fallback target accepted only when its stream count is below the low watermark',
           'fallback enabled, home channel not READY, every READY channel at/above the watermark: the bound call gets ErrNoSubConnAvailable instead of the least busy READY channel'),
 'C09-1': ('C09', GRPCGCP, 'round-robin cursor advanced with gb.rrRefId++ under the read lock instead of atomic.AddUint32',
           'concurrent BIND picks (RLock is shared): lost increments, per-channel BIND counts no longer equal'),
 'C09-2': ('C09', GRPCGCP, 'early return on ctx.Err() != nil at the top of the wait loop, leaving gb.mu.RLock held',
           'a BIND pick with an already-ended context on a not-READY slot: the leaked read lock blocks every later state update'),
 'C10-1': ('C10', GRPCGCP, 'getReadySubConnRef takes gb.mu.RLock instead of Lock although it writes fallbackMap',
           'fallback enabled and two concurrent bound picks whose home channels are not READY: concurrent map writes under a shared lock'),
 'C10-2': ('C10', ME, 'recovery timer closure reads e.lastChange before taking me.Lock ("do not contend")',
           'a timer firing concurrently with setState on the same endpoint: unsynchronised read of lastChange (data race, needs -race to observe)'),
 'C11-1': ('C11', GRPCGCP, 'keysFromMessage skips nil pointer elements of a repeated field',
           'a path crossing a repeated field of message pointers with a nil element: keys of the other elements are returned and no error'),
 'C11-2': ('C11', GRPCGCP, 'the deferred recover re-panics anything that is not a *reflect.ValueError',
           'a locator naming a field promoted through a nil embedded pointer: reflect panics with a plain string, which now escapes'),
 'C12-1': ('C12', GRPCGCP, 'cond.Broadcast moved inside the successful-initialisation branch of SendMsg',
           'a RecvMsg already waiting when the first SendMsg fails to create the stream: it is never woken'),
 'C12-2': ('C12', GRPCGCP, 'creation guard becomes cs.ClientStream == nil || cs.initStreamErr != nil',
           'a second SendMsg after a failed initialisation: the underlying stream is created a second time'),
 'C13-1': ('C13', ME, 'unavailable-report guard ee.status != available → ee.status == recovering',
           'recovery timeout > 0, window run out, a repeated unavailable report on the current endpoint, then a lower-priority endpoint becomes available: Current() stays on the known-unavailable endpoint'),
 'C13-2': ('C13', ME, 'recovery timer closure looks the endpoint up by name when it fires instead of using the captured object',
           'endpoint removed and re-added under the same name while the old timer is pending (lastChange is zero for both): the stale timer ends the new endpoint\'s window early'),
 'C14-1': ('C14', ME, 'delayed-switch re-validation c.status != unavailable → c.status == available',
           'switching delay and recovery timeout > 0; B current, A available (switch delayed), SetEndpoints re-prioritises to [B, A], B reported unavailable (recovering), stale timer fires inside B\'s window and moves to the lower-priority A'),
 'C14-2': ('C14', ME, 'immediate-switch condition f.status == unavailable → f.status != available',
           'switching delay > 0, current endpoint recovering, a higher-priority endpoint reported available: Current() moves inside the very call instead of after the delay'),
 'C15-1': ('C15', GRPCGCP, 'final status-sync loop of UpdateMultiEndpoints covers only updated MultiEndpoints, not newly created ones',
           'an update adds/renames a MultiEndpoint over kept pools whose first endpoint is not READY while a later one is: the new MultiEndpoint routes to the dead endpoint until a state change'),
 'C15-2': ('C15', GRPCGCP, 'gme.defaultName assigned only when the default MultiEndpoint is newly added',
           'a reconfiguration that changes Default to an already existing MultiEndpoint (stale default; nil dereference once the old default is removed)'),
 'C16-1': ('C16', GRPCGCP, 'newly dialed pools collected in a local map and copied into gme.pools only after every dial succeeded',
           'the 2nd or later dial of one update fails: earlier pools of that update are registered nowhere, Close()/failed construction leak connections and monitor goroutines'),
 'C16-2': ('C16', GRPCGCP, 'gme.defaultName = meOpts.Default moved before validation and dialing',
           'an update that changes Default and is then rejected (empty endpoint list elsewhere or dial failure): default routing changed, or pickConn nil-dereferences a not-yet-existing default'),
 'C17-1': ('C17', GRPCGCP, 'initializeConfig clones only ChannelPool and keeps cfg.GetMethod() by reference',
           'a config with method entries passed as a Go object and mutated by the caller after the first resolver update: the balancer\'s method table changes'),
 'C17-2': ('C17', GRPCGCP, 'a cfgIsDefault flag lets a later update with a real config re-run initializeConfig',
           'first resolver update with a nil/empty config, second with a real one: configuration changes after the first update'),
 'C18-1': ('C18', PROBER, 'backoff() checks the cap before multiplying in a counted loop; the final clamp is gone',
           'retries == 8 with the production constants (200ms, 5s): 5.12578125s > max, and non-monotone at 9'),
 'C18-2': ('C18', PMAIN, 'validateFlags matches the database regex against *instance_name',
           'a valid instance with a database such as db/../../other/databases/victim: accepted, the URI has 11 segments'),
 'C18-3': ('C18', PROBER, 'server-timing prefix shortened to "gfet4t7;" and the value taken with strings.SplitN(entry, "dur=", 2)[1]',
           'a header entry starting with gfet4t7; but without dur=: index out of range panic'),
 'C19-1': ('C19', CSUM, 'Marshal returns early when len(bytes) == 0',
           'a message whose standard encoding is empty (Empty, zero-valued wrappers): returned without the checksum field'),
 'C19-2': ('C19', CSUM, 'error pass-through becomes err != nil && bytes == nil; err is later overwritten by the encode calls',
           'a wrapped codec that returns (non-nil bytes, err): the error is swallowed'),
 'C19-3': ('C19', CSUM, 'prefix proto.Buffer taken from a sync.Pool with capacity 64 and put back on return',
           'encodings of ≤ 58 bytes and a second Marshal before the first output is consumed: append writes in place, outputs alias the pooled buffer'),
 'C20-1': ('C20', GRPCGCP, 'the address push loop over gb.scRefs skips channels with refreshing set',
           'a refresh in flight plus a resolver update with a different address list before the replacement is READY: the old SubConn keeps the stale list'),
 'C20-2': ('C20', GRPCGCP, 'ResolverError publishes TRANSIENT_FAILURE and an error picker when no SubConn is READY',
           'a resolver error delivered while the whole pool is (re)connecting: calls fail instead of queueing'),
 # ---- wave 2 (authors were told the wave-1 changes and asked for something different)
 'C01-3': ('C01', GRPCGCP, 'unbindSubConn(key, sc) removes the binding only if it points at the SubConn the UNBIND call travelled on',
           'fallback on, K bound to A, A not READY, UNBIND(K) placed on fallback channel B completes OK: K stays bound and goes back to A when A recovers'),
 'C01-4': ('C01', GRPCGCP, 'bindSubConn keeps an existing binding only while its SubConn is READY (!ok || scStates[boundSC] != Ready)',
           'K bound to A, A not READY, another BIND succeeds on B with a reply carrying K: K moves to B and stays there'),
 'C01-5': ('C01', GRPCGCP, 'fallbackMap lookup hoisted in front of the READY test of the bound SubConn in getReadySubConnRef',
           'fallback on; K→A, A down, BOUND(K) creates fallback K→B, UNBIND(K) while A is down, A recovers, BIND on A returns K, BOUND(K) goes to B although A is READY'),
 'C02-3': ('C02', GRPCGCP, 'fallbackMap[key] served as a fast path before the affinityMap check in getReadySubConnRef',
           'fallback on; key in fallback, successful UNBIND (fallback entry is not cleaned), later call with that now-unknown key is pinned to the old stand-in instead of the least-loaded channel'),
 'C02-4': ('C02', GRPCGCP, 'round-robin BIND branch calls streamsIncr only if ctx.Err() == nil, the completion callback still decrements',
           'ROUND_ROBIN BIND whose context ends while waiting for a not-READY slot: count goes to -1 and never returns to zero'),
 'C02-5': ('C02', GRPCGCP, 'regeneratePicker builds the READY list in a reused balancer field (gb.readyRefs[:0])',
           'a pick through a picker superseded by a regeneration that fits in the existing capacity (a channel flaps READY→TF→READY in a pool of 3): the old snapshot is rewritten in place'),
 'C03-3': ('C03', GRPCGCP, 'getLeastBusySubConnRef decides "pool full?" with len(p.scRefs) (READY channels of the picker) instead of the pool size',
           'pool at maxSize with a non-READY channel (or a stale picker) and every READY channel at the watermark: the call is told to wait instead of being placed'),
 'C03-4': ('C03', GRPCGCP, 'initializeConfig clamps MinSize to MaxSize before the zero defaults are applied',
           'minSize > 1 with maxSize unset (still 0 at the clamp): minSize becomes 0 then 1; pool starts with 1 channel'),
 'C03-5': ('C03', GRPCGCP, 'the swap runs delete(gb.refreshingScRefs, oldSc) instead of (…, sc)',
           'a refresh completes and the refreshed channel later reconnects (READY→IDLE→CONNECTING→READY): the swap re-runs with oldSc == sc and removes the live connection'),
 'C04-3': ('C04', GRPCGCP, 'regeneratePicker keeps the current picker when it is an *errPicker and nothing is READY',
           'TRANSIENT_FAILURE was published, then a connection starts connecting with nothing READY: CONNECTING is published with the fail-fast picker'),
 'C04-4': ('C04', GRPCGCP, 'refresh() registers the replacement in scStates as Idle, and the replacement branch is flattened to "found && s == Ready"',
           'a replacement that reports CONNECTING before READY: it is counted, and the inherited state overwrites it without a decrement (phantom numConnecting)'),
 'C04-5': ('C04', GRPCGCP, 'gb.scStates[sc] = s moved after the Idle/Shutdown switch',
           'a pool connection reports SHUTDOWN (entry deleted, then re-created) and later a late non-SHUTDOWN report arrives for it: counted although removed'),
 'C05-3': ('C05', GRPCGCP, 'the Shutdown case also removes the ref from gb.scRefList',
           'ROUND_ROBIN BIND after every SubConn was shut down (stale picker + failing factory, or Shutdown of a refreshing SubConn at max size): rrRefId % 0'),
 'C05-4': ('C05', GRPCGCP, 'hasGCPCtx && (cmd == BOUND || cmd == UNBIND) lost its parentheses',
           'an UNBIND method picked with a context without the interceptor value: gcpCtx.reqMsg through a nil pointer in Pick'),
 'C05-5': ('C05', GRPCGCP, 'unbindSubConn guards the decrement with the outer ok instead of the scRefs lookup result',
           'key bound, its SubConn reports Shutdown, then an UNBIND for that key completes (in flight before, or via fallback): nil scRef dereferenced'),
 'C06-3': ('C06', GRPCGCP, '"narrow the picker lock": bound picks call getReadySubConnRef before p.mu, and its fallback branch takes p.mu under gb.mu',
           'fallback pick (gb.mu→p.mu) concurrent with a saturated least-busy pick (p.mu→gb.mu): lock-order inversion deadlock'),
 'C06-4': ('C06', GRPCGCP, 'bindSubConn "SubConn is gone" branch calls gb.unbindSubConn while holding gb.mu',
           'K bound to X, second BIND in flight on X, X shuts down, the second BIND completes with K: self-deadlock on gb.mu'),
 'C06-5': ('C06', GRPCGCP, 'maxSize re-check moved into addSubConn, which returns true ("not a failure") when the pool is full',
           'minSize above the effective maxSize (e.g. MinSize 5, maxSize default 4): enforceMinSize spins forever holding gb.mu'),
 'C07-3': ('C07', GRPCGCP, 'the swap calls scRef.gotResp() instead of resetting deCalls and lastResp (refreshCnt++ kept)',
           'two consecutive refreshes without a response in between: gotResp zeroes refreshCnt, k is capped at 1 and the 4x, 8x windows never apply'),
 'C07-4': ('C07', GRPCGCP, 'refresh() tests ref.refreshing before taking gb.mu and not again under it',
           'several qualifying completions on one channel reach refresh() before the first gets the lock: several replacements for one channel'),
 'C07-5': ('C07', GRPCGCP, 'detection enabled when !(calls == 0 && ms == 0), i.e. calls > 0 || ms > 0',
           'exactly one of the two thresholds configured: a single deadline-exceeded call (or elapsed time alone) triggers a refresh'),
 'C08-3': ('C08', GRPCGCP, 'a new fallback mapping is taken from the calling picker\'s own snapshot instead of gb.picker',
           'a keyed pick through a stale picker after its least-busy channel failed: the key is mapped to a stand-in that already left READY'),
 'C08-4': ('C08', GRPCGCP, 'stand-in purge only when the new state is TransientFailure or Shutdown',
           'stand-in leaves READY via IDLE (what a real SubConn reports on connection loss): fallback entries survive and the key stays on a non-READY channel'),
 'C08-5': ('C08', GRPCGCP, 'fallback-hit branch returns the mapped stand-in only if it is not refreshing, otherwise re-maps',
           'refresh of the stand-in in flight while another READY channel is less busy: the key moves and does not come back'),
 'C09-3': ('C09', GRPCGCP, 'round-robin wait loop condition "!= Ready" became "< Ready"',
           'the assigned slot in TRANSIENT_FAILURE (3 > Ready): the BIND call is handed a non-READY channel at once'),
 'C09-4': ('C09', GRPCGCP, 'the round-robin result is used only if its stream count is ≤ the watermark, otherwise least-busy pick',
           'assigned channel holding more streams than the watermark: its turn goes to another channel (cursor already advanced)'),
 'C09-5': ('C09', GRPCGCP, 'single-exit refactor: loop condition gains ctx.Err() == nil and the return in the ctx.Done() case is removed',
           'context ends while a writer holds gb.mu (slow UpdateClientConnState): the call must re-acquire the read lock before returning'),
 'C10-3': ('C10', GRPCGCP, 'getSubConnRoundRobin reads scRef.stateSignal in the select after RUnlock instead of a copy taken under the lock',
           'ROUND_ROBIN BIND waiting on a not-READY slot concurrent with UpdateSubConnState for that SubConn (only -race shows it)'),
 'C10-4': ('C10', GRPCGCP, 'NewMultiEndpoint builds endpoints (starting recovery timers) before taking me.Lock',
           'RecoveryTimeout of nanoseconds / many endpoints: a timer fires during construction (race on futureChange, nil map in maybeUpdateCurrent)'),
 'C10-5': ('C10', GRPCGCP, 'pickConn releases gme.mu right after the gme.mes lookup; gme.pools[me.Current()] is read unlocked',
           'an RPC routed while UpdateMultiEndpoints adds or removes a pool: concurrent map read and write'),
 'C11-3': ('C11', GRPCGCP, 'FieldByName(strings.Title(seg)) replaced by FieldByNameFunc(EqualFold)',
           'wrong-case locators, unexported field names, or two fields differing only in case'),
 'C11-4': ('C11', GRPCGCP, 'strings.Split(locator, ".") replaced by strings.FieldsFunc',
           'a locator with a leading, trailing or doubled dot plus a resolving segment: empty segments are dropped instead of being an error'),
 'C11-5': ('C11', GRPCGCP, 'field index cached in a package-level sync.Map keyed by Type.String()+"."+name',
           'two distinct struct types with the same Type.String() and different layouts, extracted one after the other'),
 'C12-3': ('C12', GRPCGCP, 'SendMsg holds the stream mutex (and defers the Broadcast) across the delegated underlying SendMsg',
           'RecvMsg issued while a send is blocked inside the underlying SendMsg (deadlock if the send needs the client to consume a response)'),
 'C12-4': ('C12', GRPCGCP, 'unary interceptor returns ctx.Err() instead of the invoker\'s error when the context is done',
           'the invoker returns a non-nil status error and the context is already cancelled/expired'),
 'C12-5': ('C12', GRPCGCP, 'helper withGCPContext returns the context unchanged if it already carries a *gcpContext',
           'a nested call whose context derives from an intercepted enclosing call: the picker sees the outer call\'s messages'),
 'C13-3': ('C13', ME, 'SetEndpoints rebuilds the map and copies surviving endpoints by value',
           'SetEndpoints during the current endpoint\'s recovery window: the pending timer marks the orphaned object, the copy stays recovering forever'),
 'C13-4': ('C13', ME, 'switchFromTo returns early when me.future == t.id ("already scheduled"); the timer clears me.future',
           'delayed switch to A pending and the current endpoint becomes known-unavailable before the delay elapses: no immediate switch'),
 'C13-5': ('C13', ME, 'delayed-switch closure falls back to the captured target when me.endpoints[me.future] is missing',
           'SetEndpoints drops the pending target before the delay elapses: Current() is set to an endpoint that is not in the list'),
 'C14-3': ('C14', ME, 'outdated-timer check e.lastChange != stateChange replaced by e.status != recovering',
           'recovery timer expired but waiting for the mutex while "available" then "unavailable" reports are processed: the stale callback closes the new window'),
 'C14-4': ('C14', ME, '"switch already pending" early return on me.future == t.id; future cleared only when the timer actually switches',
           'delayed switch scheduled, target goes down before the timer (no-op), later comes back: every later switch to it is swallowed'),
 'C14-5': ('C14', ME, 'SetEndpoints returns before maybeUpdateCurrent when the current endpoint is kept and not demoted',
           'three endpoints, a replacement list that moves a lower available endpoint above the (index-preserved) current one: no switch is ever scheduled'),
 'C15-3': ('C15', GRPCGCP, 'UpdateMultiEndpoints skips me.SetEndpoints when the endpoints equal the last-applied slice (the caller\'s slice itself is remembered)',
           'the caller edits its Endpoints slice in place and updates again: pools follow the new contents, the MultiEndpoint does not (nil pool dereference)'),
 'C15-4': ('C15', GRPCGCP, 'monitoredConn.notify uses TryRLock and drops the notification when UpdateMultiEndpoints holds the lock',
           'a pool turns READY while an update holds the write lock, after the sync loop read its state: no MultiEndpoint ever learns it recovered'),
 'C15-5': ('C15', GRPCGCP, 'pickConn looks up the (possibly absent) context name directly: absent is treated as name ""',
           'a non-default MultiEndpoint named "" plus a call without a name'),
 'C16-3': ('C16', GRPCGCP, 'the "remove obsolete pools" loop moved to a helper that is deferred right after validPools is built',
           'an update whose dial fails and which also drops an endpoint in use: the rejected update still closes and deletes that pool'),
 'C16-4': ('C16', GRPCGCP, 'multiEndpoint.future becomes *endpoint; the delayed-switch timer uses it without looking it up in the table',
           'pending switch to an endpoint that an accepted update removes within the delay: current becomes the removed endpoint, pickConn finds no pool'),
 'C16-5': ('C16', GRPCGCP, 'Close() returns early when len(gme.mes) == 0',
           'construction failing at the 2nd or later dial: pools exist but no MultiEndpoint yet, the cleanup Close() does nothing'),
 'C17-3': ('C17', GRPCGCP, 'maxSize default applied when GetMaxSize() < GetMinSize() instead of == 0',
           '0 < maxSize < minSize (e.g. min 3 / max 2): the supplied maxSize is replaced by 4'),
 'C17-4': ('C17', GRPCGCP, 'ParseConfig uses protojson.UnmarshalOptions{DiscardUnknown: true}',
           'JSON with an unknown or misspelled field at any level is accepted and the setting silently dropped'),
 'C17-5': ('C17', GRPCGCP, 'the gcpConfig clone is taken in UpdateMultiEndpoints instead of the constructor',
           'a later UpdateMultiEndpoints with a nil/different GRPCgcpConfig, then GCPConfig()'),
 'C18-4': ('C18', PROBER, 'parseT4T7Latency scans append(headers.Get(key), trailers.Get(key)...)',
           'both present, the header\'s server-timing without a gfet4t7 entry and the trailer with one: the trailer is used as a fallback'),
 'C18-5': ('C18', PMAIN, 'qps check rewritten by De Morgan into ordered comparisons (*qps <= 0 || *qps > 1000 || …)',
           '-qps=NaN exactly: every comparison is false, NaN accepted, interval = MinInt64'),
 'C18-6': ('C18', PROBER, 'resource URIs composed with path.Join instead of fmt.Sprintf',
           'a project/instance/database that is "", "." or ".." (all match the validation regexes): segments collapse'),
 'C19-4': ('C19', CSUM, 'helper checksumPrefix(v) marshals the message a second time to compute the CRC',
           'a message with a map field of ≥ 2 entries (non-deterministic map order): checksum and payload come from different encodings'),
 'C19-5': ('C19', CSUM, 'leading field-2047/fixed32 prefixes are stripped from the wrapped encoding before the CRC',
           'a message whose own unknown fields begin with field 2047 wire type 5 (e.g. a relayed Empty): 6 payload bytes dropped'),
 'C19-6': ('C19', CSUM, 'log helper abbreviate(b) = append(b[:512], "..."...) called between the CRC and the final copy',
           'a standard encoding of ≥ 515 bytes: payload bytes 512..514 overwritten in place'),
 'C20-3': ('C20', GRPCGCP, 'refresh() releases gb.mu around NewSubConn (addresses read into a local first)',
           'a resolver update with a different list while refresh() is inside NewSubConn: the replacement is in no container and keeps the old list'),
 'C20-4': ('C20', GRPCGCP, 'ResolverError sets gb.addrs = nil under the lock',
           'a resolver error followed by pool growth or a refresh before the next update: NewSubConn with an empty list'),
 'C20-5': ('C20', GRPCGCP, 'UpdateAddresses pushed only when a helper comparing list length and Addr strings reports a change',
           'consecutive updates with identical Addr strings but different ServerName/Attributes'),
 # ---- wave 3 (authors were told waves 1-2; asked to hide defects in refactorings, other functions, Go subtleties)
 'C01-6': ('C01', GRPCGCP, 'batch helper bindSubConns(keys, sc): the "already bound" case returns instead of continuing', 'a BIND reply with keys [k1, k2] where k1 is already bound: k2 is never bound'),
 'C01-7': ('C01', GRPCGCP, 'Done callback body extracted into applyAffinityCommand; the info.Err guard now covers only the BIND case', 'an UNBIND(K) that fails: K is unbound although the call failed'),
 'C01-8': ('C01', GRPCGCP, 'getSubConnRef accepts the bound slot only if it is in the picker\'s own snapshot, else falls through to least busy', 'a call for K on a stale picker published while K\'s channel was not READY, after the channel became READY again'),
 'C02-6': ('C02', GRPCGCP, 'gcpPicker.mu becomes an RWMutex and picks take only RLock', 'two overlapping unkeyed picks through one picker: both see the same counts and choose the same channel'),
 'C02-7': ('C02', GRPCGCP, 'Done returns early unless CompareAndSwap on a per-RPC "completed" flag in gcpContext succeeds', 'a retried RPC (two placements with the same context): the second completion does not decrement'),
 'C02-8': ('C02', GRPCGCP, 'affinityDecr decrements streamsCnt instead of affinityCnt', 'a successful UNBIND of a bound key: the channel\'s stream count drops by two, goes negative'),
 'C03-6': ('C03', GRPCGCP, 'Done decrements only if scRef.getSubConn() still equals the SubConn captured at pick time', 'a refresh completing while calls are in flight: their completions are never subtracted, the pool grows without saturation'),
 'C03-7': ('C03', GRPCGCP, 'UpdateClientConnState: "if pool empty → one channel" became "if len < MinSize → enforceMinSize" without return', 'a pool channel shut down, then a second resolver update: topped up to minSize without a pick or saturation'),
 'C03-8': ('C03', GRPCGCP, 'newSubConn scans for Idle/Connecting under RLock, then takes Lock to create', 'two saturated picks on different pickers in the RUnlock→Lock gap: a second channel while the first new one is still Idle'),
 'C04-6': ('C04', GRPCGCP, 'swap deletes refreshingScRefs[oldSc] instead of [sc]', 'a completed refresh whose replacement later reports again: non-READY reports swallowed, a later READY swaps it with itself'),
 'C04-7': ('C04', GRPCGCP, 'evaluation tail extracted into currentState(); fall-through returns Idle instead of TransientFailure', 'all three counters zero after something was published (every channel IDLE / last one shut down)'),
 'C04-8': ('C04', GRPCGCP, 'regeneratePicker decides fail-fast from its own scan (treating Idle/Connecting as pending) instead of gb.state', 'TRANSIENT_FAILURE published while another channel is recorded IDLE: queueing picker with TRANSIENT_FAILURE'),
 'C05-6': ('C05', GRPCGCP, 'the deferred closure calls a helper that calls recover() (one frame too deep)', 'a message with a key path promoted through a nil embedded pointer: the reflect panic escapes Pick / Done'),
 'C05-7': ('C05', GRPCGCP, 'refresh single-exit: the (nil) result of a failed NewSubConn is registered in refreshingScRefs', 'factory failure during a refresh, then a resolver update: UpdateAddresses on a nil interface'),
 'C05-8': ('C05', GRPCGCP, 'rrRefId becomes int32 and the index is int(AddInt32(...)) % len', 'the 2^31-th round-robin BIND: negative remainder indexes scRefList'),
 'C06-6': ('C06', GRPCGCP, 'fast path "if ctx.Err() != nil { return scRef }" at the head of the round-robin wait loop (RLock held)', 'context already done at the loop head: the read lock leaks, every writer blocks forever'),
 'C06-7': ('C06', GRPCGCP, 'bindSubConns locks gb.mu with defer Unlock inside the per-key loop', 'a BIND reply with two or more keys: second iteration self-deadlocks'),
 'C06-8': ('C06', GRPCGCP, 'detectUnresponsive holds scRef.mu.RLock across p.gb.refresh (ref.mu → gb.mu) while the swap takes gb.mu → ref.mu', 'a threshold-passing completion on X concurrent with X\'s replacement turning READY: lock-order inversion'),
 'C07-6': ('C07', GRPCGCP, 'swap deletes refreshingScRefs[oldSc] instead of [sc] (found independently for C07)', 'completed refresh, replacement reconnects later: RemoveSubConn on the live connection, spurious refreshCnt++'),
 'C07-7': ('C07', GRPCGCP, 'client-deadline test moved to a helper ending in "dl, _ := ctx.Deadline(); return !dl.After(now)"', 'a call without client deadline ending with a server-sent DEADLINE_EXCEEDED "context deadline exceeded": counted as unresponsive'),
 'C07-8': ('C07', GRPCGCP, 'swap resets moved into (*subConnRef).refreshed(sc), which also zeroes streamsCnt', 'calls in flight across the swap: the count restarts at 0 and goes negative'),
 'C08-6': ('C08', GRPCGCP, 'picker fast path: with fallback enabled and exactly one READY channel a keyed call gets it without consulting the balancer', 'K in fallback while B is the only READY channel, then C becomes READY with fewer streams: no stand-in was recorded, K moves'),
 'C08-7': ('C08', GRPCGCP, 'swap records the replacement\'s state as s (READY) instead of inheriting the old connection\'s state', 'refresh of the home channel whose old connection left READY before the replacement connects: no picker republished, key does not go home'),
 'C08-8': ('C08', GRPCGCP, 'bindSubConn deletes fallbackMap[bindKey] also when the key was already bound', 'K in fallback on B and a BIND reply carrying K again: the stand-in mapping is wiped, K moves'),
 'C09-6': ('C09', GRPCGCP, 'helper scRefReady(scRef) takes gb.mu.RLock itself and is called with RLock already held', 'a writer arriving between the outer and inner RLock of one BIND pick: deadlock'),
 'C09-7': ('C09', GRPCGCP, 'Build initialises scRefList from a package-level slice with spare capacity', 'a second grpc_gcp balancer in the same process: both append into one backing array, slots overwritten'),
 'C09-8': ('C09', GRPCGCP, 'nextRoundRobinIndex computes int(int32(cursor)) % int32(n)', 'the 2^31-th BIND call: negative index'),
 'C12-6': ('C12', GRPCGCP, 'RecvMsg calls cs.ctx.Err() with the stream mutex released, then goes on to cond.Wait()', 'first SendMsg stores the stream and broadcasts in that gap: lost wake-up, RecvMsg blocks although the stream exists'),
 'C12-7': ('C12', GRPCGCP, 'one gcpContext per stream; SendMsg overwrites its reqMsg on every send', 'a later pick with the stream\'s context (retry): the picker sees the latest message, not the first'),
 'C12-8': ('C12', GRPCGCP, 'waker goroutine replaced by context.AfterFunc(ctx, cs.cond.Broadcast) — broadcast without the mutex', 'cancellation between RecvMsg\'s ctx.Err() test and cond.Wait(): the broadcast is lost, RecvMsg never returns'),
 'C13-6': ('C13', ME, 'the pending timer is stopped in scheduleUnavailable instead of setState', 'unavailable then available within one clock reading: the stale timer (same stamp) later marks the available endpoint unavailable'),
 'C13-7': ('C13', ME, 'SetEndpoints calls maybeUpdateCurrent only when a "changed" flag is set (not for pure permutations of non-available endpoints)', 'a reorder moving the recovering current below an available endpoint whose index is unchanged'),
 'C13-8': ('C13', ME, 'scheduleUnavailable decides at arming time whether the timer will re-evaluate current', 'an endpoint that becomes current (fallback to first) after its timer was armed: marked unavailable without re-evaluation'),
 'C14-6': ('C14', ME, 'one shared recovery timer for all endpoints added by a SetEndpoints call', 'two endpoints added at once, one reports available: setState stops the shared timer, the other stays recovering forever'),
 'C14-7': ('C14', ME, 'SetEndpoints rebuilds the map from struct copies (found independently for C14)', 'list update inside a recovery window: the timer expires an orphan, the copy stays recovering'),
 'C14-8': ('C14', ME, 'recovery timer looks the endpoint up by id (found independently for C14)', 'endpoint removed and re-added before the old timer fires: fresh window closed early'),
 'C15-6': ('C15', GRPCGCP, 'one context.WithCancel shared by every pool dialed in the same update', 'an update drops one pool of a batch: stopping its monitor stops the monitors of the kept siblings; their later outages are never reported'),
 'C15-7': ('C15', GRPCGCP, 'helper pickME releases the read lock before Current() and the pools lookup', 'an update removing the picked MultiEndpoint and its pool in the gap: nil pool dereference'),
 'C15-8': ('C15', GRPCGCP, 'meKey declared with the interceptor\'s key type: meKey == gcpKey', 'a call on a context derived from one that went through a GCP interceptor: the MultiEndpoint name is shadowed'),
 'C16-6': ('C16', GRPCGCP, 'pickConn: Current() and the pools lookup run after the read lock was released (helper pickME)', 'accepted update dropping the RPC\'s current endpoint between the two: nil dereference'),
 'C16-7': ('C16', GRPCGCP, 'default-name check accepts a default that is only known from the previous configuration', 'update {Default: X} without X in MultiEndpoints: accepted, X deleted, defaultName dangling'),
 'C16-8': ('C16', GRPCGCP, 'gme.mu released around dialFunc in the add-missing-pools loop', 'Close or a second update during the dial of a new endpoint: pool registered after Close, or pools removed that the other update keeps'),
 'C16-9': ('C16', GRPCGCP, 'Close shuts pools down in goroutines capturing the loop variable (go.mod says go 1.12)', 'two or more pools: every goroutine closes the last pool; the others stay open with their monitors'),
 'C17-6': ('C17', GRPCGCP, 'makeOpts appends to the caller\'s option slice instead of a copy', 'a base []DialOption with spare capacity used for two GCPMultiEndpoints: the second overwrites the first\'s service config'),
 'C17-7': ('C17', GRPCGCP, 'method table helper tests hasSection(proto.Message) — a nil *AffinityConfig in an interface is non-nil', 'a method entry with names but no affinity section: its names are mapped (to a nil config)'),
 'C17-8': ('C17', GRPCGCP, 'ParseConfig also applies the pool defaults to the parsed message', 'JSON with a channelPool section lacking minSize/maxSize/watermark: the parser no longer round-trips'),
 'C20-6': ('C20', GRPCGCP, 'defer gb.updateReplacements(gb.addrs) at the top of UpdateClientConnState (argument evaluated before the store)', 'refresh in flight and a resolver update with a different list: replacements get the previous list'),
 'C20-7': ('C20', GRPCGCP, 'ResolverError records the error; newSubConnLocked refuses growth while it is set', 'resolver error, then demand for growth before the next update: calls stay queued'),
 'C20-8': ('C20', GRPCGCP, '"pool empty → create one, return" merged into "len < MinSize → enforceMinSize, return"', 'MinSize ≥ 2, a channel shut down, next update with a new list: the early return skips the push loops for the survivors'),
 # ---- wave 4 (defects hidden inside larger refactorings)
 'C01-9': ('C01', GRPCGCP, "UpdateSubConnState split into helpers; the 'home recovered' prune deletes from affinityMap instead of fallbackMap", 'a bound key whose channel flaps (leaves READY and returns): the binding is wiped without UNBIND'),
 'C01-10': ('C01', GRPCGCP, "extracted completeRefreshLocked seeds the replacement's state with READY instead of the old connection's state", "refresh whose old connection left READY before the replacement connects, pool of one: no picker is republished, the key's READY channel is unreachable"),
 'C02-9': ('C02', GRPCGCP, 'Pick split into helpers; getSubConnRef lost the boundKey != "" guard', 'a BIND whose reply carries an empty key, then unkeyed calls with two READY channels: all pinned to one channel'),
 'C02-10': ('C02', GRPCGCP, 'extracted completeRefresh unregisters refreshingScRefs[oldSc] instead of [sc]', 'a refreshed channel later leaves READY: its reports are swallowed, it stays in every later snapshot'),
 'C03-9': ('C03', GRPCGCP, "pool size kept in an atomic counter; the swap's forget/re-insert pair decrements without incrementing", 'k completed refreshes: the size check sees size−k and the pool grows beyond maxSize'),
 'C03-10': ('C03', GRPCGCP, 'refresh single-exit: defer endRefreshAttempt(ref, registered) evaluates registered at the defer statement', 'a second unresponsive detection before the replacement is READY: several replacements for one channel'),
 'C04-9': ('C04', GRPCGCP, 'Shutdown handling extracted into forgetSubConn, which publishes only if the old state was READY', 'the last CONNECTING connection is shut down: aggregate moves to TRANSIENT_FAILURE with no publish'),
 'C04-10': ('C04', GRPCGCP, 'extracted completeRefresh records the replacement as READY when the old connection is already gone', 'old connection SHUTDOWN before the replacement is READY: replacement uncounted, later numReady wraps'),
 'C05-9': ('C05', GRPCGCP, 'extracted completeRefresh hands the slot over only if scRefs[oldSc] == scRef but transfers the state unconditionally', 'old connection SHUTDOWN during a refresh, replacement READY, then any Pick: nil slot in the snapshot'),
 'C05-10': ('C05', GRPCGCP, 'detectUnresponsive split; clientDeadlineExceeded calls rpcErr.Error() without the nil test', 'a successful call completing after its context deadline: nil error dereferenced in Done'),
 'C06-9': ('C06', GRPCGCP, 'shared createSubConn helper logs the pool size through the locking accessor while gb.mu is held', 'any NewSubConn failure: self-deadlock on gb.mu'),
 'C06-10': ('C06', GRPCGCP, 'lock()/rlock() helpers returning the unlock function; unbindSubConn defers gb.lock() without calling the result', 'one successful UNBIND completion: gb.mu is left locked for ever'),
 'C07-9': ('C07', GRPCGCP, 'refresh with a deferred reset of refreshing on err != nil; `if sc, err := …` shadows err', 'a failed creation of the replacement: the channel can never be refreshed again'),
 'C07-10': ('C07', GRPCGCP, 'replacementReady switch: case Idle calls Connect() and falls out to `return true`', 'a replacement reporting IDLE (after a failed first attempt): the swap happens before READY'),
 'C08-9': ('C08', GRPCGCP, 'getReadySubConnRef flattened; the fallback entry is consulted before the home state', 'unbind + re-bind of a key while it is in fallback: served from the stale stand-in although the new home is READY'),
 'C08-10': ('C08', GRPCGCP, 'regeneratePicker returns the error picker without storing it in gb.picker', 'total outage, a keyed pick through a pre-outage picker records a non-READY stand-in that is never purged'),
 'C09-9': ('C09', GRPCGCP, 'extracted adoptReplacement transfers the state only if the old connection still has one', 'old connection SHUTDOWN during a refresh: the READY replacement has no state record, round-robin callers wait for ever'),
 'C09-10': ('C09', GRPCGCP, 'enforceMinSize fills a pre-sized batch and appends all of it, nil tail included, when a creation fails', 'a failed NewSubConn while the initial pool is built: phantom nil slots in the round-robin list'),
 'C12-9': ('C12', GRPCGCP, 'cond replaced by a ready channel; RecvMsg selects on ready and ctx.Done() without priority', 'stream exists and the context is done: RecvMsg returns Canceled itself half of the time instead of delegating'),
 'C12-10': ('C12', GRPCGCP, "SendMsg split; the merged exit returns the sticky initStreamErr instead of this attempt's error", 'a first creation fails, a later SendMsg creates the stream: it returns the old error and never sends'),
 'C13-9': ('C13', ME, 'scheduleUnavailable made variadic; the timer closures capture the loop variable (go 1.12 semantics)', "two endpoints added in one SetEndpoints call: only the last one's recovery window ever ends"),
 'C13-10': ('C13', ME, 'SetEndpoints single exit: the empty-list check only sets err, the removal helper still runs', 'SetEndpoints(nil): rejected, but every endpoint is deleted; the next report panics or mis-routes'),
 'C14-9': ('C14', ME, 'delayed-switch callback re-validates against the endpoint captured at scheduling time instead of the current one', 'a pending switch overtaken by two immediate switches: the timer moves current from an available higher-priority endpoint down'),
 'C14-10': ('C14', ME, 'setEndpointAvailability as a switch loses the already-unavailable case', 'a repeated unavailable report after the window expired re-opens a full recovery window'),
 'C15-9': ('C15', GRPCGCP, 'notify reads the state itself; monitor waits on a second GetState()', 'a transition between the two reads is never reported until the next change'),
 'C15-10': ('C15', GRPCGCP, 'obsolete pools shut down in deferred closures capturing the loop variable (go 1.12 semantics)', 'two or more pools obsolete in one update: one is closed N times, the others leak with their monitors'),
 'C16-10': ('C16', GRPCGCP, "switchFromTo: the 'already scheduled' test is merged into the first guard, before the immediate-switch test", 'a pending delayed switch and an update that removes the current endpoint: Current() names a pool that was deleted'),
 'C16-11': ('C16', GRPCGCP, 'shared shutdownPool helper returns early when Close() fails, before stopMonitoring', 'a pool whose ClientConn.Close fails (already closed): its monitor goroutine outlives Close'),
 'C17-9': ('C17', GRPCGCP, "effectiveAPIConfig ensures the ChannelPool section before proto.Clone, i.e. on the caller's message", "a Go config object without a pool section: the caller's proto gains an empty channel_pool"),
 'C17-10': ('C17', GRPCGCP, 'UpdateClientConnState re-initialises when gb.cfg == nil || len(gb.scRefs) == 0', 'a later update while the pool is empty (all creations failed or all shut down): the configuration is replaced'),
 'C20-9': ('C20', GRPCGCP, 'gb.addrs store moved into helpers that the emptied-pool branch does not call', 'a non-first update that finds the pool empty: the connection is created from the previous list'),
 'C20-10': ('C20', GRPCGCP, 'push loops replaced by a walk over scRefList with a replacementOf lookup that never breaks', 'two refreshes in flight and a resolver update: a replacement is skipped and takes over with the old list'),
 # ---- wave 5 (as wave 4; authors were told the descriptions of all earlier changes for their property)
 'C05-11': ('C05', GRPCGCP, 'recordSubConnState helper stores scStates[sc] = s before the caller tests whether the SubConn is known', 'two or more late reports (ending READY) for a removed/unknown SubConn, then a Pick: nil slot in the READY snapshot'),
 'C05-12': ('C05', GRPCGCP, 'regeneratePicker refills the backing array of the previous READY snapshot and nils the unused tail', 'READY set shrinks without TRANSIENT_FAILURE, then a Pick on the superseded picker: nil slot dereferenced'),
 'C10-6': ('C10', GRPCGCP, 'markResponsive helper resets deCalls with a plain store under ref.mu (deCallsInc uses atomic.AddUint32)', 'a response/refresh completion concurrent with a deadline-exceeded completion on the same channel (demo needs -race)'),
 'C10-7': ('C10', GRPCGCP, 'notify obtains gme.mes through an accessor that returns the map itself and ranges over it with no lock held', 'a monitor notification concurrent with UpdateMultiEndpoints: map iteration vs map write (demo needs -race)'),
 'C11-6': ('C11', GRPCGCP, 'keysFromMessage as a stateful keyWalker; the empty-repeated-field early exit does not restore depth', 'nested repeated fields where an element with an empty inner list is followed by a sibling: wrong keys or spurious error'),
 'C11-7': ('C11', GRPCGCP, 'leaf kind checked once (found[0]) for the whole fan-out; others converted with reflect.Value.String()', 'a fan-out whose later values are not strings (interface/oneof leaves): garbage keys instead of an error'),
 'C12-11': ('C12', GRPCGCP, 'SendMsg split; the creation error is stored and broadcast before cs.Lock()', 'stream creation fails while RecvMsg is between its state check and cond.Wait: lost wake-up'),
 'C12-12': ('C12', GRPCGCP, 'RecvMsg single exit applies status.FromContextError to the creation error too', 'a creation error with a status code: RecvMsg returns codes.Unknown instead of the creation error'),
 'C13-11': ('C13', ME, 'recovering current: switch target is the first available endpoint above it found while ranging over the map', 'a reorder that moves two available endpoints above a recovering current in one SetEndpoints call'),
 'C13-12': ('C13', ME, "completeSwitch checks the target's availability only when the current endpoint is still usable", 'delayed switch pending, target becomes unavailable and so does current: Current() moves to an unavailable endpoint while another is available'),
 'C16-12': ('C16', GRPCGCP, 'MultiEndpoint.current becomes *endpoint; the "let current recover" guard loses its exists test', 'an accepted update removes a recovering current endpoint while a lower-ranked one is available: Current() names a deleted pool'),
 'C16-13': ('C16', GRPCGCP, 'checkOptions merges the reject-empty-list loop into the collect loop and overwrites err each iteration', 'an update with an empty MultiEndpoint that is not the last in map order: accepted, pools of the kept configuration deleted'),
 'C18-7': ('C18', PROBER, 'payloadHash helper takes a hash.Hash from a sync.Pool and resets it only on the error path', 'the second and later payloads of a process: hash covers earlier payloads too'),
 'C18-8': ('C18', PROBER, 'parseT4T7Latency single exit: a malformed first gfet4t7 entry is remembered and scanning continues', 'a malformed gfet4t7 entry followed by a well-formed one: the later value is reported'),
 'C19-7': ('C19', CSUM, 'Marshal computes the CRC with a digest shared by the codec value; the mutex covers only its lazy creation', 'two overlapping Marshal calls on one codec: checksum of another payload (demo uses 16 goroutines)'),
 'C19-8': ('C19', CSUM, 'Unmarshal verifies the checksum, looking for the field in the last six bytes first', 'a payload whose last six bytes look like field 2047/fixed32 (inside a bytes field): wrongly rejected'),
 # ---- wave 6 (as waves 4/5: the defect is one wrong detail inside a larger clean-up refactoring)
 'C01-11': ('C01', GRPCGCP, 'bound slot from getReadySubConnRef now also goes through the watermark / pool-growth logic (merged candidateSubConnRef + admitOrGrow)', 'K bound to a READY channel carrying ≥ watermark streams while the pool is below maxSize: the call for K is told to wait and the pool grows'),
 'C01-12': ('C01', GRPCGCP, 'getAndIncrementSubConnRef as a switch; the keyed case requires cmd == BOUND, UNBIND calls fall to least busy', 'an UNBIND for a bound key whose channel is not the least busy READY one (or not READY, fallback off)'),
 'C02-11': ('C02', GRPCGCP, 'detectUnresponsive replaced by serverResponded()+callFinished() with the decrement at the end; the stale-deadline early return exits before it', 'a client-deadline completion whose call started before another response on the same channel: the count stays one too high'),
 'C02-12': ('C02', GRPCGCP, "getLeastBusySubConnRef filters below-watermark channels with p.scRefs[:0] + append (shares the snapshot's array)", 'some but not all channels saturated, a saturated one listed first: it is lost from that picker for good'),
 'C03-11': ('C03', GRPCGCP, "extracted completeRefresh records the replacement with the reported state (READY) instead of the old connection's state", 'refresh of a channel that left READY before its replacement connected: READY channel missing from the picker, pool grows although it is idle'),
 'C03-12': ('C03', GRPCGCP, 'minStreamsSubConnRef as an index loop that never updates the running minimum', 'three or more READY channels ordered high, low, middle around the watermark: growth although a channel is below the watermark / call not on the least busy'),
 'C04-11': ('C04', GRPCGCP, 'tail of UpdateSubConnState: the becameReady/lostReady arm builds newGCPPicker directly; only the failing-flip arm goes through regeneratePicker', 'last READY connection leaves READY with nothing CONNECTING: TRANSIENT_FAILURE published with a queueing picker'),
 'C04-12': ('C04', GRPCGCP, 'recordTransition via counter(state) *uint64 and aggregate(); aggregate tests numTransientFailure before numConnecting', 'two connections, none READY, one TF and one CONNECTING: TRANSIENT_FAILURE published although a connection is connecting'),
 'C06-11': ('C06', GRPCGCP, 'enforceMinSize as a flag loop; `if failed := !gb.addSubConn(); failed { continue }` shadows the flag', 'first UpdateClientConnState with a failing connection factory: endless loop holding gb.mu'),
 'C06-12': ('C06', GRPCGCP, 'getReadySubConnRef fallback path moved to fallbackSubConnRef with explicit Unlocks; the errPicker exit returns without unlocking', 'fallback on, bound key on a non-READY channel, aggregate TF, pick on a stale gcpPicker: gb.mu stays write-locked'),
 'C07-11': ('C07', GRPCGCP, 'Pick split (pickedCall struct, resolveAffinity, callDone); the start time is stamped before getAndIncrementSubConnRef', 'a round-robin BIND pick that waits in Pick while another call gets a response on that channel, then ends with a client deadline: not counted'),
 'C07-12': ('C07', GRPCGCP, 'createSubConn helper + newSubConnRef constructor that no longer sets lastResp', 'the first unresponsive_calls completions of a new channel are client deadlines: refreshed at once whatever the detection period'),
 'C08-11': ('C08', GRPCGCP, 'the two fallback purge loops merged into dropFallbackLocked with an exclusive switch (home case first)', 'a key re-bound to its former stand-in, which then leaves READY: the stand-in purge is skipped, calls go to the non-READY channel'),
 'C08-12': ('C08', GRPCGCP, 'swap extracted to finishRefreshLocked; one loop over affinityMap also fixes fallbackMap[k]', 'a key unbound while in fallback (fallback entry without affinity entry), stand-in refreshed, key re-bound: stale stand-in, no SubConn available'),
 'C09-11': ('C09', GRPCGCP, 'Pick: the empty-picker check merged with scRef == nil and moved after getAndIncrementSubConnRef', 'a BIND pick on an empty picker while the aggregate is not TF: cursor advanced, slot incremented, then ErrNoSubConnAvailable'),
 'C09-12': ('C09', GRPCGCP, 'initializeConfig split; affinityByMethod uses break instead of continue for an entry without affinity section', 'a config with an affinity-less method entry before the BIND method entry: BIND calls go least busy'),
 'C14-11': ('C14', ME, 'setState+scheduleUnavailable merged into transition(); the pending timer is stopped only when an endpoint starts recovering', 'unavailable then available within one clock reading: the leftover timer marks the available endpoint unavailable'),
 'C14-12': ('C14', ME, 'future becomes *endpoint; delayedSwitch (method value) no longer re-resolves the target by name', 'pending delayed switch whose target is dropped (or replaced) by SetEndpoints before the timer fires'),
 'C15-11': ('C15', GRPCGCP, 'UpdateMultiEndpoints as phases with a single exit; removeObsoletePools and syncAvailability also run after a failed dial', 'an update whose dial fails and which drops an endpoint the current MultiEndpoints still use: its pool is closed and deleted'),
 'C15-12': ('C15', GRPCGCP, 'upsertMultiEndpoints returns obsolete = len(mes) − len(opts) computed before the insertions; prune runs only if obsolete > 0', 'an update that removes k MultiEndpoints and adds ≥ k new names (a rename): the stale MultiEndpoint stays routable'),
 'C17-11': ('C17', GRPCGCP, "methodAffinities pre-filters entries in place (entries[:0] + append) on the clone's own Method slice", 'a method entry without affinity section placed before one that has it: gb.cfg.Method no longer equals the supplied list'),
 'C17-12': ('C17', GRPCGCP, 'decodeAPIConfig wraps the protojson error in an if-scoped err that shadows the named result: returns (nil, nil)', 'any JSON that protojson rejects: accepted with a nil ApiConfig, balancer runs on defaults'),
 'C20-11': ('C20', GRPCGCP, 'the two push loops merged into pushAddrs(map, addrs) walking the VALUES and using scRef.subConn', 'refresh in flight and a resolver update: the old SubConn is pushed twice, the replacement keeps the old list'),
 'C20-12': ('C20', GRPCGCP, 'addrs threaded as a parameter; newSubConn reads gb.addrs before taking gb.mu', 'picker-initiated growth that snapshots the list, blocks behind a resolver update and then creates from the stale snapshot'),
 # ---- wave 7 (as wave 6, for the eight properties not in wave 6)
 'C05-13': ('C05', GRPCGCP, 'UpdateClientConnState clean-up: `cfg, err := balancerConfigFrom(ccs)` inside the if shadows err; the foreign-config error is never returned', 'first resolver update with a non-nil BalancerConfig of a foreign type: gb.cfg stays nil, newSubConnLocked dereferences it'),
 'C05-14': ('C05', GRPCGCP, 'Pick split into a pickedCall struct with methods; bindReplyKeys lost the interceptor-context test and evaluates c.gcpCtx.replyMsg as an argument', 'a successful BIND call picked with a context that has no interceptor value: nil dereference in Done'),
 'C10-8': ('C10', GRPCGCP, 'refresh completion extracted (completeRefresh, refreshed, remapSubConn); ref.refreshCnt++ moved after ref.mu.Unlock()', 'a replacement turning READY concurrently with an RPC completion on the same channel (gotResp/getRefreshCnt): -race'),
 'C10-9': ('C10', GRPCGCP, 'SendMsg split into stream(m): the deferred closure that records initStreamErr and broadcasts is registered before cs.Lock()/defer cs.Unlock()', 'stream creation fails concurrently with a RecvMsg on the same stream: initStreamErr written without the mutex: -race'),
 'C11-8': ('C11', GRPCGCP, 'keysFromMessage restructured; the hand-written dereference became reflect.Indirect (pointers only)', 'a path reaching or crossing an interface-typed field: error instead of the keys'),
 'C11-9': ('C11', GRPCGCP, 'dereference moved to the callers (fieldByPathSegment returns the field already dereferenced): the Slice test runs after it', 'a singular field of type *[]T or an interface holding a []T: fanned out like a repeated field, keys instead of an error'),
 'C12-13': ('C12', GRPCGCP, 'RecvMsg split into awaitStream() and wakeOnDone(); `defer cancel()` of the derived context sits in the helper', 'RecvMsg asleep in cond.Wait when the call context ends and no SendMsg follows: never woken'),
 'C12-14': ('C12', GRPCGCP, 'SendMsg via streamForSend with named results: cs.ClientStream = stream is stored also when creation failed', 'creation fails with a non-nil stream value next to the error, then another SendMsg: sends on the broken stream (panic)'),
 'C13-13': ('C13', ME, 'SetEndpoints via retain(ids) (added []string); new endpoints get priority = index within `added`', 'an endpoint appended behind existing ones and later available while a higher one is current: Current() jumps to it'),
 'C13-14': ('C13', ME, 'SetEndpoints around index map[string]int; membership tested with `index[id] != 0`', 'a surviving endpoint listed first is deleted and re-created: its state / recovery window is lost'),
 'C16-14': ('C16', GRPCGCP, 'UpdateMultiEndpoints split; dropObsoleteMEs returns early when the number of MultiEndpoints before the insertions ≤ number wanted', 'an accepted update that removes k names and adds ≥ k: the removed MultiEndpoint stays, its pool is closed: later RPC panics'),
 'C16-15': ('C16', GRPCGCP, 'NewGCPMultiEndpoint with named results and one deferred clean-up `if err != nil && gme != nil { gme.Close() }`; the error exit is `return nil, err`', 'construction failing at the 2nd or later dial: earlier pools stay open, monitors keep running'),
 'C18-9': ('C18', PROBER, 'parseT4T7Latency split; the value is parsed with time.ParseDuration(text+"ms")', 'a gfet4t7 value with a fraction or unit letters (1.5, 2s5): accepted instead of reported as malformed'),
 'C18-10': ('C18', PROBER, 'generatePayload fills the payload from rand.Uint64 words and mirrors each word into the hash; the last partial word is hashed in full', 'payload_size not divisible by 8: the hash covers bytes that are not in the payload'),
 'C19-9': ('C19', CSUM, 'prependChecksum builds the output in place when the payload has ≥ 6 spare bytes; the CRC is computed after the shifting copy', 'wrapped encoding with cap−len ≥ 6 (dynamicpb, appending encoders): checksum of the shifted bytes'),
 'C19-10': ('C19', CSUM, 'Unmarshal decodes through a proto.Buffer (UnmarshalMerge semantics) after reading the checksum field', 'decoding into a non-empty (reused) message: merged instead of replaced'),
 # ---- wave 8 (as wave 6, for the same twelve properties, after the rules of waves 6-7)
 'C01-13': ('C01', GRPCGCP, 'swap extracted to completeRefreshLocked; the regrouped deletes unregister refreshingScRefs[oldSc] instead of the replacement', 'K bound to a refreshed channel that later breaks: its non-READY reports are swallowed, calls for K go to the broken channel'),
 'C01-14': ('C01', GRPCGCP, 'getReadySubConnRef with named results (ref, ok): `state, ok := gb.scStates[sc]` reuses the ok that meant "key is bound"', 'K bound to a channel that reported SHUTDOWN (no state entry), fallback off: "not bound" instead of "bound, not ready": placed elsewhere'),
 'C02-13': ('C02', GRPCGCP, 'placeOn(scRef) does the increment for every placing arm except the default arm (pool at MaxSize, all at the watermark)', 'one more unkeyed call on a saturated pool at MaxSize: not counted, its completion still decrements'),
 'C02-14': ('C02', GRPCGCP, 'Done closure split into a base callback and decorators; thenUnbind returns on info.Err != nil BEFORE calling the base callback', 'an UNBIND call that fails: no decrement, no unresponsive detection'),
 'C03-13': ('C03', GRPCGCP, 'named results + shared tail: in the "pool has capacity" case only err is set, scRef still holds the least busy ref and is incremented', 'a saturated burst with waiting picks: phantom streams stay after the burst, later growth without saturation'),
 'C03-14': ('C03', GRPCGCP, 'newSubConn returns poolFull evaluated AFTER its own creation; the picker places the call when "full"', 'a saturated pick at pool size maxSize−1: the call that adds the last channel is placed instead of told to wait'),
 'C04-13': ('C04', GRPCGCP, 'promoteReplacement registers scRefs[sc] but drops delete(scRefs, oldSc); membership test switched to scRefs', 'a late non-SHUTDOWN report of a replaced connection: counted again, wrong aggregate published'),
 'C04-14': ('C04', GRPCGCP, 'body of UpdateSubConnState extracted with its Lock/defer Unlock; cc.UpdateState runs after the mutex is released', 'two concurrent reports: published in the wrong order, READY stays published over a TF pool'),
 'C06-13': ('C06', GRPCGCP, 'regeneratePicker reuses the previous picker via `np := *p` (copies its sync.Mutex)', 'a READY/non-READY flip while a pick on the current picker holds p.mu: the published copy is locked for ever'),
 'C06-14': ('C06', GRPCGCP, 'round-robin wait loop extracted; `sigChan := scRef.stateSignal` hoisted out of the loop', 'a non-READY→non-READY transition of the awaited channel: the closed channel makes the waiter spin on gb.mu'),
 'C07-13': ('C07', GRPCGCP, 'refresh life cycle split into beginRefresh/abortRefresh/endRefresh; deCalls is reset when the refresh is requested, not at the swap', 'deadline-exceeded completions while the replacement connects: carried over, the replacement is refreshed by its first one'),
 'C07-14': ('C07', GRPCGCP, 'unresponsiveWindow via backoffWindow/addSaturated: the loop adds base instead of doubling', 'k ≥ 2 consecutive refreshes: window = detection × (k+1) instead of × 2^k'),
 'C08-13': ('C08', GRPCGCP, 'UpdateSubConnState split into recordSubConnState and publishPicker, each taking gb.mu itself: one event, two critical sections', 'a keyed pick between them right after the least busy READY channel left READY: a non-READY stand-in is recorded after its purge'),
 'C08-14': ('C08', GRPCGCP, 'getAndIncrementSubConnRef switch routes by key only for cmd == BOUND', 'an UNBIND call for a key in fallback: does not reuse the stand-in (or is refused on a saturated pool)'),
 'C09-13': ('C09', GRPCGCP, 'rekeySubConn does delete(refreshingScRefs, from) instead of to', 'a refreshed channel later loses READY: reports swallowed, a round-robin BIND call is handed the non-READY channel at once'),
 'C09-14': ('C09', GRPCGCP, 'cursor advanced with atomic.AddUint32, index computed from a separate atomic.LoadUint32', 'two concurrent BIND picks interleaving Add, Add, Load, Load: same slot twice, one skipped'),
 'C14-13': ('C14', ME, 'scheduleSwitch/pendingSwitch: the timer compares the current priority with the target priority captured when the switch was scheduled', 'a re-prioritising SetEndpoints while a delayed switch is pending: current moves from an available endpoint to a lower one'),
 'C14-14': ('C14', ME, 'maybeUpdateCurrent via pickEndpoints(bound); "no bound" written as len(me.endpoints)', 'a list naming an endpoint twice: available endpoints at positions ≥ number of distinct names are never chosen'),
 'C15-13': ('C15', GRPCGCP, 'newMonitoredConn(conn, gme): mc.endpoint taken from conn.Target() instead of the endpoint name', 'a DialFunc that rewrites the target: notifications go under an id no MultiEndpoint knows, routing never follows connectivity'),
 'C15-14': ('C15', GRPCGCP, 'addMissingPools with named results: `conn, err := gme.dialFunc(…)` in the loop shadows err; break; return added, err', 'a dial that fails during an update: swallowed, the update is applied with an endpoint that has no pool'),
 'C17-13': ('C17', GRPCGCP, 'effectiveConfig: the fresh ChannelPoolConfig that receives the defaults is returned but never stored into the cloned config', 'a config without a channelPool section: effective minSize/maxSize/watermark stay 0'),
 'C17-14': ('C17', GRPCGCP, "makeOpts split: the grpc-gcp options are appended first, the caller's options last", "caller options containing WithDefaultServiceConfig: they win over this object's configuration"),
 'C20-13': ('C20', GRPCGCP, 'config assertion moved to gcpConfigOf and evaluated on every update, after gb.addrs is stored and before the push loops', 'a later update with a foreign BalancerConfig and a new list: rejected after storing, connections keep the old list'),
 'C20-14': ('C20', GRPCGCP, 'push loops merged onto resetSubConn(ref, sc): sc.UpdateAddresses but ref.subConn.Connect()', 'refresh in flight whose replacement went idle: the resolver update never asks it to connect'),
 # ---- wave 9 (as wave 7, for the same eight properties)
 'C05-15': ('C05', GRPCGCP, 'selection merged into selectSubConnRef; the FINEST trace line `scRef.getSubConn()` now runs for every selection kind', 'FINEST logging on, a BOUND/UNBIND pick whose bound channel is not READY and has no fallback: nil slot dereferenced in Pick'),
 'C05-16': ('C05', GRPCGCP, 'fallbackSubConnRef: `cur, _ := gb.picker.(*gcpPicker); cur.minStreamsSubConnRef()` without the ok test', 'fallback on, bound channel not READY, current picker is the error picker, pick on a superseded picker: nil receiver'),
 'C10-10': ('C10', GRPCGCP, 'detectUnresponsive as a switch with a new accessor isRefreshing() that reads refreshing under ref.mu (it is written under gb.mu only)', 'concurrent client-deadline completions on one channel vs refresh()/the swap: -race'),
 'C10-11': ('C10', GRPCGCP, 'RecvMsg: `if cs.ClientStream == nil { await }` reads the field before taking the mutex', 'first RecvMsg concurrent with the first SendMsg: -race'),
 'C11-10': ('C11', GRPCGCP, 'messageField reports an unset nested message via isNilRef, whose kind list includes Slice', 'a nil (never set) repeated field on the path: error instead of "no keys"'),
 'C11-11': ('C11', GRPCGCP, 'panic-to-error conversion moved to recoveredError(locator), which calls recover() one frame too deep', 'a path promoted through a nil embedded pointer: the reflect panic escapes'),
 'C12-15': ('C12', GRPCGCP, 'SendMsg via initOnFirstSend with `defer cs.initDone(err)`: the argument is evaluated at the defer statement (nil)', 'stream creation fails: initStreamErr is never recorded, RecvMsg blocks for ever'),
 'C12-16': ('C12', GRPCGCP, 'RecvMsg via streamForRecv: the converted context error is assigned to an if-scoped err that shadows the result', 'context ends while RecvMsg waits: returns (nil, nil) and calls RecvMsg on a nil stream'),
 'C13-15': ('C13', ME, 'maybeUpdateCurrent(cur, leaveNow): SetEndpointAvailability reads (cur, leaveNow) BEFORE applying the report', 'recovery timeout 0, switching delay > 0, the available current endpoint reported down: the switch is delayed, Current() names an unavailable endpoint'),
 'C13-16': ('C13', ME, 'recovery timer extracted to recoveryExpired(e, stamp): re-evaluates from the captured object when its id equals current', 'an endpoint removed and re-added while its old timer is pending: the orphan pushes Current() to a lower endpoint'),
 'C16-16': ('C16', GRPCGCP, 'UpdateMultiEndpoints handles one MultiEndpoint at a time: dials its pools, then SetEndpoints/NewMultiEndpoint for it', 'a dial failure for the k-th MultiEndpoint: the earlier ones are already switched although the update is rejected'),
 'C16-17': ('C16', GRPCGCP, 'pickConn via meFor(ctx): the fallback to the default for an unknown name is lost', 'an RPC naming a MultiEndpoint that an accepted update removed: nil interface, panic'),
 'C18-11': ('C18', PROBER, 'shared observeGFELatency helper: the streaming call site passes (cs.Trailer(), headers)', 'a streaming call whose header and trailer both carry server-timing: the trailer wins'),
 'C18-12': ('C18', PROBER, 'backoff in integer arithmetic: `delay += delay / 2` wraps negative below the clamp', 'max above 2/3 of MaxInt64 ns and a retry count reaching the overflow window: negative delay'),
 'C19-11': ('C19', CSUM, 'CRC computed in 4096-byte blocks with `off+block < len(p)`', 'an encoding whose length is an exact multiple of 4096: the last block is not hashed'),
 'C19-12': ('C19', CSUM, 'Unmarshal strips the checksum field with append(data[:0], data[6:]...)', "decode, then look at the same bytes again: the caller's buffer was shifted in place"),
 # ---- wave 10 (defects hidden inside everyday clean-up refactorings; two per property)
 'C01-15': ('C01', GRPCGCP, 'bindSubConn reads (slot, bound) through lookupBinding under RLock, then takes the write lock only to insert, without re-testing', 'two BIND completions carrying the same key on different channels overlap: the second overwrites the binding without an UNBIND'),
 'C01-16': ('C01', GRPCGCP, 'unbindSubConn on top of slotOfKey(key), which also returns nil when the key is bound to a connection that left scRefs', 'UNBIND completes after its channel reported SHUTDOWN: the binding stays, the key can never be re-bound'),
 'C02-15': ('C02', GRPCGCP, 'min-streams scan as "most headroom below the watermark" with `watermark - uint32(streams)` in uint32', 'a channel above the low watermark: the subtraction wraps, the most loaded channel wins every unkeyed pick'),
 'C02-16': ('C02', GRPCGCP, 'UpdateSubConnState tail tidied: Shutdown handled at the end, forgetSubConn runs after regeneratePicker/UpdateState', 'a READY pool member reports SHUTDOWN while another stays READY: the published picker still holds the dead channel'),
 'C03-15': ('C03', GRPCGCP, 'getSubConnRoundRobin split into nextRoundRobinRef/awaitReady: newSubConn is called whenever the chosen ref is not READY', 'ROUND_ROBIN bind on a channel in TRANSIENT_FAILURE, none connecting, pool below max: the pool grows although it is not empty'),
 'C03-16': ('C03', GRPCGCP, 'pool-capacity check as poolRoom() = maxSize - uint32(len(scRefs)) in uint32', 'minSize > maxSize: the room wraps to 4e9, every saturated call adds a channel'),
 'C04-15': ('C04', GRPCGCP, 'recordTransition through a delta table map[State]uint64{old: -1, new: +1}', 'a repeated report of the same state: the later map entry overwrites the earlier, the counter only goes up'),
 'C04-16': ('C04', GRPCGCP, 'UpdateSubConnState starts with `s, prevAggrState := scs.ConnectivityState, gb.state` before gb.mu.Lock()', 'two overlapping reports: the second compares its flip with a stale previous aggregate and does not publish'),
 'C06-15': ('C06', GRPCGCP, 'leastBusySubConnRef(mayGrow): `(unlimited || getConnectionPoolSize() < max) && mayGrow` evaluates the locking size read first', 'fallback pick on a saturated pool (called with gb.mu held): self-deadlock'),
 'C06-16': ('C06', GRPCGCP, 'refresh split into claimRefresh (hands the held lock to the claimant): returns false without unlocking', 'a second qualifying completion while a refresh is under way: gb.mu stays locked for ever'),
 'C07-15': ('C07', GRPCGCP, 'swap through untrackSubConn(old)/trackSubConn(sc, ref, s): the replacement is entered as READY instead of with the old state', 'the old connection left READY between the request and the take-over: counters stale, the channel stays out of every picker'),
 'C07-16': ('C07', GRPCGCP, 'Pick split into affinityOf/doneCallback: the callback binds to the SubConn captured at pick time', 'a BIND in flight across the take-over: bindSubConn does not find the retired connection, the key is never bound'),
 'C08-15': ('C08', GRPCGCP, 'swap extracted into completeRefreshLocked/rekeyLocked: the grouped deletes end with delete(refreshingScRefs, from)', 'after a completed refresh every non-READY report of that channel is dropped as "replacement not ready": stand-ins on it are never purged'),
 'C08-16': ('C08', GRPCGCP, 'both purge loops through forgetFallbackLocked(pred), which returns after the first delete', 'several keys in fallback on one stand-in that leaves READY: only one is released'),
 'C09-15': ('C09', GRPCGCP, 'round-robin wait loop as `for waiting := true; waiting;` with `waiting = unchanged && state != Ready`', 'the awaited slot changes to a non-READY state: the call is handed that channel'),
 'C09-16': ('C09', GRPCGCP, 'state bookkeeping as one tagless switch: the Idle case does `sc.Connect(); return`', 'READY→IDLE is never recorded: a BIND whose turn lands on the slot is handed the IDLE channel'),
 'C14-15': ('C14', ME, 'recovery-timer body moved to closeWindow(e, opened, reselect) with isCurrent read when the window opens', 'a non-current endpoint in recovery becomes current through a list change: nobody re-evaluates when the window expires'),
 'C14-16': ('C14', ME, 'SetEndpoints through a position map (i+1, 0 = absent) and reconcile(pos): kept endpoints get p, new ones p-1', 'a new endpoint listed directly behind the kept current one ties with it: evicted inside its recovery window'),
 'C15-15': ('C15', GRPCGCP, 'UpdateMultiEndpoints split into phases; monitors are started for the created pools as the last step of a successful update', 'a failed update leaves a dialed pool without a monitor; a later update keeps it: its outages are never seen'),
 'C15-16': ('C15', GRPCGCP, 'pickConn split into meNames(ctx)/poolFor: gme.defaultName is read before RLock', 'a call racing with an update that renames the default: nil MultiEndpoint, panic'),
 'C17-15': ('C17', GRPCGCP, 'ParseConfig starts from a package-level template by shallow copy: every result wraps the same *ApiConfig', 'a second parse rewrites every earlier result'),
 'C17-16': ('C17', GRPCGCP, 'the three independent zero-defaults as cases of one switch', 'a present section lacking two of the three settings: only the first is defaulted'),
 'C20-15': ('C20', GRPCGCP, 'push loops collected as closures capturing the range variables (go 1.12 semantics), run in two phases', 'a pool of two or more: only the last connection receives the new list'),
 'C20-16': ('C20', GRPCGCP, 'completeRefresh releases gb.mu around RemoveSubConn, between the deletes and the inserts', 'a resolver update in the gap reaches neither connection: the replacement takes over with the stale list'),
}

ENV = dict(os.environ, GOFLAGS='-mod=mod', GOPROXY='off', GOSUMDB='off', GOTOOLCHAIN='local')


def sh(cmd, **kw):
    return subprocess.run(cmd, shell=True, text=True, capture_output=True, env=ENV, **kw)


RACE = {'C10-2', 'C10-6', 'C10-7', 'C10-8', 'C10-9', 'C10-10', 'C10-11'}


def wave_of():
    """seed id -> wave number, from the '# ---- wave N' markers in the table above"""
    w, out = 1, {}
    for line in open(__file__):
        m = re.match(r"\s*# ---- wave (\d+)", line)
        if m:
            w = int(m.group(1))
        m = re.match(r"\s*'(C\d+-\d+)': \(", line)
        if m:
            out[m.group(1)] = w
    return out


WAVE = wave_of()


def author_report(sid, prop):
    w = WAVE.get(sid, 1)
    name = '%s.md' % prop if w == 1 else '%s-wave%d.md' % (prop, w)
    return '../reports/' + name if os.path.exists(os.path.join(VERIF, 'seeded/reports', name)) else None


def run_check(prop, patch):
    if sh('git -C %s diff --quiet' % REPO).returncode != 0:
        sys.exit('/repo working tree is dirty; refusing to apply seeded changes')
    scratch = tempfile.mkdtemp(prefix='verif-seed-')
    shutil.copy(os.path.join(VERIF, 'KNOWN_FINDINGS.txt'), scratch)
    try:
        r = sh('git -C %s apply %s' % (REPO, patch))
        if r.returncode != 0:
            return None, 'patch does not apply: ' + r.stderr.strip()
        out = sh('%s/bin/verifcheck -property %s -verif %s' % (VERIF, prop, scratch)).stdout
    finally:
        sh('git -C %s checkout -- .' % REPO)
        shutil.rmtree(scratch, ignore_errors=True)
    caught = []
    for line in out.splitlines():
        m = re.match(r'\s+rule=(\S+) construct=(.*?) status=(fail|undecided) at (\S+)', line)
        if m:
            caught.append({'rule': m.group(1), 'construct': m.group(2), 'at': re.sub(r':\d+$', '', m.group(4))})
    summary = [l for l in out.splitlines() if re.match(r'^C\d+ quick:', l)]
    return caught, (summary[0] if summary else out[-300:])


def main():
    ids = sys.argv[1:] or sorted(T)
    sh('cd %s && ./check.sh --setup' % VERIF)
    missed = []
    for sid in ids:
        prop, (pkg, mod), change, needs = T[sid]
        d = os.path.join(VERIF, 'seeded', sid)
        caught, summary = run_check(prop, os.path.join(d, 'patch.diff'))
        if not caught:
            missed.append(sid)
        meta = {
            'id': sid,
            'breaks_property': prop,
            'change': change,
            'needs_to_manifest': needs,
            'files': {'patch': 'patch.diff', 'demonstration': 'demo_test.go.txt',
                      'author_report': author_report(sid, prop)},
            'demonstration': {
                'how': 'copy demo_test.go.txt to %s/zz_seed_demo_test.go in a scratch worktree of /repo; go test -count=1 -vet=off -run TestZZSeedDemo .%s' % (pkg, ' (with -race)' if sid in RACE else ''),
                'without_change': 'passes',
                'with_change': 'fails',
            },
            'confirmed': {
                'what_i_ran': [
                    'devtools/try_seed%s.sh: fresh worktree of /repo HEAD under /tmp; demo passes without the patch, fails with it' % ('' if mod == 'grpcgcp' else '_mod'),
                    'with the patch: go build ./... and the existing tests of module %s (go test -run \'Test[^Z]\') give the same results as at HEAD' % mod,
                    'git -C /repo apply patch.diff; bin/verifcheck -property %s (scratch evidence dir); git -C /repo checkout -- .' % prop,
                ],
                'worktree_removed': True,
            },
            'check_result': {'caught': bool(caught), 'reported_by': caught, 'summary': summary},
        }
        json.dump(meta, open(os.path.join(d, 'meta.json'), 'w'), indent=1, ensure_ascii=False)
        print(sid, 'caught' if caught else 'MISSED', ', '.join(sorted({c['rule'] for c in caught or []})))
    # index
    rows = []
    for sid in sorted(T):
        p = os.path.join(VERIF, 'seeded', sid, 'meta.json')
        if not os.path.exists(p):
            continue
        m = json.load(open(p))
        rules = sorted({c['rule'] + ' @ ' + c['construct'] for c in m['check_result']['reported_by'] or []})
        rows.append('| %s | %s | %s | %s | %s |' % (sid, m['breaks_property'], m['change'].replace('|', '\\|'), m['needs_to_manifest'].replace('|', '\\|'),
                                                    '<br>'.join(r.replace('|', '\\|') for r in rules[:3]) + (' …' if len(rules) > 3 else '') if rules else '**missed**'))
    with open(os.path.join(VERIF, 'seeded', 'INDEX.md'), 'w') as f:
        f.write('# Seeded changes (independent, property-breaking, compile + pass the existing tests)\n\n'
                'Each was written by a fresh sub-agent that saw only the property text and a scratch worktree of /repo, then confirmed by\n'
                '`devtools/try_seed.sh` / `try_seed_mod.sh` (demo passes without, fails with; existing tests unchanged). None is committed to /repo.\n'
                'Regenerate this file and every meta.json with `devtools/seed_meta.py` (applies each patch to /repo, runs the quick check, restores /repo).\n\n'
                '| id | property | change | needs, to manifest | reported by (rule @ construct) |\n|---|---|---|---|---|\n' + '\n'.join(rows) + '\n')
    if missed:
        print('MISSED:', ' '.join(missed))
        sys.exit(1)


if __name__ == '__main__':
    main()
