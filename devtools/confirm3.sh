#!/bin/bash
# confirm3.sh <prop> <pkgdir> [race] — runs try_seed.sh for patch.diff/patch2.diff/patch3.diff of /tmp/seed/<prop>
prop=$1; pkg=$2; race=${3:-}
S=/tmp/seed/$prop
for n in 1 2 3; do
  pf=$S/patch$([ $n = 1 ] && echo "" || echo $n).diff
  [ -f $pf ] || continue
  df=$S/demo${n}_test.go.txt
  [ -f $df ] || df=$S/$pkg/zz_seed_demo_test.go
  echo "#### $prop w2-$n ($df)"
  /verif/devtools/try_seed.sh $prop $pf $df $pkg $race 2>&1 | cut -c1-260
done
