#!/bin/bash
# try_refactor.sh <patch> [props...] — applies a behaviour-preserving refactoring to /repo's working tree, runs the quick
# checks of the given properties (default: all 20) into a scratch evidence dir, restores /repo. Prints every alarm.
patch=$1; shift
props=${@:-C01 C02 C03 C04 C05 C06 C07 C08 C09 C10 C11 C12 C13 C14 C15 C16 C17 C18 C19 C20}
cd /repo && git diff --quiet || { echo "/repo dirty"; exit 2; }
git apply "$patch" || { echo "patch does not apply: $patch"; exit 2; }
mkdir -p /tmp/verif-scratch && cp /verif/KNOWN_FINDINGS.txt /tmp/verif-scratch/
bad=0
for p in $props; do
  out=$(/verif/bin/verifcheck -property $p -verif /tmp/verif-scratch)
  rc=$?
  if [ $rc -ne 0 ] && ! echo "$out" | grep -q "^VIOLATION"; then
    bad=1; echo "CRASH $p (exit $rc) on $(basename $patch):"; echo "$out" | head -5 | cut -c1-300
  fi
  if echo "$out" | grep -q "^VIOLATION"; then
    bad=1; echo "ALARM $p on $(basename $patch):"; echo "$out" | grep -E "^  rule=" -A1 | cut -c1-400 | head -12
  fi
done
git checkout -- .
[ $bad = 0 ] && echo "silent: $(basename $patch)"
exit $bad
