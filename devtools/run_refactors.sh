#!/bin/bash
# run_refactors.sh [ids...] — silence regression: applies every behaviour-preserving refactoring of /verif/refactors to
# /repo's working tree (one at a time, restored afterwards), runs all 20 quick checks into a scratch evidence
# directory, and fails if any check raises an alarm.
cd /verif
ids=${@:-$(ls refactors | grep -E '^R[0-9]+-[0-9]+$')}
bad=0
# documented fail-closed limits (refactors/INDEX.md, DESIGN.md §9): the checks raise an alarm on these although behaviour is preserved
limits=" R13-4 R18-5 R24-4 R24-5 R27-5 R28-1 R28-4 R29-3 R29-5 R34-1 R35-4 "
for id in $ids; do
  out=$(./devtools/try_refactor.sh /verif/refactors/$id/patch.diff 2>&1)
  if echo "$out" | grep -q "^silent"; then echo "$id silent"
  elif [[ "$limits" == *" $id "* ]]; then echo "$id alarm (documented limit)"; echo "$out" | grep -E "rule=" | cut -c1-200 | head -8
  else echo "$id ALARM"; echo "$out" | cut -c1-300 | head -12; bad=1; fi
done
rm -rf /tmp/verif-scratch
exit $bad
