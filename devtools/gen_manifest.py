#!/usr/bin/env python3
"""Regenerates /verif/MANIFEST.json from the table below (development-time helper; the
committed MANIFEST.json is what counts). A property is claimed iff it has an entry in CLAIMED."""
import json, sys

BASELINE_OFF = "for m in $(cat /w/out/gomods.txt); do MF=$(cd /repo/$m && . /w/out/goenv.sh && gomodflag); (cd /repo/$m && go test $MF -json -vet=off -count=1 -timeout 25m ./...); done"

# id -> (level text, level_note, technique)
CLAIMED = {
 "C05": ("scan of every panic-capable SSA instruction (index/slice expression, integer division, unchecked assertion, dereference/method call/map assignment/call through a value with a nil-valued program state, nil arguments of dereferencing callees, close, explicit panic/Fatal) in all functions reachable from the library's entry points; each site is discharged by a dominating guard (reaching-condition entailment incl. length tests evaluated per length), an earlier dereference of the same value, a recover barrier, or a named machine-checked lemma (non-empty round-robin list, scStates/scRefs key agreement, slots never nil, configuration before any connection, maps made by the only constructor, channel re-made after close, context values non-nil); anything else fails",
         "panics inside gRPC/protobuf/reflect beyond the checked kind table are outside the verdict; pointer/interface fields the module never compares with nil are assumed non-nil after construction; gRPC is assumed to pass non-nil SubConn/ClientConn/Context values",
         "static analysis: panic-capable instruction enumeration + guard recognisers (truth tables) + checked lemmas on go/ssa"),
 "C17": ("structural analysis of configuration handling: ParseConfig = protojson.Unmarshal with default options into a fresh message, returned unchanged; exactly three defaults (1/4/100) each ⇔ its own getter returned 0 on the same message; defaults stored into a proto.Clone or fresh literal, never the caller's object, and no balancer field aliases it; configuration written only by initializeConfig, reachable only while gb.cfg == nil; method table name → same entry's affinity; GCPMultiEndpoint stores/returns clones and serialises the caller's config with protojson.Marshal under the balancer's name",
         "protojson's accepted language and losslessness are trusted library behaviour; last-writer-wins for duplicate method names is not judged",
         "static analysis: provenance/alias analysis + truth-table equivalences + who-may-write on go/ssa"),
 "C18": ("structural analysis of the prober helpers: clamp dominates backoff's return, header-before-trailer decision list with first-match return and no unguarded index, name flags confined by constant patterns that regexp/syntax proves anchored and slash-free with failures reported, validated flags reach the resource builders by plain copies and builders format only those fields, probe types nil-error exactly for six literals, the qps accept-region (extracted predicate evaluated by constant folding on 14 probe values incl. NaN/denormal/boundaries) yields a positive in-range interval, payload hash is SHA-256 of the returned payload",
         "backoff >= base and monotonicity are floating-point statements that are not decided; the qps check is exhaustive only for the probe values, which include both boundaries of the representable interval range",
         "static analysis: reaching conditions + provenance + regexp/syntax on constants + constant folding of the extracted predicate"),
 "C19": ("structural analysis of the checksum codec: wrapped Marshal(v) once with error pass-through before anything else, empty prefix buffer receiving exactly EncodeVarint(16381 = (2047<<3)|5, a 2-byte varint) then EncodeFixed32(crc32.Checksum(payload, Castagnoli table)), result append(prefix, payload...) with nil error, Unmarshal delegates",
         "byte-level behaviour of proto.Buffer, hash/crc32 and the wrapped codec is trusted; that field 2047 is unknown to every message is assumed",
         "static analysis: constant folding + call ordering + provenance on go/ssa"),
 "C11": ("typestate analysis of the reflective traversal: every kind-sensitive reflect.Value call is dominated by a Kind() test of the same value admitting only legal kinds (frozen precondition table), index bounded by Len() of the same value, residual reflect panics converted to an error by a recover barrier at the entry, keys only from String() of a String-kind value at the end of the path, errors exactly on kind failures, in-order full fan-out with error propagation, start+1 recursion bounded by the path, locator split on '.', traversal from reflect.ValueOf(message) at index 0",
         "equality with an independent reference traversal for every value needs execution; strings.Title and the reflect precondition table are trusted",
         "static analysis: kind-typestate reaching conditions (dynamic atoms per reflect.Value) + loop/recursion structure + provenance on go/ssa"),
 "C12": ("structural analysis of the interceptors: unary pass-through (single invoker call, all parameters, context = WithValue(caller ctx, gcpKey, &gcpContext{req, reply}), result returned), stream created only in SendMsg while none exists in one critical section with the first message visible to the picker and the stored parameters, result/error latched there, Broadcast after every latch write, RecvMsg predicate loop then error-or-delegate, SendMsg delegation, context-governed exit of the wait loop, and every grpc.ClientStream method guarded against the nil embedded stream; 5 genuine defects recorded as known findings",
         "run-time ordering of delegated calls is not decided; sync.Cond semantics trusted",
         "static analysis: provenance + reaching-condition truth tables + must-pass-through + method-set inspection on go/ssa and go/types"),
 "C15": ("structural analysis of GCPMultiEndpoint routing/reconfiguration: single delegation with all arguments to the connection picked for the call's own context, default-fallback condition as a truth table, pool = pools[me.Current()] under the read lock, dial only without a pool and insertion under the same name, deletion ⇔ endpoint no longer mentioned and paired with Close+stopMonitoring, MultiEndpoint map synchronised with the options, status sync loop before every success return, monitor notifies the state it then waits on to every MultiEndpoint; plus lock discipline",
         "'within bounded time' and which server receives the RPC are not decided",
         "static analysis: reaching-condition truth tables + pairing/dominance + provenance on go/ssa"),
 "C16": ("structural analysis of rejection and release: no routing-relevant effect can precede an error return of UpdateMultiEndpoints, or the error is infeasible by a callee-precondition lemma (callee fails only for an empty list; an up-front validation loop over the same option map rejected empty lists before the first effect); pool additions are routing-neutral; no MultiEndpoint error dropped; failed construction releases; Close stops/closes everything under the lock; the only goroutine is the cancellable monitor whose cancel is stored and called",
         "a dial failure keeps already dialed pools registered (closed later); behaviour of grpc.ClientConn.Close and goroutine counts at run time are not measured",
         "static analysis: effect-before-return path analysis + interprocedural precondition lemma + who-may-go on go/ssa"),
 "C13": ("structural analysis of the MultiEndpoint 'current' variable: allowed writers, every stored value is the id (or successful lookup key) of an endpoint read from the table in the same write-locked critical section (through parameters at every call site), ids equal table keys, every mutator re-evaluates current after its last table/status/priority write on every path, fallback-to-first and switch decisions and both argmin loops as exact truth tables, gone current always re-assigned, empty lists rejected before any effect, every listed endpoint inserted (table never empty), constructor timers cannot observe a half-built table; plus lock discipline of the package",
         "'current is the highest-priority available endpoint after every operation' over all histories and timer orders needs state exploration; decided are the per-critical-section necessary conditions",
         "static analysis: reaching-condition truth tables + provenance + must-pass-through + lock-state facts on go/ssa"),
 "C14": ("structural analysis of the timer-driven transitions: status only via setState (stop timer, store, stamp on every path), timer callbacks lock first and the recovery callback re-validates its captured stamp, recovery timers only from the available→recovering transition (no extension by repeated reports), availability reports always reach setState(available), immediate vs delayed switch as exact truth tables, and every current-store justified inside its own critical section",
         "window lengths, order of simultaneously due timers and convergence at quiescence (liveness) are not decided",
         "static analysis: reaching-condition truth tables + typestate of timer closures + provenance on go/ssa"),
 "C07": ("structural analysis of the refresh rule: refresh() reachable only from the detector under exactly the nine-conjunct rule (truth-table equivalence), responses are the exact complement, exactly one count per qualifying completion, gotResp's effect set, 64-bit guarded window arithmetic, typestate of the refreshing flag (test-and-set in the critical section, one creation, every path registers or resets), refresh() leaves the serving connection untouched, the swap performs the complete take-over once",
         "the timed meaning of the conjuncts (clock values, >= vs > at thresholds) is not decided; saturation of the 64-bit window is checked structurally (guarded doubling), not numerically",
         "static analysis: reaching-condition truth-table equivalence (9 atoms) + typestate/must-pass-through + effect summaries on go/ssa"),
 "C09": ("structural analysis of the round-robin strategy: dispatch ⇔ BIND ∧ ROUND_ROBIN, one atomic cursor bump and index = cursor mod len(list) in one critical section, append-only creation-ordered list, the non-empty-list lemma, waiter returns only after READY observed under the read lock or on context end, lock-free blocking, no lost wake-up (signal read under the lock; every recorded state report closes and re-makes it)",
         "the n x k fairness count is a consequence of cursor+modulo+append-only for < 2^32 BINDs and unchanged composition; the arithmetic is not machine-checked",
         "static analysis: reaching-condition truth tables + who-may-write + lock-state facts + must-pass-through on go/ssa"),
 "C20": ("structural analysis of address propagation: list stored before any possible creation and on every path, every creation reads gb.addrs in its locked critical section, the containers receiving NewSubConn results are derived from the code and each is covered by a push loop (UpdateAddresses(new list) + Connect on every iteration path, on every non-rejected update path), ResolverError has an empty effect set",
         "what gRPC does with UpdateAddresses/Connect is outside the verdict",
         "static analysis: provenance + dominance/ordering + effect summaries on go/ssa"),
 "C01": ("structural analysis of the affinity-key table over all paths: allowed writers, no re-binding of a bound key, BIND/UNBIND bookkeeping only on the success path of the matching command with keys from reply/request and the connection of the slot the call ran on, request-key extraction exactly for configured BOUND/UNBIND calls, bound-slot lookup returns the home slot exactly when READY and another slot only with fallback, bound lookup precedes load-based selection, and the refresh swap re-keys/purges every connection-indexed table",
         "history-level statements (which picker gRPC uses, 'until an UNBIND completes') are not decided; the Shutdown retire point is outside the property",
         "static analysis: who-may-write/call + reaching-condition truth tables + provenance on go/ssa"),
 "C03": ("structural analysis of pool growth/shrinkage: creation/removal call sites and the exact guards on every chain leading to a creation, refusal while a connection is idle/connecting, growth-triggering pick is told to wait, placement at maxSize, removal only of a completed refresh's old connection, minimum size by the first configuration only, and the maxSize comparison made in the creating critical section (check-then-act)",
         "the numeric invariant |pool| <= maxSize over all histories follows from the in-critical-section guard plus who-may-create; the induction is not machine-checked",
         "static analysis: who-may-call + reaching-condition truth tables + lock-state facts on go/ssa"),
 "C08": ("structural analysis of the stand-in table: writers and exact insert/reuse guards (reuse before create), stand-in value = returned slot from the current picker's READY snapshot, purge conditions as truth-table equivalences (stand-in leaves READY / home becomes READY), fallback writes nothing but the stand-in table, the selection cannot refuse a non-empty snapshot, grow the pool or lock, swap re-keys the table",
         "temporal stickiness/return-home over histories needs C04's republishing as well; not separately decided",
         "static analysis: reaching-condition truth tables + effect summaries + provenance on go/ssa"),
 "C02": ("pairing analysis of the active-stream counter over all paths: who may increment/decrement, exactly one increment of the returned slot per placing path and none otherwise, no exit of Pick after a placement except the hand-over of the slot with its completion closure, the closure's unconditional first effect is one decrement of that slot, the refresh swap keeps the slot object and counters, pickers are built from READY entries only, and the least-busy scan replaces/keeps its minimum consistently with the count comparison",
         "assumes gRPC calls Done at most once per successful pick; numeric minimality under concurrent increments on different pickers and 'returns to zero' as arithmetic are consequences of the pairing, not separately computed",
         "static analysis: who-may-call/write + avoid-set reaching conditions + provenance on go/ssa"),
 "C04": ("structural analysis of the aggregate-state bookkeeping: writers of the state map and counters, every state-map effect paired with exactly one evaluator call with the matching arguments on all paths, evaluator decision list and counter/state agreement, error picker ⇔ TRANSIENT_FAILURE, the publish condition as an exact 4-atom truth-table equivalence, published pair is the freshly computed one, non-READY reports of replacements have no effect",
         "assumes serialised UpdateSubConnState calls; that the counters never wrap follows from the pairing by induction, which is stated but not machine-checked",
         "static analysis: reaching-condition truth tables (exact boolean functions) + must-pass-through + who-may-write on go/ssa"),
 "C06": ("static lock-discipline + loop-progress analysis over all paths of all functions reachable from the pool API: decides absence of self-deadlock (re-acquisition of a non-reentrant lock on any call path), lock leaks on any exit, blocking while a lock is held, lock-order cycles, non-progress loops and unbounded recursion; it does not measure time",
         "assumes gRPC's serialised-callback / no-synchronous-re-entry contract; type-based lock identity; wall-clock bounds and liveness of gRPC's own state delivery are not decided",
         "static analysis: interprocedural lock-state dataflow (may/must entry contexts) + lock-order graph + loop/recursion classification on go/ssa"),
 "C10": ("static lockset analysis: every access to every field of every shared struct is checked against a frozen guarded-by table (lock in the required mode on every call path / sync-atomic only / constructor-private / write-once latch); unclassified fields fail; 7 genuine races are recorded as known findings",
         "sound for the table's guards under the gRPC serialisation assumption; aliasing beyond the type-based lock identity and the happens-before edge of picker publication are assumed, not proved",
         "static analysis: lockset (guarded-by table) over go/ssa field accesses with must-held entry contexts and constructor-freshness"),
}

NOT_YET = "check under construction in this session (static rule set designed in DESIGN.md §4); not yet claimed"

def main():
    props = [json.loads(l) for l in open('/verif/properties.jsonl')]
    m = {
        "version": 1,
        "setup_cmd": "./check.sh --setup",
        "hooks": {"guard": "verif",
                  "enable": "none needed: the checks are static analyses of /repo's sources (no instrumentation, nothing of /repo is executed)",
                  "baseline_off_cmd": BASELINE_OFF, "source_commits": [], "add_only": True},
        "engines": [{"name": "verifcheck", "path": "/verif/checker", "serves_properties": sorted(CLAIMED),
                     "kind_free_text": "Go static analyser (go/packages + go/ssa, x/tools v0.29.0): lock facts, reaching-condition truth tables with available-load equivalence, provenance, who-may-write/call, effect summaries, loop classification"}],
        "checks": [], "not_applicable": [],
        "notes": "See DESIGN.md. Every claimed check is a static analysis of /repo's current working tree; verdicts are structural necessary conditions of the behavioural property (level 'other'); the undecided part is named in level_note. Genuine defects found are repaired by 'fix:' commits in /repo or listed in KNOWN_FINDINGS.txt.",
    }
    for p in props:
        pid = p['id']
        if pid in CLAIMED:
            text, note, tech = CLAIMED[pid]
            m['checks'].append({
                "property_id": pid,
                "quick_cmd": "./check.sh %s quick" % pid,
                "thorough_cmd": "./check.sh %s thorough" % pid,
                "evidence_file": "/verif/evidence/%s.json" % pid,
                "replay_cmd_template": "./check.sh --replay {path}",
                "engine": "verifcheck",
                "level_claimed": {"category": "other", "text": text, "design_ref": "DESIGN.md §4 " + pid},
                "level_note": note,
                "technique": tech,
            })
        else:
            m['not_applicable'].append({"property_id": pid, "reason": NOT_YET})
    json.dump(m, open('/verif/MANIFEST.json', 'w'), indent=1)
    print("claimed:", sorted(CLAIMED))

if __name__ == '__main__':
    main()
