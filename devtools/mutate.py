#!/usr/bin/env python3
"""mutate.py <prop> <file-relative-to-/repo> <old> <new> : apply a one-off textual edit to /repo's working tree,
check it still builds, run the property check into a scratch verif dir, restore the tree. Development-time
sensitivity testing only."""
import subprocess, sys, os
prop, rel, old, new = sys.argv[1:5]
path = os.path.join('/repo', rel)
src = open(path).read()
if src.count(old) != 1:
    print("MUTANT-SKIP: anchor occurs %d times" % src.count(old)); sys.exit(2)
env = dict(os.environ, GOFLAGS='-mod=mod', GOPROXY='off', GOSUMDB='off', GOTOOLCHAIN='local')
try:
    open(path, 'w').write(src.replace(old, new))
    moddir = os.path.join('/repo', rel.split('/')[0])
    b = subprocess.run(['go', 'build', './...'], cwd=moddir, env=env, capture_output=True, text=True)
    if b.returncode != 0:
        print("MUTANT-SKIP: does not build:", b.stderr[:300]); sys.exit(2)
    os.makedirs('/tmp/verif-scratch', exist_ok=True)
    subprocess.run(['cp', '/verif/KNOWN_FINDINGS.txt', '/tmp/verif-scratch/'])
    r = subprocess.run(['/verif/bin/verifcheck', '-property', prop, '-verif', '/tmp/verif-scratch'], capture_output=True, text=True)
    lines = [l for l in r.stdout.splitlines() if l.startswith('VIOLATION') or l.startswith('  rule=')]
    print("DETECTED" if r.returncode == 1 else "MISSED", "exit=%d" % r.returncode)
    for l in lines[:8]: print("   ", l[:260])
finally:
    open(path, 'w').write(src)
